//go:build verif

package control

import (
	"fmt"
	"io"
	"os"
	"path/filepath"
	"sync"

	"github.com/daeuniverse/dae/common/assets"
	"github.com/daeuniverse/dae/component/routing"
	"github.com/daeuniverse/dae/config"
	"github.com/daeuniverse/dae/pkg/config_parser"
	"github.com/daeuniverse/dae/pkg/geodata"
	"google.golang.org/protobuf/proto"
	"github.com/sirupsen/logrus"
)

// verifGeoDir holds the geodata file the model's geosite values refer to (spec/RuleScan.tla GeoSite):
//   SHOP  = suffix a.b ; full ba.b @ads ; keyword "x." @ads        OTHER = suffix b
var (
	verifGeoOnce sync.Once
	verifGeoPath string
)

func verifGeoDir() string {
	verifGeoOnce.Do(func() {
		dir, err := os.MkdirTemp("", "verif-geo-")
		if err != nil {
			panic(err)
		}
		ads := []*geodata.Domain_Attribute{{Key: "ads", TypedValue: &geodata.Domain_Attribute_BoolValue{BoolValue: true}}}
		data, err := proto.Marshal(&geodata.GeoSiteList{Entry: []*geodata.GeoSite{
			{CountryCode: "OTHER", Domain: []*geodata.Domain{{Type: geodata.Domain_RootDomain, Value: "b"}}},
			{CountryCode: "SHOP", Domain: []*geodata.Domain{
				{Type: geodata.Domain_RootDomain, Value: "a.b"},
				{Type: geodata.Domain_Full, Value: "ba.b", Attribute: ads},
				{Type: geodata.Domain_Plain, Value: "x.", Attribute: ads},
			}},
		}})
		if err != nil {
			panic(err)
		}
		if err := os.WriteFile(filepath.Join(dir, "geosite.dat"), data, 0o644); err != nil {
			panic(err)
		}
		verifGeoPath = dir
	})
	return verifGeoPath
}

func verifLogger() *logrus.Logger {
	l := logrus.New()
	l.SetOutput(io.Discard)
	l.SetLevel(logrus.PanicLevel)
	return l
}

// verifCompileRouting takes dae configuration text containing a routing section (global{} is added
// when absent) through the production pipeline of control_plane.go: config_parser.Parse -> config.New
// (patchMustOutbound etc.) -> AliasOptimizer, DatReaderOptimizer, MergeAndSortRulesOptimizer,
// DeduplicateParamsOptimizer -> NewRoutingMatcherBuilderFromProgram.
func verifCompileRouting(text string, outboundName2Id map[string]uint8, bpf *bpfObjects, optimize bool) (b *RoutingMatcherBuilder, err error) {
	defer func() {
		if r := recover(); r != nil {
			err = fmt.Errorf("PANIC: %v", r)
		}
	}()
	sections, err := config_parser.Parse("global{}\n" + text)
	if err != nil {
		return nil, fmt.Errorf("parse: %w", err)
	}
	conf, err := config.New(sections)
	if err != nil {
		return nil, fmt.Errorf("config.New: %w", err)
	}
	log := verifLogger()
	var opts []routing.RulesOptimizer
	if optimize {
		opts = []routing.RulesOptimizer{
			&routing.AliasOptimizer{},
			&routing.DatReaderOptimizer{Logger: log, LocationFinder: assets.NewLocationFinder([]string{verifGeoDir()})},
			&routing.MergeAndSortRulesOptimizer{},
			&routing.DeduplicateParamsOptimizer{},
		}
	} else {
		// (geodata values cannot be built without the reader; merge / dedup stay off)
		opts = []routing.RulesOptimizer{&routing.AliasOptimizer{}, &routing.DatReaderOptimizer{Logger: log, LocationFinder: assets.NewLocationFinder([]string{verifGeoDir()})}}
	}
	prog, err := routing.NewNormalizedProgram(conf.Routing.Rules, conf.Routing.Fallback, opts...)
	if err != nil {
		return nil, fmt.Errorf("optimizers: %w", err)
	}
	return NewRoutingMatcherBuilderFromProgram(log, prog, outboundName2Id, bpf)
}
