//go:build verif

package control

import (
	"fmt"
	"io"

	"github.com/daeuniverse/dae/common/assets"
	"github.com/daeuniverse/dae/component/routing"
	"github.com/daeuniverse/dae/config"
	"github.com/daeuniverse/dae/pkg/config_parser"
	"github.com/sirupsen/logrus"
)

func verifLogger() *logrus.Logger {
	l := logrus.New()
	l.SetOutput(io.Discard)
	l.SetLevel(logrus.PanicLevel)
	return l
}

// verifCompileRouting takes dae configuration text containing a routing section (global{} is added
// when absent) through the production pipeline of control_plane.go: config_parser.Parse -> config.New
// (patchMustOutbound etc.) -> AliasOptimizer, DatReaderOptimizer, MergeAndSortRulesOptimizer,
// DeduplicateParamsOptimizer -> NewRoutingMatcherBuilderFromProgram.
func verifCompileRouting(text string, outboundName2Id map[string]uint8, bpf *bpfObjects, optimize bool) (b *RoutingMatcherBuilder, err error) {
	defer func() {
		if r := recover(); r != nil {
			err = fmt.Errorf("PANIC: %v", r)
		}
	}()
	sections, err := config_parser.Parse("global{}\n" + text)
	if err != nil {
		return nil, fmt.Errorf("parse: %w", err)
	}
	conf, err := config.New(sections)
	if err != nil {
		return nil, fmt.Errorf("config.New: %w", err)
	}
	log := verifLogger()
	var opts []routing.RulesOptimizer
	if optimize {
		opts = []routing.RulesOptimizer{
			&routing.AliasOptimizer{},
			&routing.DatReaderOptimizer{Logger: log, LocationFinder: assets.NewLocationFinder(nil)},
			&routing.MergeAndSortRulesOptimizer{},
			&routing.DeduplicateParamsOptimizer{},
		}
	} else {
		opts = []routing.RulesOptimizer{&routing.AliasOptimizer{}}
	}
	prog, err := routing.NewNormalizedProgram(conf.Routing.Rules, conf.Routing.Fallback, opts...)
	if err != nil {
		return nil, fmt.Errorf("optimizers: %w", err)
	}
	return NewRoutingMatcherBuilderFromProgram(log, prog, outboundName2Id, bpf)
}
