//go:build verif && dae_stub_ebpf

package control

const abiFlavour = "stub"

// C struct name -> hand-mirrored Go type of the stub build (bpf_stub.go)
func abiGoTypes() map[string]any {
	return map[string]any{
		"conn_state": bpfConnState{}, "dae_param": bpfDaeParam{}, "domain_routing": bpfDomainRouting{}, "match_set": bpfMatchSet{},
		"pid_pname": bpfPidPname{}, "port_range": bpfPortRange{}, "redirect_entry": bpfRedirectEntry{}, "redirect_tuple": bpfRedirectTuple{},
		"routing_handoff_entry": bpfRoutingHandoffEntry{}, "tuples_key": bpfTuplesKey{}, "routing_result": bpfRoutingResult{}, "lpm_key": _bpfLpmKey{},
	}
}

func abiExtractC(d *abiDump) {}
