//go:build verif

package control

import (
	"context"
	"encoding/binary"
	"fmt"
	"io"
	"net"
	"net/netip"
	"strings"
	"sync"
	"testing"
	"testing/synctest"
	"time"

	"github.com/daeuniverse/dae/common/assets"
	"github.com/daeuniverse/dae/common/consts"
	componentdns "github.com/daeuniverse/dae/component/dns"
	"github.com/daeuniverse/dae/config"
	"github.com/daeuniverse/dae/pkg/config_parser"
	"github.com/daeuniverse/dae/pkg/verifutil"
	"github.com/daeuniverse/outbound/netproxy"
	dnsmessage "github.com/miekg/dns"
	"github.com/sirupsen/logrus"
)

// behaviours of spec/DnsFallback.tla: an upstream declared tcp+udp, scripted per query (datagrams sent back on the pooled UDP
// socket, truncated or not, for the query's own name or another; the TCP retry answered or failing), replayed on a real
// DnsController with real DoUDP / DoTCP forwarders over in-memory sockets in virtual time.
type fbDatagram struct {
	Q  string `json:"q"`
	Tc bool   `json:"tc"`
}
type fbQuery struct {
	Name    string       `json:"name"`
	Udp     []fbDatagram `json:"udp"`
	Tcp     string       `json:"tcp"`
	UsedTcp bool         `json:"usedTcp"`
	Expect  struct {
		Kind string `json:"kind"`
		Q    string `json:"q"`
	} `json:"expect"`
}
type fbBehaviour struct {
	Hist []fbQuery `json:"hist"`
}

type fbUdpConn struct {
	c09UdpConn
	script func(id uint16) [][]byte
}

func (c *fbUdpConn) Write(p []byte) (int, error) {
	select {
	case <-c.closed:
		return 0, net.ErrClosed
	default:
	}
	var m dnsmessage.Msg
	if err := m.Unpack(p); err != nil || len(m.Question) != 1 {
		return 0, fmt.Errorf("fake server: bad query")
	}
	for _, d := range c.script(m.Id) {
		c.inbox <- d
	}
	return len(p), nil
}

func fbAnswer(id uint16, name string, tc bool) []byte {
	r := new(dnsmessage.Msg)
	r.Id = id
	r.Response = true
	r.RecursionAvailable = true
	r.Truncated = tc
	fq := name + ".test."
	r.Question = []dnsmessage.Question{{Name: fq, Qtype: dnsmessage.TypeA, Qclass: dnsmessage.ClassINET}}
	if !tc {
		r.Answer = []dnsmessage.RR{&dnsmessage.A{Hdr: dnsmessage.RR_Header{Name: fq, Rrtype: dnsmessage.TypeA, Class: dnsmessage.ClassINET, Ttl: 300}, A: net.IPv4(198, 51, 100, 7)}}
	}
	b, err := r.Pack()
	if err != nil {
		panic(err)
	}
	return b
}

func fbRunOne(b *fbBehaviour, res *verifutil.Result) {
	log := logrus.New()
	log.SetOutput(io.Discard)
	text := "global{}\nrouting{ fallback: direct }\ndns {\n  upstream {\n    u1: 'tcp+udp://192.0.2.53:53'\n  }\n  routing {\n    request {\n      fallback: u1\n    }\n    response {\n      fallback: accept\n    }\n  }\n}\n"
	sections, err := config_parser.Parse(text)
	if err != nil {
		res.Note("parse: " + err.Error())
		return
	}
	conf, err := config.New(sections)
	if err != nil {
		res.Note("config.New: " + err.Error())
		return
	}
	routing, err := componentdns.New(&conf.Dns, &componentdns.NewOption{Logger: log, LocationFinder: assets.NewLocationFinder(nil),
		UpstreamReadyCallback: func(*componentdns.Upstream) error { return nil }, UpstreamResolverNetwork: "udp"})
	if err != nil {
		res.Note("dns.New: " + err.Error())
		return
	}
	ctrl, err := NewDnsController(routing, &DnsControllerOption{
		Log: log, LifecycleContext: context.Background(),
		CacheAccessCallback: func(*DnsCache) error { return nil },
		CacheRemoveCallback: func(*DnsCache) error { return nil },
		NewCache: func(fqdn string, answers, ns, extra []dnsmessage.RR, deadline, originalDeadline time.Time) (*DnsCache, error) {
			return &DnsCache{DomainBitmap: make([]uint32, 32), Answer: answers, NS: ns, Extra: extra, Deadline: deadline, OriginalDeadline: originalDeadline}, nil
		},
	})
	if err != nil {
		res.Note("NewDnsController: " + err.Error())
		return
	}
	defer func() { _ = ctrl.Close() }()
	rt := *ctrl.runtime()
	rt.bestDialerChooser = func(ctx context.Context, req *udpRequest, upstream *componentdns.Upstream) (*dialArgument, error) {
		l4 := consts.L4ProtoStr_UDP
		if upstream.Scheme == componentdns.UpstreamScheme_TCP {
			l4 = consts.L4ProtoStr_TCP
		}
		return &dialArgument{l4proto: l4, ipversion: consts.IpVersionStr_4, bestTarget: netip.MustParseAddrPort("192.0.2.53:53")}, nil
	}
	ctrl.runtimeState.Store(&rt)

	var mu sync.Mutex
	var cur *fbQuery // the query being served
	tcpUsed := false
	dialUdp := func(context.Context) (netproxy.Conn, error) {
		c := &fbUdpConn{}
		c.inbox = make(chan []byte, 32)
		c.closed = make(chan struct{})
		c.script = func(id uint16) [][]byte {
			mu.Lock()
			defer mu.Unlock()
			var out [][]byte
			for _, d := range cur.Udp {
				out = append(out, fbAnswer(id, d.Q, d.Tc))
			}
			return out
		}
		return c, nil
	}
	dialTcp := func(context.Context) (netproxy.Conn, error) {
		client, server := net.Pipe()
		go func() {
			defer func() { _ = server.Close() }()
			for {
				var hdr [2]byte
				if _, err := io.ReadFull(server, hdr[:]); err != nil {
					return
				}
				buf := make([]byte, binary.BigEndian.Uint16(hdr[:]))
				if _, err := io.ReadFull(server, buf); err != nil {
					return
				}
				mu.Lock()
				tcpUsed = true
				mode, name := cur.Tcp, cur.Name
				mu.Unlock()
				if mode != "ok" {
					return // the TCP side fails: the connection is closed without an answer
				}
				var m dnsmessage.Msg
				if err := m.Unpack(buf); err != nil {
					return
				}
				data := fbAnswer(m.Id, name, false)
				frame := make([]byte, 2+len(data))
				binary.BigEndian.PutUint16(frame, uint16(len(data)))
				copy(frame[2:], data)
				if _, err := server.Write(frame); err != nil {
					return
				}
			}
		}()
		return client, nil
	}
	dnsForwarderFactory = func(up *componentdns.Upstream, dialArg dialArgument, _ *logrus.Logger) (DnsForwarder, error) {
		if dialArg.l4proto == consts.L4ProtoStr_TCP {
			d := &DoTCP{dialArgument: dialArg}
			d.getOrInit(func() *connPool { return newConnPool(4, dialTcp) })
			return d, nil
		}
		return &DoUDP{dialArgument: dialArg, pool: newUdpConnPool(dnsUdpPoolMaxIdle, dnsUdpPoolMaxActive, dialUdp),
			profile: UdpLifecycleProfile{Kind: UdpLifecycleKindDnsTransactional, PooledConnIdleTTL: dnsUdpDirectPoolMaxIdleTime}}, nil
	}
	var trail []string
	for qi := range b.Hist {
		q := &b.Hist[qi]
		mu.Lock()
		cur = q
		tcpUsed = false
		mu.Unlock()
		var ds []string
		for _, d := range q.Udp {
			ds = append(ds, fmt.Sprintf("%s%s", d.Q, map[bool]string{true: "/TC", false: ""}[d.Tc]))
		}
		trail = append(trail, fmt.Sprintf("%s asked (id 7): the server sends %v over UDP, its TCP side %s", q.Name, ds, map[string]string{"ok": "answers", "fail": "fails"}[q.Tcp]))
		msg := new(dnsmessage.Msg)
		msg.SetQuestion(q.Name+".test.", dnsmessage.TypeA)
		msg.Id = 7
		w := &c07Writer{}
		req := &udpRequest{realSrc: netip.MustParseAddrPort("192.0.2.10:41000"), realDst: netip.MustParseAddrPort("192.0.2.1:53"), routingResult: &bpfRoutingResult{}}
		done := make(chan error, 1)
		go func() { done <- ctrl.HandleWithResponseWriter_(context.Background(), msg, req, w) }()
		var herr error
		select {
		case herr = <-done:
		case <-time.After(30 * time.Second):
			res.Failf("c09fb:"+strings.Join(trail, ";")+"|hang", trail, "%v: the query is still unanswered after 30 s", trail)
			return
		}
		synctest.Wait()
		w.mu.Lock()
		m := w.msg
		w.mu.Unlock()
		res.Eval(1)
		key := "c09fb:" + strings.Join(trail, ";")
		if m != nil && herr == nil {
			own := len(m.Question) == 1 && strings.EqualFold(m.Question[0].Name, q.Name+".test.")
			for _, rr := range m.Answer {
				if !strings.EqualFold(rr.Header().Name, q.Name+".test.") {
					own = false
				}
			}
			if m.Id != 7 || !own {
				res.Failf(key+"|reply", trail, "%v: the client that asked %s under id 7 was sent id %d, question %v, answers %v", trail, q.Name, m.Id, m.Question, m.Answer)
				return
			}
		}
		if q.Expect.Kind == "msg" && (m == nil || herr != nil) {
			res.Failf(key+"|noanswer", trail, "%v: the client has no reply (err %v) although the upstream answered its question", trail, herr)
			return
		}
		if q.Expect.Kind == "err" && m != nil && herr == nil && m.Rcode == dnsmessage.RcodeSuccess && len(m.Answer) > 0 {
			res.AddDrift(fmt.Sprintf("%v: the model expects an error, the client got an answer to its own question", trail))
		}
		mu.Lock()
		used := tcpUsed
		mu.Unlock()
		if used != q.UsedTcp {
			res.AddDrift(fmt.Sprintf("%v: TCP retry used=%v, model %v", trail, used, q.UsedTcp))
		}
	}
	// nothing may be cached under a name it does not answer
	ctrl.dnsCache.Range(func(k, v any) bool {
		ks, _ := k.(string)
		cache, ok := v.(*DnsCache)
		if !ok {
			return true
		}
		for _, rr := range cache.Answer {
			owner := strings.ToLower(strings.TrimSuffix(rr.Header().Name, "."))
			if !strings.HasPrefix(ks, owner) {
				res.Failf("c09fb:"+strings.Join(trail, ";")+"|cache", trail, "%v: the cache holds a record of %s under the key %q", trail, owner, ks)
			}
		}
		return true
	})
}

func TestVerifC09Fallback(t *testing.T) {
	bs, err := verifutil.ReadLines[fbBehaviour]("VERIF_IN")
	if err != nil {
		t.Fatal(err)
	}
	res := verifutil.NewResult()
	defer func() {
		if err := res.Write(); err != nil {
			t.Fatal(err)
		}
	}()
	old := dnsForwarderFactory
	defer func() { dnsForwarderFactory = old }()
	synctest.Test(t, func(t *testing.T) {
		for bi := range bs {
			res.Case()
			if bi < 2 {
				res.Sample(bs[bi].Hist)
			}
			fbRunOne(&bs[bi], res)
			synctest.Wait()
		}
	})
}
