//go:build verif && linux

package control

import (
	"bytes"
	"context"
	"fmt"
	"net"
	"strings"
	"sync"
	"sync/atomic"
	"testing"
	"time"

	"github.com/daeuniverse/dae/pkg/verifutil"
	"github.com/daeuniverse/outbound/netproxy"
	"golang.org/x/sys/unix"
)

// behaviours emitted by spec/RelayStart.tla
type rsBehaviour struct {
	Port int  `json:"port"`
	Slow bool `json:"slow"` // small socket buffers towards the destination: writes complete in several parts
	Hist []struct {
		Ev    string `json:"ev"`
		K     string `json:"k"`
		Phase string `json:"phase"`
	} `json:"hist"`
}

// an accepted loopback connection that looks like one intercepted on its way to <dst>:port (transparent for the relay)
type rsAccepted struct {
	*net.TCPConn
	port int
}

func (c *rsAccepted) LocalAddr() net.Addr {
	a := *(c.TCPConn.LocalAddr().(*net.TCPAddr))
	a.Port = c.port
	return &a
}
func (c *rsAccepted) UnderlyingConn() net.Conn { return c.TCPConn }

// the upstream dial is held at a gate
type rsDialer struct {
	slow    bool
	target  string
	once    sync.Once
	started chan struct{}
	gate    chan struct{}
}

func (d *rsDialer) DialContext(ctx context.Context, _ string, _ string) (netproxy.Conn, error) {
	d.once.Do(func() { close(d.started) })
	select {
	case <-d.gate:
	case <-ctx.Done():
		return nil, ctx.Err()
	}
	var nd net.Dialer
	c, err := nd.DialContext(ctx, "tcp", d.target)
	if err == nil && d.slow {
		_ = c.(*net.TCPConn).SetWriteBuffer(2048)
	}
	return c, err
}

type rsSink struct {
	mu  sync.Mutex
	buf []byte
	eof bool
}

func (s *rsSink) run(c net.Conn) {
	b := make([]byte, 64<<10)
	for {
		n, err := c.Read(b)
		s.mu.Lock()
		s.buf = append(s.buf, b[:n]...)
		if err != nil {
			s.eof = true
			s.mu.Unlock()
			return
		}
		s.mu.Unlock()
	}
}
func (s *rsSink) snapshot() ([]byte, bool) {
	s.mu.Lock()
	defer s.mu.Unlock()
	return append([]byte(nil), s.buf...), s.eof
}

const rsWait = 30 * time.Second

// slow destinations: while a behaviour with slow=true runs, every writev of the relay's gather write is accepted by the
// "kernel" only 1500 bytes at a time (a short write is what a nearly full send buffer gives; on loopback the buffers alone
// never get that small). Other behaviours running at the same moment see short writes too, which is equally legitimate.
var rsSlowActive atomic.Int32

func rsWritev(fd int, iovs [][]byte) (int, error) {
	if rsSlowActive.Load() == 0 {
		return unix.Writev(fd, iovs)
	}
	left := 1500
	var capped [][]byte
	for _, b := range iovs {
		if left == 0 {
			break
		}
		if len(b) > left {
			b = b[:left]
		}
		capped = append(capped, b)
		left -= len(b)
	}
	return unix.Writev(fd, capped)
}

func rsRunOne(b *rsBehaviour, res *verifutil.Result) (infra string) {
	if b.Slow {
		rsSlowActive.Add(1)
		defer rsSlowActive.Add(-1)
	}
	upLn, err := net.ListenTCP("tcp", &net.TCPAddr{IP: net.IPv4(127, 0, 0, 1)})
	if err != nil {
		return err.Error()
	}
	defer upLn.Close()
	lLn, err := net.ListenTCP("tcp", &net.TCPAddr{IP: net.IPv4(127, 0, 0, 1)})
	if err != nil {
		return err.Error()
	}
	defer lLn.Close()
	client, err := net.DialTCP("tcp", nil, lLn.Addr().(*net.TCPAddr))
	if err != nil {
		return err.Error()
	}
	defer client.Close()
	accepted, err := lLn.AcceptTCP()
	if err != nil {
		return err.Error()
	}
	defer accepted.Close()
	d := &rsDialer{slow: b.Slow, target: upLn.Addr().String(), started: make(chan struct{}), gate: make(chan struct{})}
	cp, err := c05NewPlane(d)
	if err != nil {
		return "plane: " + err.Error()
	}
	defer cp.cancel()
	upConn := make(chan *net.TCPConn, 1)
	go func() {
		c, err := upLn.AcceptTCP()
		if err == nil {
			if b.Slow {
				_ = c.SetReadBuffer(2048)
			}
			upConn <- c
		}
	}()
	ctx, cancel := context.WithTimeout(context.Background(), 3*rsWait)
	defer cancel()
	handleDone := make(chan error, 1)
	go func() { handleDone <- cp.handleConn(ctx, &rsAccepted{TCPConn: accepted, port: b.Port}) }()
	atServer, atClient := &rsSink{}, &rsSink{}
	go atClient.run(client)
	var server *net.TCPConn
	var sentUp, sentDown []byte
	// one writer per side: segments leave in the order of the history even when a write blocks on a full socket
	upQ, downQ := make(chan []byte, 16), make(chan []byte, 16)
	defer close(upQ)
	defer close(downQ)
	go func() {
		for data := range upQ {
			if data == nil { // end of stream, in order after everything queued before it
				_ = client.CloseWrite()
				continue
			}
			_, _ = client.Write(data)
		}
	}()
	go func() {
		for data := range downQ {
			_, _ = server.Write(data)
		}
	}()
	var trail []string
	gateOpen := false
	fail := func(suffix, format string, a ...any) {
		res.Failf(fmt.Sprintf("c05start:%d:%v:", b.Port, b.Slow)+strings.Join(trail, ";")+suffix, append([]string(nil), trail...), "[port %d, real sockets%s] %v: %s", b.Port, map[bool]string{true: ", small buffers towards the destination", false: ""}[b.Slow], trail, fmt.Sprintf(format, a...))
	}
	openGate := func() string {
		if gateOpen {
			return ""
		}
		gateOpen = true
		close(d.gate)
		select {
		case server = <-upConn:
			go atServer.run(server)
		case <-time.After(rsWait):
			return "the destination was never connected"
		}
		return ""
	}
	waitFor := func(s *rsSink, want []byte, what string) bool {
		deadline := time.Now().Add(rsWait)
		for {
			got, _ := s.snapshot()
			if len(got) >= len(want) || time.Now().After(deadline) {
				res.Eval(1)
				if !bytes.Equal(got, want) {
					n := c05Diff(got, want)
					fail("|"+what, "%s received %d bytes, %d were sent; first difference at offset %d", what, len(got), len(want), n)
					return false
				}
				return true
			}
			time.Sleep(200 * time.Microsecond)
		}
	}
	waitEOF := func(s *rsSink, what string) bool {
		deadline := time.Now().Add(rsWait)
		for {
			_, eof := s.snapshot()
			if eof {
				return true
			}
			if time.Now().After(deadline) {
				fail("|eof:"+what, "the end of stream did not reach %s within %v", what, rsWait)
				return false
			}
			time.Sleep(200 * time.Microsecond)
		}
	}
	seq := 0
	for _, ev := range b.Hist {
		seq++
		switch ev.Ev {
		case "cw":
			data := c05Segment(ev.K, seq)
			if ev.K == "more" {
				data = bytes.Repeat([]byte{byte('a' + seq)}, 100)
			}
			trail = append(trail, fmt.Sprintf("client sends %s (%d B) [%s]", ev.K, len(data), ev.Phase))
			sentUp = append(sentUp, data...)
			upQ <- data
			if ev.Phase == "idle" {
				select {
				case <-d.started:
				case <-time.After(rsWait):
					return fmt.Sprintf("%v: the upstream dial never started", trail)
				}
			} else if ev.Phase == "dialling" {
				// the segment is on dae's socket before the dial completes
				deadline := time.Now().Add(rsWait)
				for {
					pending, perr := tcpConnHasPendingReadData(accepted)
					if perr != nil || pending || time.Now().After(deadline) {
						break
					}
					time.Sleep(200 * time.Microsecond)
				}
			} else if !waitFor(atServer, sentUp, "the destination") {
				return ""
			}
		case "gate":
			trail = append(trail, "the upstream dial completes")
			if msg := openGate(); msg != "" {
				return fmt.Sprintf("%v: %s", trail, msg)
			}
			if !waitFor(atServer, sentUp, "the destination") {
				return ""
			}
		case "sw":
			data := c05Segment(ev.K, seq)
			trail = append(trail, fmt.Sprintf("destination sends %s (%d B)", ev.K, len(data)))
			sentDown = append(sentDown, data...)
			downQ <- data
			if !waitFor(atClient, sentDown, "the client") {
				return ""
			}
		case "sc":
			trail = append(trail, "destination shuts down its write side")
			_ = server.CloseWrite()
			if !waitEOF(atClient, "the client") {
				return ""
			}
		case "cc":
			trail = append(trail, "client shuts down its write side ["+ev.Phase+"]")
			upQ <- nil
			if gateOpen && !waitEOF(atServer, "the destination") {
				return ""
			}
		}
	}
	// let the connection finish: the dial completes, the client ends its stream; everything sent must have arrived
	trail = append(trail, "(end: dial completes, client ends its stream)")
	if msg := openGate(); msg != "" {
		return fmt.Sprintf("%v: %s", trail, msg)
	}
	upQ <- nil
	if !waitEOF(atServer, "the destination") {
		return ""
	}
	if !waitFor(atServer, sentUp, "the destination") {
		return ""
	}
	got, _ := atServer.snapshot()
	if len(got) != len(sentUp) {
		fail("|surplus", "the destination received %d bytes, the client sent %d", len(got), len(sentUp))
		return ""
	}
	_ = server.Close()
	_ = client.Close()
	select {
	case <-handleDone:
	case <-time.After(rsWait):
		fail("|stuck", "handleConn did not return after both sides had closed")
	}
	res.Count(fmt.Sprintf("c05start_%d", b.Port), 1)
	return ""
}

func TestVerifC05Start(t *testing.T) {
	bs, err := verifutil.ReadLines[rsBehaviour]("VERIF_IN")
	if err != nil {
		t.Fatal(err)
	}
	res := verifutil.NewResult()
	defer func() {
		if err := res.Write(); err != nil {
			t.Fatal(err)
		}
	}()
	// the connections are independent of one another (own sockets, own control plane): several at a time, because a
	// port-53 flow whose first bytes look like a long DNS frame sits out the 5 s probe window in real time
	oldWritev := relayWritevFunc
	relayWritevFunc = rsWritev
	defer func() { relayWritevFunc = oldWritev }()
	workers := verifutil.EnvInt("VERIF_C05_PAR", 8)
	var wg sync.WaitGroup
	next := make(chan int)
	for w := 0; w < workers; w++ {
		wg.Add(1)
		go func() {
			defer wg.Done()
			for bi := range next {
				res.Case()
				if bi < 2 {
					res.Sample(bs[bi].Hist)
				}
				if msg := rsRunOne(&bs[bi], res); msg != "" {
					res.Note(msg)
					res.Count("c05start_undecided", 1)
				}
			}
		}()
	}
	for bi := range bs {
		next <- bi
	}
	close(next)
	wg.Wait()
}
