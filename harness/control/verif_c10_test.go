//go:build verif && !dae_stub_ebpf

package control

import (
	"encoding/binary"
	"encoding/json"
	"fmt"
	"net/netip"
	"os"
	"sort"
	"testing"

	"github.com/cilium/ebpf"
	"github.com/daeuniverse/dae/common"
	"github.com/daeuniverse/dae/pkg/verifutil"
	dnsmessage "github.com/miekg/dns"
	"golang.org/x/sys/unix"
)

// behaviours emitted by spec/DomainTracker.tla
type c10Rec struct {
	Addr int      `json:"addr"`
	Bm   []string `json:"bm"`
}
type c10Step struct {
	A     string   `json:"a"`
	K     string   `json:"k"`
	Bm    []string `json:"bm"`
	Ips   []int    `json:"ips"`
	After []c10Rec `json:"after"`
}
type c10Behaviour struct {
	Hist []c10Step `json:"hist"`
}

// abstract bit -> real bit index of the 1024-bit bitmap (different words, word boundaries)
var c10Bit = map[string]int{"b0": 0, "b1": 33, "b2": 1023}

// abstract address -> real addresses (v4 and v6 spellings exercise both record types)
func c10Addr(a int) netip.Addr {
	switch a {
	case 0:
		return netip.MustParseAddr("0.0.0.0")
	case 1:
		return netip.MustParseAddr("93.184.216.34")
	case 2:
		return netip.MustParseAddr("2606:2800:220:1::1")
	default:
		return netip.MustParseAddr("203.0.113.7")
	}
}

func c10Bitmap(bm []string) []uint32 {
	out := make([]uint32, 32)
	for _, b := range bm {
		i := c10Bit[b]
		out[i/32] |= 1 << (i % 32)
	}
	return out
}

// VERIF_C10_PAD=prev: an answer lists its first address repeatedly, so that it has as many records as the answer the same
// owner had before (a refreshed answer with the same record count but another address set)
var c10PadPrev = os.Getenv("VERIF_C10_PAD") == "prev"
var c10PrevCount = map[string]int{}

func c10Cache(key string, bm []string, ips []int) *DnsCache {
	c := &DnsCache{RouteOwnerKey: key, DomainBitmap: c10Bitmap(bm)}
	if c10PadPrev && len(ips) > 0 {
		padded := append([]int(nil), ips...)
		for len(padded) < c10PrevCount[key] {
			padded = append(padded, ips[0])
		}
		c10PrevCount[key] = len(padded)
		ips = padded
	} else {
		c10PrevCount[key] = len(ips)
	}
	for _, a := range ips {
		ip := c10Addr(a)
		if a == 0 && len(ips)%2 == 0 {
			ip = netip.MustParseAddr("::") // the other unspecified address
		}
		if ip.Is4() {
			c.Answer = append(c.Answer, &dnsmessage.A{Hdr: dnsmessage.RR_Header{Name: "x.test.", Rrtype: dnsmessage.TypeA, Class: dnsmessage.ClassINET, Ttl: 60}, A: ip.AsSlice()})
		} else {
			c.Answer = append(c.Answer, &dnsmessage.AAAA{Hdr: dnsmessage.RR_Header{Name: "x.test.", Rrtype: dnsmessage.TypeAAAA, Class: dnsmessage.ClassINET, Ttl: 60}, AAAA: ip.AsSlice()})
		}
	}
	return c
}

// reads the whole real kernel domain_routing_map
func c10ReadKernel(k *vKern) (map[[4]uint32][32]uint32, error) {
	out := map[[4]uint32][32]uint32{}
	it := k.objs.DomainRoutingMap.Iterate()
	var key [4]uint32
	var val bpfDomainRouting
	for it.Next(&key, &val) {
		out[key] = val.Bitmap
	}
	return out, it.Err()
}

func TestVerifC10(t *testing.T) {
	bs, err := verifutil.ReadLines[c10Behaviour]("VERIF_IN")
	if err != nil {
		t.Fatal(err)
	}
	res := verifutil.NewResult()
	defer func() {
		if err := res.Write(); err != nil {
			t.Fatal(err)
		}
	}()
	k, err := vNewKern(nil)
	if err != nil {
		res.Note(err.Error())
		t.Fatal(err)
	}
	defer k.Close()
	for bi, b := range bs {
		res.Case()
		// fresh tracker and empty kernel table for every history
		c10PrevCount = map[string]int{}
		k.core.domainRouting = newDomainRoutingTracker()
		if err := BpfMapBatchDeleteAll[[4]uint32, bpfDomainRouting](k.objs.DomainRoutingMap); err != nil {
			t.Fatalf("clearing domain_routing_map: %v", err)
		}
		if bi < 2 {
			js, _ := json.Marshal(b.Hist)
			res.Sample(json.RawMessage(js))
		}
		var trail []string
		for si, st := range b.Hist {
			cache := c10Cache(st.K, st.Bm, st.Ips)
			var err error
			if st.A == "update" {
				err = k.core.BatchUpdateDomainRouting(cache)
			} else {
				err = k.core.BatchRemoveDomainRouting(cache)
			}
			trail = append(trail, fmt.Sprintf("%s(%s,bm=%v,ips=%v)", st.A, st.K, st.Bm, st.Ips))
			key := fmt.Sprintf("c10:%v", trail)
			if err != nil {
				res.Failf(key, trail, "history %v: step %d returned error %v", trail, si, err)
				break
			}
			got, err := c10ReadKernel(k)
			if err != nil {
				t.Fatalf("iterate domain_routing_map: %v", err)
			}
			want := map[[4]uint32][32]uint32{}
			for _, r := range st.After {
				a16 := c10Addr(r.Addr).As16()
				var bmv [32]uint32
				copy(bmv[:], c10Bitmap(r.Bm))
				want[common.Ipv6ByteSliceToUint32Array(a16[:])] = bmv
			}
			res.Eval(1)
			if len(got) != len(want) {
				res.Failf(key, trail, "after history %v the kernel table has %d entries %v, the live cache entries require %d: %v", trail, len(got), c10Keys(got), len(want), st.After)
				break
			}
			bad := false
			for kk, wv := range want {
				gv, ok := got[kk]
				if !ok || gv != wv {
					res.Failf(key, trail, "after history %v the kernel table holds %v (present %v) for %v; the union of the live entries' bitmaps is %v", trail, c10Words(gv), ok, kk, c10Words(wv))
					bad = true
					break
				}
			}
			if bad {
				break
			}
		}
	}
}

func c10Keys(m map[[4]uint32][32]uint32) []string {
	var out []string
	for k := range m {
		out = append(out, fmt.Sprint(k))
	}
	sort.Strings(out)
	return out
}

func c10Words(b [32]uint32) string {
	s := ""
	for i, w := range b {
		if w != 0 {
			s += fmt.Sprintf("[%d]=%#x ", i, w)
		}
	}
	if s == "" {
		return "0"
	}
	return s
}

// ---- a full kernel table (DomainTracker.tla with Cap = 2): failed syncs, retries ------------------------------------

type c10CapStep struct {
	A     string   `json:"a"`
	K     string   `json:"k"`
	Bm    []string `json:"bm"`
	Ips   []int    `json:"ips"`
	Ok    bool     `json:"ok"`
	After []c10Rec `json:"after"`
}
type c10CapBehaviour struct {
	Hist []c10CapStep `json:"hist"`
}

func TestVerifC10Cap(t *testing.T) {
	bs, err := verifutil.ReadLines[c10CapBehaviour]("VERIF_IN")
	if err != nil {
		t.Fatal(err)
	}
	res := verifutil.NewResult()
	defer func() {
		if err := res.Write(); err != nil {
			t.Fatal(err)
		}
	}()
	capacity := verifutil.EnvInt("VERIF_C10_CAP", 2)
	// a table with the layout of domain_routing_map and room for `capacity` entries
	small, err := ebpf.NewMap(&ebpf.MapSpec{Name: "verif_dr_small", Type: ebpf.Hash, KeySize: uint32(binary.Size([4]uint32{})),
		ValueSize: uint32(binary.Size(bpfDomainRouting{})), MaxEntries: uint32(capacity), Flags: unix.BPF_F_NO_PREALLOC})
	if err != nil {
		res.Note("creating the small table: " + err.Error())
		t.Fatal(err)
	}
	defer small.Close()
	core := &controlPlaneCore{}
	core.bpf.Store(&bpfObjects{bpfMaps: bpfMaps{DomainRoutingMap: small}})
	read := func() (map[[4]uint32][32]uint32, error) {
		out := map[[4]uint32][32]uint32{}
		it := small.Iterate()
		var key [4]uint32
		var val bpfDomainRouting
		for it.Next(&key, &val) {
			out[key] = val.Bitmap
		}
		return out, it.Err()
	}
	for bi, b := range bs {
		res.Case()
		core.domainRouting = newDomainRoutingTracker()
		if err := BpfMapBatchDeleteAll[[4]uint32, bpfDomainRouting](small); err != nil {
			t.Fatalf("clearing the small table: %v", err)
		}
		if bi < 2 {
			js, _ := json.Marshal(b.Hist)
			res.Sample(json.RawMessage(js))
		}
		var trail []string
		for _, st := range b.Hist {
			cache := c10Cache(st.K, st.Bm, st.Ips)
			var err error
			if st.A == "update" {
				err = core.BatchUpdateDomainRouting(cache)
			} else {
				err = core.BatchRemoveDomainRouting(cache)
			}
			outcome := "ok"
			if err != nil {
				outcome = "fails: table full"
			}
			trail = append(trail, fmt.Sprintf("%s(%s,bm=%v,ips=%v) %s", st.A, st.K, st.Bm, st.Ips, outcome))
			key := fmt.Sprintf("c10cap:%v", trail)
			if (err == nil) != st.Ok {
				// the kernel decides what fits; a different outcome than the model's means the history is not the modelled one
				res.Count("c10cap_outcome_differs", 1)
				break
			}
			got, rerr := read()
			if rerr != nil {
				t.Fatalf("iterate: %v", rerr)
			}
			want := map[[4]uint32][32]uint32{}
			for _, r := range st.After {
				a16 := c10Addr(r.Addr).As16()
				var bmv [32]uint32
				copy(bmv[:], c10Bitmap(r.Bm))
				want[common.Ipv6ByteSliceToUint32Array(a16[:])] = bmv
			}
			res.Eval(1)
			bad := len(got) != len(want)
			for kk, wv := range want {
				if gv, ok := got[kk]; !ok || gv != wv {
					bad = true
				}
			}
			if bad {
				res.Failf(key, trail, "table of %d entries, history %v: the kernel table holds %v, expected %v (once every entry has been synced successfully the table must again be the union of the live entries' bitmaps)", capacity, trail, c10Keys(got), st.After)
				break
			}
		}
	}
}
