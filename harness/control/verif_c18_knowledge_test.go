//go:build verif

package control

import (
	"context"
	"fmt"
	"net/netip"
	"strings"
	"testing"
	"testing/synctest"
	"time"

	"github.com/bits-and-blooms/bloom/v3"
	"github.com/daeuniverse/dae/common/consts"
	"github.com/daeuniverse/dae/pkg/verifutil"
	dnsmessage "github.com/miekg/dns"
)

// behaviours emitted by spec/DnsKnowledge.tla
type dkBehaviour struct {
	Hist []struct {
		Ev   string `json:"ev"`
		T    string `json:"t"`
		S    string `json:"s"`
		N    int    `json:"n"`
		May  bool   `json:"may"`  // the name may be sent to the proxy
		Must bool   `json:"must"` // ... and has to be
	} `json:"hist"`
}

var dkTypes = map[string]uint16{"A": dnsmessage.TypeA, "AAAA": dnsmessage.TypeAAAA, "NS": dnsmessage.TypeNS, "PTR": dnsmessage.TypePTR, "MX": dnsmessage.TypeMX, "TXT": dnsmessage.TypeTXT}

func dkAnswer(name string, typ uint16, ttl int) *dnsmessage.Msg {
	m := new(dnsmessage.Msg)
	m.SetQuestion(name, typ)
	m.Response = true
	h := dnsmessage.RR_Header{Name: name, Rrtype: typ, Class: dnsmessage.ClassINET, Ttl: uint32(ttl)}
	switch typ {
	case dnsmessage.TypeA:
		m.Answer = []dnsmessage.RR{&dnsmessage.A{Hdr: h, A: []byte{198, 51, 100, 7}}}
	case dnsmessage.TypeAAAA:
		m.Answer = []dnsmessage.RR{&dnsmessage.AAAA{Hdr: h, AAAA: netip.MustParseAddr("2001:db8::7").AsSlice()}}
	case dnsmessage.TypeNS:
		m.Answer = []dnsmessage.RR{&dnsmessage.NS{Hdr: h, Ns: "ns.example."}}
	case dnsmessage.TypePTR:
		m.Answer = []dnsmessage.RR{&dnsmessage.PTR{Hdr: h, Ptr: "ptr.example."}}
	case dnsmessage.TypeMX:
		m.Answer = []dnsmessage.RR{&dnsmessage.MX{Hdr: h, Preference: 10, Mx: "mx.example."}}
	default:
		m.Answer = []dnsmessage.RR{&dnsmessage.TXT{Hdr: h, Txt: []string{"v=spf1 -all"}}}
	}
	return m
}

func TestVerifC18Knowledge(t *testing.T) {
	bs, err := verifutil.ReadLines[dkBehaviour]("VERIF_IN")
	if err != nil {
		t.Fatal(err)
	}
	res := verifutil.NewResult()
	defer func() {
		if err := res.Write(); err != nil {
			t.Fatal(err)
		}
	}()
	const name = "mail.demo.test."
	for bi := range bs {
		b := &bs[bi]
		res.Case()
		if bi < 2 {
			res.Sample(b.Hist)
		}
		synctest.Test(t, func(t *testing.T) {
			c, err := c08NewController(&c08Behaviour{})
			if err != nil {
				res.Note("NewDnsController: " + err.Error())
				return
			}
			defer func() { _ = c.Close() }()
			ctx, cancel := context.WithCancel(context.Background())
			defer cancel()
			cp := &ControlPlane{realDomainSet: bloom.NewWithEstimates(2048, 0.001), log: verifLogger(), ctx: ctx, cancel: cancel}
			cp.dialMode = consts.DialMode_Domain
			cp.dnsController = c // no bootstrap resolver: a verification probe fails closed, only dae's own resolution can vouch
			key := func(typ, scope string) string { return c.cacheKey(name, dkTypes[typ]) + "|" + scope }
			var trail []string
			for _, ev := range b.Hist {
				switch ev.Ev {
				case "insert":
					trail = append(trail, fmt.Sprintf("dae caches the %s answer from %s (ttl %ds)", ev.T, ev.S, ev.N))
					if err := c.NormalizeAndCacheDnsResp_(dkAnswer(name, dkTypes[ev.T], ev.N), key(ev.T, ev.S)); err != nil {
						res.Note("insert: " + err.Error())
						return
					}
				case "remove":
					trail = append(trail, fmt.Sprintf("the %s answer from %s is evicted", ev.T, ev.S))
					c.RemoveDnsRespCache(key(ev.T, ev.S))
				case "tick":
					trail = append(trail, fmt.Sprintf("+%ds", ev.N))
					time.Sleep(time.Duration(ev.N) * time.Second)
					synctest.Wait()
				case "conn":
					dst := netip.MustParseAddrPort("203.0.113.7:443")
					if ev.N == 6 {
						dst = netip.MustParseAddrPort("[2001:db8::1]:443")
					}
					trail = append(trail, fmt.Sprintf("connection to %s", dst))
					target, _, _ := cp.ChooseDialTarget(consts.OutboundUserDefinedMin, dst, strings.TrimSuffix(name, "."))
					synctest.Wait()
					res.Eval(1)
					usesName := target == strings.TrimSuffix(name, ".")+":443"
					if !usesName && target != dst.String() {
						res.Failf("c18know:"+strings.Join(trail, ";")+"|shape", append([]string(nil), trail...), "dial_mode domain, %v: the proxy is given %q: neither the name nor the destination", trail, target)
						return
					}
					if usesName && !ev.May {
						res.Failf("c18know:"+strings.Join(trail, ";"), append([]string(nil), trail...), "dial_mode domain, %v: the proxy is given %q, expected %q: no address answer of the destination's family that dae resolved is within its original TTL", trail, target, dst.String())
						return
					}
					if !usesName && ev.Must {
						res.Failf("c18know:"+strings.Join(trail, ";")+"|must", append([]string(nil), trail...), "dial_mode domain, %v: the proxy is given %q although dae resolved the name itself and that answer is still cached and within its original TTL", trail, target)
						return
					}
				}
			}
		})
	}
}
