//go:build verif

package control

import (
	"bufio"
	"encoding/json"
	"fmt"
	"math/rand"
	"net/netip"
	"os"
	"regexp"
	"strings"
	"testing"

	"github.com/daeuniverse/dae/common/consts"
	"github.com/daeuniverse/dae/pkg/verifutil"
)

// ---- vectors emitted by spec/RuleScan.tla ----------------------------------------------------------

type rsAddr struct {
	Fam int   `json:"fam"`
	B   []int `json:"b"`
}
type rsOut struct {
	Name  string `json:"name"`
	Mark  string `json:"mark"`
	Must  bool   `json:"must"`
	Style string `json:"style"`
}
type rsGroup struct {
	Key  string            `json:"key"`
	Vals []json.RawMessage `json:"vals"`
}
type rsCond struct {
	Fn     string    `json:"fn"`
	Not    bool      `json:"not"`
	Groups []rsGroup `json:"groups"`
}
type rsRule struct {
	Conds []rsCond `json:"conds"`
	Out   rsOut    `json:"out"`
}
type rsPkt struct {
	Sip    rsAddr   `json:"sip"`
	Dip    rsAddr   `json:"dip"`
	Sport  int      `json:"sport"`
	Dport  int      `json:"dport"`
	L4     string   `json:"l4"`
	Mac    []int    `json:"mac"`
	Dscp   int      `json:"dscp"`
	Pname  []string `json:"pname"`
	Domain []string `json:"domain"`
}
type rsDecision struct {
	Out  string `json:"out"`
	Mark string `json:"mark"`
	Must bool   `json:"must"`
}
type rsCase struct {
	Pkt  rsPkt      `json:"pkt"`
	Exp  rsDecision `json:"exp"`
	Kexp rsDecision `json:"kexp"`
}
type rsVector struct {
	Prog     []rsRule `json:"prog"`
	Fallback rsOut    `json:"fallback"`
	Cases    []rsCase `json:"cases"`
}

var rsMarks = map[string]uint32{"m0": 0, "m1": 1, "mMax": 0xffffffff}
var rsOutIds = map[string]uint8{"direct": 0, "block": 1, "a": 2, "c": 3, "b": 251}

func rsAddrOf(a rsAddr) netip.Addr {
	if a.Fam == 4 {
		return netip.AddrFrom4([4]byte{byte(a.B[0]), byte(a.B[1]), byte(a.B[2]), byte(a.B[3])})
	}
	var x [16]byte
	for i := range x {
		x[i] = byte(a.B[i])
	}
	return netip.AddrFrom16(x)
}

func rsQuote(s string) string {
	if strings.ContainsAny(s, ":^$\\|.*()[] ") || s == "" || (s[0] >= '0' && s[0] <= '9' && strings.ContainsAny(s, "abcdefghijklmnopqrstuvwxyzXY")) {
		return "'" + s + "'"
	}
	return s
}

// renders one value of a condition as configuration text
func rsValue(fn, key string, raw json.RawMessage) string {
	switch fn {
	case "ip", "sip":
		var p struct {
			Fam int   `json:"fam"`
			B   []int `json:"b"`
			Len int   `json:"len"`
		}
		_ = json.Unmarshal(raw, &p)
		s := fmt.Sprintf("%s/%d", rsAddrOf(rsAddr{p.Fam, p.B}), p.Len)
		if strings.Contains(s, ":") {
			return "'" + s + "'"
		}
		return s
	case "port", "sport":
		var r []int
		_ = json.Unmarshal(raw, &r)
		if r[0] == r[1] {
			return fmt.Sprint(r[0])
		}
		return fmt.Sprintf("%d-%d", r[0], r[1])
	case "l4proto":
		var s string
		_ = json.Unmarshal(raw, &s)
		return s
	case "ipversion", "dscp":
		var n int
		_ = json.Unmarshal(raw, &n)
		return fmt.Sprint(n)
	case "mac":
		var m []int
		_ = json.Unmarshal(raw, &m)
		return fmt.Sprintf("'%02x:%02x:%02x:%02x:%02x:%02x'", m[0], m[1], m[2], m[3], m[4], m[5])
	case "pname":
		var cs []string
		_ = json.Unmarshal(raw, &cs)
		return "'" + strings.Join(cs, "") + "'"
	case "domain":
		if key == "regex" {
			var r struct {
				Pre  bool       `json:"pre"`
				Post bool       `json:"post"`
				Alts [][]string `json:"alts"`
			}
			_ = json.Unmarshal(raw, &r)
			var alts []string
			for _, a := range r.Alts {
				alts = append(alts, regexp.QuoteMeta(strings.Join(a, "")))
			}
			s := "(?:" + strings.Join(alts, "|") + ")"
			if r.Pre {
				s = "^" + s
			}
			if r.Post {
				s += "$"
			}
			return "'" + s + "'"
		}
		var cs []string
		_ = json.Unmarshal(raw, &cs)
		return rsQuote(strings.Join(cs, ""))
	}
	return "?"
}

func rsOutText(o rsOut) string {
	if o.Name == "must_rules" {
		return "must_rules"
	}
	name := o.Name
	var params []string
	if m := rsMarks[o.Mark]; m != 0 {
		if m == 0xffffffff {
			params = append(params, "mark: 0xffffffff")
		} else {
			params = append(params, fmt.Sprintf("mark: %d", m))
		}
	}
	if o.Must {
		if o.Style == "prefix" {
			name = "must_" + name
		} else {
			params = append(params, "must")
		}
	}
	if len(params) > 0 {
		return name + "(" + strings.Join(params, ", ") + ")"
	}
	return name
}

// rsRender writes the program the way a user would: aliases (dip/dport, domain keys ”/domain/contains),
// and spacing/comment trivia are chosen by the seeded rng; the meaning is the vector's program.
func rsRender(v *rsVector, rng *rand.Rand) string {
	var sb strings.Builder
	sb.WriteString("routing {\n")
	// VERIF_RS_SHIFT=n: n rules that mention names nobody asks for come first (alternating outbounds so that the optimiser
	// keeps them apart): the program's own domain sets move to higher bitmap indices (other 32-rule words), its meaning stays
	for i := 0; i < verifutil.EnvInt("VERIF_RS_SHIFT", 0); i++ {
		fmt.Fprintf(&sb, "  domain(full: filler%d.invalid) -> %s\n", i, []string{"block", "direct"}[i%2])
	}
	for _, r := range v.Prog {
		var conds []string
		for _, c := range r.Conds {
			fn := c.Fn
			if fn == "ip" && rng.Intn(2) == 0 {
				fn = "dip"
			}
			if fn == "port" && rng.Intn(2) == 0 {
				fn = "dport"
			}
			var params []string
			for _, g := range c.Groups {
				for _, raw := range g.Vals {
					val := rsValue(c.Fn, g.Key, raw)
					key := g.Key
					if c.Fn == "domain" {
						switch key {
						case "suffix":
							key = []string{"suffix", "domain", ""}[rng.Intn(3)]
						case "keyword":
							key = []string{"keyword", "contains"}[rng.Intn(2)]
						}
					}
					if key != "" {
						params = append(params, key+": "+val)
					} else {
						params = append(params, val)
					}
				}
			}
			s := fn + "(" + strings.Join(params, ", ") + ")"
			if c.Not {
				s = "!" + s
			}
			conds = append(conds, s)
		}
		sb.WriteString("  " + strings.Join(conds, " && ") + " -> " + rsOutText(r.Out) + "\n")
	}
	sb.WriteString("  fallback: " + rsOutText(v.Fallback) + "\n}\n")
	return sb.String()
}

func rsPktArgs(p rsPkt) (src, dst netip.AddrPort, domain string, l4 consts.L4ProtoType, rr *bpfRoutingResult) {
	src = netip.AddrPortFrom(rsAddrOf(p.Sip), uint16(p.Sport))
	dst = netip.AddrPortFrom(rsAddrOf(p.Dip), uint16(p.Dport))
	domain = strings.Join(p.Domain, "")
	l4 = consts.L4ProtoType_TCP
	if p.L4 == "udp" {
		l4 = consts.L4ProtoType_UDP
	}
	rr = &bpfRoutingResult{Dscp: uint8(p.Dscp)}
	for i := 0; i < 6; i++ {
		rr.Mac[i] = uint8(p.Mac[i])
	}
	copy(rr.Pname[:], strings.Join(p.Pname, ""))
	return
}

func rsPktText(p rsPkt) string {
	return fmt.Sprintf("%s:%d->%s:%d/%s mac=%v dscp=%d pname=%q domain=%q", rsAddrOf(p.Sip), p.Sport, rsAddrOf(p.Dip), p.Dport, p.L4, p.Mac, p.Dscp, strings.Join(p.Pname, ""), strings.Join(p.Domain, ""))
}

// rsStream decodes the vector file line by line (it can be hundreds of MB).
func rsStream(t *testing.T, every int, f func(i int, v *rsVector)) {
	p := os.Getenv("VERIF_IN")
	fh, err := os.Open(p)
	if err != nil {
		t.Fatal(err)
	}
	defer fh.Close()
	sc := bufio.NewScanner(fh)
	sc.Buffer(make([]byte, 1<<20), 1<<28)
	i := 0
	for sc.Scan() {
		if len(sc.Bytes()) == 0 {
			continue
		}
		i++
		if every > 1 && i%every != 0 {
			continue
		}
		var v rsVector
		if err := json.Unmarshal(sc.Bytes(), &v); err != nil {
			t.Fatalf("vector %d: %v", i, err)
		}
		f(i, &v)
	}
	if err := sc.Err(); err != nil {
		t.Fatal(err)
	}
}

// TestVerifRuleScanUser: C01 (optimize=false: rules exactly as written, aliases only) and C04 (the production
// optimiser pipeline) - the decision of ControlPlane.Route must equal the spec's Decide for the user's program.
func TestVerifRuleScanUser(t *testing.T) {
	res := verifutil.NewResult()
	defer func() {
		if err := res.Write(); err != nil {
			t.Fatal(err)
		}
	}()
	rng := rand.New(rand.NewSource(verifutil.Seed()))
	mode := os.Getenv("VERIF_RS_MODE") // "c01" | "c04"
	every := verifutil.EnvInt("VERIF_RS_EVERY", 1)
	rsStream(t, every, func(i int, v *rsVector) {
		res.Case()
		text := rsRender(v, rng)
		if res.Cases <= 2 {
			res.Sample(map[string]any{"config": text, "packets": len(v.Cases)})
		}
		optimize := mode == "c04"
		b, err := verifCompileRouting(text, rsOutIds, nil, optimize)
		if err != nil {
			res.Failf("compile:"+text, text, "well-formed program rejected (%v): %s", err, text)
			return
		}
		m, err := b.BuildUserspace()
		if err != nil {
			res.Failf("compile:"+text, text, "BuildUserspace failed (%v): %s", err, text)
			return
		}
		cp := &ControlPlane{}
		cp.routingMatcher = m
		for _, c := range v.Cases {
			src, dst, domain, l4, rr := rsPktArgs(c.Pkt)
			out, mark, must, err := cp.Route(src, dst, domain, l4, rr)
			res.Eval(1)
			wantOut, wantMark := rsOutIds[c.Exp.Out], rsMarks[c.Exp.Mark]
			if err != nil || uint8(out) != wantOut || mark != wantMark || must != c.Exp.Must {
				res.Failf(fmt.Sprintf("%s:%s|%s", mode, text, rsPktText(c.Pkt)), map[string]any{"config": text, "packet": rsPktText(c.Pkt), "optimize": optimize},
					"program\n%s routes %s to (outbound id %d, mark %#x, must %v, err %v); the rules as written decide (%s=%d, mark %#x, must %v)",
					text, rsPktText(c.Pkt), out, mark, must, err, c.Exp.Out, wantOut, wantMark, c.Exp.Must)
			}
		}
	})
}
