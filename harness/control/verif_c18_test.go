//go:build verif

package control

import (
	"context"
	"fmt"
	"net"
	"net/netip"
	"strconv"
	"testing"
	"time"

	"github.com/bits-and-blooms/bloom/v3"
	"github.com/daeuniverse/dae/common"
	"github.com/daeuniverse/dae/common/consts"
	"github.com/daeuniverse/dae/pkg/verifutil"
)

type c18Vector struct {
	Mode string `json:"mode"`
	Out  string `json:"out"`
	Dst  struct {
		Fam  int `json:"fam"`
		Port int `json:"port"`
	} `json:"dst"`
	Sniff          string `json:"sniff"`
	Known          string `json:"known"`
	Shape          string `json:"shape"`
	DialIp         bool   `json:"dialIp"`
	MustReroute    bool   `json:"mustReroute"`
	MustNotReroute bool   `json:"mustNotReroute"`
}

var c18Modes = map[string]consts.DialMode{"ip": consts.DialMode_Ip, "domain": consts.DialMode_Domain, "domain+": consts.DialMode_DomainPlus, "domain++": consts.DialMode_DomainCao}

// several concrete strings per sniffed-value class
func c18Sniffs(kind string) (vals []string, host []string, port []string) {
	switch kind {
	case "empty":
		return []string{""}, []string{""}, []string{""}
	case "name":
		return []string{"example.com", "a-b.c_d.example.org", "xn--fsq.test"}, []string{"example.com", "a-b.c_d.example.org", "xn--fsq.test"}, []string{"", "", ""}
	case "NAME.":
		return []string{"EXAMPLE.COM", "example.com."}, []string{"EXAMPLE.COM", "example.com."}, []string{"", ""}
	case "name:port":
		return []string{"example.com:8443", "example.com:1"}, []string{"example.com", "example.com"}, []string{"8443", "1"}
	case "v4":
		return []string{"1.2.3.4", "255.255.255.255"}, []string{"1.2.3.4", "255.255.255.255"}, []string{"", ""}
	case "v6":
		return []string{"2606:4700:4700::1111", "::1"}, []string{"2606:4700:4700::1111", "::1"}, []string{"", ""}
	case "[v6]":
		return []string{"[2606:4700:4700::1111]", "[::1]"}, []string{"2606:4700:4700::1111", "::1"}, []string{"", ""}
	case "v4:port":
		return []string{"1.2.3.4:8080"}, []string{"1.2.3.4"}, []string{"8080"}
	case "[v6]:port":
		return []string{"[2606:4700:4700::1111]:8080", "[::1]:65535"}, []string{"2606:4700:4700::1111", "::1"}, []string{"8080", "65535"}
	}
	return nil, nil, nil
}

func TestVerifC18(t *testing.T) {
	vecs, err := verifutil.ReadLines[c18Vector]("VERIF_IN")
	if err != nil {
		t.Fatal(err)
	}
	res := verifutil.NewResult()
	defer func() {
		if err := res.Write(); err != nil {
			t.Fatal(err)
		}
	}()
	for vi, v := range vecs {
		res.Case()
		vals, hosts, ports := c18Sniffs(v.Sniff)
		for i, sn := range vals {
			ctx, cancel := context.WithCancel(context.Background())
			cp := &ControlPlane{realDomainSet: bloom.NewWithEstimates(2048, 0.001), log: verifLogger(), ctx: ctx, cancel: cancel}
			cp.dialMode = c18Modes[v.Mode]
			cp.dnsController = &DnsController{dnsControllerStore: &dnsControllerStore{}}
			dst := netip.AddrPortFrom(netip.MustParseAddr("8.8.4.4"), uint16(v.Dst.Port))
			if v.Dst.Fam == 6 {
				dst = netip.AddrPortFrom(netip.MustParseAddr("2001:4860:4860::8844"), uint16(v.Dst.Port))
			}
			switch v.Known {
			case "resolved":
				cp.dnsController.dnsKnowledge.Store(cp.dnsController.cacheKey(sn, common.AddrToDnsType(dst.Addr())), time.Now().Add(time.Hour).UnixNano())
			case "verified":
				cp.realDomainSet.AddString(sn)
			case "negative":
				cp.realDomainNegSet.Store(sn, time.Now().Add(time.Hour).UnixNano())
			}
			var outIdx consts.OutboundIndex
			switch v.Out {
			case "direct":
				outIdx = consts.OutboundDirect
			case "block":
				outIdx = consts.OutboundBlock
			default:
				outIdx = consts.OutboundUserDefinedMin + 3
			}
			target, reroute, dialIp := cp.ChooseDialTarget(outIdx, dst, sn)
			cancel()
			res.Eval(1)
			var want string
			switch v.Shape {
			case "dstip:dstport":
				want = dst.String()
			case "literal:dstport", "name:dstport":
				want = net.JoinHostPort(hosts[i], strconv.Itoa(v.Dst.Port))
			case "asis":
				want = net.JoinHostPort(hosts[i], ports[i])
			}
			key := fmt.Sprintf("c18:%s:%s:%s:%s:%d", v.Mode, v.Out, v.Known, sn, v.Dst.Port)
			repl := map[string]any{"mode": v.Mode, "outbound": v.Out, "dst": dst.String(), "sniffed": sn, "known": v.Known}
			if vi < 2 && i == 0 {
				res.Sample(repl)
			}
			if target != want {
				res.Failf(key, repl, "dial_mode %s, outbound %s, destination %s, sniffed %q (%s): dial target %q, the mode requires %q", v.Mode, v.Out, dst, sn, v.Known, target, want)
				continue
			}
			// well-formedness, independent of the table
			h, p, err := net.SplitHostPort(target)
			if err != nil || h == "" {
				res.Failf(key+"|wf", repl, "dial target %q is malformed: %v", target, err)
			} else if n, err := strconv.Atoi(p); err != nil || n < 0 || n > 65535 {
				res.Failf(key+"|wf", repl, "dial target %q has a malformed port", target)
			}
			if dialIp != v.DialIp {
				res.Failf(key+"|dialip", repl, "sniffed %q mode %s: dialIp=%v, expected %v", sn, v.Mode, dialIp, v.DialIp)
			}
			if (v.MustReroute && !reroute) || (v.MustNotReroute && reroute) {
				res.Failf(key+"|reroute", repl, "dial_mode %s outbound %s sniffed %q: reroute=%v", v.Mode, v.Out, sn, reroute)
			}
		}
	}
}
