//go:build verif && !dae_stub_ebpf

package control

import (
	"bytes"
	"encoding/binary"
	"fmt"
	"net/netip"
	"testing"
	"unsafe"

	"github.com/cilium/ebpf"
	"github.com/daeuniverse/dae/common"
	"github.com/daeuniverse/dae/common/consts"
	"github.com/daeuniverse/dae/component/outbound/dialer"
	"github.com/daeuniverse/dae/pkg/verifutil"
	"golang.org/x/sys/unix"
)

type keVector struct {
	Kind string `json:"kind"`
	Inp  struct {
		Out   int   `json:"out"`
		Dom   int   `json:"dom"`
		Ipv   int   `json:"ipv"`
		Sip   []int `json:"sip"`
		Dip   []int `json:"dip"`
		Sport int   `json:"sport"`
		Dport int   `json:"dport"`
		L4    int   `json:"l4"`
		Addr  []int `json:"addr"`
	} `json:"inp"`
	Exp struct {
		Slot  int   `json:"slot"`
		Bytes []int `json:"bytes"`
	} `json:"exp"`
}

func keAddr(b []int) netip.Addr {
	if len(b) == 4 {
		return netip.AddrFrom4([4]byte{byte(b[0]), byte(b[1]), byte(b[2]), byte(b[3])})
	}
	var a [16]byte
	for i := range a {
		a[i] = byte(b[i])
	}
	return netip.AddrFrom16(a)
}

func keBytes(b []int) []byte {
	out := make([]byte, len(b))
	for i, x := range b {
		out[i] = byte(x)
	}
	return out
}

func keNetworkType(dom, ipv int) *dialer.NetworkType {
	nt := &dialer.NetworkType{IpVersion: consts.IpVersionStr_4}
	if ipv == 1 {
		nt.IpVersion = consts.IpVersionStr_6
	}
	switch dom {
	case 0:
		nt.L4Proto = consts.L4ProtoStr_TCP
	case 1:
		nt.L4Proto, nt.UdpHealthDomain, nt.IsDns = consts.L4ProtoStr_UDP, dialer.UdpHealthDomainDns, true
	default:
		nt.L4Proto, nt.UdpHealthDomain = consts.L4ProtoStr_UDP, dialer.UdpHealthDomainData
	}
	return nt
}

func TestVerifC19Keys(t *testing.T) {
	vecs, err := verifutil.ReadLines[keVector]("VERIF_IN")
	if err != nil {
		t.Fatal(err)
	}
	res := verifutil.NewResult()
	defer func() {
		if err := res.Write(); err != nil {
			t.Fatal(err)
		}
	}()
	k, err := vNewKern(nil)
	if err != nil {
		res.Note(err.Error())
		t.Fatal(err)
	}
	defer k.Close()
	log := verifLogger()
	installed := -1
	for vi, v := range vecs {
		res.Case()
		if vi < 3 {
			res.Sample(v)
		}
		switch v.Kind {
		case "connectivity":
			nt := keNetworkType(v.Inp.Dom, v.Inp.Ipv)
			got := outboundConnectivityMapKey(uint8(v.Inp.Out), nt)
			key := fmt.Sprintf("c19-connectivity:%d:%d:%d", v.Inp.Out, v.Inp.Dom, v.Inp.Ipv)
			res.Eval(1)
			if int(got) != v.Exp.Slot {
				res.Failf(key, v.Inp, "connectivity slot computed by the control plane for outbound %d, %s is %d; the kernel reads slot %d (outbound*6 + domain*2 + ipversion)", v.Inp.Out, nt.String(), got, v.Exp.Slot)
			}
			// the kernel's own choice of slot, observed through the verdict (the DNS-UDP slots are not consulted by the datapath)
			if v.Inp.Dom == 1 || v.Inp.Out < 2 || v.Inp.Out > int(consts.OutboundUserDefinedMax) {
				continue
			}
			if installed != v.Inp.Out {
				text := "routing {\n fallback: x\n}\n"
				b, err := verifCompileRouting(text, map[string]uint8{"direct": 0, "block": 1, "x": uint8(v.Inp.Out)}, k.objs, true)
				if err != nil {
					t.Fatal(err)
				}
				if _, err := b.KernspaceSnapshot().BuildKernspace(log, k.objs); err != nil {
					t.Fatal(err)
				}
				installed = v.Inp.Out
			}
			src, dst := netip.MustParseAddrPort("10.9.9.9:40000"), netip.MustParseAddrPort("93.184.216.34:443")
			if v.Inp.Ipv == 1 {
				src, dst = netip.MustParseAddrPort("[fd00::9]:40000"), netip.MustParseAddrPort("[2606:2800:220:1::1]:443")
			}
			l4 := uint8(unix.IPPROTO_TCP)
			if v.Inp.Dom == 2 {
				l4 = unix.IPPROTO_UDP
			}
			for _, only := range []bool{true, false} {
				// only=true: every slot alive except the control plane's one -> the flow must be dropped
				// only=false: every slot dead except the control plane's one -> the flow must be redirected
				var all []uint32
				for i := uint32(0); i < 1536; i++ {
					val := uint32(1)
					if !only {
						val = 0
					}
					all = append(all, val)
				}
				if only {
					all[got] = 0
				} else {
					all[got] = 1
				}
				keys := common.ARangeU32(1536)
				if _, err := BpfMapBatchUpdate(k.objs.OutboundConnectivityMap, keys, all, &ebpf.BatchOptions{ElemFlags: uint64(ebpf.UpdateAny)}); err != nil {
					t.Fatalf("connectivity map: %v", err)
				}
				k.ForgetFlow(src, dst, l4)
				fr := vFrame{Src: src, Dst: dst, L4: l4, TcpFlags: 0x02, SrcMac: [6]byte{2, 0, 0, 0, 0, 1}, DstMac: [6]byte{2, 0, 0, 0, 0, 0xfe}, PadTo: 160}
				run, err := vRunProg(k.objs.TproxyLanIngressL2, fr.Bytes(), 0)
				if err != nil {
					t.Fatalf("prog run: %v", err)
				}
				res.Eval(1)
				res.Count("kernel_slot_probes", 1)
				if only && run.Ret != vTcShot {
					res.Failf(key+"|kernel", v.Inp, "outbound %d %s: with only the control plane's slot %d marked dead the kernel still forwarded the flow (verdict %d): the kernel reads another slot", v.Inp.Out, nt.String(), got, run.Ret)
				}
				if !only && run.Ret != vTcRedirect {
					res.Failf(key+"|kernel", v.Inp, "outbound %d %s: with only the control plane's slot %d marked alive the kernel dropped the flow (verdict %d): the kernel reads another slot", v.Inp.Out, nt.String(), got, run.Ret)
				}
			}
		case "tuple":
			src := netip.AddrPortFrom(keAddr(v.Inp.Sip), uint16(v.Inp.Sport))
			dst := netip.AddrPortFrom(keAddr(v.Inp.Dip), uint16(v.Inp.Dport))
			tk := bpfTuplesKeyFromAddrPorts(src, dst, uint8(v.Inp.L4))
			got := unsafe.Slice((*byte)(unsafe.Pointer(&tk)), unsafe.Sizeof(tk))
			want := keBytes(v.Exp.Bytes)
			key := fmt.Sprintf("c19-tuple:%v:%v:%d", src, dst, v.Inp.L4)
			res.Eval(1)
			if !bytes.Equal(got, want) {
				res.Failf(key, v.Inp, "flow key computed by the control plane for %v -> %v proto %d is % x; the layout is % x", src, dst, v.Inp.L4, got, want)
			}
			// the key the kernel writes for the same flow
			if installed != 2 {
				b, err := verifCompileRouting("routing {\n fallback: x\n}\n", map[string]uint8{"direct": 0, "block": 1, "x": 2}, k.objs, true)
				if err != nil {
					t.Fatal(err)
				}
				if _, err := b.KernspaceSnapshot().BuildKernspace(log, k.objs); err != nil {
					t.Fatal(err)
				}
				_ = k.SetAllAlive([]uint8{2}, 1)
				installed = 2
			}
			if uint8(v.Inp.L4) == unix.IPPROTO_UDP && (v.Inp.Dport == 53 || v.Inp.Sport == 53) {
				continue // stateless DNS datagrams leave no conn state
			}
			_ = BpfMapBatchDeleteAll[bpfTuplesKey, bpfConnState](k.objs.ConnStateMap)
			fr := vFrame{Src: src, Dst: dst, L4: uint8(v.Inp.L4), TcpFlags: 0x02, SrcMac: [6]byte{2, 0, 0, 0, 0, 1}, DstMac: [6]byte{2, 0, 0, 0, 0, 0xfe}}
			if _, err := vRunProg(k.objs.TproxyLanIngressL2, fr.Bytes(), 0); err != nil {
				t.Fatalf("prog run: %v", err)
			}
			var kk bpfTuplesKey
			var vv bpfConnState
			it := k.objs.ConnStateMap.Iterate()
			n := 0
			for it.Next(&kk, &vv) {
				n++
				kb := unsafe.Slice((*byte)(unsafe.Pointer(&kk)), unsafe.Sizeof(kk))
				res.Eval(1)
				res.Count("kernel_flow_keys", 1)
				if !bytes.Equal(kb, want) {
					res.Failf(key+"|kernel", v.Inp, "the kernel stored the flow %v -> %v proto %d under key % x; the control plane computes % x", src, dst, v.Inp.L4, kb, want)
				}
			}
			if n != 1 {
				res.Failf(key+"|kernel", v.Inp, "the kernel created %d conn-state entries for one frame of %v -> %v", n, src, dst)
			}
		case "portrange":
			start, end := uint16(v.Inp.Sport), uint16(v.Inp.Dport)
			enc := bpfPortRange{PortStart: start, PortEnd: end}.Encode()
			res.Eval(1)
			key := fmt.Sprintf("c19-portrange:%d-%d", start, end)
			if !bytes.Equal(enc[:], keBytes(v.Exp.Bytes)) {
				res.Failf(key, v.Inp, "the match-set value written for the port range %d-%d is % x; struct port_range in the kernel reads % x", start, end, enc[:], keBytes(v.Exp.Bytes))
			}
			if ps, pe := ParsePortRange(enc[:]); ps != start || pe != end {
				res.Failf(key+"|parse", v.Inp, "ParsePortRange(Encode(%d-%d)) = %d-%d", start, end, ps, pe)
			}
			// ... and the kernel agrees: a dport(start-end) rule catches exactly the ports of the range
			if start <= end {
				text := fmt.Sprintf("routing {\n  dport(%d-%d) -> x\n  fallback: direct\n}\n", start, end)
				b, err := verifCompileRouting(text, map[string]uint8{"direct": 0, "block": 1, "x": 2}, k.objs, true)
				if err != nil {
					res.Note("routing: " + err.Error())
					break
				}
				if _, err = b.KernspaceSnapshot().BuildKernspace(log, k.objs); err != nil {
					res.Note("BuildKernspace: " + err.Error())
					break
				}
				installed = -1
				_ = k.SetAllAlive([]uint8{0, 1, 2}, 1)
				for pi, port := range []int{int(start), int(end), (int(start) + int(end)) / 2, int(start) - 1, int(end) + 1} {
					if port < 1 || port > 65535 {
						continue
					}
					src := netip.AddrPortFrom(netip.AddrFrom4([4]byte{10, 7, byte(vi), byte(pi)}), uint16(30000+vi))
					dst := netip.AddrPortFrom(netip.MustParseAddr("203.0.113.9"), uint16(port))
					k.ForgetFlow(src, dst, unix.IPPROTO_TCP)
					fr := vFrame{Src: src, Dst: dst, L4: unix.IPPROTO_TCP, TcpFlags: 0x02, SrcMac: [6]byte{2, 0, 0, 0, 1, 1}, DstMac: [6]byte{2, 0, 0, 0, 0, 0xfe}}
					run, err := vRunProg(k.objs.TproxyLanIngressL2, fr.Bytes(), 0)
					if err != nil {
						res.Note("prog run: " + err.Error())
						break
					}
					res.Eval(1)
					inRange := port >= int(start) && port <= int(end)
					if (run.Ret == vTcRedirect) != inRange {
						res.Failf(key+"|kernel", v.Inp, "rule dport(%d-%d) -> x: the kernel program returns %d for destination port %d (in range: %v)", start, end, run.Ret, port, inRange)
					}
					k.ForgetFlow(src, dst, unix.IPPROTO_TCP)
				}
			}
		case "domain":
			a16 := keAddr(v.Inp.Addr).As16()
			words := common.Ipv6ByteSliceToUint32Array(a16[:])
			got := make([]byte, 16)
			for i, w := range words {
				binary.NativeEndian.PutUint32(got[i*4:], w)
			}
			res.Eval(1)
			if !bytes.Equal(got, keBytes(v.Exp.Bytes)) {
				res.Failf(fmt.Sprintf("c19-domain:%v", keAddr(v.Inp.Addr)), v.Inp, "domain-table key for %v is % x in memory; the kernel keys the table by the address bytes % x", keAddr(v.Inp.Addr), got, keBytes(v.Exp.Bytes))
			}
		}
	}
}
