//go:build verif

package control

import (
	"bytes"
	"fmt"
	"net"
	"net/netip"
	"strings"
	"testing"
	"time"

	"github.com/daeuniverse/dae/pkg/verifutil"
	"github.com/daeuniverse/outbound/pool"
	"golang.org/x/sys/unix"
)

// behaviours of spec/IngressBatch.tla on the real udpIngressBatchReader over a real loopback UDP socket (IP_RECVORIGDSTADDR set, as the
// tproxy listener has it): what Take hands out is what arrived - own bytes, own source, own original destination, in arrival order -
// and a buffer handed to a task is never written again while the task holds it.
type ibEvent struct {
	Ev  string `json:"ev"`
	S   string `json:"s"`
	D   string `json:"d"`
	N   int    `json:"n"`
	Got []int  `json:"got"`
}
type ibBehaviour struct {
	Hist []ibEvent `json:"hist"`
}

func TestVerifC13Ingress(t *testing.T) {
	bs, err := verifutil.ReadLines[ibBehaviour]("VERIF_IN")
	if err != nil {
		t.Fatal(err)
	}
	res := verifutil.NewResult()
	defer func() {
		if err := res.Write(); err != nil {
			t.Fatal(err)
		}
	}()
	lc, err := net.ListenUDP("udp4", &net.UDPAddr{IP: net.IPv4zero, Port: 0})
	if err != nil {
		t.Fatal(err)
	}
	defer lc.Close()
	rc, _ := lc.SyscallConn()
	_ = rc.Control(func(fd uintptr) { _ = unix.SetsockoptInt(int(fd), unix.SOL_IP, unix.IP_RECVORIGDSTADDR, 1) })
	port := lc.LocalAddr().(*net.UDPAddr).Port
	dests := map[string]netip.AddrPort{"d1": netip.AddrPortFrom(netip.MustParseAddr("127.0.0.1"), uint16(port)), "d2": netip.AddrPortFrom(netip.MustParseAddr("127.0.0.2"), uint16(port))}
	senders := map[string]*net.UDPConn{}
	for _, s := range []string{"s1", "s2", "s3"} {
		c, err := net.ListenUDP("udp4", &net.UDPAddr{IP: net.IPv4(127, 0, 0, 1), Port: 0})
		if err != nil {
			t.Fatal(err)
		}
		defer c.Close()
		senders[s] = c
	}
	reader := newUDPIngressBatchReader(lc, 2)
	if reader == nil {
		t.Fatal("no batch reader for the listener")
	}
	defer reader.Close()
	type sentDg struct {
		data []byte
		src  netip.AddrPort
		dst  netip.AddrPort
	}
	serial := 0
	for bi := range bs {
		b := &bs[bi]
		res.Case()
		if bi < 2 {
			res.Sample(b.Hist)
		}
		var sent []sentDg
		held := map[int]pool.PB{} // datagram id -> the buffer its task holds
		var trail []string
		fail := func(suffix, format string, a ...any) {
			res.Failf("c13ingress:"+strings.Join(trail, ";")+suffix, append([]string(nil), trail...), "%v: %s", trail, fmt.Sprintf(format, a...))
		}
		ok := true
		nread := 0
		for _, ev := range b.Hist {
			if !ok {
				break
			}
			switch ev.Ev {
			case "send":
				serial++
				data := []byte(fmt.Sprintf("datagram-%06d-%s-%s-", serial, ev.S, ev.D))
				data = append(data, bytes.Repeat([]byte{byte(serial)}, 20+serial%700)...)
				trail = append(trail, fmt.Sprintf("%s sends #%d to %s", ev.S, len(sent)+1, ev.D))
				if _, err := senders[ev.S].WriteToUDPAddrPort(data, dests[ev.D]); err != nil {
					t.Fatalf("send: %v", err)
				}
				sent = append(sent, sentDg{data: data, src: senders[ev.S].LocalAddr().(*net.UDPAddr).AddrPort(), dst: dests[ev.D]})
			case "read":
				trail = append(trail, "ReadBatch")
				_ = lc.SetReadDeadline(time.Now().Add(5 * time.Second))
				n, err := reader.ReadBatch()
				res.Eval(1)
				if err != nil {
					fail("|read", "ReadBatch failed although %d datagrams are queued: %v", ev.N, err)
					ok = false
					break
				}
				if n != ev.N {
					fail("|count", "ReadBatch returned %d datagrams, %d are queued (batch size 2)", n, ev.N)
					ok = false
					break
				}
				nread = n
			case "take":
				trail = append(trail, "the loop takes the batch")
				for i := 0; i < nread; i++ {
					id := ev.Got[i]
					pkt, src, oob, took := reader.Take(i)
					res.Eval(1)
					if !took {
						fail("|take", "Take(%d) handed nothing out; datagram #%d was read", i, id)
						ok = false
						break
					}
					want := sent[id-1]
					if !bytes.Equal(pkt, want.data) {
						fail("|bytes", "slot %d holds %d bytes %q..., datagram #%d is %d bytes %q...", i, len(pkt), pkt[:min(24, len(pkt))], id, len(want.data), want.data[:24])
						ok = false
						break
					}
					if src != want.src {
						fail("|src", "datagram #%d is reported from %v, it was sent by %v", id, src, want.src)
						ok = false
						break
					}
					if od := RetrieveOriginalDest(oob); od != want.dst {
						fail("|dst", "datagram #%d carries the original destination %v, it was sent to %v", id, od, want.dst)
						ok = false
						break
					}
					held[id] = pkt
				}
				nread = 0
			case "finish":
				trail = append(trail, fmt.Sprintf("the task of #%d ends", ev.N))
				if pb, okh := held[ev.N]; okh {
					pb.Put()
					delete(held, ev.N)
				}
			}
			// a buffer a task still holds is the task's alone: whatever was read since, it still carries its datagram
			for id, pb := range held {
				res.Eval(1)
				if !bytes.Equal(pb, sent[id-1].data) {
					fail("|shared", "the buffer handed to the task of datagram #%d was overwritten while the task still holds it", id)
					ok = false
					break
				}
			}
		}
		// drain what the behaviour left queued so that the next one starts from an empty socket
		for _, pb := range held {
			pb.Put()
		}
		for {
			_ = lc.SetReadDeadline(time.Now().Add(20 * time.Millisecond))
			n, err := reader.ReadBatch()
			if err != nil || n == 0 {
				break
			}
			for i := 0; i < n; i++ {
				if pb, _, _, took := reader.Take(i); took {
					pb.Put()
				}
			}
		}
		_ = lc.SetReadDeadline(time.Time{})
	}
}
