//go:build verif

package control

import (
	"context"
	"fmt"
	"io"
	"math/rand"
	"net"
	"net/netip"
	"strings"
	"sync"
	"testing"
	"time"

	"github.com/daeuniverse/dae/common/assets"
	"github.com/daeuniverse/dae/common/consts"
	componentdns "github.com/daeuniverse/dae/component/dns"
	"github.com/daeuniverse/dae/config"
	"github.com/daeuniverse/dae/pkg/config_parser"
	"github.com/daeuniverse/dae/pkg/verifutil"
	dnsmessage "github.com/miekg/dns"
	"github.com/sirupsen/logrus"
)

// behaviours emitted by spec/DnsRoute.tla (EmitBehaviour)
type c07Step struct {
	Srv  string             `json:"srv"`
	From string             `json:"from"`
	Ans  []verifutil.C07Rec `json:"ans"`
	Dec  string             `json:"dec"`
}
type c07Query struct {
	Q struct {
		Name  []string `json:"name"`
		Qtype string   `json:"qtype"`
	} `json:"q"`
	Route string             `json:"route"`
	Src   string             `json:"src"`
	Steps []c07Step          `json:"steps"`
	Kind  string             `json:"kind"`
	Ans   []verifutil.C07Rec `json:"ans"`
}
type c07Behaviour struct {
	Cfg  verifutil.C07Cfg `json:"cfg"`
	Hist []c07Query       `json:"hist"`
}

// what each fake server answers: AnsOf of the model
func c07Profile(p int, srv, qt string) []verifutil.C07Rec {
	a4 := func(a, b, c, d int) verifutil.C07Addr { return verifutil.C07Addr{Fam: 4, B: []int{a, b, c, d}} }
	v6 := func(last int) verifutil.C07Addr {
		return verifutil.C07Addr{Fam: 6, B: []int{253, 0, 0, 0, 0, 0, 0, 0, 0, 0, 0, 0, 0, 0, 0, last}}
	}
	doc6 := verifutil.C07Addr{Fam: 6, B: []int{32, 1, 13, 184, 0, 0, 0, 0, 0, 0, 0, 0, 0, 0, 0, 1}}
	rec := func(t string, ip verifutil.C07Addr) verifutil.C07Rec { return verifutil.C07Rec{T: t, Ip: ip} }
	none := verifutil.C07Addr{}
	if p == 1 {
		switch {
		case srv == "s1" && qt == "A":
			return []verifutil.C07Rec{rec("A", a4(10, 1, 2, 3))}
		case srv == "s1" && qt == "AAAA":
			return []verifutil.C07Rec{rec("AAAA", v6(1))}
		case srv == "s2" && qt == "A":
			return []verifutil.C07Rec{rec("A", a4(11, 0, 0, 0))}
		case srv == "s2" && qt == "AAAA":
			return nil
		}
		return []verifutil.C07Rec{rec("TXT", none)}
	}
	switch {
	case srv == "s1" && qt == "A":
		return []verifutil.C07Rec{rec("CNAME", none), rec("A", a4(11, 0, 0, 0)), rec("A", a4(10, 0, 0, 0))}
	case srv == "s1" && qt == "AAAA":
		return []verifutil.C07Rec{rec("AAAA", doc6)}
	case srv == "s2" && qt == "A":
		return []verifutil.C07Rec{rec("A", a4(10, 1, 2, 3))}
	case srv == "s2" && qt == "AAAA":
		return []verifutil.C07Rec{rec("AAAA", v6(1)), rec("A", a4(11, 0, 0, 0))}
	}
	return nil
}

var c07Servers = map[string]string{"192.0.2.1": "s1", "192.0.2.2": "s2"}

type c07Writer struct {
	mu  sync.Mutex
	msg *dnsmessage.Msg
}

func (w *c07Writer) LocalAddr() net.Addr  { return nil }
func (w *c07Writer) RemoteAddr() net.Addr { return nil }
func (w *c07Writer) WriteMsg(m *dnsmessage.Msg) error {
	w.mu.Lock()
	defer w.mu.Unlock()
	w.msg = m.Copy()
	return nil
}
func (w *c07Writer) Write([]byte) (int, error) { return 0, nil }
func (w *c07Writer) Close() error              { return nil }
func (w *c07Writer) TsigStatus() error         { return nil }
func (w *c07Writer) TsigTimersOnly(bool)       {}
func (w *c07Writer) Hijack()                   {}

type c07Forwarder struct {
	forward func(ctx context.Context, data []byte) (*dnsmessage.Msg, error)
}

func (f *c07Forwarder) ForwardDNS(ctx context.Context, data []byte) (*dnsmessage.Msg, error) {
	return f.forward(ctx, data)
}
func (f *c07Forwarder) Close() error { return nil }

func c07RecsOf(rrs []dnsmessage.RR) string {
	var s []string
	for _, rr := range rrs {
		switch b := rr.(type) {
		case *dnsmessage.A:
			ip, _ := netip.AddrFromSlice(b.A)
			s = append(s, "A "+ip.Unmap().String())
		case *dnsmessage.AAAA:
			ip, _ := netip.AddrFromSlice(b.AAAA)
			s = append(s, "AAAA "+ip.String())
		case *dnsmessage.CNAME:
			s = append(s, "CNAME")
		case *dnsmessage.TXT:
			s = append(s, "TXT")
		default:
			s = append(s, fmt.Sprintf("type%d", rr.Header().Rrtype))
		}
	}
	return "[" + strings.Join(s, ", ") + "]"
}

func c07RunOne(b *c07Behaviour, rng *rand.Rand, res *verifutil.Result) {
	text := verifutil.C07Render(&b.Cfg)
	log := logrus.New()
	log.SetOutput(io.Discard)
	// one configuration generation: dns.New + a DnsController (the URLs behind the declarations may be exchanged by a reload)
	build := func(urls map[string]string) (*componentdns.Dns, *DnsController, bool) {
		t := verifutil.C07RenderUrls(&b.Cfg, urls)
		sections, err := config_parser.Parse(t)
		if err != nil {
			res.Failf("c07:build:"+t, t, "a well-formed dns section was refused by the parser: %v\n%s", err, t)
			return nil, nil, false
		}
		conf, err := config.New(sections)
		if err != nil {
			res.Failf("c07:build:"+t, t, "a well-formed dns section was refused: %v\n%s", err, t)
			return nil, nil, false
		}
		routing, err := componentdns.New(&conf.Dns, &componentdns.NewOption{
			Logger:                  log,
			LocationFinder:          assets.NewLocationFinder(nil),
			UpstreamReadyCallback:   func(*componentdns.Upstream) error { return nil },
			UpstreamResolverNetwork: "udp",
		})
		if err != nil {
			res.Failf("c07:build:"+t, t, "a well-formed dns section was refused by dns.New: %v\n%s", err, t)
			return nil, nil, false
		}
		ctrl, err := NewDnsController(routing, &DnsControllerOption{
			Log:                 log,
			LifecycleContext:    context.Background(),
			CacheAccessCallback: func(*DnsCache) error { return nil },
			CacheRemoveCallback: func(*DnsCache) error { return nil },
			NewCache: func(fqdn string, answers, ns, extra []dnsmessage.RR, deadline, originalDeadline time.Time) (*DnsCache, error) {
				return &DnsCache{DomainBitmap: make([]uint32, 32), Answer: answers, NS: ns, Extra: extra, Deadline: deadline, OriginalDeadline: originalDeadline}, nil
			},
		})
		if err != nil {
			res.Note("NewDnsController: " + err.Error())
			return nil, nil, false
		}
		rt := *ctrl.runtime()
		rt.bestDialerChooser = func(ctx context.Context, req *udpRequest, upstream *componentdns.Upstream) (*dialArgument, error) {
			tgt := netip.AddrPortFrom(upstream.Ip46.Ip4, upstream.Port)
			return &dialArgument{l4proto: consts.L4ProtoStr_UDP, ipversion: consts.IpVersionStr_4, bestTarget: tgt}, nil
		}
		ctrl.runtimeState.Store(&rt)
		return routing, ctrl, true
	}
	routing, ctrl, ok := build(verifutil.C07Urls)
	if !ok {
		return
	}
	defer func() { _ = ctrl.Close() }()
	swapped := false

	var mu sync.Mutex
	var sends []string
	dnsForwarderFactory = func(upstream *componentdns.Upstream, dialArg dialArgument, _ *logrus.Logger) (DnsForwarder, error) {
		srv := c07Servers[upstream.Hostname]
		return &c07Forwarder{forward: func(ctx context.Context, data []byte) (*dnsmessage.Msg, error) {
			var q dnsmessage.Msg
			if err := q.Unpack(data); err != nil || len(q.Question) != 1 {
				return nil, fmt.Errorf("fake upstream: bad query")
			}
			mu.Lock()
			sends = append(sends, srv)
			mu.Unlock()
			qt := "TXT"
			switch q.Question[0].Qtype {
			case dnsmessage.TypeA:
				qt = "A"
			case dnsmessage.TypeAAAA:
				qt = "AAAA"
			}
			r := new(dnsmessage.Msg)
			r.SetReply(&q)
			r.Answer = verifutil.C07Answer(q.Question[0].Name, c07Profile(b.Cfg.Profile, srv, qt))
			return r, nil
		}}, nil
	}

	cfgText := "request {\n" + verifutil.C07Rules(b.Cfg.Req, b.Cfg.ReqFb) + "} response {\n" + verifutil.C07Rules(b.Cfg.Resp, b.Cfg.RespFb) + fmt.Sprintf("} answers=profile%d", b.Cfg.Profile)
	var trail []string
	for _, st := range b.Hist {
		name := dnsmessage.Fqdn(strings.TrimSuffix(verifutil.C07Spell(st.Q.Name, rng), "."))
		trail = append(trail, strings.ToLower(name)+" "+st.Q.Qtype)
		key := "c07:flow:" + cfgText + "|" + strings.Join(trail, ";")
		req := &udpRequest{
			realSrc:       netip.MustParseAddrPort("192.0.2.10:41000"),
			realDst:       netip.MustParseAddrPort("192.0.2.1:53"), // the client's own resolver is the same server as u1 / u3
			routingResult: &bpfRoutingResult{},
		}
		if st.Src == "reload" {
			// a new generation: same declarations, the resolvers behind u1/u3 and u2 exchanged; the cache is carried over
			trail[len(trail)-1] = "reload(upstream URLs exchanged)"
			swapped = !swapped
			urls := verifutil.C07Urls
			if swapped {
				urls = verifutil.C07SwappedUrls
			}
			r2, c2, ok := build(urls)
			if !ok {
				return
			}
			c2.RestoreReloadCache(ctrl.CloneCacheForReload(), nil, time.Now())
			_ = ctrl.Close()
			routing, ctrl = r2, c2
			continue
		}
		baseKey := ctrl.cacheKey(name, verifutil.C07Qtypes[st.Q.Qtype])
		if st.Src == "preload" {
			// an answer carried over from before, scoped as the controller scopes it
			var ck string
			switch st.Route {
			case "asis":
				ck = ctrl.responseCacheKey(baseKey, req, consts.DnsRequestOutboundIndex_AsIs, nil)
			case "s1":
				ck = ctrl.responseCacheKey(baseKey, req, 0, &componentdns.Upstream{Scheme: "udp", Hostname: "192.0.2.1", Port: 53})
			default:
				ck = ctrl.responseCacheKey(baseKey, req, 1, &componentdns.Upstream{Scheme: "udp", Hostname: "192.0.2.2", Port: 53})
			}
			m := new(dnsmessage.Msg)
			m.SetQuestion(name, verifutil.C07Qtypes[st.Q.Qtype])
			m.Response = true
			m.Answer = verifutil.C07Answer(name, st.Ans)
			if err := ctrl.NormalizeAndCacheDnsResp_(m, ck); err != nil {
				res.Note("preload: " + err.Error())
				return
			}
			trail[len(trail)-1] = "cached(" + st.Route + "):" + trail[len(trail)-1]
			continue
		}
		cachedBefore := 0
		ctrl.dnsCache.Range(func(k, _ any) bool {
			if ks, ok := k.(string); ok && dnsCacheBaseKey(ks) == baseKey {
				cachedBefore++
			}
			return true
		})
		// matcher level, through the exported entry point
		idx, _, err := routing.RequestSelect(context.Background(), name, verifutil.C07Qtypes[st.Q.Qtype])
		res.Eval(1)
		if err != nil || verifutil.C07ReqName(uint8(idx)) != st.Route {
			res.Failf(key+"|route", text, "%s\nquestion %q %s is routed to %s (err %v); the first matching request rule (or the fallback) says %s", cfgText, name, st.Q.Qtype, verifutil.C07ReqName(uint8(idx)), err, st.Route)
			return
		}
		q := new(dnsmessage.Msg)
		q.SetQuestion(name, verifutil.C07Qtypes[st.Q.Qtype])
		q.Id = uint16(rng.Intn(65536))
		wantId := q.Id
		w := &c07Writer{}
		mu.Lock()
		sends = nil
		mu.Unlock()
		done := make(chan error, 1)
		go func() {
			defer func() {
				if r := recover(); r != nil {
					done <- fmt.Errorf("PANIC: %v", r)
				}
			}()
			done <- ctrl.HandleWithResponseWriter_(context.Background(), q, req, w)
		}()
		var herr error
		select {
		case herr = <-done:
		case <-time.After(20 * time.Second):
			res.Failf(key+"|hang", text, "%s\nquestions %v: the controller did not finish within 20 s (a rule set must not be able to loop)", cfgText, trail)
			return
		}
		mu.Lock()
		got := append([]string(nil), sends...)
		mu.Unlock()
		var want []string
		for _, s := range st.Steps {
			want = append(want, s.Srv)
		}
		res.Eval(2)
		if len(got) > MaxDnsLookupDepth {
			res.Failf(key+"|bound", text, "%s\nquestions %v: %d upstream queries for one client question %v, the bound is %d", cfgText, trail, len(got), got, MaxDnsLookupDepth)
			return
		}
		if strings.Join(got, ",") != strings.Join(want, ",") {
			why := ""
			switch st.Src {
			case "reject":
				why = " (the question is routed to reject: nobody is asked, even though an answer is cached)"
			case "cache":
				why = " (an answer obtained through the same upstream is cached)"
			default:
				var ds []string
				for _, s := range st.Steps {
					ds = append(ds, fmt.Sprintf("%s(%s)%s=>%s", s.From, s.Srv, verifutil.C07AnsText(s.Ans), s.Dec))
				}
				why = " (rule by rule: " + strings.Join(ds, " ; ") + ")"
			}
			res.Failf(key, text, "%s\nquestions %v: the servers asked were %v, the rules say %v%s", cfgText, trail, got, want, why)
			return
		}
		if st.Kind == "error" {
			if herr == nil {
				res.Failf(key, text, "%s\nquestions %v: the lookup depth is exhausted after %v yet the controller reported success", cfgText, trail, got)
				return
			}
			res.Count("c07_depth_exhausted", 1)
			continue
		}
		if herr != nil {
			res.Failf(key, text, "%s\nquestions %v: the controller failed: %v", cfgText, trail, herr)
			return
		}
		w.mu.Lock()
		reply := w.msg
		w.mu.Unlock()
		if reply == nil {
			res.Failf(key, text, "%s\nquestions %v: no reply was written to the client", cfgText, trail)
			return
		}
		if gotA, wantA := c07RecsOf(reply.Answer), verifutil.C07AnsText(st.Ans); gotA != wantA {
			res.Failf(key, text, "%s\nquestions %v: the client received %s, the rules say %s (source: %s)", cfgText, trail, gotA, wantA, st.Src)
			return
		}
		if reply.Id != wantId || len(reply.Question) != 1 || !strings.EqualFold(reply.Question[0].Name, name) || reply.Question[0].Qtype != verifutil.C07Qtypes[st.Q.Qtype] || !reply.Response {
			res.Failf(key+"|id", text, "%s\nquestions %v: the reply is not for the question asked: id %d (asked %d), question %v", cfgText, trail, reply.Id, wantId, reply.Question)
			return
		}
		res.Count("c07_"+st.Src, 1)
		if st.Src == "reject" && cachedBefore > 0 {
			res.Count("c07_reject_with_cached_answer", 1)
			left := 0
			ctrl.dnsCache.Range(func(k, _ any) bool {
				if ks, ok := k.(string); ok && dnsCacheBaseKey(ks) == baseKey {
					left++
				}
				return true
			})
			if left > 0 {
				res.AddDrift(fmt.Sprintf("%v: %d cached answers of the rejected question were kept (the model purges the family)", trail, left))
			}
		}
		res.Count(fmt.Sprintf("c07_asks_%d", len(got)), 1)
	}
}

func TestVerifC07Flow(t *testing.T) {
	bs, err := verifutil.ReadLines[c07Behaviour]("VERIF_IN")
	if err != nil {
		t.Fatal(err)
	}
	res := verifutil.NewResult()
	defer func() {
		if err := res.Write(); err != nil {
			t.Fatal(err)
		}
	}()
	orig := dnsForwarderFactory
	defer func() { dnsForwarderFactory = orig }()
	rng := rand.New(rand.NewSource(verifutil.Seed()))
	for bi := range bs {
		res.Case()
		if bi < 2 {
			res.Sample(bs[bi].Hist)
		}
		c07RunOne(&bs[bi], rng, res)
	}
}
