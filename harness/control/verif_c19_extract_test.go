//go:build verif

package control

import (
	"encoding/json"
	"fmt"
	"go/ast"
	"go/parser"
	"go/token"
	"os"
	"reflect"
	"testing"

	"github.com/daeuniverse/dae/common/consts"
)

// Declarations as the ABI model (spec/AbiLayout.tla) consumes them: a struct is a sequence of fields, a field is a
// scalar of some size, a nested struct, or an array of either.
type abiField struct {
	Name   string `json:"name"`
	Kind   string `json:"kind"`   // "scalar" | "struct"
	Size   int    `json:"size"`   // scalar size in bytes
	Struct string `json:"struct"` // nested declaration name
	Count  int    `json:"count"`  // array length, 0 when not an array
	Offset int    `json:"offset"` // compiler truth (bytes)
}
type abiDecl struct {
	Name   string     `json:"name"`
	Union  bool       `json:"union"`
	Size   int        `json:"size"` // compiler truth
	Fields []abiField `json:"fields"`
}
type abiDump struct {
	Flavour string               `json:"flavour"`
	Go      map[string]abiDecl   `json:"go"`    // Go declarations + reflect truth
	C       map[string]abiDecl   `json:"c"`     // C declarations + BTF truth (real flavour only)
	Param   []abiField           `json:"param"` // the PARAM literal of bpf_utils.go (from the source)
	Enums   map[string]int64     `json:"enums"` // Go constants
	CEnums  map[string]int64     `json:"cenums"`
	Pairs   map[string]string    `json:"pairs"` // C struct -> Go type
	Notes   []string             `json:"notes"`
}

func abiGoDecl(out map[string]abiDecl, name string, t reflect.Type) {
	if _, ok := out[name]; ok {
		return
	}
	d := abiDecl{Name: name, Size: int(t.Size())}
	out[name] = d // reserve (recursion)
	for i := 0; i < t.NumField(); i++ {
		f := t.Field(i)
		if f.Type.Size() == 0 {
			continue // structs.HostLayout marker
		}
		fname := f.Name
		if fname == "_" {
			fname = fmt.Sprintf("_pad%d", f.Offset)
		}
		af := abiField{Name: fname, Offset: int(f.Offset)}
		ft := f.Type
		if ft.Kind() == reflect.Array {
			af.Count = ft.Len()
			ft = ft.Elem()
		}
		if ft.Kind() == reflect.Struct {
			af.Kind = "struct"
			af.Struct = name + "." + fname
			abiGoDecl(out, af.Struct, ft)
		} else if ft.Kind() == reflect.Array {
			// array of arrays: flatten to bytes
			af.Kind, af.Size, af.Count = "scalar", int(ft.Elem().Size()), af.Count*ft.Len()
		} else {
			af.Kind, af.Size = "scalar", int(ft.Size())
		}
		d.Fields = append(d.Fields, af)
	}
	out[name] = d
}

// the PARAM struct literal, taken from the source text of bpf_utils.go
func abiParamLiteral() ([]abiField, error) {
	fset := token.NewFileSet()
	f, err := parser.ParseFile(fset, "bpf_utils.go", nil, 0)
	if err != nil {
		return nil, err
	}
	var fields []abiField
	ast.Inspect(f, func(n ast.Node) bool {
		kv, ok := n.(*ast.KeyValueExpr)
		if !ok {
			return true
		}
		if lit, ok := kv.Key.(*ast.BasicLit); !ok || lit.Value != "\"PARAM\"" {
			return true
		}
		cl, ok := kv.Value.(*ast.CompositeLit)
		if !ok {
			return true
		}
		st, ok := cl.Type.(*ast.StructType)
		if !ok {
			return true
		}
		sizes := map[string]int{"uint8": 1, "byte": 1, "bool": 1, "uint16": 2, "uint32": 4, "uint64": 8, "int32": 4, "int64": 8}
		for _, fl := range st.Fields.List {
			for _, nm := range fl.Names {
				af := abiField{Name: nm.Name, Kind: "scalar"}
				switch tt := fl.Type.(type) {
				case *ast.Ident:
					af.Size = sizes[tt.Name]
				case *ast.ArrayType:
					if id, ok := tt.Elt.(*ast.Ident); ok {
						af.Size = sizes[id.Name]
					}
					if bl, ok := tt.Len.(*ast.BasicLit); ok {
						fmt.Sscan(bl.Value, &af.Count)
					}
				}
				fields = append(fields, af)
			}
		}
		return false
	})
	if len(fields) == 0 {
		return nil, fmt.Errorf("PARAM literal not found in bpf_utils.go")
	}
	return fields, nil
}

func TestVerifC19Extract(t *testing.T) {
	d := abiDump{Flavour: abiFlavour, Go: map[string]abiDecl{}, C: map[string]abiDecl{}, Enums: map[string]int64{}, CEnums: map[string]int64{}, Pairs: map[string]string{}}
	for cname, v := range abiGoTypes() {
		abiGoDecl(d.Go, cname, reflect.TypeOf(v))
		d.Pairs[cname] = cname
	}
	if p, err := abiParamLiteral(); err == nil {
		d.Param = p
	} else {
		d.Notes = append(d.Notes, err.Error())
	}
	// Go side of the shared enumerations and limits
	for i := consts.MatchType_DomainSet; i <= consts.MatchType_QType; i++ {
		d.Enums[fmt.Sprintf("MatchType.%d", int(i))] = int64(i)
	}
	d.Enums["MatchType_DomainSet"], d.Enums["MatchType_IpSet"], d.Enums["MatchType_SourceIpSet"] = int64(consts.MatchType_DomainSet), int64(consts.MatchType_IpSet), int64(consts.MatchType_SourceIpSet)
	d.Enums["MatchType_Port"], d.Enums["MatchType_SourcePort"], d.Enums["MatchType_L4Proto"] = int64(consts.MatchType_Port), int64(consts.MatchType_SourcePort), int64(consts.MatchType_L4Proto)
	d.Enums["MatchType_IpVersion"], d.Enums["MatchType_Mac"], d.Enums["MatchType_ProcessName"] = int64(consts.MatchType_IpVersion), int64(consts.MatchType_Mac), int64(consts.MatchType_ProcessName)
	d.Enums["MatchType_Dscp"], d.Enums["MatchType_Fallback"], d.Enums["MatchType_MustRules"] = int64(consts.MatchType_Dscp), int64(consts.MatchType_Fallback), int64(consts.MatchType_MustRules)
	d.Enums["MatchType_Upstream"], d.Enums["MatchType_QType"] = int64(consts.MatchType_Upstream), int64(consts.MatchType_QType)
	d.Enums["L4ProtoType_TCP"], d.Enums["L4ProtoType_UDP"], d.Enums["L4ProtoType_X"] = int64(consts.L4ProtoType_TCP), int64(consts.L4ProtoType_UDP), int64(consts.L4ProtoType_X)
	d.Enums["IpVersionType_4"], d.Enums["IpVersionType_6"], d.Enums["IpVersionType_X"] = int64(consts.IpVersion_4), int64(consts.IpVersion_6), int64(consts.IpVersion_X)
	d.Enums["OUTBOUND_DIRECT"], d.Enums["OUTBOUND_BLOCK"], d.Enums["OUTBOUND_MUST_RULES"] = int64(consts.OutboundDirect), int64(consts.OutboundBlock), int64(consts.OutboundMustRules)
	d.Enums["OUTBOUND_CONTROL_PLANE_ROUTING"], d.Enums["OUTBOUND_LOGICAL_OR"], d.Enums["OUTBOUND_LOGICAL_AND"] = int64(consts.OutboundControlPlaneRouting), int64(consts.OutboundLogicalOr), int64(consts.OutboundLogicalAnd)
	d.Enums["OUTBOUND_LOGICAL_MASK"] = int64(consts.OutboundLogicalMask)
	d.Enums["MAX_MATCH_SET_LEN"] = int64(consts.MaxMatchSetLen)
	d.Enums["TASK_COMM_LEN"] = int64(consts.TaskCommLen)
	d.Enums["TPROXY_MARK"] = int64(consts.TproxyMark)
	d.Enums["IPPROTO_TCP"], d.Enums["IPPROTO_UDP"] = int64(consts.IPPROTO_TCP), int64(consts.IPPROTO_UDP)
	d.Enums["outboundConnectivitySlotsPerOutbound"] = int64(outboundConnectivitySlotsPerOutbound)
	abiExtractC(&d)
	b, _ := json.MarshalIndent(d, "", " ")
	if err := os.WriteFile(os.Getenv("VERIF_OUT"), b, 0o644); err != nil {
		t.Fatal(err)
	}
}
