//go:build verif && !dae_stub_ebpf

package control

import (
	"fmt"
	"os"
	"sync"

	"github.com/cilium/ebpf"
	"github.com/cilium/ebpf/rlimit"
)

var verifRlimitOnce sync.Once

// verifLoadBpf loads the production eBPF collection (all programs pass the kernel verifier, all maps
// are created) without pinning anything. Returns an error when the BPF syscall is unavailable; the
// callers turn that into an infrastructure failure, never into a violation.
func verifLoadBpf(customize func(spec *ebpf.CollectionSpec) error) (*bpfObjects, error) {
	verifRlimitOnce.Do(func() { _ = rlimit.RemoveMemlock() })
	var objs bpfObjects
	cust := func(spec *ebpf.CollectionSpec) error {
		for _, m := range spec.Maps {
			if m != nil {
				m.Pinning = ebpf.PinNone
			}
		}
		if customize != nil {
			return customize(spec)
		}
		return nil
	}
	constants := map[string]interface{}{}
	if err := loadBpfObjectsWithConstantsAndCustomizer(&objs, nil, constants, cust); err != nil {
		return nil, fmt.Errorf("BPF unavailable: %w", err)
	}
	return &objs, nil
}

func verifBpfRequired() bool { return os.Getenv("VERIF_NO_BPF") == "" }
