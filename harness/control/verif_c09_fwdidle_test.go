//go:build verif

package control

import (
	"context"
	"errors"
	"fmt"
	"strings"
	"sync"
	"testing"
	"testing/synctest"
	"time"

	"github.com/daeuniverse/dae/common/consts"
	componentdns "github.com/daeuniverse/dae/component/dns"
	"github.com/daeuniverse/dae/pkg/verifutil"
	dnsmessage "github.com/miekg/dns"
	"github.com/sirupsen/logrus"
)

// which harness actor a goroutine is (goroutine id -> name), set by the goroutine before it enters the code under test
var fiActor sync.Map

// behaviours emitted by spec/FwdIdle.tla
type fiBehaviour struct {
	Hist []struct {
		Ev  string `json:"ev"`
		Who string `json:"who"`
		X   string `json:"x"`
	} `json:"hist"`
}

// an upstream forwarder that holds every exchange until the harness answers it, and records its own life
type fiForwarder struct {
	w        *fiWorld
	id       int
	mu       sync.Mutex
	inFlight int
	closes   int
	// violations of the property observed on the real object
	closedInUse    bool
	usedAfterClose bool
}

type fiExchange struct {
	f      *fiForwarder
	answer chan error
}

type fiWorld struct {
	mu       sync.Mutex
	fws      []*fiForwarder
	started  chan *fiExchange // an exchange has reached the upstream
	parked   chan string      // a goroutine reached a yield point
	releases map[string]chan struct{}
}

func (f *fiForwarder) ForwardDNS(ctx context.Context, data []byte) (*dnsmessage.Msg, error) {
	f.mu.Lock()
	if f.closes > 0 {
		f.usedAfterClose = true
	}
	f.inFlight++
	f.mu.Unlock()
	ex := &fiExchange{f: f, answer: make(chan error, 1)}
	f.w.started <- ex
	err := <-ex.answer
	f.mu.Lock()
	f.inFlight--
	f.mu.Unlock()
	if err != nil {
		return nil, err
	}
	var q dnsmessage.Msg
	if uerr := q.Unpack(data); uerr != nil {
		return nil, uerr
	}
	r := new(dnsmessage.Msg)
	r.SetReply(&q)
	return r, nil
}

func (f *fiForwarder) Close() error {
	f.mu.Lock()
	defer f.mu.Unlock()
	f.closes++
	if f.inFlight > 0 {
		f.closedInUse = true
	}
	return nil
}

func TestVerifC09FwdIdle(t *testing.T) {
	bs, err := verifutil.ReadLines[fiBehaviour]("VERIF_IN")
	if err != nil {
		t.Fatal(err)
	}
	res := verifutil.NewResult()
	defer func() {
		if err := res.Write(); err != nil {
			t.Fatal(err)
		}
	}()
	origFactory := dnsForwarderFactory
	defer func() { dnsForwarderFactory = origFactory; verifYieldHook = nil }()
	for bi := range bs {
		b := &bs[bi]
		res.Case()
		if bi < 2 {
			res.Sample(b.Hist)
		}
		synctest.Test(t, func(t *testing.T) {
			w := &fiWorld{started: make(chan *fiExchange, 8), parked: make(chan string, 8), releases: map[string]chan struct{}{}}
			dnsForwarderFactory = func(*componentdns.Upstream, dialArgument, *logrus.Logger) (DnsForwarder, error) {
				w.mu.Lock()
				defer w.mu.Unlock()
				f := &fiForwarder{w: w, id: len(w.fws) + 1}
				w.fws = append(w.fws, f)
				return f, nil
			}
			var whoMu sync.Mutex
			verifYieldHook = func(point string, arg any) {
				if point != "dnsfwd.acquired" && point != "dnsfwd.evict.idle" {
					return
				}
				name, _ := fiActor.Load(vGoid())
				if name == nil {
					return
				}
				key := name.(string) + "@" + point
				whoMu.Lock()
				ch := make(chan struct{})
				w.releases[key] = ch
				whoMu.Unlock()
				w.parked <- key
				<-ch
			}
			log := verifLogger()
			ctrl := &DnsController{dnsControllerStore: &dnsControllerStore{}, log: log, dnsForwarderIdleTTL: 2 * time.Minute}
			upstream := &componentdns.Upstream{Scheme: "udp", Hostname: "192.0.2.1", Port: 53}
			dialArg := &dialArgument{l4proto: consts.L4ProtoStr_UDP, ipversion: consts.IpVersionStr_4}
			query := new(dnsmessage.Msg)
			query.SetQuestion("idle.test.", dnsmessage.TypeA)
			data, _ := query.Pack()
			type clientState struct {
				done chan error
				ex   *fiExchange
			}
			clients := map[string]*clientState{}
			var jdone chan struct{}
			var trail []string
			release := func(key string) {
				whoMu.Lock()
				ch := w.releases[key]
				delete(w.releases, key)
				whoMu.Unlock()
				if ch != nil {
					close(ch)
				}
			}
			drift := ""
			waitPark := func(want string) bool {
				synctest.Wait()
				select {
				case got := <-w.parked:
					if got != want {
						drift = fmt.Sprintf("%v: reached %s, the model expects %s", trail, got, want)
						return false
					}
					return true
				default:
					drift = fmt.Sprintf("%v: nobody reached %s", trail, want)
					return false
				}
			}
			for _, ev := range b.Hist {
				if drift != "" {
					break
				}
				switch ev.Ev {
				case "acquire":
					cs := clients[ev.Who]
					if cs == nil { // a new query of this client
						cs = &clientState{done: make(chan error, 1)}
						clients[ev.Who] = cs
						name := ev.Who
						trail = append(trail, name+" asks the cache for the forwarder")
						go func() {
							fiActor.Store(vGoid(), name)
							defer fiActor.Delete(vGoid())
							_, err := ctrl.forwardWithDialArg(context.Background(), upstream, dialArg, data)
							cs.done <- err
						}()
					} else {
						drift = fmt.Sprintf("%v: %s already has a query running", trail, ev.Who)
						break
					}
					if !waitPark(ev.Who + "@dnsfwd.acquired") {
						break
					}
				case "begin":
					trail = append(trail, ev.Who+" begins its exchange")
					release(ev.Who + "@dnsfwd.acquired")
					synctest.Wait()
					switch ev.X {
					case "ok":
						select {
						case ex := <-w.started:
							clients[ev.Who].ex = ex
						default:
							drift = fmt.Sprintf("%v: the exchange did not reach the upstream", trail)
						}
					case "retired-again": // the forwarder was retired meanwhile: the caller has asked the cache once more
						trail[len(trail)-1] += " (retired: asks the cache again)"
						waitPark(ev.Who + "@dnsfwd.acquired")
					case "retired-giveup":
						trail[len(trail)-1] += " (retired again: gives up)"
						select {
						case <-clients[ev.Who].done:
							delete(clients, ev.Who)
						default:
							drift = fmt.Sprintf("%v: the query did not return", trail)
						}
					}
				case "answer":
					cs := clients[ev.Who]
					if cs == nil || cs.ex == nil {
						drift = fmt.Sprintf("%v: no exchange of %s is in flight", trail, ev.Who)
						break
					}
					if ev.X == "ok" {
						trail = append(trail, "the upstream answers "+ev.Who)
						cs.ex.answer <- nil
					} else {
						trail = append(trail, "the exchange of "+ev.Who+" fails")
						cs.ex.answer <- errors.New("read udp: i/o timeout")
					}
					synctest.Wait()
					select {
					case <-cs.done:
					default:
						drift = fmt.Sprintf("%v: the query of %s did not return", trail, ev.Who)
					}
					delete(clients, ev.Who)
				case "tick":
					trail = append(trail, "+3min")
					time.Sleep(3 * time.Minute)
				case "jcheck":
					trail = append(trail, "the janitor looks at the cache")
					jdone = make(chan struct{})
					jd := jdone
					go func() {
						fiActor.Store(vGoid(), "j")
						defer fiActor.Delete(vGoid())
						ctrl.evictIdleDnsForwarders(time.Now())
						close(jd)
					}()
					if ev.X == "chosen" {
						if !waitPark("j@dnsfwd.evict.idle") {
							break
						}
					} else {
						synctest.Wait()
						select {
						case <-jd:
						default:
							drift = fmt.Sprintf("%v: the janitor chose a forwarder the model keeps", trail)
						}
					}
				case "jfinish":
					trail = append(trail, "the janitor removes and ends the forwarder it chose")
					release("j@dnsfwd.evict.idle")
					synctest.Wait()
					select {
					case <-jdone:
					default:
						drift = fmt.Sprintf("%v: the janitor did not finish", trail)
					}
				}
				// the property layer on the real forwarders, after every step
				w.mu.Lock()
				fws := append([]*fiForwarder(nil), w.fws...)
				w.mu.Unlock()
				for _, f := range fws {
					f.mu.Lock()
					closes, inUse, after := f.closes, f.closedInUse, f.usedAfterClose
					f.mu.Unlock()
					res.Eval(1)
					key := "c09fwd:" + strings.Join(trail, ";")
					switch {
					case inUse:
						res.Failf(key+"|inuse", append([]string(nil), trail...), "%v: upstream forwarder #%d was closed while an exchange was using it", trail, f.id)
						drift = "violation reported"
					case after:
						res.Failf(key+"|after", append([]string(nil), trail...), "%v: an exchange was started on upstream forwarder #%d after it had been closed", trail, f.id)
						drift = "violation reported"
					case closes > 1:
						res.Failf(key+"|twice", append([]string(nil), trail...), "%v: upstream forwarder #%d was closed %d times", trail, f.id, closes)
						drift = "violation reported"
					}
				}
			}
			if drift != "" && drift != "violation reported" {
				res.AddDrift(drift)
				res.Count("c09fwd_drift", 1)
			}
			// let everything finish so that the bubble can end
			verifYieldHook = nil
			whoMu.Lock()
			for k, ch := range w.releases {
				close(ch)
				delete(w.releases, k)
			}
			whoMu.Unlock()
			for _, cs := range clients {
				if cs.ex != nil {
					select {
					case cs.ex.answer <- errors.New("teardown"):
					default:
					}
				}
			}
			for i := 0; i < 8; i++ {
				synctest.Wait()
				select {
				case ex := <-w.started:
					ex.answer <- errors.New("teardown")
				case <-w.parked:
				default:
				}
			}
			synctest.Wait()
		})
	}
}
