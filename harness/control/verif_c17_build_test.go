//go:build verif

package control

import (
	"fmt"
	"math/big"
	"reflect"
	"strings"
	"testing"
	"time"

	"github.com/daeuniverse/dae/config"
	"github.com/daeuniverse/dae/pkg/config_parser"
	"github.com/daeuniverse/dae/pkg/verifutil"
)

type cbVector struct {
	P struct {
		Op   string `json:"op"`
		Sec  string `json:"sec"`
		Kc   string `json:"kc"`
		N    int    `json:"n"`
		Kind string `json:"kind"`
	} `json:"p"`
	Outcome string `json:"outcome"`
}

// schema of section "global", read from the code
type cbKey struct {
	key, def string
	hasDef   bool
	typ      reflect.Type
	field    int
}

func cbGlobalSchema() []cbKey {
	var out []cbKey
	t := reflect.TypeOf(config.Global{})
	for i := 0; i < t.NumField(); i++ {
		f := t.Field(i)
		k := f.Tag.Get("mapstructure")
		if k == "_" || k == "" || k == "so_mark_from_dae_set" {
			continue
		}
		d, has := f.Tag.Lookup("default")
		out = append(out, cbKey{key: k, def: d, hasDef: has, typ: f.Type, field: i})
	}
	return out
}

func cbClass(k cbKey) string {
	suffix := "-nodefault"
	if k.hasDef {
		suffix = "-default"
	}
	switch {
	case k.typ == reflect.TypeOf(time.Duration(0)):
		return "duration" + suffix
	case k.typ.Kind() == reflect.String:
		return "string" + suffix
	case k.typ.Kind() == reflect.Bool:
		return "bool" + suffix
	case k.typ.Kind() == reflect.Slice:
		return "list" + suffix
	default:
		return "number" + suffix
	}
}

func cbSampleValue(k cbKey) (text string, check func(v reflect.Value) bool) {
	switch {
	case k.typ == reflect.TypeOf(time.Duration(0)):
		return "7s", func(v reflect.Value) bool { return v.Interface().(time.Duration) == 7*time.Second }
	case k.typ.Kind() == reflect.String:
		return "'custom value'", func(v reflect.Value) bool { return v.String() == "custom value" }
	case k.typ.Kind() == reflect.Bool:
		want := !(k.def == "true")
		return fmt.Sprint(want), func(v reflect.Value) bool { return v.Bool() == want }
	case k.typ.Kind() == reflect.Slice:
		return "x1, 'y 2'", func(v reflect.Value) bool {
			return v.Len() == 2 && v.Index(0).String() == "x1" && v.Index(1).String() == "y 2"
		}
	default:
		return "4321", func(v reflect.Value) bool { return fmt.Sprint(v.Interface()) == "4321" }
	}
}

const cbBase = `
global {
  log_level: info
}
node { n1: 'socks5://127.0.0.1:1080' }
subscription { }
group { g { policy: min } }
dns { upstream { u1: 'udp://8.8.8.8:53' } }
routing { dport(80) -> g
  fallback: direct }
`

func cbBuild(text string) (conf *config.Config, err error, panicked any) {
	defer func() {
		if r := recover(); r != nil {
			panicked = r
		}
	}()
	sections, err := config_parser.Parse(text)
	if err != nil {
		return nil, fmt.Errorf("parse: %w", err), nil
	}
	conf, err = config.New(sections)
	return conf, err, nil
}

func TestVerifC17Build(t *testing.T) {
	vecs, err := verifutil.ReadLines[cbVector]("VERIF_IN")
	if err != nil {
		t.Fatal(err)
	}
	res := verifutil.NewResult()
	defer func() {
		if err := res.Write(); err != nil {
			t.Fatal(err)
		}
	}()
	schema := cbGlobalSchema()
	res.Count("global_keys_from_reflection", len(schema))
	dropSection := func(text, sec string) string {
		lines := strings.Split(text, "\n")
		var out []string
		skip := false
		for _, l := range lines {
			if strings.HasPrefix(l, sec+" {") {
				if !strings.Contains(l, "}") || strings.Count(l, "{") > strings.Count(l, "}") {
					skip = true
				}
				continue
			}
			if skip {
				if strings.HasSuffix(strings.TrimSpace(l), "}") && !strings.Contains(l, "{") {
					skip = false
				}
				continue
			}
			out = append(out, l)
		}
		return strings.Join(out, "\n")
	}
	judge := func(key string, text string, outcome string, check func(c *config.Config) string) {
		res.Eval(1)
		conf, err, p := cbBuild(text)
		switch {
		case p != nil:
			res.Failf(key+"|panic", text, "building the configuration crashed (%v):\n%s", p, text)
		case outcome == "error":
			if err == nil {
				res.Failf(key, text, "this configuration must be rejected with an error but was accepted:\n%s", text)
			}
		default:
			if err != nil {
				res.Failf(key, text, "valid configuration rejected (%v):\n%s", err, text)
			} else if check != nil {
				if d := check(conf); d != "" {
					res.Failf(key, text, "%s:\n%s", d, text)
				}
			}
		}
	}
	for vi, v := range vecs {
		res.Case()
		if vi < 3 {
			res.Sample(v)
		}
		key := fmt.Sprintf("c17-build:%s:%s:%s:%d:%s", v.P.Op, v.P.Sec, v.P.Kc, v.P.N, v.P.Kind)
		switch v.P.Op {
		case "base":
			judge(key, cbBase, v.Outcome, nil)
		case "drop_section":
			judge(key, dropSection(cbBase, v.P.Sec), v.Outcome, nil)
		case "unknown_section":
			judge(key, cbBase+"\nmystery { a: b }\n", v.Outcome, nil)
		case "unknown_key":
			var text string
			switch v.P.Sec {
			case "global":
				text = strings.Replace(cbBase, "log_level: info", "log_level: info\n  no_such_option: 1", 1)
			case "dns":
				text = strings.Replace(cbBase, "dns {", "dns { no_such_option: 1 ", 1)
			case "group":
				text = strings.Replace(cbBase, "policy: min", "policy: min\n no_such_option: 1", 1)
			case "routing":
				text = strings.Replace(cbBase, "fallback: direct", "fallback: direct\n no_such_option: 1", 1)
			}
			judge(key, text, v.Outcome, nil)
		case "keyless_text":
			if v.P.Sec == "global" {
				judge(key, strings.Replace(cbBase, "log_level: info", "log_level: info\n  stray_text", 1), v.Outcome, nil)
			} else {
				judge(key, strings.Replace(cbBase, "fallback: direct", "fallback: direct\n stray_text", 1), v.Outcome, nil)
			}
		case "rule_outside_routing":
			judge(key, strings.Replace(cbBase, "log_level: info", "log_level: info\n  dport(80) -> direct", 1), v.Outcome, nil)
		case "missing_required_key":
			judge(key, strings.Replace(cbBase, "policy: min", "", 1), v.Outcome, nil)
		case "absent_key", "set_key", "wrong_type", "number_max", "number_over":
			// every key of the class, as found in the code
			for _, k := range schema {
				if cbClass(k) != v.P.Kc {
					continue
				}
				k := k
				kkey := key + ":" + k.key
				res.Count("key_cases", 1)
				switch v.P.Op {
				case "absent_key":
					judge(kkey, strings.Replace(cbBase, "log_level: info", "", 1), v.Outcome, func(c *config.Config) string {
						got := reflect.ValueOf(c.Global).Field(k.field)
						if !k.hasDef {
							if !got.IsZero() {
								return fmt.Sprintf("key %s has no default but reads back as %v when absent", k.key, got.Interface())
							}
							return ""
						}
						// the documented default, decoded the way a user-written value would be
						conf2, err2, _ := cbBuild(strings.Replace(cbBase, "log_level: info", k.key+": '"+k.def+"'", 1))
						if err2 != nil {
							return fmt.Sprintf("the documented default %q of %s is itself rejected: %v", k.def, k.key, err2)
						}
						want := reflect.ValueOf(conf2.Global).Field(k.field)
						if !reflect.DeepEqual(got.Interface(), want.Interface()) {
							return fmt.Sprintf("key %s absent: value %v, documented default %v", k.key, got.Interface(), want.Interface())
						}
						return ""
					})
				case "set_key":
					val, chk := cbSampleValue(k)
					if k.key == "tcp_check_http_method" {
						continue // its value is normalised by a documented patch (unknown methods fall back to CONNECT)
					}
					text := strings.Replace(cbBase, "log_level: info", k.key+": "+val, 1)
					if _, verr, vp := cbBuild(text); vp == nil && verr != nil && !strings.Contains(verr.Error(), "unexpected key") && !strings.Contains(verr.Error(), "cannot be convert") {
						res.Count("value_validated_keys", 1)
						continue // the option validates its value (e.g. ip:port syntax): out of scope of the typed-layer rules
					}
					judge(kkey, text, v.Outcome, func(c *config.Config) string {
						if !chk(reflect.ValueOf(c.Global).Field(k.field)) {
							return fmt.Sprintf("key %s written as %s reads back as %v", k.key, val, reflect.ValueOf(c.Global).Field(k.field).Interface())
						}
						return ""
					})
				case "wrong_type":
					judge(kkey, strings.Replace(cbBase, "log_level: info", k.key+": 'zz top'", 1), v.Outcome, nil)
				case "number_max", "number_over":
					// the limit of the field the key is decoded into (its width is read from the code)
					max := new(big.Int)
					switch k.typ.Kind() {
					case reflect.Uint, reflect.Uint8, reflect.Uint16, reflect.Uint32, reflect.Uint64:
						max.Sub(new(big.Int).Lsh(big.NewInt(1), uint(k.typ.Bits())), big.NewInt(1))
					case reflect.Int, reflect.Int8, reflect.Int16, reflect.Int32, reflect.Int64:
						max.Sub(new(big.Int).Lsh(big.NewInt(1), uint(k.typ.Bits()-1)), big.NewInt(1))
					default:
						continue
					}
					val := new(big.Int).Set(max)
					if v.P.Op == "number_over" {
						val.Add(val, big.NewInt(1))
					}
					text := strings.Replace(cbBase, "log_level: info", k.key+": "+val.String(), 1)
					if v.P.Op == "number_max" {
						if _, verr, vp := cbBuild(text); vp == nil && verr != nil && !strings.Contains(verr.Error(), "unexpected key") && !strings.Contains(verr.Error(), "cannot be convert") {
							res.Count("value_validated_keys", 1)
							continue // the option validates its value beyond its type
						}
					}
					judge(kkey, text, v.Outcome, func(c *config.Config) string {
						if got := fmt.Sprint(reflect.ValueOf(c.Global).Field(k.field).Interface()); got != val.String() {
							return fmt.Sprintf("key %s written as %s reads back as %s", k.key, val, got)
						}
						return ""
					})
				}
			}
		case "program_size":
			// executed against real kernel maps by TestVerifC17Oversize (real build)
			cbProgramSize(res, key, v.P.N, v.P.Kind, v.Outcome)
		}
	}
}

var cbProgramSize = func(res *verifutil.Result, key string, n int, kind string, outcome string) {}

func cbProgramText(n int, kind string) string {
	var sb strings.Builder
	sb.WriteString("routing {\n")
	for i := 0; i < n-1; i++ {
		switch {
		case kind == "port" || (kind == "mixed" && i%3 != 0):
			fmt.Fprintf(&sb, " dport(%d) -> g\n", 1+i%60000)
		default:
			// neighbouring single-condition rules with one outbound are merged into one match set: alternate the outbound
			fmt.Fprintf(&sb, " domain(full: h%d.example) -> %s\n", i, []string{"g", "block"}[i%2])
		}
	}
	sb.WriteString(" fallback: direct\n}\n")
	return sb.String()
}
