//go:build verif

package control

import (
	"context"
	"encoding/binary"
	"fmt"
	"io"
	"net"
	"net/netip"
	"os"
	"strings"
	"sync"
	"sync/atomic"
	"testing"
	"testing/synctest"
	"time"

	"github.com/daeuniverse/dae/common/consts"
	componentdns "github.com/daeuniverse/dae/component/dns"
	"github.com/daeuniverse/dae/config"
	"github.com/daeuniverse/dae/pkg/verifutil"
	"github.com/daeuniverse/outbound/netproxy"
	dnsmessage "github.com/miekg/dns"
	"github.com/sirupsen/logrus"
)

// behaviours emitted by spec/DnsConc.tla
type c09Reply struct {
	Kind string `json:"kind"`
	Id   int    `json:"id"`
	Q    string `json:"q"`
}
type c09Event struct {
	E struct {
		Ev string `json:"ev"`
		C  string `json:"c"`
		K  int    `json:"k"`
		Q  string `json:"q"`
	} `json:"e"`
	Obs struct {
		Replies map[string]c09Reply `json:"replies"`
		Nreqs   int                 `json:"nreqs"`
		Closed  []int               `json:"closed"`
	} `json:"obs"`
}
type c09Behaviour struct {
	Transport string            `json:"transport"`
	Hist      []c09Event        `json:"hist"`
	Cid       map[string]int    `json:"cid"`
	Qof       map[string]string `json:"qof"`
	Rcode     string            `json:"rcode"`
}

// Two ways of making the questions qa / qb different: by name (default), or - VERIF_C09_QMODE=type - by record type only:
// the same name asked for A and for CAA (type 257, whose low byte equals A's).
var c09ByType = os.Getenv("VERIF_C09_QMODE") == "type"

func c09Name(q string) string {
	if c09ByType {
		return "q.test."
	}
	return q + ".test."
}
func c09Type(q string) uint16 {
	if c09ByType && q != "qa" {
		return dnsmessage.TypeCAA
	}
	return dnsmessage.TypeA
}
func c09RR(q string) dnsmessage.RR {
	hdr := dnsmessage.RR_Header{Name: c09Name(q), Rrtype: c09Type(q), Class: dnsmessage.ClassINET, Ttl: 300}
	if c09Type(q) == dnsmessage.TypeCAA {
		return &dnsmessage.CAA{Hdr: hdr, Flag: 0, Tag: "issue", Value: "ca.example"}
	}
	return &dnsmessage.A{Hdr: hdr, A: c09IP(q)}
}
func c09IP(q string) net.IP {
	if q == "qa" {
		return net.IPv4(198, 51, 100, 1).To4()
	}
	return net.IPv4(198, 51, 100, 2).To4()
}

type c09Timeout struct{}

func (c09Timeout) Error() string   { return "i/o timeout" }
func (c09Timeout) Timeout() bool   { return true }
func (c09Timeout) Temporary() bool { return true }

// the fake upstream server: remembers every request with the channel it came in on
type c09Req struct {
	udp *c09UdpConn
	tcp net.Conn // server side of the pipe
	id  uint16
	q   string
}
type c09Server struct {
	mu   sync.Mutex
	reqs []c09Req
}

func (s *c09Server) record(r c09Req) {
	s.mu.Lock()
	s.reqs = append(s.reqs, r)
	s.mu.Unlock()
}
func (s *c09Server) count() int {
	s.mu.Lock()
	defer s.mu.Unlock()
	return len(s.reqs)
}

// a UDP socket towards the fake server
type c09UdpConn struct {
	srv      *c09Server
	inbox    chan []byte
	closed   chan struct{}
	once     sync.Once
	deadline atomic.Int64
	closes   atomic.Int32
}

func (c *c09UdpConn) Write(p []byte) (int, error) {
	select {
	case <-c.closed:
		return 0, net.ErrClosed
	default:
	}
	var m dnsmessage.Msg
	if err := m.Unpack(p); err != nil || len(m.Question) != 1 {
		return 0, fmt.Errorf("fake server: bad query")
	}
	c.srv.record(c09Req{udp: c, id: m.Id, q: strings.ToLower(m.Question[0].Name)})
	return len(p), nil
}
func (c *c09UdpConn) Read(p []byte) (int, error) {
	var timer <-chan time.Time
	if d := c.deadline.Load(); d != 0 {
		wait := time.Until(time.Unix(0, d))
		if wait <= 0 {
			return 0, c09Timeout{}
		}
		t := time.NewTimer(wait)
		defer t.Stop()
		timer = t.C
	}
	select {
	case d := <-c.inbox:
		return copy(p, d), nil
	case <-c.closed:
		return 0, net.ErrClosed
	case <-timer:
		return 0, c09Timeout{}
	}
}
func (c *c09UdpConn) Close() error {
	c.closes.Add(1)
	c.once.Do(func() { close(c.closed) })
	return nil
}
func (c *c09UdpConn) SetDeadline(t time.Time) error {
	if t.IsZero() {
		c.deadline.Store(0)
	} else {
		c.deadline.Store(t.UnixNano())
	}
	return nil
}
func (c *c09UdpConn) SetReadDeadline(t time.Time) error  { return c.SetDeadline(t) }
func (c *c09UdpConn) SetWriteDeadline(t time.Time) error { return nil }

// the forwarder the controller caches: a real DoUDP / DoTCP over fake conns, with use and close accounting
type c09Fwd struct {
	inner      DnsForwarder
	gen        int
	inUse      atomic.Int32
	closes     atomic.Int32
	closedBusy atomic.Bool
	usedAfter  atomic.Bool
}

func (f *c09Fwd) ForwardDNS(ctx context.Context, data []byte) (*dnsmessage.Msg, error) {
	if f.closes.Load() > 0 {
		f.usedAfter.Store(true)
	}
	f.inUse.Add(1)
	defer f.inUse.Add(-1)
	return f.inner.ForwardDNS(ctx, data)
}
func (f *c09Fwd) Close() error {
	if f.inUse.Load() > 0 {
		f.closedBusy.Store(true)
	}
	f.closes.Add(1)
	return f.inner.Close()
}

type c09Result struct {
	done bool
	err  error
	msg  *dnsmessage.Msg
}

// a response writer as a listener's is: the message is packed when WriteMsg is called. The goroutine yields first (1 us of virtual
// time: every other runnable goroutine, in particular the other waiters of the same resolution, runs up to its own WriteMsg), which is
// the schedule "A stamps its id, B stamps its id, A packs".
type c09Writer struct{ c07Writer }

func (w *c09Writer) WriteMsg(m *dnsmessage.Msg) error {
	time.Sleep(time.Microsecond)
	return w.c07Writer.WriteMsg(m)
}

func c09Answer(req c09Req, q string, rcode string) []byte {
	r := new(dnsmessage.Msg)
	r.Id = req.id
	r.Response = true
	r.RecursionAvailable = true
	r.Question = []dnsmessage.Question{{Name: c09Name(q), Qtype: c09Type(q), Qclass: dnsmessage.ClassINET}}
	if rcode == "nx" {
		r.Rcode = dnsmessage.RcodeNameError
	} else {
		r.Answer = []dnsmessage.RR{c09RR(q)}
	}
	b, err := r.Pack()
	if err != nil {
		panic(err)
	}
	return b
}

func c09RunOne(t *testing.T, b *c09Behaviour, res *verifutil.Result) {
	log := logrus.New()
	log.SetOutput(io.Discard)
	routing, err := componentdns.New(&config.Dns{
		Routing: config.DnsRouting{Request: config.DnsRequestRouting{Fallback: "asis"}, Response: config.DnsResponseRouting{Fallback: "accept"}},
	}, &componentdns.NewOption{Logger: log, UpstreamReadyCallback: func(*componentdns.Upstream) error { return nil }})
	if err != nil {
		res.Note("dns.New: " + err.Error())
		return
	}
	ctrl, err := NewDnsController(routing, &DnsControllerOption{
		Log: log, LifecycleContext: context.Background(),
		CacheAccessCallback: func(*DnsCache) error { return nil },
		CacheRemoveCallback: func(*DnsCache) error { return nil },
		NewCache: func(fqdn string, answers, ns, extra []dnsmessage.RR, deadline, originalDeadline time.Time) (*DnsCache, error) {
			return &DnsCache{DomainBitmap: make([]uint32, 32), Answer: answers, NS: ns, Extra: extra, Deadline: deadline, OriginalDeadline: originalDeadline}, nil
		},
	})
	if err != nil {
		res.Note("NewDnsController: " + err.Error())
		return
	}
	defer func() { _ = ctrl.Close() }()
	l4 := consts.L4ProtoStr_UDP
	if b.Transport == "tcp" {
		l4 = consts.L4ProtoStr_TCP
	}
	rt := *ctrl.runtime()
	rt.bestDialerChooser = func(ctx context.Context, req *udpRequest, upstream *componentdns.Upstream) (*dialArgument, error) {
		return &dialArgument{l4proto: l4, ipversion: consts.IpVersionStr_4, bestTarget: req.realDst}, nil
	}
	ctrl.runtimeState.Store(&rt)

	srv := &c09Server{}
	var fmu sync.Mutex
	var fwds []*c09Fwd
	var udpConns []*c09UdpConn
	dialUdp := func(context.Context) (netproxy.Conn, error) {
		c := &c09UdpConn{srv: srv, inbox: make(chan []byte, 32), closed: make(chan struct{})}
		fmu.Lock()
		udpConns = append(udpConns, c)
		fmu.Unlock()
		return c, nil
	}
	dialTcp := func(context.Context) (netproxy.Conn, error) {
		client, server := net.Pipe()
		go func() {
			defer func() { _ = server.Close() }()
			for {
				var hdr [2]byte
				if _, err := io.ReadFull(server, hdr[:]); err != nil {
					return
				}
				buf := make([]byte, binary.BigEndian.Uint16(hdr[:]))
				if _, err := io.ReadFull(server, buf); err != nil {
					return
				}
				var m dnsmessage.Msg
				if err := m.Unpack(buf); err != nil || len(m.Question) != 1 {
					return
				}
				srv.record(c09Req{tcp: server, id: m.Id, q: strings.ToLower(m.Question[0].Name)})
			}
		}()
		return client, nil
	}
	dnsForwarderFactory = func(up *componentdns.Upstream, dialArg dialArgument, _ *logrus.Logger) (DnsForwarder, error) {
		fmu.Lock()
		defer fmu.Unlock()
		f := &c09Fwd{gen: len(fwds) + 1}
		if b.Transport == "udp" {
			f.inner = &DoUDP{dialArgument: dialArg, pool: newUdpConnPool(dnsUdpPoolMaxIdle, dnsUdpPoolMaxActive, dialUdp),
				profile: UdpLifecycleProfile{Kind: UdpLifecycleKindDnsTransactional, PooledConnIdleTTL: dnsUdpDirectPoolMaxIdleTime}}
		} else {
			d := &DoTCP{dialArgument: dialArg}
			d.getOrInit(func() *connPool { return newConnPool(4, dialTcp) })
			f.inner = d
		}
		fwds = append(fwds, f)
		return f, nil
	}

	var rmu sync.Mutex
	results := map[string]*c09Result{}
	starts := map[string]time.Time{}
	var trail []string
	cfg := b.Transport
	fail := func(suffix, format string, a ...any) {
		res.Failf("c09:"+cfg+":"+strings.Join(trail, ";")+suffix, append([]string(nil), trail...), "[%s] %v: %s", cfg, trail, fmt.Sprintf(format, a...))
	}
	for _, ev := range b.Hist {
		switch ev.E.Ev {
		case "arrive":
			c := ev.E.C
			trail = append(trail, fmt.Sprintf("%s asks %s id=%d", c, b.Qof[c], b.Cid[c]))
			// leaders start at distinct instants (their deadlines pass in starting order), without crossing the
			// deadline of anybody still waiting
			gap := time.Millisecond
			rmu.Lock()
			for o, r := range results {
				if !r.done {
					if left := time.Until(starts[o].Add(5 * time.Second)); left > 0 && gap >= left/2 {
						gap = left / 2
					}
				}
			}
			rmu.Unlock()
			time.Sleep(gap)
			q := new(dnsmessage.Msg)
			q.SetQuestion(c09Name(b.Qof[c]), c09Type(b.Qof[c]))
			q.Id = uint16(b.Cid[c])
			w := &c09Writer{}
			req := &udpRequest{realSrc: netip.MustParseAddrPort("192.0.2.10:41000"), realDst: netip.MustParseAddrPort("192.0.2.1:53"), routingResult: &bpfRoutingResult{}}
			r := &c09Result{}
			rmu.Lock()
			results[c] = r
			starts[c] = time.Now()
			rmu.Unlock()
			go func() {
				err := ctrl.HandleWithResponseWriter_(context.Background(), q, req, w)
				w.mu.Lock()
				m := w.msg
				w.mu.Unlock()
				rmu.Lock()
				r.done, r.err, r.msg = true, err, m
				rmu.Unlock()
			}()
		case "send":
			srv.mu.Lock()
			if ev.E.K > len(srv.reqs) {
				srv.mu.Unlock()
				res.AddDrift(fmt.Sprintf("%v: the server has seen %d requests, the model answers request %d", trail, len(srv.reqs), ev.E.K))
				return
			}
			rq := srv.reqs[ev.E.K-1]
			srv.mu.Unlock()
			trail = append(trail, fmt.Sprintf("server answers request %d (%s id=%d) with an answer for %s", ev.E.K, strings.TrimSuffix(rq.q, ".test."), rq.id, ev.E.Q))
			data := c09Answer(rq, ev.E.Q, b.Rcode)
			if rq.udp != nil {
				select {
				case <-rq.udp.closed:
				default:
					rq.udp.inbox <- data
				}
			} else {
				frame := make([]byte, 2+len(data))
				binary.BigEndian.PutUint16(frame, uint16(len(data)))
				copy(frame[2:], data)
				go func() { _, _ = rq.tcp.Write(frame) }()
			}
		case "timeout":
			c := ev.E.C
			trail = append(trail, fmt.Sprintf("%s's upstream exchange times out", c))
			rmu.Lock()
			st := starts[c]
			rmu.Unlock()
			// just past c's deadline, before anybody else's
			next := 20 * time.Millisecond
			rmu.Lock()
			for o, r := range results {
				if o != c && !r.done && starts[o].After(st) {
					if d := starts[o].Sub(st) / 2; d < next {
						next = d
					}
				}
			}
			rmu.Unlock()
			if wait := time.Until(st.Add(5*time.Second + next)); wait > 0 {
				time.Sleep(wait)
			}
		}
		synctest.Wait()
		time.Sleep(5 * time.Microsecond) // the response writers' yield (c09Writer) has to elapse
		synctest.Wait()

		// ---- observations
		rmu.Lock()
		for c, want := range ev.Obs.Replies {
			r := results[c]
			res.Eval(1)
			got := "none"
			if r != nil && r.done {
				if r.err != nil || r.msg == nil {
					got = "err"
				} else {
					got = "msg"
				}
			}
			if got == "msg" {
				m := r.msg
				okq := len(m.Question) == 1 && strings.EqualFold(m.Question[0].Name, c09Name(b.Qof[c])) && m.Question[0].Qtype == c09Type(b.Qof[c])
				oka := true
				for _, rr := range m.Answer {
					if !strings.EqualFold(rr.Header().Name, c09Name(b.Qof[c])) || rr.Header().Rrtype != c09Type(b.Qof[c]) {
						oka = false
					}
				}
				if b.Rcode == "nx" && m.Rcode != dnsmessage.RcodeNameError {
					oka = false
				}
				if int(m.Id) != b.Cid[c] || !okq || !oka || !m.Response {
					rmu.Unlock()
					fail("|reply", "client %s (id %d, question %s type %d) was sent a reply with id %d, question %v, answers %v", c, b.Cid[c], c09Name(b.Qof[c]), c09Type(b.Qof[c]), m.Id, m.Question, m.Answer)
					return
				}
			}
			if want.Kind == "msg" && got != "msg" {
				var e error
				if r != nil {
					e = r.err
				}
				rmu.Unlock()
				fail("|noanswer", "client %s has no reply (%s, err %v) although the upstream answered its question and nothing failed", c, got, e)
				return
			}
			if want.Kind != got {
				res.AddDrift(fmt.Sprintf("%v: client %s is %s, model %s", trail, c, got, want.Kind))
			}
		}
		rmu.Unlock()
		res.Eval(1)
		if n := srv.count(); n > ev.Obs.Nreqs {
			fail("|resolutions", "the upstream has received %d requests, %d are explained by distinct questions / cache misses (identical concurrent questions must share one resolution)", n, ev.Obs.Nreqs)
			return
		} else if n < ev.Obs.Nreqs {
			res.AddDrift(fmt.Sprintf("%v: upstream saw %d requests, model %d", trail, n, ev.Obs.Nreqs))
		}
		fmu.Lock()
		for i, f := range fwds {
			res.Eval(1)
			if f.closes.Load() > 1 || f.closedBusy.Load() || f.usedAfter.Load() {
				fmu.Unlock()
				fail("|close", "upstream forwarder #%d: closed %d times, closed while in use: %v, used after close: %v", f.gen, f.closes.Load(), f.closedBusy.Load(), f.usedAfter.Load())
				return
			}
			if i < len(ev.Obs.Closed) {
				if want := ev.Obs.Closed[i]; want == 1 && f.closes.Load() == 0 {
					fmu.Unlock()
					fail("|leak", "upstream forwarder #%d was retired and its last exchange is over, but it was not closed", f.gen)
					return
				} else if want != int(f.closes.Load()) {
					res.AddDrift(fmt.Sprintf("%v: forwarder #%d closed %d times, model %d", trail, f.gen, f.closes.Load(), want))
				}
			}
		}
		fmu.Unlock()
	}
	// what is cached must answer the name it is cached under
	ctrl.dnsCache.Range(func(k, v any) bool {
		ks, _ := k.(string)
		cache, ok := v.(*DnsCache)
		if !ok {
			return true
		}
		res.Eval(1)
		for _, rr := range cache.Answer {
			owner := strings.ToLower(strings.TrimSuffix(rr.Header().Name, "."))
			if !strings.HasPrefix(ks, owner) {
				fail("|cache", "the cache holds an answer for %q under key %q", rr.Header().Name, ks)
				return false
			}
		}
		return true
	})
	res.Count("c09_"+b.Transport, 1)
}

func TestVerifC09(t *testing.T) {
	bs, err := verifutil.ReadLines[c09Behaviour]("VERIF_IN")
	if err != nil {
		t.Fatal(err)
	}
	res := verifutil.NewResult()
	defer func() {
		if err := res.Write(); err != nil {
			t.Fatal(err)
		}
	}()
	orig := dnsForwarderFactory
	defer func() { dnsForwarderFactory = orig }()
	// one bubble for all behaviours: the code keeps channels in process-wide pools (responseSlotPool), and a channel
	// made in one bubble must not be used from another
	synctest.Test(t, func(t *testing.T) {
		for bi := range bs {
			b := &bs[bi]
			res.Case()
			if bi < 2 {
				res.Sample(b.Hist)
			}
			c09RunOne(t, b, res)
			synctest.Wait()
		}
	})
}
