//go:build verif && !dae_stub_ebpf

package control

import (
	"encoding/binary"
	"fmt"
	"net/netip"
	"strings"
	"testing"

	"github.com/cilium/ebpf"
	"github.com/daeuniverse/dae/common/consts"
	"github.com/daeuniverse/dae/pkg/trie"
	"github.com/daeuniverse/dae/pkg/verifutil"
)

// vectors emitted by spec/Cidr.tla
type c12Pfx struct {
	Fam int   `json:"fam"`
	B   []int `json:"b"`
	Len int   `json:"len"`
}
type c12Key struct {
	Prefixlen int   `json:"prefixlen"`
	Data      []int `json:"data"`
}
type c12Case struct {
	Addr struct {
		Fam int   `json:"fam"`
		B   []int `json:"b"`
	} `json:"addr"`
	Exp  bool `json:"exp"`
	Exp2 bool `json:"exp2"`
}
type c12Vector struct {
	Set   []c12Pfx  `json:"set"`
	Set2  []c12Pfx  `json:"set2"`
	Keys  []c12Key  `json:"keys"`
	Cases []c12Case `json:"cases"`
}

func c12Addr(fam int, b []int) netip.Addr {
	if fam == 4 {
		return netip.AddrFrom4([4]byte{byte(b[0]), byte(b[1]), byte(b[2]), byte(b[3])})
	}
	var a [16]byte
	for i := range a {
		a[i] = byte(b[i])
	}
	return netip.AddrFrom16(a)
}

// the prefix exactly as a user would write it (text), parsed the way routing.parsePrefixes does
func c12Prefix(p c12Pfx) (netip.Prefix, string) {
	s := fmt.Sprintf("%s/%d", c12Addr(p.Fam, p.B).String(), p.Len)
	return netip.MustParsePrefix(s), s
}

func c12Prefixes(ps []c12Pfx) ([]netip.Prefix, []string) {
	var out []netip.Prefix
	var txt []string
	for _, p := range ps {
		pp, s := c12Prefix(p)
		out = append(out, pp)
		txt = append(txt, s)
	}
	return out, txt
}

// softLpm is the kernel's LPM trie semantics over the keys the production encoder emitted.
func softLpm(keys []_bpfLpmKey, a [16]byte) bool {
	for _, k := range keys {
		var data [16]byte
		for i, w := range k.Data {
			// the kernel reads Data as raw bytes in memory order
			binary.NativeEndian.PutUint32(data[i*4:], w)
		}
		n := int(k.PrefixLen)
		ok := true
		for i := 0; i < n; i++ {
			if (data[i/8]>>(7-i%8))&1 != (a[i/8]>>(7-i%8))&1 {
				ok = false
				break
			}
		}
		if ok {
			return true
		}
	}
	return false
}

func TestVerifC12(t *testing.T) {
	vecs, err := verifutil.ReadLines[c12Vector]("VERIF_IN")
	if err != nil {
		t.Fatal(err)
	}
	res := verifutil.NewResult()
	defer func() {
		if err := res.Write(); err != nil {
			t.Fatal(err)
		}
	}()
	var objs *bpfObjects
	if verifBpfRequired() {
		objs, err = verifLoadBpf(nil)
		if err != nil {
			res.Note(err.Error())
			t.Fatal(err)
		}
		defer objs.Close()
	}
	kernelEvery := verifutil.EnvInt("VERIF_C12_KERNEL_EVERY", 1)
	ruleEvery := verifutil.EnvInt("VERIF_C12_RULE_EVERY", 1)
	for vi, v := range vecs {
		res.Case()
		set, txt := c12Prefixes(v.Set)
		set2, txt2 := c12Prefixes(v.Set2)
		repl := map[string]any{"set": txt, "set2": txt2}
		if vi < 2 {
			res.Sample(map[string]any{"set": txt, "probes": len(v.Cases)})
		}
		// (a) userspace trie
		tr, err := trie.NewTrieFromPrefixes(set)
		if err != nil {
			res.Failf("trie-build:"+fmt.Sprint(txt), repl, "NewTrieFromPrefixes(%v) failed: %v", txt, err)
			continue
		}
		// (b) kernel key form
		keys := make([]_bpfLpmKey, len(set))
		vals := make([]uint32, len(set))
		for i, p := range set {
			keys[i] = cidrToBpfLpmKey(p)
			vals[i] = 1
			// byte-exact comparison with the spec's LpmKey
			var data [16]byte
			for j, w := range keys[i].Data {
				binary.NativeEndian.PutUint32(data[j*4:], w)
			}
			want := v.Keys[i]
			same := int(keys[i].PrefixLen) == want.Prefixlen
			for j := 0; j < 16; j++ {
				if int(data[j]) != want.Data[j] {
					same = false
				}
			}
			res.Eval(1)
			if !same {
				res.Failf("lpmkey:"+txt[i], repl, "cidrToBpfLpmKey(%s) = {%d %x}, spec LpmKey = {%d %v}", txt[i], keys[i].PrefixLen, data, want.Prefixlen, want.Data)
			}
		}
		var kmap *ebpf.Map
		if objs != nil && vi%kernelEvery == 0 {
			kmap, err = objs.newLpmMap(keys, vals)
			if err != nil {
				res.Note("newLpmMap: " + err.Error())
				t.Fatalf("newLpmMap: %v", err)
			}
		}
		var tr2 *trie.Trie
		if len(set2) > 0 {
			tr2, _ = trie.NewTrieFromPrefixes(set2)
		}
		for _, c := range v.Cases {
			a := c12Addr(c.Addr.Fam, c.Addr.B)
			a16 := a.As16()
			word := trie.Prefix2bin128(netip.PrefixFrom(netip.AddrFrom16(a16), 128))
			got := tr.HasPrefix(word)
			res.Eval(1)
			if got != c.Exp {
				res.Failf(fmt.Sprintf("trie:%v:%s", txt, a), map[string]any{"set": txt, "addr": a.String()},
					"userspace trie over %v says %v for %s, CIDR containment says %v", txt, got, a, c.Exp)
			}
			gotSoft := softLpm(keys, a16)
			res.Eval(1)
			if gotSoft != c.Exp {
				res.Failf(fmt.Sprintf("lpm:%v:%s", txt, a), map[string]any{"set": txt, "addr": a.String()},
					"LPM lookup over emitted keys of %v says %v for %s, CIDR containment says %v", txt, gotSoft, a, c.Exp)
			}
			if kmap != nil {
				lk := _bpfLpmKey{PrefixLen: 128}
				for j := 0; j < 4; j++ {
					lk.Data[j] = binary.NativeEndian.Uint32(a16[j*4:])
				}
				var out uint32
				err := kmap.Lookup(&lk, &out)
				gotK := err == nil
				res.Eval(1)
				res.Count("kernel_lpm_lookups", 1)
				if gotK != c.Exp {
					res.Failf(fmt.Sprintf("klpm:%v:%s", txt, a), map[string]any{"set": txt, "addr": a.String()},
						"kernel LPM trie written from %v says %v for %s, CIDR containment says %v", txt, gotK, a, c.Exp)
				}
			}
			if tr2 != nil {
				got2 := tr2.HasPrefix(word)
				res.Eval(1)
				if got2 != c.Exp2 {
					res.Failf(fmt.Sprintf("trie:%v:%s", txt2, a), map[string]any{"set": txt2, "addr": a.String()},
						"userspace trie over %v says %v for %s, CIDR containment says %v", txt2, got2, a, c.Exp2)
				}
			}
		}
		if kmap != nil {
			kmap.Close()
		}
		// (c)+(d) rule level: dip(set) -> a ; sip(set2) -> b ; fallback c, compiled by the production pipeline
		// (canonicalisation, storage sharing between sets, optimisers). For every probe x the packet
		// (src=x, dst=x) must be routed to a iff x in set, else to b iff x in set2, else to c.
		if vi%ruleEvery == 0 {
			text := "routing {\n dip(" + joinComma(txt) + ") -> a\n"
			if len(set2) > 0 {
				text += " sip(" + joinComma(txt2) + ") -> b\n"
				// a second rule over the *same* text as set 1 and one over set2 again, so that the builder's
				// storage sharing (equal sets share one trie, different ones must not) is exercised
				text += " sip(" + joinComma(txt) + ") && dip(" + joinComma(txt2) + ") -> d\n"
			}
			text += " fallback: c\n}\n"
			n2i := map[string]uint8{"a": 2, "b": 3, "c": 4, "d": 5}
			for _, optimize := range []bool{true, false} {
				b, err := verifCompileRouting(text, n2i, nil, optimize)
				if err != nil {
					res.Failf("rule-build:"+text, text, "compiling %q failed: %v", text, err)
					continue
				}
				m, err := b.BuildUserspace()
				if err != nil {
					res.Failf("rule-build:"+text, text, "BuildUserspace of %q failed: %v", text, err)
					continue
				}
				// source and destination in different relation to the sets: sip(S) and dip(S) share one trie, each must still be
				// asked about its own address. Program: sip(S) && (dip(S2) | dport(9)) -> d ; dip(S) -> a ; sip(S2) -> b ; fallback c
				text2 := "routing {\n sip(" + joinComma(txt) + ") && "
				if len(set2) > 0 {
					text2 += "dip(" + joinComma(txt2) + ") -> d\n"
				} else {
					text2 += "dport(9) -> d\n"
				}
				text2 += " dip(" + joinComma(txt) + ") -> a\n"
				if len(set2) > 0 {
					text2 += " sip(" + joinComma(txt2) + ") -> b\n"
				}
				text2 += " fallback: c\n}\n"
				if b2, err := verifCompileRouting(text2, n2i, nil, optimize); err != nil {
					res.Failf("rule-build:"+text2, text2, "compiling %q failed: %v", text2, err)
				} else if m2, err := b2.BuildUserspace(); err != nil {
					res.Failf("rule-build:"+text2, text2, "BuildUserspace of %q failed: %v", text2, err)
				} else {
					for _, cs := range v.Cases {
						for _, cd := range v.Cases {
							if cs.Addr.Fam != cd.Addr.Fam {
								continue
							}
							s16 := c12Addr(cs.Addr.Fam, cs.Addr.B).As16()
							d16 := c12Addr(cd.Addr.Fam, cd.Addr.B).As16()
							want := uint8(4)
							switch {
							case cs.Exp && len(set2) > 0 && cd.Exp2:
								want = 5
							case cd.Exp:
								want = 2
							case len(set2) > 0 && cs.Exp2:
								want = 3
							}
							var zero [16]byte
							ipv := consts.IpVersion_4
							if cs.Addr.Fam == 6 {
								ipv = consts.IpVersion_6
							}
							got, _, _, err := m2.Match(s16, d16, 1, 2, ipv, consts.L4ProtoType_TCP, "", zero, 0, zero)
							res.Eval(1)
							if err != nil || uint8(got) != want {
								res.Failf(fmt.Sprintf("rule2:%s:%v>%v", text2, c12Addr(cs.Addr.Fam, cs.Addr.B), c12Addr(cd.Addr.Fam, cd.Addr.B)),
									map[string]any{"config": text2, "src": c12Addr(cs.Addr.Fam, cs.Addr.B).String(), "dst": c12Addr(cd.Addr.Fam, cd.Addr.B).String(), "optimize": optimize},
									"program %q routes src=%v dst=%v to outbound id %d (err %v); CIDR containment requires id %d (a=2,b=3,c=4,d=5)", text2, c12Addr(cs.Addr.Fam, cs.Addr.B), c12Addr(cd.Addr.Fam, cd.Addr.B), got, err, want)
							}
						}
					}
				}
				for _, c := range v.Cases {
					a16 := c12Addr(c.Addr.Fam, c.Addr.B).As16()
					want := uint8(4)
					if c.Exp {
						want = 2
					} else if len(set2) > 0 && c.Exp2 {
						want = 3
					}
					var zero [16]byte
					got, _, _, err := m.Match(a16, a16, 1, 2, consts.IpVersion_4, consts.L4ProtoType_TCP, "", zero, 0, zero)
					res.Eval(1)
					if err != nil || uint8(got) != want {
						res.Failf(fmt.Sprintf("rule:%s:%v", text, c12Addr(c.Addr.Fam, c.Addr.B)), map[string]any{"config": text, "addr": c12Addr(c.Addr.Fam, c.Addr.B).String(), "optimize": optimize},
							"program %q routes src=dst=%v to outbound id %d (err %v); CIDR containment requires id %d (a=2,b=3,c=4)", text, c12Addr(c.Addr.Fam, c.Addr.B), got, err, want)
					}
				}
			}
		}
	}
}

func joinComma(xs []string) string {
	out := ""
	for i, x := range xs {
		if i > 0 {
			out += ", "
		}
		if strings.Contains(x, ":") {
			x = "'" + x + "'" // IPv6 literals must be quoted in dae configuration text
		}
		out += x
	}
	return out
}
