//go:build verif && !dae_stub_ebpf

package control

import (
	"fmt"

	"github.com/cilium/ebpf/btf"
)

const abiFlavour = "real"

// C struct name -> Go counterpart in the real build (bpf2go output and the hand-written types of bpf_utils.go)
func abiGoTypes() map[string]any {
	return map[string]any{
		"conn_state": bpfConnState{}, "dae_param": bpfDaeParam{}, "domain_routing": bpfDomainRouting{}, "match_set": bpfMatchSet{},
		"pid_pname": bpfPidPname{}, "port_range": bpfPortRange{}, "redirect_entry": bpfRedirectEntry{}, "redirect_tuple": bpfRedirectTuple{},
		"routing_handoff_entry": bpfRoutingHandoffEntry{}, "tuples_key": bpfTuplesKey{}, "routing_result": bpfRoutingResult{}, "lpm_key": _bpfLpmKey{},
	}
}

func abiCType(d *abiDump, parent string, fname string, t btf.Type) (abiField, bool) {
	af := abiField{Name: fname}
	t = btf.UnderlyingType(t)
	if a, ok := t.(*btf.Array); ok {
		af.Count = int(a.Nelems)
		t = btf.UnderlyingType(a.Type)
		if a2, ok := t.(*btf.Array); ok {
			af.Count *= int(a2.Nelems)
			t = btf.UnderlyingType(a2.Type)
		}
	}
	switch tt := t.(type) {
	case *btf.Struct:
		af.Kind, af.Struct = "struct", parent+"."+fname
		abiCStruct(d, af.Struct, tt.Members, int(tt.Size), false)
	case *btf.Union:
		af.Kind, af.Struct = "struct", parent+"."+fname
		abiCStruct(d, af.Struct, tt.Members, int(tt.Size), true)
	default:
		sz, err := btf.Sizeof(t)
		if err != nil {
			return af, false
		}
		af.Kind, af.Size = "scalar", sz
	}
	return af, true
}

func abiCStruct(d *abiDump, name string, members []btf.Member, size int, union bool) {
	if _, ok := d.C[name]; ok {
		return
	}
	decl := abiDecl{Name: name, Size: size, Union: union}
	d.C[name] = decl
	for i, m := range members {
		fname := m.Name
		if fname == "" {
			fname = fmt.Sprintf("anon%d", i)
		}
		af, ok := abiCType(d, name, fname, m.Type)
		if !ok {
			d.Notes = append(d.Notes, "cannot size "+name+"."+fname)
			continue
		}
		if m.BitfieldSize != 0 {
			d.Notes = append(d.Notes, "bitfield "+name+"."+fname)
		}
		af.Offset = int(m.Offset.Bytes())
		decl.Fields = append(decl.Fields, af)
	}
	d.C[name] = decl
}

func abiExtractC(d *abiDump) {
	spec, err := loadBpf()
	if err != nil {
		d.Notes = append(d.Notes, "loadBpf: "+err.Error())
		return
	}
	for cname := range abiGoTypes() {
		var st *btf.Struct
		if err := spec.Types.TypeByName(cname, &st); err != nil {
			d.Notes = append(d.Notes, "no BTF for struct "+cname+": "+err.Error())
			continue
		}
		abiCStruct(d, cname, st.Members, int(st.Size), false)
	}
	for _, en := range []string{"MatchType", "L4ProtoType", "IpVersionType"} {
		var e *btf.Enum
		if err := spec.Types.TypeByName(en, &e); err != nil {
			d.Notes = append(d.Notes, "no BTF for enum "+en)
			continue
		}
		for _, v := range e.Values {
			d.CEnums[v.Name] = int64(v.Value)
		}
		d.CEnums["sizeof."+en] = int64(e.Size)
	}
	// map sizes the Go side mirrors
	for name, m := range spec.Maps {
		d.CEnums["max_entries."+name] = int64(m.MaxEntries)
		d.CEnums["key_size."+name] = int64(m.KeySize)
		d.CEnums["value_size."+name] = int64(m.ValueSize)
	}
}
