//go:build verif && !dae_stub_ebpf

package control

import (
	"fmt"

	"github.com/daeuniverse/dae/pkg/verifutil"
)

// With the real build the routing program is compiled the way the control plane does it: userspace matcher AND
// kernel maps (BuildKernspace on a real routing_map). A program beyond the match-set limit must be rejected by
// one of them with an error, and nothing may crash.
var cbKern *vKern

func init() {
	cbProgramSize = func(res *verifutil.Result, key string, n int, kind string, outcome string) {
		res.Eval(1)
		desc := fmt.Sprintf("%d entries of kind %s", n, kind)
		defer func() {
			if r := recover(); r != nil {
				res.Failf(key+"|panic", desc, "compiling a routing program of %d match sets (%s rules) crashed: %v", n, kind, r)
			}
		}()
		if cbKern == nil {
			k, err := vNewKern(nil)
			if err != nil {
				res.Note(err.Error())
				return
			}
			cbKern = k
		}
		text := cbProgramText(n, kind)
		b, err := verifCompileRouting(text, map[string]uint8{"direct": 0, "block": 1, "g": 2}, cbKern.objs, true)
		entries := 0
		if err == nil {
			entries = len(b.rules)
			_, err = b.KernspaceSnapshot().BuildKernspace(verifLogger(), cbKern.objs)
		}
		if err == nil {
			_, err = b.BuildUserspace()
		}
		if outcome == "error" && err == nil {
			res.Failf(key, desc, "a routing program of %d match sets (limit 1024) was accepted by both the kernel-map builder and the userspace matcher", entries)
		}
		if outcome == "ok" && err != nil {
			res.Failf(key, desc, "a routing program of %d match sets (within the limit) was rejected: %v", n, err)
		}
		res.Count("program_size_cases", 1)
	}
}
