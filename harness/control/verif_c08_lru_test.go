//go:build verif

package control

import (
	"fmt"
	"sort"
	"strings"
	"testing"
	"testing/synctest"
	"time"

	"github.com/daeuniverse/dae/pkg/verifutil"
	dnsmessage "github.com/miekg/dns"
)

// behaviours emitted by spec/DnsLru.tla (time in half seconds)
type lruBehaviour struct {
	Limit int `json:"limit"`
	Hist  []struct {
		Ev      string `json:"ev"`
		K       int    `json:"k"`
		Obs     string `json:"obs"`
		At      int    `json:"at"`
		Present []int  `json:"present"`
	} `json:"hist"`
}

func lruName(k int) string { return fmt.Sprintf("n%d.test.", k) }

func lruRunOne(b *lruBehaviour, res *verifutil.Result) {
	c, err := c08NewController(&c08Behaviour{MaxSize: b.Limit})
	if err != nil {
		res.Note("NewDnsController: " + err.Error())
		return
	}
	defer func() { _ = c.Close() }()
	start := time.Now()
	at := func(half int) { // virtual time: sleep until `half` half-seconds after the start
		if d := start.Add(time.Duration(half) * 500 * time.Millisecond).Sub(time.Now()); d > 0 {
			time.Sleep(d)
		}
		synctest.Wait()
	}
	key := func(k int) string { return c.cacheKey(lruName(k), dnsmessage.TypeA) + "|u" }
	var trail []string
	for _, st := range b.Hist {
		at(st.At)
		switch st.Ev {
		case "insert":
			trail = append(trail, fmt.Sprintf("t=%.1fs insert %d", float64(st.At)/2, st.K))
			msg := new(dnsmessage.Msg)
			msg.SetQuestion(lruName(st.K), dnsmessage.TypeA)
			msg.Response = true
			msg.Answer = []dnsmessage.RR{&dnsmessage.A{Hdr: dnsmessage.RR_Header{Name: lruName(st.K), Rrtype: dnsmessage.TypeA, Class: dnsmessage.ClassINET, Ttl: 3600}, A: []byte{198, 51, 100, byte(st.K)}}}
			if err := c.NormalizeAndCacheDnsResp_(msg, key(st.K)); err != nil {
				res.Note("insert: " + err.Error())
				return
			}
		case "lookup":
			trail = append(trail, fmt.Sprintf("t=%.1fs lookup %d", float64(st.At)/2, st.K))
			q := new(dnsmessage.Msg)
			q.SetQuestion(lruName(st.K), dnsmessage.TypeA)
			resp, _ := c.LookupDnsRespCache_(q, key(st.K), false)
			res.Eval(1)
			if (resp != nil) != (st.Obs == "served") {
				res.Failf("c08lru:"+strings.Join(trail, ";")+"|lookup", append([]string(nil), trail...), "[limit %d] %v: lookup of %d answered served=%v, expected %s", b.Limit, trail, st.K, resp != nil, st.Obs)
				return
			}
		case "wait":
			trail = append(trail, fmt.Sprintf("t=%.1fs (a janitor run has passed)", float64(st.At)/2))
		}
		var got []int
		for k := 1; k <= 12; k++ {
			if _, ok := c.dnsCache.Load(key(k)); ok {
				got = append(got, k)
			}
		}
		want := append([]int(nil), st.Present...)
		sort.Ints(want)
		res.Eval(1)
		if fmt.Sprint(got) != fmt.Sprint(want) {
			res.Failf("c08lru:"+strings.Join(trail, ";"), append([]string(nil), trail...), "[limit %d] %v: the cache holds %v, the least recently used entries having been evicted it must hold %v", b.Limit, trail, got, want)
			return
		}
	}
}

func TestVerifC08Lru(t *testing.T) {
	bs, err := verifutil.ReadLines[lruBehaviour]("VERIF_IN")
	if err != nil {
		t.Fatal(err)
	}
	res := verifutil.NewResult()
	defer func() {
		if err := res.Write(); err != nil {
			t.Fatal(err)
		}
	}()
	for bi := range bs {
		b := &bs[bi]
		res.Case()
		if bi < 2 {
			res.Sample(b.Hist)
		}
		synctest.Test(t, func(t *testing.T) {
			lruRunOne(b, res)
		})
	}
}
