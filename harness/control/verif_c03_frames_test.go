//go:build verif && !dae_stub_ebpf

package control

import (
	"fmt"
	"net/netip"
	"testing"

	"github.com/daeuniverse/dae/pkg/verifutil"
	"golang.org/x/sys/unix"
)

// vectors of spec/FrameShape.tla
type fsVector struct {
	F struct {
		Fam   int    `json:"fam"`
		Opts4 int    `json:"opts4"`
		Chain []int  `json:"chain"`
		Frag  string `json:"frag"`
		L4    string `json:"l4"`
		Cut   string `json:"cut"`
		Hook  string `json:"hook"`
	} `json:"f"`
	Class string `json:"class"`
}

type fsOutcome struct {
	Ret  uint32
	Mark uint32
	Cb0  uint32
}

func (o fsOutcome) String() string {
	return fmt.Sprintf("%s mark=%#x tag=%#x", map[uint32]string{vTcOk: "pass", vTcShot: "drop", vTcRedirect: "redirect to dae", vTcPipe: "pipe"}[o.Ret], o.Mark, o.Cb0)
}

func TestVerifC03Frames(t *testing.T) {
	vecs, err := verifutil.ReadLines[fsVector]("VERIF_IN")
	if err != nil {
		t.Fatal(err)
	}
	res := verifutil.NewResult()
	defer func() {
		if err := res.Write(); err != nil {
			t.Fatal(err)
		}
	}()
	k, err := vNewKern(nil)
	if err != nil {
		res.Note(err.Error())
		t.Fatal(err)
	}
	defer k.Close()
	dst4 := netip.MustParseAddr("203.0.113.77")
	dst6 := netip.MustParseAddr("2001:db8::53")
	// one rule set for the whole run: the two destinations go to a proxy group, everything else direct
	text := fmt.Sprintf("routing {\n  dip(%s/32, '%s/128') -> pa\n  fallback: direct\n}\n", dst4, dst6)
	b, err := verifCompileRouting(text, map[string]uint8{"direct": 0, "block": 1, "pa": 2, "pb": 3}, k.objs, true)
	if err != nil {
		t.Fatal(err)
	}
	if _, err = b.KernspaceSnapshot().BuildKernspace(verifLogger(), k.objs); err != nil {
		t.Fatal(err)
	}
	_ = k.SetAllAlive([]uint8{0, 1, 2, 3}, 1)
	seq := 0
	pname := [16]byte{'c', 'u', 'r', 'l'}
	// one run of a frame of the vector's kind on a flow nobody has seen yet
	run := func(v *fsVector, shaped, long bool) (fsOutcome, int, error) {
		seq++
		l4 := uint8(unix.IPPROTO_UDP)
		if v.F.L4 == "syn" || v.F.L4 == "est" {
			l4 = unix.IPPROTO_TCP
		}
		var src, dst netip.AddrPort
		if v.F.Fam == 6 {
			src = netip.AddrPortFrom(netip.MustParseAddr(fmt.Sprintf("fd00::%x", 0x100+seq%0xe00)), uint16(20000+seq%40000))
			dst = netip.AddrPortFrom(dst6, 4000)
		} else {
			src = netip.AddrPortFrom(netip.AddrFrom4([4]byte{10, 9, byte(seq >> 8), byte(seq)}), uint16(20000+seq%40000))
			dst = netip.AddrPortFrom(dst4, 4000)
		}
		if l4 == unix.IPPROTO_TCP {
			dst = netip.AddrPortFrom(dst.Addr(), 443)
		}
		k.ForgetFlow(src, dst, l4)
		fr := vFrame{Src: src, Dst: dst, L4: l4, SrcMac: [6]byte{2, 0, 0, 0, 1, byte(seq)}, DstMac: [6]byte{2, 0, 0, 0, 0, 0xfe}, Payload: []byte("payload!")}
		switch v.F.L4 {
		case "syn":
			fr.TcpFlags = 0x02
		case "est":
			fr.TcpFlags = 0x10
		case "icmp":
			fr.RawProto = unix.IPPROTO_ICMP
			if v.F.Fam == 6 {
				fr.RawProto = unix.IPPROTO_ICMPV6
			}
		case "other":
			fr.RawProto = unix.IPPROTO_GRE
		}
		hdr := 14 + 20
		if v.F.Fam == 6 {
			hdr = 14 + 40
		}
		if shaped {
			fr.Ip4OptLen = v.F.Opts4
			for _, h := range v.F.Chain {
				fr.ExtHdrs = append(fr.ExtHdrs, byte(h))
			}
			fr.Frag = v.F.Frag
			ext := v.F.Opts4 + 8*len(v.F.Chain)
			if v.F.Fam == 6 && v.F.Frag != "" && v.F.Frag != "none" {
				ext += 8
			}
			switch v.F.Cut {
			case "ip":
				fr.CutAt = 14 + 10
			case "ext":
				fr.CutAt = hdr + 3
			case "l4":
				fr.CutAt = hdr + ext + 4
			}
			if fr.Frag == "none" {
				fr.Frag = ""
			}
		}
		if long {
			fr.PadTo = 160
		}
		data := fr.Bytes()
		prog := k.objs.TproxyLanIngressL2
		var window []uint64
		if v.F.Hook == "wan" {
			prog = k.objs.TproxyWanEgressL2
			if window, err = k.ArmProcess(c03UserPid, pname); err != nil {
				return fsOutcome{}, len(data), err
			}
		}
		r, err := vRunProg(prog, data, 0)
		if window != nil {
			k.DisarmProcess(window)
		}
		k.ForgetFlow(src, dst, l4)
		if err != nil {
			return fsOutcome{}, len(data), err
		}
		return fsOutcome{r.Ret, r.Mark, r.Cb[0]}, len(data), nil
	}
	for vi := range vecs {
		v := &vecs[vi]
		res.Case()
		desc := fmt.Sprintf("%s hook, IPv%d %s, options %d B, extension headers %v, fragment %s, cut %s", v.F.Hook, v.F.Fam, v.F.L4, v.F.Opts4, v.F.Chain, v.F.Frag, v.F.Cut)
		key := "c03frame:" + desc
		if vi < 2 {
			res.Sample(v)
		}
		short, n, err := run(v, true, false)
		if err != nil {
			res.Note("run: " + err.Error())
			continue
		}
		res.Eval(1)
		if n >= 128 {
			res.Note(fmt.Sprintf("%s: the short rendering is %d bytes", desc, n))
			continue
		}
		switch v.Class {
		case "malformed":
			// (a truncated frame cannot be padded: only the byte-load parser sees it) it is never handed to dae
			if short.Ret == vTcRedirect {
				res.Failf(key, v, "%s: a truncated frame was redirected to dae (%v)", desc, short)
			}
			continue
		}
		long, _, err := run(v, true, true)
		if err != nil {
			res.Note("run: " + err.Error())
			continue
		}
		res.Eval(1)
		if short != long {
			res.Failf(key+"|paths", v, "%s: the byte-load parser (frame < 128 B) gives %v, direct packet access (frame padded to 160 B) gives %v: the verdict depends on the parsing path", desc, short, long)
			continue
		}
		switch v.Class {
		case "routed":
			ref, _, err := run(v, false, false)
			if err != nil {
				res.Note("run: " + err.Error())
				continue
			}
			res.Eval(1)
			if short != ref {
				res.Failf(key+"|layout", v, "%s: verdict %v, the plain frame of the same flow kind gets %v: the layout of the headers changed the decision", desc, short, ref)
			}
		case "foreign":
			if short.Ret == vTcRedirect {
				res.Failf(key+"|foreign", v, "%s: a frame without a TCP/UDP header of its own was redirected to dae (%v)", desc, short)
			}
		}
	}
}
