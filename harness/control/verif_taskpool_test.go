//go:build verif

package control

import (
	"bytes"
	"encoding/json"
	"fmt"
	"math/rand"
	"net/netip"
	"os"
	"runtime"
	"strconv"
	"strings"
	"sync"
	"testing"
	"time"

	"github.com/daeuniverse/dae/pkg/verifutil"
)

// ---- a gate scheduler over the verifYield points --------------------------------------------------------------

func vGoid() int64 {
	var buf [64]byte
	n := runtime.Stack(buf[:], false)
	b := bytes.TrimPrefix(buf[:n], []byte("goroutine "))
	i := bytes.IndexByte(b, ' ')
	id, _ := strconv.ParseInt(string(b[:i]), 10, 64)
	return id
}

type vActor struct {
	name    string
	arrive  chan string
	release chan struct{}
	at      string // gate the actor is parked at ("" while running, "done" when finished)
	q       *UdpTaskQueue
	arg     any
}

type vSched struct {
	mu       sync.Mutex
	byGoid   map[int64]*vActor
	convoys  []*vActor
	free     bool // free-running: hooks return immediately
	newActor chan *vActor
	timeout  time.Duration
}

func newVSched() *vSched {
	return &vSched{byGoid: map[int64]*vActor{}, newActor: make(chan *vActor, 64), timeout: 60 * time.Second}
}

func (s *vSched) register(name string) *vActor {
	a := &vActor{name: name, arrive: make(chan string, 4), release: make(chan struct{}, 1)}
	s.mu.Lock()
	s.byGoid[vGoid()] = a
	s.mu.Unlock()
	return a
}

func (s *vSched) hook(point string, arg any) {
	s.mu.Lock()
	gid := vGoid()
	a := s.byGoid[gid]
	isNew := false
	if a == nil && s.free {
		// free running: only remember which queue this convoy goroutine serves
		if q, ok := arg.(*UdpTaskQueue); ok && point != "task.start" {
			s.byGoid[gid] = &vActor{q: q, arrive: make(chan string, 4), release: make(chan struct{}, 1), at: "done"}
		}
		s.mu.Unlock()
		return
	}
	if s.free {
		s.mu.Unlock()
		return
	}
	if a == nil {
		// a convoy goroutine showing up for the first time
		a = &vActor{arrive: make(chan string, 4), release: make(chan struct{}, 1)}
		if q, ok := arg.(*UdpTaskQueue); ok {
			a.q = q
		}
		a.name = fmt.Sprintf("convoy#%d", len(s.convoys)+1)
		s.byGoid[gid] = a
		s.convoys = append(s.convoys, a)
		isNew = true
	}
	a.arg = arg
	s.mu.Unlock()
	if isNew {
		s.newActor <- a
	}
	a.arrive <- point
	<-a.release
}

// step lets the actor run to its next gate and returns the gate name ("" on timeout).
func (s *vSched) step(a *vActor) string {
	a.at = ""
	a.release <- struct{}{}
	select {
	case p := <-a.arrive:
		a.at = p
		return p
	case <-time.After(s.timeout):
		return ""
	}
}

// await waits for the actor's next arrival without releasing it (used for freshly created actors).
func (s *vSched) await(a *vActor) string {
	select {
	case p := <-a.arrive:
		a.at = p
		return p
	case <-time.After(s.timeout):
		return ""
	}
}

func (s *vSched) setFree() {
	s.mu.Lock()
	s.free = true
	actors := make([]*vActor, 0, len(s.byGoid))
	for _, a := range s.byGoid {
		actors = append(actors, a)
	}
	s.mu.Unlock()
	for _, a := range actors {
		select {
		case a.release <- struct{}{}:
		default:
		}
	}
}

// ---- task pool world: real UdpTaskPool + logs --------------------------------------------------------------------

type tpTask struct {
	P   string `json:"p"`
	N   int    `json:"n"`
	Key string `json:"key"`
}
type tpExec struct {
	Task       tpTask
	QueueKey   UdpFlowKey
	Start, End int64 // logical clock
}
type tpWorld struct {
	s        *vSched
	pool     *UdpTaskPool
	mu       sync.Mutex
	clock    int64
	execs    []tpExec
	accepted map[string][]tpTask // per key, in gated enqueue order (or per producer order when free running)
	emitted  []tpTask
}

func tpKey(k string) UdpFlowKey {
	port := uint16(1000)
	if k == "B" {
		port = 2000
	}
	return UdpFlowKey{Src: netip.AddrPortFrom(netip.MustParseAddr("10.0.0.1"), port), Dst: netip.AddrPortFrom(netip.MustParseAddr("10.0.0.2"), 53)}
}

func (w *tpWorld) tick() int64 {
	w.clock++
	return w.clock
}

func (w *tpWorld) taskFunc(t tpTask) UdpTask {
	return func() {
		w.mu.Lock()
		start := w.tick()
		w.mu.Unlock()
		var qk UdpFlowKey
		w.s.mu.Lock()
		a := w.s.byGoid[vGoid()]
		w.s.mu.Unlock()
		if a != nil && a.q != nil {
			qk = a.q.key
		}
		w.s.hook("task.start", t)
		w.mu.Lock()
		w.execs = append(w.execs, tpExec{Task: t, QueueKey: qk, Start: start, End: w.tick()})
		w.mu.Unlock()
	}
}

// producer goroutine: emits its tasks one after another, parking at "start" before each EmitTask
func (w *tpWorld) producer(name, key string, n int, ready chan<- *vActor) {
	a := w.s.register(name)
	ready <- a
	for i := 1; i <= n; i++ {
		t := tpTask{P: name, N: i, Key: key}
		w.s.hook("start", t)
		w.mu.Lock()
		w.emitted = append(w.emitted, t)
		w.mu.Unlock()
		w.pool.EmitTask(tpKey(key), w.taskFunc(t))
	}
	w.s.mu.Lock()
	free := w.s.free
	w.s.mu.Unlock()
	if !free {
		a.arrive <- "done"
	}
}

// property layer, evaluated on the real execution log after quiescence
func (w *tpWorld) checkProperties(res *verifutil.Result, keyBase string, repl any, acceptOrder map[string][]tpTask) {
	w.mu.Lock()
	defer w.mu.Unlock()
	seen := map[tpTask]int{}
	for _, e := range w.execs {
		seen[e.Task]++
	}
	for _, t := range w.emitted {
		res.Eval(1)
		switch seen[t] {
		case 1:
		case 0:
			res.Failf(keyBase+"|lost", repl, "task %v accepted by EmitTask was never executed (%d of %d executed)", t, len(w.execs), len(w.emitted))
		default:
			res.Failf(keyBase+"|dup", repl, "task %v executed %d times", t, seen[t])
		}
	}
	for _, e := range w.execs {
		res.Eval(1)
		if e.QueueKey != tpKey(e.Task.Key) {
			res.Failf(keyBase+"|foreign", repl, "task %v of flow %s ran under the queue of flow %v", e.Task, e.Task.Key, e.QueueKey)
		}
	}
	// one at a time per flow + order
	byKey := map[string][]tpExec{}
	for _, e := range w.execs {
		byKey[e.Task.Key] = append(byKey[e.Task.Key], e)
	}
	for k, es := range byKey {
		for i := 0; i < len(es); i++ {
			for j := i + 1; j < len(es); j++ {
				res.Eval(1)
				if es[i].Start < es[j].End && es[j].Start < es[i].End {
					res.Failf(keyBase+"|overlap", repl, "tasks %v and %v of flow %s ran at the same time", es[i].Task, es[j].Task, k)
				}
			}
		}
		if order, ok := acceptOrder[k]; ok {
			pos := map[tpTask]int{}
			for i, t := range order {
				pos[t] = i
			}
			last := -1
			for _, e := range es { // es is in completion order
				p, ok := pos[e.Task]
				if !ok {
					continue
				}
				res.Eval(1)
				if p < last {
					res.Failf(keyBase+"|order", repl, "flow %s: task %v ran after a task that was accepted later (accept order %v, run order %v)", k, e.Task, order, es)
				}
				last = p
			}
		}
	}
}

func (w *tpWorld) quiesce(total int) {
	w.s.setFree()
	deadline := time.Now().Add(60 * time.Second)
	for time.Now().Before(deadline) {
		w.mu.Lock()
		n := len(w.execs)
		w.mu.Unlock()
		if n >= total {
			break
		}
		time.Sleep(2 * time.Millisecond)
	}
	time.Sleep(5 * time.Millisecond)
}

// ---- replay of TLC behaviours ------------------------------------------------------------------------------------

type tpAction struct {
	A string `json:"a"`
	P string `json:"p"`
	Q int    `json:"q"`
}
type tpBehaviour struct {
	Schedule []tpAction `json:"schedule"`
	Executed []struct {
		Task tpTask `json:"task"`
		Qkey string `json:"qkey"`
	} `json:"executed"`
	Accepted map[string][]tpTask `json:"accepted"`
	NTasks   int                 `json:"ntasks"`
	Keys     map[string]string   `json:"keys"` // producer -> key
	Origin   string              `json:"origin"`
	ChanCap  int                 `json:"chancap"` // capacity of the per-flow channels (0: the code's own 128)
}

// a pool whose per-flow channels have the capacity the model was checked with, so that the spill into the overflow FIFO is reached
// with the model's two or three tasks (the production constructor differs in nothing but the constant)
func tpNewPool(chanCap int) *UdpTaskPool {
	if chanCap <= 0 {
		return NewUdpTaskPool()
	}
	return &UdpTaskPool{queueChPool: sync.Pool{New: func() any { return make(chan UdpTask, chanCap) }}}
}

var tpProducerGate = map[string]string{"loaded": "acquire.loaded", "create": "acquire.create", "store": "acquire.store",
	"loaded2": "acquire.loaded2", "enq": "emit.enqueue", "rel": "emit.release", "start": "start", "done": "done"}

func tpSetup(t *testing.T) func() {
	oldAging := UdpTaskPoolAgingTime
	oldProcs := runtime.GOMAXPROCS(1) // one P: sync.Pool behaves as the model's private slot + shared chain
	UdpTaskPoolAgingTime = 20 * time.Microsecond
	return func() {
		UdpTaskPoolAgingTime = oldAging
		runtime.GOMAXPROCS(oldProcs)
		verifYieldHook = nil
	}
}

// replays one schedule; returns "" or a drift description
func tpReplay(b *tpBehaviour, res *verifutil.Result, idx int) string {
	s := newVSched()
	w := &tpWorld{s: s, pool: tpNewPool(b.ChanCap), accepted: map[string][]tpTask{}}
	verifYieldHook = s.hook
	prods := map[string]*vActor{}
	total := 0
	names := make([]string, 0, len(b.Keys))
	for name := range b.Keys {
		names = append(names, name)
	}
	for _, name := range names {
		ready := make(chan *vActor, 1)
		go w.producer(name, b.Keys[name], b.NTasks, ready)
		a := <-ready
		prods[name] = a
		if s.await(a) != "start" {
			return "producer did not reach its start gate"
		}
		total += b.NTasks
	}
	convoyOfQ := map[int]*vActor{} // model queue id -> convoy actor
	nextQid := 1                   // model allocates the lowest unused queue id in PCreate
	usedQ := map[int]bool{}
	pendingQ := map[string]int{} // producer -> qid under construction
	acceptOrder := map[string][]tpTask{}
	pn := map[string]int{}
	drift := ""
	for si, act := range b.Schedule {
		if act.P != "" {
			a := prods[act.P]
			if a == nil {
				drift = "unknown producer " + act.P
				break
			}
			got := s.step(a)
			if got == "" {
				drift = fmt.Sprintf("step %d %v: producer did not reach a gate", si, act)
				break
			}
			switch act.A {
			case "PCreate":
				nextQid = 1
				for usedQ[nextQid] {
					nextQid++
				}
				usedQ[nextQid] = true
				pendingQ[act.P] = nextQid
				if got != "acquire.store" {
					drift = fmt.Sprintf("step %d %v: reached %s, model expects acquire.store", si, act, got)
				}
			case "PLoadOrStore":
				qid := pendingQ[act.P]
				if got != "emit.enqueue" {
					usedQ[qid] = false // lost the LoadOrStore race: the queue object is garbage
				}
				if got == "emit.enqueue" {
					// stored: a convoy goroutine was started for this queue
					select {
					case c := <-s.newActor:
						if p := s.await(c); p != "convoy.top" {
							drift = fmt.Sprintf("step %d: new convoy reached %q", si, p)
						}
						convoyOfQ[qid] = c
					case <-time.After(s.timeout):
						drift = fmt.Sprintf("step %d: no convoy goroutine appeared", si)
					}
				}
			case "PEnq":
				pn[act.P]++
				t := tpTask{P: act.P, N: pn[act.P], Key: b.Keys[act.P]}
				acceptOrder[t.Key] = append(acceptOrder[t.Key], t)
			}
		} else {
			c := convoyOfQ[act.Q]
			if c == nil {
				drift = fmt.Sprintf("step %d %v: model queue %d has no convoy in the real pool", si, act, act.Q)
				break
			}
			got := s.step(c)
			for n := 0; act.A == "CPopOv" && got == "convoy.top" && n < 4; n++ {
				// a stale wake token was consumed: one more turn of the loop (top -> channel still empty -> popov -> nothing -> wait)
				if got = s.step(c); got == "convoy.popov" {
					got = s.step(c)
				}
			}
			if act.A == "CRecycle" {
				if got != "convoy.exit" {
					drift = fmt.Sprintf("step %d %v: reached %q, model expects convoy.exit", si, act, got)
				} else {
					c.at = "done"
					c.release <- struct{}{} // let the goroutine return
					time.Sleep(50 * time.Microsecond)
				}
			} else if got == "" {
				drift = fmt.Sprintf("step %d %v: convoy did not reach a gate", si, act)
			}
		}
		if drift != "" {
			break
		}
	}
	w.quiesce(total)
	keyBase := fmt.Sprintf("taskpool:%s", tpScheduleKey(b.Schedule))
	w.checkProperties(res, keyBase, map[string]any{"schedule": b.Schedule, "origin": b.Origin, "drift": drift}, acceptOrder)
	if drift == "" && len(b.Executed) > 0 {
		// implementation layer: the real completion order must be the model's
		w.mu.Lock()
		ok := len(w.execs) >= len(b.Executed)
		for i := 0; ok && i < len(b.Executed); i++ {
			ok = w.execs[i].Task == b.Executed[i].Task
		}
		w.mu.Unlock()
		if !ok {
			drift = fmt.Sprintf("behaviour %d: real completion order differs from the model's", idx)
		}
	}
	w.pool.Close()
	return drift
}

func tpScheduleKey(sch []tpAction) string {
	var sb bytes.Buffer
	for _, a := range sch {
		if a.P != "" {
			fmt.Fprintf(&sb, "%s.%s,", a.A, a.P)
		} else {
			fmt.Fprintf(&sb, "%s.%d,", a.A, a.Q)
		}
	}
	return sb.String()
}

func TestVerifTaskPoolReplay(t *testing.T) {
	defer tpSetup(t)()
	bs, err := verifutil.ReadLines[tpBehaviour]("VERIF_IN")
	if err != nil {
		t.Fatal(err)
	}
	res := verifutil.NewResult()
	defer func() {
		if err := res.Write(); err != nil {
			t.Fatal(err)
		}
	}()
	for i := range bs {
		b := &bs[i]
		res.Case()
		if i < 2 {
			res.Sample(map[string]any{"origin": b.Origin, "schedule": tpScheduleKey(b.Schedule)})
		}
		if d := tpReplay(b, res, i); d != "" {
			res.AddDrift(fmt.Sprintf("[%s] %s", b.Origin, d))
			res.Count("drift", 1)
		}
		res.Count("replayed_"+b.Origin, 1)
	}
}

// ---- random gated walks on the real pool (schedules not taken from the model) -------------------------------------

func TestVerifTaskPoolRandomWalk(t *testing.T) {
	defer tpSetup(t)()
	res := verifutil.NewResult()
	defer func() {
		if err := res.Write(); err != nil {
			t.Fatal(err)
		}
	}()
	walks := verifutil.EnvInt("VERIF_TP_WALKS", 300)
	rng := rand.New(rand.NewSource(verifutil.Seed()))
	traceOut := os.Getenv("VERIF_TRACE_OUT")
	var traces [][]map[string]any
	for wi := 0; wi < walks; wi++ {
		s := newVSched()
		s.timeout = 60 * time.Second
		w := &tpWorld{s: s, pool: NewUdpTaskPool(), accepted: map[string][]tpTask{}}
		verifYieldHook = s.hook
		keys := map[string]string{"p1": "A", "p2": "A", "p3": "B"}
		ntasks := 1 + rng.Intn(2)
		var actors []*vActor
		total := 0
		for _, name := range []string{"p1", "p2", "p3"} {
			ready := make(chan *vActor, 1)
			go w.producer(name, keys[name], ntasks, ready)
			a := <-ready
			s.await(a)
			actors = append(actors, a)
			total += ntasks
		}
		acceptOrder := map[string][]tpTask{}
		var trace []map[string]any
		var sched []tpAction
		dead := false
		sharedReported := false
		chanOrd := map[chan UdpTask]int{}
		var last *vActor
		directed := 0
		switch wi % 3 {
		case 0:
			directed = 1
		case 1:
			directed = 11 // the window between the worker's emptiness check and its claim (see phases 11-13)
		}
		for step := 0; step < 400; step++ {
			// collect new convoys
			for {
				select {
				case c := <-s.newActor:
					s.await(c)
					actors = append(actors, c)
					continue
				default:
				}
				break
			}
			var live []*vActor
			for _, a := range actors {
				if a.at != "done" && a.at != "" {
					live = append(live, a)
				}
			}
			if len(live) == 0 {
				break
			}
			// every queue in the table owns its channel alone (the channels are recycled through a pool)
			chans := map[chan UdpTask]UdpFlowKey{}
			w.pool.queues.Range(func(k, v any) bool {
				q := v.(*UdpTaskQueue)
				if other, dup := chans[q.ch]; dup && !sharedReported {
					sharedReported = true
					res.Failf(fmt.Sprintf("taskpool-walk:seed%d:%d|shared-channel", verifutil.Seed(), wi), map[string]any{"walk": wi, "seed": verifutil.Seed(), "steps": sched},
						"walk %d after %v: the queues of flows %v and %v in the pool's table share one task channel: tasks of one flow will run on the other flow's worker", wi, sched, other, q.key)
				}
				chans[q.ch] = q.key
				return true
			})
			var a *vActor
			switch {
			case directed == 1:
				// phase 1 of a directed walk: p1 runs until all its tasks are in
				for _, c := range live {
					if c.name == "p1" {
						a = c
					}
				}
				if a == nil {
					directed = 2
				}
			case directed == 2:
				// phase 2: the worker of p1's flow runs until it has claimed its queue for deletion (not yet removed it)
				for _, c := range live {
					if strings.HasPrefix(c.name, "convoy") {
						a = c
					}
				}
				if a == nil || a.at == "convoy.claimed" || a.at == "convoy.exit" {
					a = nil
					directed = 0
				}
			case directed == 11:
				// p1 gets its first task in (runs until it is back at its start gate or done)
				for _, c := range live {
					if c.name == "p1" {
						a = c
					}
				}
				if a == nil || (a.at == "start" && step > 0) {
					a = nil
					directed = 12
				}
			case directed == 12:
				// the flow's worker runs the task and goes on until its idle check has found the queue empty
				for _, c := range live {
					if strings.HasPrefix(c.name, "convoy") {
						a = c
					}
				}
				if a == nil || a.at == "convoy.checked" || a.at == "convoy.exit" {
					if a != nil && a.at == "convoy.checked" {
						directed = 13
					} else {
						directed = 0
					}
					a = nil
				}
			case directed == 13:
				// ... and now a second producer of the same flow gets a whole task in before the worker claims
				for _, c := range live {
					if c.name == "p2" {
						a = c
					}
				}
				if a == nil || a.at == "done" || (a.at == "start" && last != nil && last.name == "p2") {
					a = nil
					directed = 14
				}
			case directed == 14:
				// ... then the first producer emits its next task (it must land behind the second producer's, on the same queue)
				for _, c := range live {
					if c.name == "p1" {
						a = c
					}
				}
				if a == nil || (a.at == "start" && last != nil && last.name == "p1") {
					a = nil
					directed = 15
				}
			case directed == 15:
				// ... and the worker goroutine that showed up last runs until it idles (with one queue per flow there is only one)
				for _, c := range live {
					if strings.HasPrefix(c.name, "convoy") {
						a = c // actors are in order of appearance: the last one wins
					}
				}
				if a == nil || a.at == "convoy.timer" || a.at == "convoy.exit" || a.at == "convoy.checked" {
					a = nil
					directed = 0
				}
			}
			if a == nil {
				a = live[rng.Intn(len(live))]
				// sticky choice: one goroutine often runs through many steps while the others are parked
				if last != nil && rng.Intn(5) < 3 {
					for _, c := range live {
						if c == last {
							a = c
						}
					}
				}
			}
			last = a
			from := a.at
			if from == "emit.enqueue" {
				if t, ok := a.arg.(*UdpTaskQueue); ok && t != nil {
					_ = t
				}
			}
			if from == "convoy.exit" {
				a.at = "done"
				a.release <- struct{}{}
				continue
			}
			var createdQ *UdpTaskQueue
			if from == "acquire.store" {
				createdQ, _ = a.arg.(*UdpTaskQueue)
			}
			to := s.step(a)
			if to == "" {
				res.Note(fmt.Sprintf("walk %d: actor %s did not reach a gate after %s", wi, a.name, from))
				dead = true
				break
			}
			if createdQ != nil {
				// the producer stored a new queue: its worker goroutine WILL show up at its first gate - wait for exactly that
				// (polling would make the set of scheduled goroutines depend on machine load)
				if v, ok := w.pool.queues.Load(createdQ.key); ok && v.(*UdpTaskQueue) == createdQ {
					known := false
					for _, c := range actors {
						if c.q == createdQ {
							known = true
						}
					}
					for !known {
						select {
						case c := <-s.newActor:
							s.await(c)
							actors = append(actors, c)
							known = c.q == createdQ
						case <-time.After(60 * time.Second):
							res.Note(fmt.Sprintf("walk %d: the worker of a newly stored queue did not show up", wi))
							dead = true
							known = true
						}
					}
				}
			}
			if from == "emit.enqueue" {
				// the enqueue happened in this step: this is the accept order
				n := 0
				for _, tt := range acceptOrder[keys[a.name]] {
					if tt.P == a.name {
						n++
					}
				}
				acceptOrder[keys[a.name]] = append(acceptOrder[keys[a.name]], tpTask{P: a.name, N: n + 1, Key: keys[a.name]})
			}
			ev := map[string]any{"who": a.name, "kind": "p", "n": 0, "from": from, "to": to, "ch": 0}
			if strings.HasPrefix(a.name, "convoy#") {
				ev["kind"] = "c"
				fmt.Sscanf(a.name, "convoy#%d", new(int))
				var n int
				fmt.Sscanf(a.name, "convoy#%d", &n)
				ev["n"] = n
			}
			if to == "acquire.store" {
				if nq, ok := a.arg.(*UdpTaskQueue); ok && nq != nil {
					if _, seen := chanOrd[nq.ch]; !seen {
						chanOrd[nq.ch] = len(chanOrd) + 1
					}
					ev["ch"] = chanOrd[nq.ch]
				}
			}
			trace = append(trace, ev)
			sched = append(sched, tpAction{A: from + ">" + to, P: a.name})
		}
		w.quiesce(total)
		if !dead {
			res.Case()
			keyBase := fmt.Sprintf("taskpool-walk:seed%d:%d", verifutil.Seed(), wi)
			w.checkProperties(res, keyBase, map[string]any{"walk": wi, "seed": verifutil.Seed(), "steps": sched}, acceptOrder)
			if wi < 1 {
				res.Sample(map[string]any{"walk": trace})
			}
			traces = append(traces, trace)
		}
		w.pool.Close()
	}
	if traceOut != "" {
		f, err := os.Create(traceOut)
		if err == nil {
			enc := json.NewEncoder(f)
			for _, tr := range traces {
				for _, ev := range tr {
					_ = enc.Encode(ev)
				}
				_ = enc.Encode(map[string]any{"who": "reset", "kind": "reset", "n": 0, "from": "", "to": "", "ch": 0})
			}
			_ = f.Close()
		}
	}
}

// ---- bursts at the code's own capacity -------------------------------------------------------------------------------
// The overflow behaviour UdpTaskPool.tla describes for a channel of capacity 1, at the capacity the code uses (UdpTaskQueueLength):
// the worker is held inside the flow's first task while one producer emits a burst that fills the channel and spills far into
// the overflow FIFO (whose slice grows, is compacted while it drains and is shrunk when it empties); a second burst arrives while
// the worker drains. Accept order = emission order (one producer); the property layer is evaluated on the execution log.
func TestVerifTaskPoolBurst(t *testing.T) {
	defer tpSetup(t)()
	res := verifutil.NewResult()
	defer func() {
		if err := res.Write(); err != nil {
			t.Fatal(err)
		}
	}()
	capN := UdpTaskQueueLength
	// (the spill slice grows by the allocator's steps and is compacted when it has drained to a quarter of its remaining capacity:
	// which burst sizes reach that depends on where the growth steps fall, so the sizes are swept)
	stalled := 0
	var firsts []int
	for spill := 1; spill <= 8*capN; spill += 13 {
		firsts = append(firsts, 1+capN+spill)
	}
	for _, first := range firsts {
		for _, second := range []int{0, capN + 5} {
			res.Case()
			s := newVSched()
			s.free = true
			verifYieldHook = s.hook
			w := &tpWorld{s: s, pool: NewUdpTaskPool(), accepted: map[string][]tpTask{}}
			gate := make(chan struct{})
			started := make(chan struct{})
			var order []tpTask
			emit := func(i int) {
				tk := tpTask{P: "p1", N: i, Key: "A"}
				order = append(order, tk)
				w.mu.Lock()
				w.emitted = append(w.emitted, tk)
				w.mu.Unlock()
				f := w.taskFunc(tk)
				if i == 1 {
					inner := f
					f = func() { close(started); <-gate; inner() }
				}
				w.pool.EmitTask(tpKey("A"), f)
			}
			emit(1)
			<-started // the worker is inside the first task
			for i := 2; i <= first; i++ {
				emit(i)
			}
			close(gate)
			// the second burst meets the worker while it drains
			for i := first + 1; i <= first+second; i++ {
				emit(i)
				if i%7 == 0 {
					runtime.Gosched()
				}
			}
			total := first + second
			lastN, lastMove := -1, time.Now()
			for { // until everything ran, or nothing has moved for 3 s
				w.mu.Lock()
				n := len(w.execs)
				w.mu.Unlock()
				if n >= total {
					break
				}
				if n != lastN {
					lastN, lastMove = n, time.Now()
				} else if time.Since(lastMove) > 3*time.Second {
					stalled++
					break
				}
				time.Sleep(time.Millisecond)
			}
			time.Sleep(2 * time.Millisecond)
			w.checkProperties(res, fmt.Sprintf("taskpool-burst:%d+%d", first, second),
				map[string]any{"burst": first, "second_burst": second, "channel_capacity": capN}, map[string][]tpTask{"A": order})
			w.pool.Close()
			if stalled >= 3 {
				return // (every further burst of that size class would wait as long)
			}
		}
	}
}
