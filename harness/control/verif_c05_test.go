//go:build verif

package control

import (
	"bytes"
	"context"
	"fmt"
	"io"
	"net"
	"runtime/debug"
	"strings"
	"sync"
	"testing"
	"testing/synctest"
	"time"

	"github.com/bits-and-blooms/bloom/v3"
	"github.com/daeuniverse/dae/common/consts"
	"github.com/daeuniverse/dae/component/outbound"
	"github.com/daeuniverse/dae/component/outbound/dialer"
	"github.com/daeuniverse/dae/pkg/verifutil"
	D "github.com/daeuniverse/outbound/dialer"
	dnsmessage "github.com/miekg/dns"
	"github.com/daeuniverse/outbound/netproxy"
)

// behaviours emitted by spec/TcpRelay.tla
type c05Obs struct {
	UpMust      bool `json:"upMust"`
	DownMust    bool `json:"downMust"`
	UpEofMust   bool `json:"upEofMust"`
	DownEofMust bool `json:"downEofMust"`
	UpMayEnd    bool `json:"upMayEnd"`
	DownMayEnd  bool `json:"downMayEnd"`
}
type c05Event struct {
	Ev  string `json:"ev"`
	K   string `json:"k"`
	At  int    `json:"at"`
	Obs c05Obs `json:"obs"`
}
type c05Behaviour struct {
	Port int        `json:"port"`
	Hist []c05Event `json:"hist"`
}

// ---- an in-memory TCP-like half-duplex pair: buffered, CloseWrite, deadlines, TCP addresses ------------
type c05Half struct {
	mu       sync.Mutex
	buf      []byte
	eof      bool // the writer shut down its side
	closed   bool // the reader closed
	notify   chan struct{}
	deadline time.Time
}

func newC05Half() *c05Half { return &c05Half{notify: make(chan struct{})} }
func (h *c05Half) wake()   { close(h.notify); h.notify = make(chan struct{}) }

type c05Conn struct {
	rd, wr        *c05Half
	local, remote net.Addr
	closeOnce     sync.Once
}

type c05Timeout struct{}

func (c05Timeout) Error() string   { return "i/o timeout" }
func (c05Timeout) Timeout() bool   { return true }
func (c05Timeout) Temporary() bool { return true }

func c05Pipe(aLocal, aRemote net.Addr) (*c05Conn, *c05Conn) {
	x, y := newC05Half(), newC05Half()
	return &c05Conn{rd: x, wr: y, local: aLocal, remote: aRemote}, &c05Conn{rd: y, wr: x, local: aRemote, remote: aLocal}
}

func (c *c05Conn) Read(p []byte) (int, error) {
	h := c.rd
	for {
		h.mu.Lock()
		if h.closed {
			h.mu.Unlock()
			return 0, net.ErrClosed
		}
		dl := h.deadline
		if !dl.IsZero() && !time.Now().Before(dl) {
			h.mu.Unlock()
			return 0, c05Timeout{}
		}
		if len(h.buf) > 0 {
			n := copy(p, h.buf)
			h.buf = h.buf[n:]
			h.mu.Unlock()
			return n, nil
		}
		if h.eof {
			h.mu.Unlock()
			time.Sleep(100 * time.Microsecond) // a read costs time: a caller polling a finished stream must still reach its deadline
			return 0, io.EOF
		}
		ch := h.notify
		h.mu.Unlock()
		if dl.IsZero() {
			<-ch
		} else {
			t := time.NewTimer(time.Until(dl))
			select {
			case <-ch:
			case <-t.C:
			}
			t.Stop()
		}
	}
}
func (c *c05Conn) Write(p []byte) (int, error) {
	h := c.wr
	h.mu.Lock()
	defer h.mu.Unlock()
	if h.eof {
		return 0, fmt.Errorf("write after shutdown")
	}
	if h.closed {
		return 0, fmt.Errorf("broken pipe")
	}
	h.buf = append(h.buf, p...)
	h.wake()
	return len(p), nil
}
func (c *c05Conn) CloseWrite() error {
	h := c.wr
	h.mu.Lock()
	h.eof = true
	h.wake()
	h.mu.Unlock()
	return nil
}
func (c *c05Conn) Close() error {
	c.closeOnce.Do(func() {
		c.rd.mu.Lock()
		c.rd.closed = true
		c.rd.wake()
		c.rd.mu.Unlock()
		_ = c.CloseWrite()
	})
	return nil
}
func (c *c05Conn) LocalAddr() net.Addr  { return c.local }
func (c *c05Conn) RemoteAddr() net.Addr { return c.remote }
func (c *c05Conn) SetDeadline(t time.Time) error {
	return c.SetReadDeadline(t)
}
func (c *c05Conn) SetReadDeadline(t time.Time) error {
	c.rd.mu.Lock()
	c.rd.deadline = t
	c.rd.wake()
	c.rd.mu.Unlock()
	return nil
}
func (c *c05Conn) SetWriteDeadline(time.Time) error { return nil }

// what the peer end has received so far (non blocking)
func (c *c05Conn) drain() (data []byte, eof bool, closed bool) {
	h := c.rd
	h.mu.Lock()
	defer h.mu.Unlock()
	data = h.buf
	h.buf = nil
	return data, h.eof, h.closed
}

type c05Dialer struct {
	mu     sync.Mutex
	server *c05Conn // the server's end of the last dialled connection
	dials  int
}

func (d *c05Dialer) DialContext(ctx context.Context, network, addr string) (netproxy.Conn, error) {
	daeSide, serverSide := c05Pipe(&net.TCPAddr{IP: net.IPv4(198, 51, 100, 1), Port: 40000}, &net.TCPAddr{IP: net.IPv4(203, 0, 113, 5), Port: 443})
	d.mu.Lock()
	d.server = serverSide
	d.dials++
	d.mu.Unlock()
	return daeSide, nil
}

func c05Hello() []byte {
	name := []byte("relay.example.com")
	sni := append([]byte{0, 0, 0, byte(len(name) + 5), 0, byte(len(name) + 3), 0, 0, byte(len(name))}, name...)
	body := []byte{3, 3}
	body = append(body, bytes.Repeat([]byte{0x42}, 32)...)
	body = append(body, 0, 0, 2, 0x13, 0x01, 1, 0)
	body = append(body, byte(len(sni)>>8), byte(len(sni)))
	body = append(body, sni...)
	hs := append([]byte{1, 0, byte(len(body) >> 8), byte(len(body))}, body...)
	return append([]byte{0x16, 3, 1, byte(len(hs) >> 8), byte(len(hs))}, hs...)
}

func c05Segment(kind string, seq int) []byte {
	hello := c05Hello()
	switch kind {
	case "tls5":
		return hello[:5]
	case "tlsrest":
		return hello[5:]
	case "tlsfull":
		return hello
	case "http":
		return []byte("GET /index.html HTTP/1.1\r\nHost: relay.example.com\r\nAccept: */*\r\n\r\n")
	case "httphalf":
		return []byte("GET /index.html HTTP/1.1\r\nHost: relay.exa")
	case "bin1":
		return []byte{0x7f}
	case "bin":
		return []byte{0xff, 0xfe, 1, 2, 3, 4, 5, 6, 7, 8, 9, 10, 11, 12, 13, 14, 15, 16, 17, byte(seq)}
	case "dnsjunk":
		return []byte{0, 5, 9, 9, 9}
	case "dnsresp":
		m := new(dnsmessage.Msg)
		m.SetQuestion("zone.test.", dnsmessage.TypeSOA)
		m.Response = true
		m.Id = uint16(seq)
		b, _ := m.Pack()
		return append([]byte{byte(len(b) >> 8), byte(len(b))}, b...)
	case "big", "s-big":
		b := make([]byte, 70000)
		for i := range b {
			b[i] = byte((i*7 + seq) % 251)
		}
		return b
	}
	return []byte(fmt.Sprintf("server-says-%d\r\n", seq))
}

func c05NewPlane(d netproxy.Dialer) (*ControlPlane, error) {
	log := verifLogger()
	gopt := &dialer.GlobalOption{Log: log, CheckInterval: time.Hour}
	mk := func(name string, nd netproxy.Dialer) *outbound.DialerGroup {
		dd := dialer.NewDialer(nd, gopt, dialer.InstanceOption{DisableCheck: true}, &dialer.Property{Property: D.Property{Name: name}})
		return outbound.NewDialerGroup(gopt, name, []*dialer.Dialer{dd}, []*dialer.Annotation{{}},
			outbound.DialerSelectionPolicy{Policy: consts.DialerSelectionPolicy_Fixed, FixedIndex: 0}, func(bool, *dialer.NetworkType, bool) {})
	}
	b, err := verifCompileRouting("routing { fallback: g }", map[string]uint8{"direct": 0, "block": 1, "g": 2}, nil, true)
	if err != nil {
		return nil, err
	}
	m, err := b.BuildUserspace()
	if err != nil {
		return nil, err
	}
	ctx, cancel := context.WithCancel(context.Background())
	cp := &ControlPlane{realDomainSet: bloom.NewWithEstimates(2048, 0.001), log: log, ctx: ctx, cancel: cancel}
	cp.dialMode = consts.DialMode_Domain
	cp.sniffingTimeout = 100 * time.Millisecond
	cp.routingMatcher = m
	cp.dnsController = &DnsController{dnsControllerStore: &dnsControllerStore{}}
	cp.outbounds = []*outbound.DialerGroup{mk("direct", d), mk("block", d), mk("g", d)}
	return cp, nil
}

func c05RunOne(b *c05Behaviour, res *verifutil.Result) {
	d := &c05Dialer{}
	cp, err := c05NewPlane(d)
	if err != nil {
		res.Note("plane: " + err.Error())
		return
	}
	defer cp.cancel()
	src := &net.TCPAddr{IP: net.IPv4(192, 0, 2, 10), Port: 50123}
	dst := &net.TCPAddr{IP: net.IPv4(203, 0, 113, 5), Port: b.Port}
	daeSide, client := c05Pipe(dst, src) // as accepted by the transparent listener: local = original destination
	done := make(chan error, 1)
	start := time.Now()
	go func() {
		defer func() {
			if r := recover(); r != nil {
				done <- fmt.Errorf("PANIC: %v\n%s", r, debug.Stack())
			}
		}()
		done <- cp.handleConn(context.Background(), daeSide)
	}()
	var sentUp, sentDown, gotUp, gotDown []byte
	upEof, downEof := false, false
	finished := false
	var finErr error
	var trail []string
	cfg := fmt.Sprintf("port %d", b.Port)
	fail := func(suffix, format string, a ...any) {
		res.Failf("c05:"+cfg+":"+strings.Join(trail, ";")+suffix, append([]string(nil), trail...), "[%s] %v: %s", cfg, trail, fmt.Sprintf(format, a...))
	}
	for i, ev := range b.Hist {
		if wait := time.Until(start.Add(time.Duration(ev.At) * time.Millisecond)); wait > 0 {
			time.Sleep(wait)
		}
		synctest.Wait()
		d.mu.Lock()
		server := d.server
		d.mu.Unlock()
		switch ev.Ev {
		case "cw":
			seg := c05Segment(ev.K, i)
			trail = append(trail, fmt.Sprintf("t=%d client writes %s(%dB)", ev.At, ev.K, len(seg)))
			sentUp = append(sentUp, seg...)
			_, _ = client.Write(seg)
		case "sw":
			seg := c05Segment(ev.K, i)
			trail = append(trail, fmt.Sprintf("t=%d server writes %s(%dB)", ev.At, ev.K, len(seg)))
			if server == nil {
				fail("|nodial", "%d ms after accept the destination has still not been dialled (detection windows: %s)", ev.At, map[bool]string{true: "5 s DNS + 2 x 100 ms", false: "2 x 100 ms"}[b.Port == 53])
				return
			}
			sentDown = append(sentDown, seg...)
			_, _ = server.Write(seg)
		case "cc":
			trail = append(trail, fmt.Sprintf("t=%d client half-closes", ev.At))
			_ = client.CloseWrite()
		case "sc":
			trail = append(trail, fmt.Sprintf("t=%d server half-closes", ev.At))
			if server == nil {
				fail("|nodial", "%d ms after accept the destination has still not been dialled", ev.At)
				return
			}
			_ = server.CloseWrite()
		case "wait":
			trail = append(trail, fmt.Sprintf("t=%d idle", ev.At))
		}
		synctest.Wait()
		time.Sleep(2 * time.Millisecond) // reads of a finished stream cost (virtual) time
		synctest.Wait()
		// ---- observations
		d.mu.Lock()
		server = d.server
		d.mu.Unlock()
		if server != nil {
			data, eof, _ := server.drain()
			gotUp = append(gotUp, data...)
			upEof = upEof || eof
		}
		data, eof, _ := client.drain()
		gotDown = append(gotDown, data...)
		downEof = downEof || eof
		if !finished {
			select {
			case finErr = <-done:
				finished = true
			default:
			}
		}
		res.Eval(4)
		if !bytes.HasPrefix(sentUp, gotUp) {
			fail("|up", "the destination received bytes the client did not send in that order: %d received, first difference at %d of %d sent", len(gotUp), c05Diff(gotUp, sentUp), len(sentUp))
			return
		}
		if !bytes.HasPrefix(sentDown, gotDown) {
			fail("|down", "the client received bytes the destination did not send in that order: %d received, first difference at %d of %d sent", len(gotDown), c05Diff(gotDown, sentDown), len(sentDown))
			return
		}
		if ev.Obs.UpMust && len(gotUp) != len(sentUp) {
			fail("|upheld", "%d ms after accept the destination has %d of the %d bytes the client wrote (relay finished: %v, err %v); every detection window is over and no half-close grace has run out", ev.At, len(gotUp), len(sentUp), finished, finErr)
			return
		}
		if ev.Obs.DownMust && len(gotDown) != len(sentDown) {
			fail("|downheld", "%d ms after accept the client has %d of the %d bytes the destination wrote (relay finished: %v, err %v)", ev.At, len(gotDown), len(sentDown), finished, finErr)
			return
		}
		if ev.Obs.UpEofMust && !upEof {
			fail("|upeof", "the client's end of stream was not passed on to the destination as a write shutdown (relay finished: %v, err %v)", finished, finErr)
			return
		}
		if ev.Obs.DownEofMust && !downEof {
			fail("|downeof", "the destination's end of stream was not passed on to the client as a write shutdown (relay finished: %v, err %v)", finished, finErr)
			return
		}
		bothEof := false
		for _, e := range b.Hist[:i+1] {
			if e.Ev == "cc" {
				for _, f := range b.Hist[:i+1] {
					if f.Ev == "sc" {
						bothEof = true
					}
				}
			}
		}
		if finished && !bothEof && !ev.Obs.UpMayEnd && !ev.Obs.DownMayEnd {
			fail("|cut", "the relay ended the connection %d ms after accept (err %v) although neither side closed and no half-close grace has run out", ev.At, finErr)
			return
		}
	}
	res.Count(fmt.Sprintf("c05_port%d", b.Port), 1)
	if d.dials > 0 {
		res.Count("c05_dialled", 1)
	}
	// let the connection go
	_ = client.Close()
	d.mu.Lock()
	if d.server != nil {
		_ = d.server.Close()
	}
	d.mu.Unlock()
	if !finished {
		select {
		case <-done:
		case <-time.After(30 * time.Second):
			fail("|hang", "handleConn did not return within 30 s after both peers closed")
		}
	}
}

func c05Diff(a, b []byte) int {
	for i := 0; i < len(a) && i < len(b); i++ {
		if a[i] != b[i] {
			return i
		}
	}
	if len(a) < len(b) {
		return len(a)
	}
	return len(b)
}

func TestVerifC05(t *testing.T) {
	bs, err := verifutil.ReadLines[c05Behaviour]("VERIF_IN")
	if err != nil {
		t.Fatal(err)
	}
	res := verifutil.NewResult()
	defer func() {
		if err := res.Write(); err != nil {
			t.Fatal(err)
		}
	}()
	synctest.Test(t, func(t *testing.T) {
		for bi := range bs {
			res.Case()
			if bi < 2 {
				res.Sample(bs[bi].Hist)
			}
			c05RunOne(&bs[bi], res)
			synctest.Wait()
		}
	})
}
