//go:build verif

package control

// C13 (kernel flow entries): histories of TupleTracker.tla replayed call by call on the REAL udpConnStateTracker.
// A call that the model says waits for a deletion in flight runs in its own goroutine and must be parked on the tracker's
// condition variable (testing/synctest tells a parked goroutine from a running one); FinalizeRelease must wake exactly the
// calls the model wakes; after every event the tracker's table (present / refs / deleting per tuple) is compared with the model.

import (
	"encoding/json"
	"fmt"
	"net/netip"
	"sort"
	"strings"
	"testing"
	"testing/synctest"

	"github.com/daeuniverse/dae/pkg/verifutil"
)

type ttEnt struct {
	Present  bool `json:"present"`
	Refs     int  `json:"refs"`
	Deleting bool `json:"deleting"`
}
type ttEvent struct {
	Ev  string          `json:"ev"`
	P   string          `json:"p"`
	Ks  []string        `json:"ks"`
	Res json.RawMessage `json:"res"`
	Obs struct {
		Ent map[string]ttEnt  `json:"ent"`
		Pc  map[string]string `json:"pc"`
	} `json:"obs"`
}
type ttBehaviour struct {
	Hist []ttEvent `json:"hist"`
}

func ttRunOne(b *ttBehaviour, res *verifutil.Result) {
	tr := newUdpConnStateTracker()
	src := netip.MustParseAddrPort("192.0.2.10:5001")
	keys := map[string]bpfTuplesKey{
		"k1": bpfTuplesKeyFromAddrPorts(src, netip.MustParseAddrPort("203.0.113.1:7000"), 17),
		"k2": bpfTuplesKeyFromAddrPorts(src, netip.MustParseAddrPort("203.0.113.2:7000"), 17),
	}
	names := map[bpfTuplesKey]string{keys["k1"]: "k1", keys["k2"]: "k2"}
	pending := map[string]chan struct{}{}                 // caller -> its waiting call
	releases := map[string][]udpConnStateTrackedRelease{} // caller -> what BeginRelease reported
	var trail []string
	fail := func(suffix, format string, a ...any) {
		res.Failf("c13tt:"+strings.Join(trail, ";")+suffix, append([]string(nil), trail...), "%v: %s", trail, fmt.Sprintf(format, a...))
	}
	defer func() {
		// never leave a goroutine parked in the bubble
		for p, rel := range releases {
			tr.FinalizeRelease(rel)
			delete(releases, p)
		}
		synctest.Wait()
		// after a reported failure a call may still be parked: release it by hand
		tr.mu.Lock()
		for k, e := range tr.entries {
			if e.deleting {
				delete(tr.entries, k)
			}
			if e.waiters != nil {
				e.waiters.Broadcast()
			}
		}
		tr.mu.Unlock()
		synctest.Wait()
	}()
	call := func(p string, f func()) bool { // true: returned, false: parked
		done := make(chan struct{})
		go func() { f(); close(done) }()
		synctest.Wait()
		select {
		case <-done:
			return true
		default:
			pending[p] = done
			return false
		}
	}
	for _, ev := range b.Hist {
		var sres string
		var setres []string
		if json.Unmarshal(ev.Res, &sres) != nil {
			_ = json.Unmarshal(ev.Res, &setres)
		}
		switch ev.Ev {
		case "retain", "forget":
			k := keys[ev.Ks[0]]
			trail = append(trail, fmt.Sprintf("%s %ss %s", ev.P, ev.Ev, ev.Ks[0]))
			var returned bool
			if ev.Ev == "retain" {
				returned = call(ev.P, func() { tr.Retain([]bpfTuplesKey{k}) })
			} else {
				returned = call(ev.P, func() { tr.Forget([]bpfTuplesKey{k}) })
			}
			res.Eval(1)
			if returned != (sres == "done") {
				if returned {
					fail("|nowait", "the call returned while the deletion of %s is in flight; it has to wait for its end and start over", ev.Ks[0])
				} else {
					fail("|stuck", "the call is waiting although no deletion of %s is in flight", ev.Ks[0])
				}
				return
			}
		case "begin":
			trail = append(trail, fmt.Sprintf("%s begins to release %v", ev.P, ev.Ks))
			var ks []bpfTuplesKey
			for _, n := range ev.Ks {
				ks = append(ks, keys[n])
			}
			rel := tr.BeginRelease(ks)
			releases[ev.P] = rel
			var got []string
			for _, r := range rel {
				got = append(got, names[r.key])
			}
			sort.Strings(got)
			sort.Strings(setres)
			res.Eval(1)
			if strings.Join(got, ",") != strings.Join(setres, ",") {
				fail("|delete", "BeginRelease reports %v for deletion from the kernel map; the entries whose LAST reference goes are %v", got, setres)
				return
			}
		case "finalize":
			trail = append(trail, fmt.Sprintf("%s ends its release", ev.P))
			tr.FinalizeRelease(releases[ev.P])
			delete(releases, ev.P)
			synctest.Wait()
			woken := map[string]bool{}
			for _, p := range setres {
				woken[p] = true
			}
			for p, done := range pending {
				returned := false
				select {
				case <-done:
					returned = true
				default:
				}
				res.Eval(1)
				if returned != woken[p] {
					if woken[p] {
						fail("|stuck", "the call of %s that waited for this deletion has not returned", p)
					} else {
						fail("|woken", "the call of %s returned although the deletion it waits for has not ended", p)
					}
					return
				}
				if returned {
					delete(pending, p)
				}
			}
		}
		// ---- the tracker's table
		tr.mu.Lock()
		for n, k := range keys {
			want := ev.Obs.Ent[n]
			e, ok := tr.entries[k]
			got := ttEnt{}
			if ok {
				got = ttEnt{Present: true, Refs: e.refs, Deleting: e.deleting}
			}
			res.Eval(1)
			if got != want {
				tr.mu.Unlock()
				fail("|table", "tuple %s: the tracker has %+v, expected %+v (one reference per holder; the entry is dropped with its last reference - after the kernel deletion when it was released, at once when it was forgotten)", n, got, want)
				return
			}
		}
		tr.mu.Unlock()
	}
	res.Count("c13tt", 1)
}

func TestVerifC13TupleTracker(t *testing.T) {
	bs, err := verifutil.ReadLines[ttBehaviour]("VERIF_IN")
	if err != nil {
		t.Fatal(err)
	}
	res := verifutil.NewResult()
	defer func() {
		if err := res.Write(); err != nil {
			t.Fatal(err)
		}
	}()
	synctest.Test(t, func(t *testing.T) {
		for bi := range bs {
			res.Case()
			if bi < 2 {
				res.Sample(bs[bi].Hist)
			}
			ttRunOne(&bs[bi], res)
			synctest.Wait()
		}
	})
}
