//go:build verif && !dae_stub_ebpf

package control

import (
	"encoding/binary"
	"fmt"
	"math/rand"
	"net/netip"
	"os"
	"runtime"
	"strings"
	"testing"

	"github.com/cilium/ebpf"
	"github.com/daeuniverse/dae/common"
	"github.com/daeuniverse/dae/common/consts"
	"github.com/daeuniverse/dae/pkg/verifutil"
	"golang.org/x/sys/unix"
)

// ---- frame construction ---------------------------------------------------------------------------------

type vFrame struct {
	SrcMac, DstMac [6]byte
	Src, Dst       netip.AddrPort
	L4             uint8 // unix.IPPROTO_TCP / UDP
	Dscp           uint8
	TcpFlags       uint8  // SYN=0x02 ACK=0x10 FIN=0x01 RST=0x04
	ExtHdrs        []byte // IPv6 extension header chain protocol numbers (0 hop-by-hop, 60 dstopts), each 8 bytes
	PadTo          int    // total frame length to pad to (0: none); >=128 selects the direct-packet-access parser
	Payload        []byte
	// frame shapes (spec/FrameShape.tla)
	Ip4OptLen int    // bytes of IPv4 options (NOPs), multiple of 4
	Frag      string // "", "first" (offset 0, more fragments), "later" (offset > 0)
	RawProto  uint8  // when non-zero: the IP protocol number of a non-TCP/UDP payload (L4 is ignored)
	CutAt     int    // when non-zero: the frame is truncated to this many bytes
}

func vChecksum(b []byte) uint16 {
	var s uint32
	for i := 0; i+1 < len(b); i += 2 {
		s += uint32(b[i])<<8 | uint32(b[i+1])
	}
	if len(b)%2 == 1 {
		s += uint32(b[len(b)-1]) << 8
	}
	for s>>16 != 0 {
		s = s&0xffff + s>>16
	}
	return ^uint16(s)
}

func (f *vFrame) Bytes() []byte {
	var l4 []byte
	proto := f.L4
	if f.RawProto != 0 {
		proto = f.RawProto
		l4 = []byte{128, 0, 0, 0, 0, 1, 0, 1} // (an ICMP echo header; any 8 bytes for other protocols)
	} else if f.L4 == unix.IPPROTO_TCP {
		l4 = make([]byte, 20)
		binary.BigEndian.PutUint16(l4[0:], f.Src.Port())
		binary.BigEndian.PutUint16(l4[2:], f.Dst.Port())
		binary.BigEndian.PutUint32(l4[4:], 1000)
		l4[12] = 5 << 4
		l4[13] = f.TcpFlags
		binary.BigEndian.PutUint16(l4[14:], 65535)
	} else {
		l4 = make([]byte, 8)
		binary.BigEndian.PutUint16(l4[0:], f.Src.Port())
		binary.BigEndian.PutUint16(l4[2:], f.Dst.Port())
		binary.BigEndian.PutUint16(l4[4:], uint16(8+len(f.Payload)))
	}
	l4 = append(l4, f.Payload...)
	eth := make([]byte, 14)
	copy(eth[0:6], f.DstMac[:])
	copy(eth[6:12], f.SrcMac[:])
	var ip []byte
	is4 := f.Dst.Addr().Is4() || f.Dst.Addr().Is4In6()
	hdrLen := 14
	if is4 {
		binary.BigEndian.PutUint16(eth[12:], 0x0800)
		ip = make([]byte, 20+f.Ip4OptLen)
		ip[0] = 0x40 | byte(5+f.Ip4OptLen/4)
		for i := 20; i < len(ip); i++ {
			ip[i] = 1 // NOP
		}
		ip[1] = f.Dscp << 2
		switch f.Frag {
		case "first":
			binary.BigEndian.PutUint16(ip[6:], 0x2000)
		case "later":
			binary.BigEndian.PutUint16(ip[6:], 0x2000|185)
		}
		ip[8] = 64
		ip[9] = proto
		s4 := f.Src.Addr().Unmap().As4()
		d4 := f.Dst.Addr().Unmap().As4()
		copy(ip[12:16], s4[:])
		copy(ip[16:20], d4[:])
		hdrLen += len(ip)
	} else {
		binary.BigEndian.PutUint16(eth[12:], 0x86dd)
		ip = make([]byte, 40)
		ip[0] = 0x60 | f.Dscp>>2
		ip[1] = (f.Dscp & 3) << 6
		ip[7] = 64
		s16 := f.Src.Addr().As16()
		d16 := f.Dst.Addr().As16()
		copy(ip[8:24], s16[:])
		copy(ip[24:40], d16[:])
		// extension header chain
		next := proto
		var exts []byte
		chain := f.ExtHdrs
		if f.Frag != "" {
			chain = append(append([]byte(nil), chain...), 44) // the fragment header comes last
		}
		for i := len(chain) - 1; i >= 0; i-- {
			h := make([]byte, 8)
			h[0] = next
			h[1] = 0                                              // (len+1)*8 = 8 bytes
			h[2], h[3], h[4], h[5], h[6], h[7] = 1, 4, 0, 0, 0, 0 // PadN
			if chain[i] == 44 {                                   // fragment header: reserved, offset / M, identification
				h[1], h[2], h[3] = 0, 0, 1
				if f.Frag == "later" {
					h[2], h[3] = 0x05, 0xc9
				}
				h[4], h[5], h[6], h[7] = 0, 0, 0, 7
			}
			exts = append(h, exts...)
			next = chain[i]
		}
		ip[6] = next
		ip = append(ip, exts...)
		hdrLen += len(ip)
	}
	total := hdrLen + len(l4)
	pad := 0
	if f.PadTo > total {
		pad = f.PadTo - total
	}
	l4 = append(l4, make([]byte, pad)...)
	if f.L4 == unix.IPPROTO_UDP && f.RawProto == 0 {
		binary.BigEndian.PutUint16(l4[4:], uint16(len(l4)))
	}
	if is4 {
		binary.BigEndian.PutUint16(ip[2:], uint16(len(ip)+len(l4)))
		binary.BigEndian.PutUint16(ip[10:], vChecksum(ip))
	} else {
		binary.BigEndian.PutUint16(ip[4:], uint16(len(ip)-40+len(l4)))
	}
	out := append(eth, ip...)
	out = append(out, l4...)
	if f.CutAt > 0 && f.CutAt < len(out) {
		out = out[:f.CutAt]
	}
	return out
}

// skb context passed to BPF_PROG_TEST_RUN (struct __sk_buff, only the fields test-run accepts)
type vSkbCtx struct {
	Len, PktType, Mark, QueueMapping, Protocol, VlanPresent, VlanTci, VlanProto, Priority uint32
	IngressIfindex, Ifindex, TcIndex                                                      uint32
	Cb                                                                                    [5]uint32
	Hash, TcClassid, Data, DataEnd, NapiId, Family                                        uint32
	RemoteIp4, LocalIp4                                                                   uint32
	RemoteIp6, LocalIp6                                                                   [4]uint32
	RemotePort, LocalPort, DataMeta                                                       uint32
	FlowKeys                                                                              uint64
	Tstamp                                                                                uint64
	WireLen, GsoSegs                                                                      uint32
	Sk                                                                                    uint64
	GsoSize                                                                               uint32
	TstampType                                                                            uint8
	_                                                                                     [3]byte
	Hwtstamp                                                                              uint64
}

type vRun struct {
	Ret  uint32
	Mark uint32
	Cb   [5]uint32
	Data []byte
}

func vRunProg(p *ebpf.Program, frame []byte, mark uint32) (vRun, error) {
	ctxIn := vSkbCtx{Mark: mark}
	var ctxOut vSkbCtx
	out := make([]byte, len(frame)+256)
	opts := &ebpf.RunOptions{Data: frame, DataOut: out, Context: &ctxIn, ContextOut: &ctxOut}
	ret, err := p.Run(opts)
	if err != nil {
		return vRun{}, err
	}
	return vRun{Ret: ret, Mark: ctxOut.Mark, Cb: ctxOut.Cb, Data: opts.DataOut}, nil
}

const (
	vTcOk       = 0
	vTcShot     = 2
	vTcPipe     = 3
	vTcRedirect = 7
)

// ---- kernel state helpers -------------------------------------------------------------------------------

type vKern struct {
	objs *bpfObjects
	core *controlPlaneCore
}

func vNewKern(customize func(spec *ebpf.CollectionSpec) error) (*vKern, error) {
	objs, err := verifLoadBpf(customize)
	if err != nil {
		return nil, err
	}
	k := &vKern{objs: objs, core: &controlPlaneCore{log: verifLogger()}}
	k.core.bpf.Store(objs)
	return k, nil
}

func (k *vKern) Close() { _ = k.objs.Close() }

// all outbound groups alive for every protocol/family (the production writer is outboundAliveChangeCallback)
func (k *vKern) SetAllAlive(ids []uint8, alive uint32) error {
	for _, id := range ids {
		for slot := uint32(0); slot < 6; slot++ {
			key := uint32(id)*6 + slot
			if err := k.objs.OutboundConnectivityMap.Update(key, alive, ebpf.UpdateAny); err != nil {
				return err
			}
		}
	}
	return nil
}

func (k *vKern) ForgetFlow(src, dst netip.AddrPort, l4 uint8) {
	key := bpfTuplesKeyFromAddrPorts(src, dst, l4)
	_ = k.objs.ConnStateMap.Delete(&key)
	_ = k.objs.RoutingHandoffMap.Delete(&key)
	rkey := bpfTuplesKeyFromAddrPorts(dst, src, l4)
	_ = k.objs.ConnStateMap.Delete(&rkey)
	_ = k.objs.RoutingHandoffMap.Delete(&rkey)
}

func (k *vKern) SetDomainBitmap(dst netip.Addr, bitmap []uint32) error {
	a16 := dst.As16()
	key := common.Ipv6ByteSliceToUint32Array(a16[:])
	if bitmap == nil {
		err := k.objs.DomainRoutingMap.Delete(&key)
		if err != nil && !strings.Contains(err.Error(), "not exist") {
			return err
		}
		return nil
	}
	var v bpfDomainRouting
	copy(v.Bitmap[:], bitmap)
	return k.objs.DomainRoutingMap.Update(&key, &v, ebpf.UpdateAny)
}

// ---- process identity for WAN egress ---------------------------------------------------------------------
// In BPF_PROG_TEST_RUN every run gets a fresh dummy socket; its cookie comes from the per-CPU socket cookie
// generator. The harness pins its thread to one CPU, reads the generator position through SO_COOKIE of a
// throw-away socket and fills cookie_pid_map (the map the production cgroup hooks fill) for the next
// cookies. The kernel stamps last_seen_ns on the entry it used, which tells the harness whether the
// window was hit; a miss is retried and never turned into a verdict.
var vPinned bool

func vPinThread() error {
	if vPinned {
		return nil
	}
	runtime.LockOSThread()
	var set unix.CPUSet
	if err := unix.SchedGetaffinity(0, &set); err != nil {
		return err
	}
	for cpu := 0; cpu < 1024; cpu++ {
		if set.IsSet(cpu) {
			var one unix.CPUSet
			one.Set(cpu)
			if err := unix.SchedSetaffinity(0, &one); err != nil {
				return err
			}
			break
		}
	}
	vPinned = true
	return nil
}

const vCookieWindow = 96

func (k *vKern) ArmProcess(pid uint32, pname [16]byte) (window []uint64, err error) {
	if err = vPinThread(); err != nil {
		return nil, err
	}
	fd, err := unix.Socket(unix.AF_INET, unix.SOCK_DGRAM, 0)
	if err != nil {
		return nil, err
	}
	c, err := unix.GetsockoptUint64(fd, unix.SOL_SOCKET, unix.SO_COOKIE)
	_ = unix.Close(fd)
	if err != nil {
		return nil, err
	}
	var val bpfPidPname
	val.Pid = pid
	for i := range pname {
		val.Pname[i] = int8(pname[i])
	}
	for i := uint64(1); i <= vCookieWindow; i++ {
		key := c + i
		if err = k.objs.CookiePidMap.Update(&key, &val, ebpf.UpdateAny); err != nil {
			return nil, err
		}
		window = append(window, key)
	}
	return window, nil
}

// DisarmProcess removes the window and reports whether the kernel used one of its entries.
func (k *vKern) DisarmProcess(window []uint64) (hit bool) {
	for _, key := range window {
		var val bpfPidPname
		if err := k.objs.CookiePidMap.Lookup(&key, &val); err == nil && val.LastSeenNs != 0 {
			hit = true
		}
		_ = k.objs.CookiePidMap.Delete(&key)
	}
	return hit
}

// ---- C02: kernel route() == userspace matcher (modulo the DNS hand-over) --------------------------------

func TestVerifRuleScanKern(t *testing.T) {
	res := verifutil.NewResult()
	defer func() {
		if err := res.Write(); err != nil {
			t.Fatal(err)
		}
	}()
	k, err := vNewKern(nil)
	if err != nil {
		res.Note(err.Error())
		t.Fatal(err)
	}
	defer k.Close()
	if err := k.SetAllAlive([]uint8{0, 1, 2, 3, 251, 0xFD}, 1); err != nil {
		t.Fatal(err)
	}
	rng := rand.New(rand.NewSource(verifutil.Seed()))
	every := verifutil.EnvInt("VERIF_RS_EVERY", 1)
	log := verifLogger()
	only := os.Getenv("VERIF_RS_ONLY") // "domain": only programs that mention a domain condition
	rsStream(t, every, func(i int, v *rsVector) {
		if only == "domain" {
			has := false
			for _, r := range v.Prog {
				for _, c := range r.Conds {
					if c.Fn == "domain" {
						has = true
					}
				}
			}
			if !has {
				return
			}
		}
		text := rsRender(v, rng)
		b, err := verifCompileRouting(text, rsOutIds, k.objs, true)
		if err != nil {
			res.Failf("compile:"+text, text, "well-formed program rejected (%v): %s", err, text)
			return
		}
		if _, err := b.KernspaceSnapshot().BuildKernspace(log, k.objs); err != nil {
			res.Failf("kernspace:"+text, text, "BuildKernspace failed (%v): %s", err, text)
			return
		}
		m, err := b.BuildUserspace()
		if err != nil {
			res.Failf("compile:"+text, text, "BuildUserspace failed (%v): %s", err, text)
			return
		}
		res.Case()
		if res.Cases <= 2 {
			res.Sample(map[string]any{"config": text, "packets": len(v.Cases)})
		}
		cp := &ControlPlane{}
		cp.routingMatcher = m
		for _, c := range v.Cases {
			src, dst, domain, l4t, rr := rsPktArgs(c.Pkt)
			l4 := uint8(unix.IPPROTO_TCP)
			if l4t == consts.L4ProtoType_UDP {
				l4 = unix.IPPROTO_UDP
			}
			if len(c.Pkt.Pname) != 0 {
				// process names exist only on the WAN side
				var bm []uint32
				if domain != "" {
					bm = m.domainMatcher.MatchDomainBitmap(domain)
				}
				if err := k.SetDomainBitmap(dst.Addr(), bm); err != nil {
					t.Fatalf("domain_routing_map: %v", err)
				}
				vWanCase(k, res, text, c, src, dst, domain, l4, rr, rng)
				continue
			}
			k.ForgetFlow(src, dst, l4)
			var bm []uint32
			if domain != "" {
				bm = m.domainMatcher.MatchDomainBitmap(domain)
			}
			if err := k.SetDomainBitmap(dst.Addr(), bm); err != nil {
				t.Fatalf("domain_routing_map: %v", err)
			}
			fr := vFrame{Src: src, Dst: dst, L4: l4, Dscp: rr.Dscp, TcpFlags: 0x02, DstMac: [6]byte{2, 0, 0, 0, 0, 0xfe}}
			copy(fr.SrcMac[:], rr.Mac[:])
			if rng.Intn(2) == 0 {
				fr.PadTo = 160
			}
			run, err := vRunProg(k.objs.TproxyLanIngressL2, fr.Bytes(), 0)
			if err != nil {
				res.Note("prog run: " + err.Error())
				t.Fatalf("BPF_PROG_TEST_RUN: %v", err)
			}
			res.Eval(1)
			wantOut := uint8(0xFD)
			if c.Kexp.Out != "CONTROL_PLANE_ROUTING" {
				wantOut = rsOutIds[c.Kexp.Out]
			}
			wantMark, wantMust := rsMarks[c.Kexp.Mark], c.Kexp.Must
			key := fmt.Sprintf("kern:%s|%s", text, rsPktText(c.Pkt))
			repl := map[string]any{"config": text, "packet": rsPktText(c.Pkt), "hook": "lan_ingress_l2", "padTo": fr.PadTo}
			// userspace decision for the same packet (kernel must equal it modulo the DNS hand-over)
			uo, um, umust, uerr := cp.Route(src, dst, domain, l4t, rr)
			got, rerr := k.core.RetrieveRoutingResult(src, dst, l4)
			short := l4 == unix.IPPROTO_UDP && (src.Port() == 53 || dst.Port() == 53)
			if !short || run.Ret == vTcRedirect {
				// decision recorded by the kernel (conn state or hand-over record), read by the production reader
				if rerr != nil {
					res.Failf(key, repl, "program\n%s packet %s: kernel returned %d and left no readable decision (%v); expected (%s, mark %#x, must %v)", text, rsPktText(c.Pkt), run.Ret, rerr, c.Kexp.Out, wantMark, wantMust)
					continue
				}
				if got.Outbound != wantOut || got.Mark != wantMark || (got.Must != 0) != wantMust {
					res.Failf(key, repl, "program\n%s packet %s: kernel decided (outbound %d, mark %#x, must %d); userspace matcher says (%d, %#x, %v, err %v); the rules as written require (%s=%d, mark %#x, must %v)",
						text, rsPktText(c.Pkt), got.Outbound, got.Mark, got.Must, uo, um, umust, uerr, c.Kexp.Out, wantOut, wantMark, wantMust)
					continue
				}
				if got.Dscp != rr.Dscp || got.Mac != rr.Mac {
					res.Failf(key+"|meta", repl, "program\n%s packet %s: kernel record carries dscp %d mac %v, frame had dscp %d mac %v", text, rsPktText(c.Pkt), got.Dscp, got.Mac, rr.Dscp, rr.Mac)
				}
			} else {
				// stateless DNS datagram that was not redirected: only the verdict is observable
				switch {
				case run.Ret == vTcOk:
					if wantOut != 0 || run.Mark != wantMark {
						res.Failf(key, repl, "program\n%s packet %s: kernel passed the frame with mark %#x; expected (%s, mark %#x, must %v)", text, rsPktText(c.Pkt), run.Mark, c.Kexp.Out, wantMark, wantMust)
					}
				case run.Ret == vTcShot:
					if wantOut != 1 {
						res.Failf(key, repl, "program\n%s packet %s: kernel dropped the frame; expected (%s, mark %#x, must %v)", text, rsPktText(c.Pkt), c.Kexp.Out, wantMark, wantMust)
					}
				default:
					res.Failf(key, repl, "program\n%s packet %s: unexpected TC verdict %d", text, rsPktText(c.Pkt), run.Ret)
				}
			}
			// verdict must fit the decision
			switch {
			case wantOut == 0:
				if run.Ret != vTcOk || run.Mark != wantMark {
					res.Failf(key+"|verdict", repl, "program\n%s packet %s: decision direct(mark %#x) but verdict %d skb->mark %#x", text, rsPktText(c.Pkt), wantMark, run.Ret, run.Mark)
				}
			case wantOut == 1:
				if run.Ret != vTcShot {
					res.Failf(key+"|verdict", repl, "program\n%s packet %s: decision block but verdict %d", text, rsPktText(c.Pkt), run.Ret)
				}
			default:
				if run.Ret != vTcRedirect {
					res.Failf(key+"|verdict", repl, "program\n%s packet %s: decision outbound %d but verdict %d (expected redirect)", text, rsPktText(c.Pkt), wantOut, run.Ret)
				}
			}
			// ---- WAN egress of the same packet (locally originated: MAC of the local NIC, process known or not)
			vWanCase(k, res, text, c, src, dst, domain, l4, rr, rng)
			// kernel vs userspace, modulo the intended difference
			if uerr == nil {
				res.Eval(1)
				exp := c.Exp
				if uint8(uo) != rsOutIds[exp.Out] || um != rsMarks[exp.Mark] || umust != exp.Must {
					res.Failf("user:"+text+"|"+rsPktText(c.Pkt), repl, "userspace matcher (optimised program) decides (%d,%#x,%v), rules as written (%s,%#x,%v)", uo, um, umust, exp.Out, rsMarks[exp.Mark], exp.Must)
				}
			}
		}
	})
	_ = os.Getenv
}

// vWanCase runs one packet through tproxy_wan_egress_l2 and compares what the kernel decided with the spec.
func vWanCase(k *vKern, res *verifutil.Result, text string, c rsCase, src, dst netip.AddrPort, domain string, l4 uint8, rr *bpfRoutingResult, rng *rand.Rand) {
	wantOut := uint8(0xFD)
	if c.Kexp.Out != "CONTROL_PLANE_ROUTING" {
		wantOut = rsOutIds[c.Kexp.Out]
	}
	wantMark, wantMust := rsMarks[c.Kexp.Mark], c.Kexp.Must
	key := fmt.Sprintf("kernwan:%s|%s", text, rsPktText(c.Pkt))
	repl := map[string]any{"config": text, "packet": rsPktText(c.Pkt), "hook": "wan_egress_l2"}
	hasProc := rr.Pname[0] != 0
	const pid = 4242
	for attempt := 0; attempt < 4; attempt++ {
		k.ForgetFlow(src, dst, l4)
		var window []uint64
		if hasProc {
			var err error
			window, err = k.ArmProcess(pid, rr.Pname)
			if err != nil {
				res.Note("ArmProcess: " + err.Error())
				return
			}
		}
		fr := vFrame{Src: src, Dst: dst, L4: l4, Dscp: rr.Dscp, TcpFlags: 0x02, DstMac: [6]byte{2, 0, 0, 0, 0, 0xfe}}
		copy(fr.SrcMac[:], rr.Mac[:])
		if rng.Intn(2) == 0 {
			fr.PadTo = 160
		}
		run, err := vRunProg(k.objs.TproxyWanEgressL2, fr.Bytes(), 0)
		if err != nil {
			res.Note("wan prog run: " + err.Error())
			return
		}
		if hasProc {
			if !k.DisarmProcess(window) {
				res.Count("cookie_window_misses", 1)
				continue // the dummy socket's cookie fell outside the window: retry, no verdict
			}
		}
		res.Eval(1)
		res.Count("wan_egress_runs", 1)
		got, rerr := k.core.RetrieveRoutingResult(src, dst, l4)
		plainDirect := wantOut == 0 && wantMark == 0
		switch {
		case rerr == nil:
			if got.Outbound != wantOut || got.Mark != wantMark || (got.Must != 0) != wantMust {
				res.Failf(key, repl, "program\n%s WAN packet %s: kernel decided (outbound %d, mark %#x, must %d); the rules as written require (%s=%d, mark %#x, must %v)",
					text, rsPktText(c.Pkt), got.Outbound, got.Mark, got.Must, c.Kexp.Out, wantOut, wantMark, wantMust)
				return
			}
			if hasProc && (got.Pname != rr.Pname || got.Pid != pid) {
				res.Failf(key+"|proc", repl, "program\n%s WAN packet %s: kernel record carries process %q pid %d, expected %q pid %d", text, rsPktText(c.Pkt), string(got.Pname[:]), got.Pid, string(rr.Pname[:]), pid)
			}
			if got.Dscp != rr.Dscp || got.Mac != rr.Mac {
				res.Failf(key+"|meta", repl, "program\n%s WAN packet %s: kernel record carries dscp %d mac %v, frame had dscp %d mac %v", text, rsPktText(c.Pkt), got.Dscp, got.Mac, rr.Dscp, rr.Mac)
			}
		case run.Ret == vTcOk:
			// no record: only plain direct (mark 0) traffic is let through without one
			if !plainDirect {
				res.Failf(key, repl, "program\n%s WAN packet %s: kernel passed the frame without a record; expected (%s, mark %#x, must %v)", text, rsPktText(c.Pkt), c.Kexp.Out, wantMark, wantMust)
			}
			return
		case run.Ret == vTcShot:
			if wantOut != 1 {
				res.Failf(key, repl, "program\n%s WAN packet %s: kernel dropped the frame and left no record (%v); expected (%s, mark %#x, must %v)", text, rsPktText(c.Pkt), rerr, c.Kexp.Out, wantMark, wantMust)
			}
			return
		default:
			res.Failf(key, repl, "program\n%s WAN packet %s: verdict %d without readable decision (%v)", text, rsPktText(c.Pkt), run.Ret, rerr)
			return
		}
		// verdict must fit the decision: plain direct passes, block drops, everything else (incl. direct with a mark) goes to dae
		switch {
		case plainDirect:
			if run.Ret != vTcOk {
				res.Failf(key+"|verdict", repl, "program\n%s WAN packet %s: decision direct but verdict %d", text, rsPktText(c.Pkt), run.Ret)
			}
		case wantOut == 1:
			if run.Ret != vTcShot {
				res.Failf(key+"|verdict", repl, "program\n%s WAN packet %s: decision block but verdict %d", text, rsPktText(c.Pkt), run.Ret)
			}
		default:
			if run.Ret != vTcRedirect {
				res.Failf(key+"|verdict", repl, "program\n%s WAN packet %s: decision (%d, mark %#x) but verdict %d (expected redirect to dae)", text, rsPktText(c.Pkt), wantOut, wantMark, run.Ret)
			}
		}
		return
	}
	res.Count("cookie_window_gave_up", 1)
}
