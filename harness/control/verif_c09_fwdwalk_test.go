//go:build verif

package control

import (
	"context"
	"encoding/json"
	"errors"
	"fmt"
	"math/rand"
	"os"
	"strings"
	"sync"
	"testing"
	"testing/synctest"
	"time"

	"github.com/daeuniverse/dae/common/consts"
	componentdns "github.com/daeuniverse/dae/component/dns"
	"github.com/daeuniverse/dae/pkg/verifutil"
	dnsmessage "github.com/miekg/dns"
	"github.com/sirupsen/logrus"
)

// Random gated walks on the real forwarder cache: the harness - not the model - chooses what runs next. Every step is
// judged on the real forwarders (closed once, never under an exchange, never used after being closed) and recorded for
// validation against FwdIdle.tla (spec/TraceFwdIdle.tla).
func TestVerifC09FwdWalk(t *testing.T) {
	res := verifutil.NewResult()
	defer func() {
		if err := res.Write(); err != nil {
			t.Fatal(err)
		}
	}()
	origFactory := dnsForwarderFactory
	defer func() { dnsForwarderFactory = origFactory; verifYieldHook = nil }()
	rng := rand.New(rand.NewSource(verifutil.Seed()))
	walks := verifutil.EnvInt("VERIF_C09_WALKS", 300)
	var trace []map[string]any
	for wi := 0; wi < walks; wi++ {
		res.Case()
		synctest.Test(t, func(t *testing.T) {
			w := &fiWorld{started: make(chan *fiExchange, 8), parked: make(chan string, 8), releases: map[string]chan struct{}{}}
			dnsForwarderFactory = func(*componentdns.Upstream, dialArgument, *logrus.Logger) (DnsForwarder, error) {
				w.mu.Lock()
				defer w.mu.Unlock()
				f := &fiForwarder{w: w, id: len(w.fws) + 1}
				w.fws = append(w.fws, f)
				return f, nil
			}
			var relMu sync.Mutex
			verifYieldHook = func(point string, arg any) {
				if point != "dnsfwd.acquired" && point != "dnsfwd.evict.idle" {
					return
				}
				name, _ := fiActor.Load(vGoid())
				if name == nil {
					return
				}
				key := name.(string) + "@" + point
				relMu.Lock()
				ch := make(chan struct{})
				w.releases[key] = ch
				relMu.Unlock()
				w.parked <- key
				<-ch
			}
			release := func(key string) {
				relMu.Lock()
				ch := w.releases[key]
				delete(w.releases, key)
				relMu.Unlock()
				if ch != nil {
					close(ch)
				}
			}
			parkedNow := func() string {
				synctest.Wait()
				select {
				case k := <-w.parked:
					return k
				default:
					return ""
				}
			}
			ctrl := &DnsController{dnsControllerStore: &dnsControllerStore{}, log: verifLogger(), dnsForwarderIdleTTL: 2 * time.Minute}
			upstream := &componentdns.Upstream{Scheme: "udp", Hostname: "192.0.2.1", Port: 53}
			dialArg := &dialArgument{l4proto: consts.L4ProtoStr_UDP, ipversion: consts.IpVersionStr_4}
			q := new(dnsmessage.Msg)
			q.SetQuestion("idle.test.", dnsmessage.TypeA)
			data, _ := q.Pack()
			type client struct {
				pc   string // start | acquired | inflight
				done chan error
				ex   *fiExchange
			}
			cl := map[string]*client{"c1": {pc: "start"}, "c2": {pc: "start"}}
			jpc := "idle"
			var jdone chan struct{}
			var trail []string
			var lines []map[string]any
			bad := false
			for step := 0; step < 18 && !bad; step++ {
				w.mu.Lock()
				nf := len(w.fws)
				w.mu.Unlock()
				var opts []string
				for _, c := range []string{"c1", "c2"} {
					switch cl[c].pc {
					case "start":
						if nf < 7 {
							opts = append(opts, "acquire:"+c)
						}
					case "acquired":
						opts = append(opts, "begin:"+c)
					case "inflight":
						opts = append(opts, "answer-ok:"+c, "answer-error:"+c)
					}
				}
				opts = append(opts, "tick")
				if jpc == "idle" {
					opts = append(opts, "jcheck")
				} else {
					opts = append(opts, "jfinish", "jfinish") // finishing is twice as likely as staying parked
				}
				op := opts[rng.Intn(len(opts))]
				ev := map[string]any{"ev": "", "who": "", "x": ""}
				name, who, _ := strings.Cut(op, ":")
				switch name {
				case "acquire":
					c := cl[who]
					c.done = make(chan error, 1)
					nm := who
					go func() {
						fiActor.Store(vGoid(), nm)
						defer fiActor.Delete(vGoid())
						_, err := ctrl.forwardWithDialArg(context.Background(), upstream, dialArg, data)
						c.done <- err
					}()
					if parkedNow() != who+"@dnsfwd.acquired" {
						res.Note(fmt.Sprintf("walk %d %v: %s did not reach the cache", wi, trail, who))
						bad = true
						break
					}
					c.pc = "acquired"
					ev["ev"], ev["who"] = "acquire", who
				case "begin":
					c := cl[who]
					release(who + "@dnsfwd.acquired")
					synctest.Wait()
					ev["ev"], ev["who"] = "begin", who
					select {
					case ex := <-w.started:
						c.ex, c.pc, ev["x"] = ex, "inflight", "ok"
					default:
						select {
						case k := <-w.parked:
							if k != who+"@dnsfwd.acquired" {
								res.Note(fmt.Sprintf("walk %d %v: unexpected %s", wi, trail, k))
								bad = true
							}
							ev["x"] = "retired-again"
						case <-c.done:
							c.pc, ev["x"] = "start", "retired-giveup"
						default:
							res.Note(fmt.Sprintf("walk %d %v: %s neither began, nor retried, nor gave up", wi, trail, who))
							bad = true
						}
					}
				case "answer-ok", "answer-error":
					c := cl[who]
					if name == "answer-ok" {
						c.ex.answer <- nil
						ev["x"] = "ok"
					} else {
						c.ex.answer <- errors.New("read udp: i/o timeout")
						ev["x"] = "error"
					}
					synctest.Wait()
					select {
					case <-c.done:
					default:
						res.Note(fmt.Sprintf("walk %d %v: the query of %s did not return", wi, trail, who))
						bad = true
					}
					c.pc, c.ex = "start", nil
					ev["ev"], ev["who"] = "answer", who
				case "tick":
					time.Sleep(3 * time.Minute)
					ev["ev"] = "tick"
				case "jcheck":
					if ctrl.dnsForwarderCacheLen() == 0 {
						continue // nothing cached: the model has no such step
					}
					jdone = make(chan struct{})
					jd := jdone
					go func() {
						fiActor.Store(vGoid(), "j")
						defer fiActor.Delete(vGoid())
						ctrl.evictIdleDnsForwarders(time.Now())
						close(jd)
					}()
					ev["ev"], ev["who"] = "jcheck", "j"
					if parkedNow() == "j@dnsfwd.evict.idle" {
						jpc, ev["x"] = "chosen", "chosen"
					} else {
						ev["x"] = "kept"
					}
				case "jfinish":
					release("j@dnsfwd.evict.idle")
					synctest.Wait()
					select {
					case <-jdone:
					default:
						res.Note(fmt.Sprintf("walk %d %v: the janitor did not finish", wi, trail))
						bad = true
					}
					jpc = "idle"
					ev["ev"], ev["who"] = "jfinish", "j"
				}
				if bad {
					break
				}
				trail = append(trail, fmt.Sprintf("%s %v", op, ev["x"]))
				// the property layer on the real forwarders
				w.mu.Lock()
				fws := append([]*fiForwarder(nil), w.fws...)
				w.mu.Unlock()
				closed, inflight := []int{}, []int{}
				for _, f := range fws {
					f.mu.Lock()
					closed, inflight = append(closed, f.closes), append(inflight, f.inFlight)
					inUse, after := f.closedInUse, f.usedAfterClose
					f.mu.Unlock()
					res.Eval(1)
					key := fmt.Sprintf("c09fwdwalk:seed%d:%d", verifutil.Seed(), wi)
					switch {
					case inUse:
						res.Failf(key+"|inuse", append([]string(nil), trail...), "walk %v: upstream forwarder #%d was closed while an exchange was using it", trail, f.id)
						bad = true
					case after:
						res.Failf(key+"|after", append([]string(nil), trail...), "walk %v: an exchange was started on upstream forwarder #%d after it had been closed", trail, f.id)
						bad = true
					case f.closes > 1:
						res.Failf(key+"|twice", append([]string(nil), trail...), "walk %v: upstream forwarder #%d was closed %d times", trail, f.id, f.closes)
						bad = true
					}
				}
				ev["closed"], ev["inflight"] = closed, inflight
				lines = append(lines, ev)
			}
			if !bad {
				trace = append(trace, lines...)
				trace = append(trace, map[string]any{"ev": "reset", "who": "", "x": "", "closed": []int{}, "inflight": []int{}})
			}
			// teardown inside the bubble
			verifYieldHook = nil
			relMu.Lock()
			for k, ch := range w.releases {
				close(ch)
				delete(w.releases, k)
			}
			relMu.Unlock()
			for _, c := range cl {
				if c.ex != nil {
					select {
					case c.ex.answer <- errors.New("teardown"):
					default:
					}
				}
			}
			for i := 0; i < 8; i++ {
				synctest.Wait()
				select {
				case ex := <-w.started:
					ex.answer <- errors.New("teardown")
				case <-w.parked:
				default:
				}
			}
			synctest.Wait()
		})
	}
	if out := os.Getenv("VERIF_TRACE_OUT"); out != "" {
		f, err := os.Create(out)
		if err == nil {
			enc := json.NewEncoder(f)
			for _, ev := range trace {
				_ = enc.Encode(ev)
			}
			_ = f.Close()
		}
	}
}

func (c *DnsController) dnsForwarderCacheLen() int {
	n := 0
	c.dnsForwarderCache.Range(func(_, _ any) bool { n++; return true })
	return n
}
