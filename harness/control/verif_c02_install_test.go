//go:build verif && !dae_stub_ebpf

package control

import (
	"fmt"
	"net/netip"
	"strings"
	"testing"

	"github.com/daeuniverse/dae/common/consts"
	"github.com/daeuniverse/dae/pkg/verifutil"
	"golang.org/x/sys/unix"
)

// behaviours of spec/RingInstall.tla: the orders in which generations of a routing program are built and installed
// (plain start, staged reload, roll-back after a failed hand-over), replayed with the production builder on real kernel maps.
// After every installation the kernel's decisions (tproxy_lan_ingress_l2 run by the kernel) must be those of the installed
// generation's own userspace matcher.
type riOp struct {
	Op string `json:"op"`
	G  int    `json:"g"`
}
type riBehaviour struct {
	Hist []riOp `json:"hist"`
	N    []int  `json:"n"`
}

func riProgram(g, n int) string {
	var sb strings.Builder
	sb.WriteString("routing {\n")
	if n >= 1 {
		fmt.Fprintf(&sb, " dip(10.%d.0.0/16, 172.%d.0.0/24) -> pa\n", 10+g, 16+g)
	}
	if n >= 2 {
		fmt.Fprintf(&sb, " sip(192.168.%d.0/24) -> pb\n", g)
	}
	if n >= 3 {
		fmt.Fprintf(&sb, " dip('fd%02x::/16') -> block\n", g)
	}
	sb.WriteString(" dport(8080) -> pa\n fallback: direct\n}")
	return sb.String()
}

func TestVerifC02Install(t *testing.T) {
	bs, err := verifutil.ReadLines[riBehaviour]("VERIF_IN")
	if err != nil {
		t.Fatal(err)
	}
	res := verifutil.NewResult()
	defer func() {
		if err := res.Write(); err != nil {
			t.Fatal(err)
		}
	}()
	if !verifBpfRequired() {
		res.Note("BPF not required")
		return
	}
	k, err := vNewKern(nil)
	if err != nil {
		t.Fatalf("BPF unavailable: %v", err)
	}
	defer k.Close()
	_ = k.SetAllAlive([]uint8{0, 1, 2, 3}, 1)
	log := verifLogger()
	ids := map[string]uint8{"direct": 0, "block": 1, "pa": 2, "pb": 3}
	type gen struct {
		text string
		b    *RoutingMatcherBuilder
		snap *routingKernspaceSnapshot
		m    *RoutingMatcher
	}
	port := uint16(20000)
	for bi := range bs {
		b := &bs[bi]
		res.Case()
		if bi < 2 {
			res.Sample(b)
		}
		gens := map[int]*gen{}
		var trail []string
		fail := func(suffix, format string, a ...any) {
			res.Failf("c02install:"+strings.Join(trail, ";")+suffix, append([]string(nil), trail...), "%v: %s", trail, fmt.Sprintf(format, a...))
		}
		ok := true
		for _, op := range b.Hist {
			if !ok {
				break
			}
			switch op.Op {
			case "new":
				text := riProgram(op.G, b.N[op.G-1])
				trail = append(trail, fmt.Sprintf("generation %d built (%d prefix sets), kernel snapshot taken", op.G, b.N[op.G-1]))
				bld, err := verifCompileRouting(text, ids, k.objs, true)
				if err != nil {
					res.Note("compile: " + err.Error())
					ok = false
					break
				}
				gens[op.G] = &gen{text: text, b: bld, snap: bld.KernspaceSnapshot()}
			case "user":
				trail = append(trail, fmt.Sprintf("userspace matcher of generation %d built", op.G))
				m, err := gens[op.G].b.BuildUserspace()
				if err != nil {
					fail("|user", "BuildUserspace failed: %v", err)
					ok = false
					break
				}
				gens[op.G].m = m
			case "tries":
				// (the two halves of BuildKernspace are one call; the model separates them for the window in between)
			case "rules":
				g := gens[op.G]
				trail = append(trail, fmt.Sprintf("generation %d installed in the kernel", op.G))
				if _, err := g.snap.BuildKernspace(log, k.objs); err != nil {
					fail("|kern", "BuildKernspace failed: %v", err)
					ok = false
					break
				}
				// the reference: this generation's userspace matcher, from a builder of its own when the history has not built one yet
				m := g.m
				if m == nil {
					rb, err := verifCompileRouting(g.text, ids, k.objs, true)
					if err == nil {
						m, err = rb.BuildUserspace()
					}
					if err != nil {
						res.Note("reference matcher: " + err.Error())
						ok = false
						break
					}
				}
				cp := &ControlPlane{}
				cp.routingMatcher = m
				// probes: inside and outside every generation's prefixes
				var probes [][2]netip.Addr
				for pg := 1; pg <= len(b.N); pg++ {
					probes = append(probes,
						[2]netip.Addr{netip.MustParseAddr("192.0.2.9"), netip.MustParseAddr(fmt.Sprintf("10.%d.3.4", 10+pg))},
						[2]netip.Addr{netip.MustParseAddr("192.0.2.9"), netip.MustParseAddr(fmt.Sprintf("172.%d.0.200", 16+pg))},
						[2]netip.Addr{netip.MustParseAddr(fmt.Sprintf("192.168.%d.77", pg)), netip.MustParseAddr("198.51.100.1")},
						[2]netip.Addr{netip.MustParseAddr("fd00::9"), netip.MustParseAddr(fmt.Sprintf("fd%02x::1", pg))})
				}
				probes = append(probes, [2]netip.Addr{netip.MustParseAddr("192.0.2.9"), netip.MustParseAddr("198.51.100.1")})
				for _, pr := range probes {
					for _, dport := range []uint16{443, 8080} {
						port++
						if port < 20000 {
							port = 20000
						}
						src, dst := netip.AddrPortFrom(pr[0], port), netip.AddrPortFrom(pr[1], dport)
						k.ForgetFlow(src, dst, unix.IPPROTO_TCP)
						fr := vFrame{Src: src, Dst: dst, L4: unix.IPPROTO_TCP, TcpFlags: 0x02, SrcMac: [6]byte{2, 0, 0, 0, 1, 1}, DstMac: [6]byte{2, 0, 0, 0, 0, 0xfe}}
						run, err := vRunProg(k.objs.TproxyLanIngressL2, fr.Bytes(), 0)
						if err != nil {
							t.Fatalf("BPF_PROG_TEST_RUN: %v", err)
						}
						res.Eval(1)
						rr := &bpfRoutingResult{Mac: [6]uint8{2, 0, 0, 0, 1, 1}}
						uo, um, umust, uerr := cp.Route(src, dst, "", consts.L4ProtoType_TCP, rr)
						if uerr != nil {
							res.Note("Route: " + uerr.Error())
							continue
						}
						got, rerr := k.core.RetrieveRoutingResult(src, dst, unix.IPPROTO_TCP)
						if rerr != nil {
							fail("|norecord", "generation %d, packet %s -> %s: the kernel (verdict %d) left no decision; its userspace matcher says outbound %d", op.G, src, dst, run.Ret, uo)
							ok = false
							break
						}
						k.ForgetFlow(src, dst, unix.IPPROTO_TCP) // (the flow table is not a subject here: it must not fill up over many histories)
						if got.Outbound != uint8(uo) || got.Mark != um || (got.Must != 0) != umust {
							fail("", "generation %d is installed (program\n%s); packet %s -> %s: the kernel decides outbound %d, the generation's userspace matcher outbound %d", op.G, g.text, src, dst, got.Outbound, uo)
							ok = false
							break
						}
					}
					if !ok {
						break
					}
				}
			}
		}
	}
}
