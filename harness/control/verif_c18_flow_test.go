//go:build verif

package control

import (
	"context"
	"fmt"
	"net"
	"net/netip"
	"strconv"
	"testing"
	"time"

	"github.com/bits-and-blooms/bloom/v3"
	"github.com/daeuniverse/dae/common"
	"github.com/daeuniverse/dae/common/consts"
	"github.com/daeuniverse/dae/component/outbound"
	"github.com/daeuniverse/dae/component/outbound/dialer"
	"github.com/daeuniverse/dae/pkg/verifutil"
	D "github.com/daeuniverse/outbound/dialer"
)

// vectors of spec/DialFlow.tla
type c18FlowVector struct {
	Mode   string `json:"mode"`
	Kern   string `json:"kern"`
	ByName string `json:"byName"`
	ByIp   string `json:"byIp"`
	Dst    struct {
		Fam  int `json:"fam"`
		Port int `json:"port"`
	} `json:"dst"`
	Sniff  string `json:"sniff"`
	Known  string `json:"known"`
	Alts   []struct {
		Out    string `json:"out"`
		Shape  string `json:"shape"`
		DialIp bool   `json:"dialIp"`
	} `json:"alts"` // more than one only where the property leaves re-routing open (plain domain mode)
}

var c18OutIdx = map[string]consts.OutboundIndex{"direct": consts.OutboundDirect, "block": consts.OutboundBlock,
	"g1": consts.OutboundUserDefinedMin, "g2": consts.OutboundUserDefinedMin + 1, "cpr": consts.OutboundControlPlaneRouting}

func TestVerifC18Flow(t *testing.T) {
	vecs, err := verifutil.ReadLines[c18FlowVector]("VERIF_IN")
	if err != nil {
		t.Fatal(err)
	}
	res := verifutil.NewResult()
	defer func() {
		if err := res.Write(); err != nil {
			t.Fatal(err)
		}
	}()
	log := verifLogger()
	gopt := &dialer.GlobalOption{Log: log, CheckInterval: time.Hour}
	mk := func(name string) *outbound.DialerGroup {
		dd := dialer.NewDialer(&c05Dialer{}, gopt, dialer.InstanceOption{DisableCheck: true}, &dialer.Property{Property: D.Property{Name: name}})
		return outbound.NewDialerGroup(gopt, name, []*dialer.Dialer{dd}, []*dialer.Annotation{{}},
			outbound.DialerSelectionPolicy{Policy: consts.DialerSelectionPolicy_Fixed, FixedIndex: 0}, func(bool, *dialer.NetworkType, bool) {})
	}
	groups := []*outbound.DialerGroup{mk("direct"), mk("block"), mk("g1"), mk("g2")}
	n2i := map[string]uint8{"direct": 0, "block": 1, "g1": 2, "g2": 3}
	matchers := map[string]*RoutingMatcher{}
	matcher := func(byName, byIp string) (*RoutingMatcher, error) {
		k := byName + "/" + byIp
		if m := matchers[k]; m != nil {
			return m, nil
		}
		b, err := verifCompileRouting(fmt.Sprintf("routing {\n domain(full: example.com) -> %s\n fallback: %s\n}", byName, byIp), n2i, nil, true)
		if err != nil {
			return nil, err
		}
		m, err := b.BuildUserspace()
		if err != nil {
			return nil, err
		}
		matchers[k] = m
		return m, nil
	}
	for vi, v := range vecs {
		res.Case()
		vals, hosts, ports := c18Sniffs(v.Sniff)
		if v.Sniff == "name" {
			vals, hosts, ports = vals[:1], hosts[:1], ports[:1] // the name the routing rule mentions
		}
		m, err := matcher(v.ByName, v.ByIp)
		if err != nil {
			res.Note("routing: " + err.Error())
			continue
		}
		for i, sn := range vals {
			ctx, cancel := context.WithCancel(context.Background())
			cp := &ControlPlane{realDomainSet: bloom.NewWithEstimates(2048, 0.001), log: log, ctx: ctx, cancel: cancel}
			cp.dialMode = c18Modes[v.Mode]
			cp.dnsController = &DnsController{dnsControllerStore: &dnsControllerStore{}}
			cp.routingMatcher = m
			cp.outbounds = groups
			cp.soMarkFromDae = 0x100
			dst := netip.AddrPortFrom(netip.MustParseAddr("8.8.4.4"), uint16(v.Dst.Port))
			src := netip.MustParseAddrPort("192.168.1.10:40000")
			if v.Dst.Fam == 6 {
				dst = netip.AddrPortFrom(netip.MustParseAddr("2001:4860:4860::8844"), uint16(v.Dst.Port))
				src = netip.MustParseAddrPort("[fd00::10]:40000")
			}
			switch v.Known {
			case "resolved":
				cp.dnsController.dnsKnowledge.Store(cp.dnsController.cacheKey(sn, common.AddrToDnsType(dst.Addr())), time.Now().Add(time.Hour).UnixNano())
			case "verified":
				cp.realDomainSet.AddString(sn)
			case "negative":
				cp.realDomainNegSet.Store(sn, time.Now().Add(time.Hour).UnixNano())
			}
			r, err := cp.chooseProxyDialer(context.Background(), &proxyDialParam{Outbound: c18OutIdx[v.Kern], Domain: sn, Src: src, Dest: dst, Network: "tcp"})
			cancel()
			res.Eval(1)
			key := fmt.Sprintf("c18flow:%s:%s:%s:%s:%s:%s:%d", v.Mode, v.Kern, v.ByName, v.ByIp, v.Known, sn, v.Dst.Port)
			repl := map[string]any{"mode": v.Mode, "kernel_outbound": v.Kern, "routing": fmt.Sprintf("domain(full: example.com) -> %s, fallback: %s", v.ByName, v.ByIp), "dst": dst.String(), "sniffed": sn, "known": v.Known}
			if vi < 2 && i == 0 {
				res.Sample(repl)
			}
			if err != nil || r == nil {
				res.Failf(key+"|err", repl, "dial_mode %s, kernel outbound %s, sniffed %q: chooseProxyDialer failed: %v", v.Mode, v.Kern, sn, err)
				continue
			}
			var outs []string
			matched := false
			for _, alt := range v.Alts {
				outs = append(outs, alt.Out)
				if r.Outbound != groups[c18OutIdx[alt.Out]] {
					continue
				}
				matched = true
				var want string
				switch alt.Shape {
				case "dstip:dstport":
					want = dst.String()
				case "literal:dstport", "name:dstport":
					want = net.JoinHostPort(hosts[i], strconv.Itoa(v.Dst.Port))
				case "asis":
					want = net.JoinHostPort(hosts[i], ports[i])
				}
				if r.DialTarget != want {
					res.Failf(key, repl, "dial_mode %s, kernel outbound %s, routing {example.com -> %s, fallback %s}, destination %s, sniffed %q (%s): outbound %s is given the target %q, the mode requires %q",
						v.Mode, v.Kern, v.ByName, v.ByIp, dst, sn, v.Known, alt.Out, r.DialTarget, want)
				} else if r.IsDialIp != alt.DialIp {
					res.Failf(key+"|dialip", repl, "dial_mode %s, kernel outbound %s -> %s, sniffed %q: IsDialIp=%v, expected %v", v.Mode, v.Kern, alt.Out, sn, r.IsDialIp, alt.DialIp)
				}
				break
			}
			if !matched {
				res.Failf(key+"|out", repl, "dial_mode %s, kernel outbound %s, routing {example.com -> %s, fallback %s}, sniffed %q (%s): the flow leaves through %q, expected %v",
					v.Mode, v.Kern, v.ByName, v.ByIp, sn, v.Known, r.Outbound.Name, outs)
			}
		}
	}
}
