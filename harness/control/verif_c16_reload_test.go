//go:build verif

package control

import (
	"errors"
	"fmt"
	"strings"
	"testing"
	"time"

	"github.com/daeuniverse/dae/common/consts"
	"github.com/daeuniverse/dae/component/outbound"
	"github.com/daeuniverse/dae/component/outbound/dialer"
	"github.com/daeuniverse/dae/pkg/verifutil"
	D "github.com/daeuniverse/outbound/dialer"
	"github.com/daeuniverse/outbound/protocol/direct"
)

// behaviours emitted by spec/GroupSelect.tla with WithReload = TRUE (the history ends with the reload hand-over)
type c16rType struct {
	Dom string `json:"dom"`
	Fam string `json:"fam"`
}
type c16rEvent struct {
	Ev string   `json:"ev"`
	N  int      `json:"n"`
	T  c16rType `json:"t"`
	X  struct {
		Policy string `json:"policy"`
	} `json:"x"`
}
type c16rBehaviour struct {
	Nodes int         `json:"nodes"`
	Init  string      `json:"init"`
	Hist  []c16rEvent `json:"hist"`
}

func c16rNT(t c16rType) *dialer.NetworkType {
	nt := &dialer.NetworkType{IpVersion: consts.IpVersionStr_4}
	if t.Fam == "6" {
		nt.IpVersion = consts.IpVersionStr_6
	}
	switch t.Dom {
	case "tcp":
		nt.L4Proto = consts.L4ProtoStr_TCP
	case "dns":
		nt.L4Proto = consts.L4ProtoStr_UDP
		nt.IsDns = true
		nt.UdpHealthDomain = dialer.UdpHealthDomainDns
	default:
		nt.L4Proto = consts.L4ProtoStr_UDP
		nt.UdpHealthDomain = dialer.UdpHealthDomainData
	}
	return nt
}

func c16rPolicy(p string) outbound.DialerSelectionPolicy {
	switch p {
	case "min":
		return outbound.DialerSelectionPolicy{Policy: consts.DialerSelectionPolicy_MinLastLatency}
	case "random":
		return outbound.DialerSelectionPolicy{Policy: consts.DialerSelectionPolicy_Random}
	case "fixed1":
		return outbound.DialerSelectionPolicy{Policy: consts.DialerSelectionPolicy_Fixed, FixedIndex: 0}
	}
	return outbound.DialerSelectionPolicy{Policy: consts.DialerSelectionPolicy_Fixed, FixedIndex: 1}
}

var c16rAllTypes = []c16rType{{"tcp", "4"}, {"tcp", "6"}, {"dns", "4"}, {"dns", "6"}, {"data", "4"}, {"data", "6"}}

func c16rGeneration(nodes int, policy string) (*ControlPlane, []*dialer.Dialer) {
	log := verifLogger()
	gopt := &dialer.GlobalOption{Log: log, CheckInterval: time.Hour}
	var ds []*dialer.Dialer
	var ann []*dialer.Annotation
	for i := 0; i < nodes; i++ {
		ds = append(ds, dialer.NewDialer(direct.SymmetricDirect, gopt, dialer.InstanceOption{DisableCheck: true}, &dialer.Property{Property: D.Property{Name: fmt.Sprintf("n%d", i+1)}}))
		ann = append(ann, &dialer.Annotation{})
	}
	g := outbound.NewDialerGroup(gopt, "g", ds, ann, c16rPolicy(policy), func(bool, *dialer.NetworkType, bool) {})
	cp := &ControlPlane{log: log}
	cp.outbounds = []*outbound.DialerGroup{g}
	if nodes >= 3 {
		// a second group made of nodes the first one has as well (the same node objects): every non-empty group is owed a selectable node
		g2 := outbound.NewDialerGroup(gopt, "narrow", ds[:2], ann[:2], c16rPolicy(policy), func(bool, *dialer.NetworkType, bool) {})
		cp.outbounds = append(cp.outbounds, g2)
	}
	return cp, ds
}

func TestVerifC16Reload(t *testing.T) {
	bs, err := verifutil.ReadLines[c16rBehaviour]("VERIF_IN")
	if err != nil {
		t.Fatal(err)
	}
	res := verifutil.NewResult()
	defer func() {
		if err := res.Write(); err != nil {
			t.Fatal(err)
		}
	}()
	for bi := range bs {
		b := &bs[bi]
		res.Case()
		if bi < 2 {
			res.Sample(b.Hist)
		}
		old, ods := c16rGeneration(b.Nodes, b.Init)
		policy := b.Init
		trail := []string{fmt.Sprintf("%d nodes, policy %s", b.Nodes, b.Init)}
		for _, ev := range b.Hist {
			nt := c16rNT(ev.T)
			switch ev.Ev {
			case "kill":
				trail = append(trail, fmt.Sprintf("n%d dies for %s%s", ev.N, ev.T.Dom, ev.T.Fam))
				ods[ev.N-1].ReportUnavailableForced(nt, errors.New("forced by the harness"))
			case "revive":
				trail = append(trail, fmt.Sprintf("n%d revives for %s%s", ev.N, ev.T.Dom, ev.T.Fam))
				ods[ev.N-1].MarkAliveForReloadFallback(nt)
			case "policy":
				policy = ev.X.Policy
				trail = append(trail, "policy -> "+policy)
				old.outbounds[0].SetSelectionPolicy(c16rPolicy(policy))
			case "reload":
				trail = append(trail, "reload")
				// the last known state, read from the old generation
				known := map[string][]bool{}
				for _, ty := range c16rAllTypes {
					for _, d := range ods {
						known[ty.Dom+ty.Fam] = append(known[ty.Dom+ty.Fam], d.MustGetAlive(c16rNT(ty)))
					}
				}
				neu, nds := c16rGeneration(b.Nodes, policy)
				neu.InheritDialerHealthFrom(old)
				key := "c16r:" + strings.Join(trail, ";")
				for _, ty := range c16rAllTypes {
					name := ty.Dom + ty.Fam
					nt := c16rNT(ty)
					any := false
					for _, a := range known[name] {
						any = any || a
					}
					var now []bool
					n := 0
					for _, d := range nds {
						a := d.MustGetAlive(nt)
						now = append(now, a)
						if a {
							n++
						}
					}
					res.Eval(2)
					// groups: the first has every node; the second (when present) the first two
					members := [][]int{{}}
					for i := range nds {
						members[0] = append(members[0], i)
					}
					if len(neu.outbounds) > 1 {
						members = append(members, []int{0, 1})
					}
					owed := 0 // groups none of whose members was alive: each is owed one selectable node
					for _, ms := range members {
						alive := false
						for _, i := range ms {
							alive = alive || known[name][i]
						}
						if !alive {
							owed++
						}
					}
					revived := 0
					for i := range now {
						if known[name][i] && !now[i] {
							res.Failf(key+"|"+name, trail, "%v: after the reload node n%d is not alive for %s, the last known state was alive (known %v, inherited %v)", trail, i+1, name, known[name], now)
							break
						}
						if now[i] && !known[name][i] {
							revived++
						}
					}
					if !strings.HasPrefix(policy, "fixed") {
						if revived > owed {
							res.Failf(key+"|"+name, trail, "%v: %d nodes that were last known dead for %s are alive after the reload (known %v, inherited %v); only a group without any alive member is given one selectable node (%d such groups)", trail, revived, name, known[name], now, owed)
						}
						if !any && n < 1 {
							res.Failf(key+"|"+name, trail, "%v: no node was alive for %s before the reload and none is selectable afterwards (%v)", trail, name, now)
						}
					}
					// every group must be able to select for every type
					for gi, g := range neu.outbounds {
						if d, _, serr := g.Select(nt, true); serr != nil || d == nil { // (strict: the other IP family must not stand in for the type)
							res.Failf(key+"|select|"+name+fmt.Sprint(gi), trail, "%v: after the reload group %q (nodes %v) cannot select a node for %s: %v (last known %v, inherited %v)", trail, g.Name, members[gi], name, serr, known[name], now)
						}
					}
				}
				for _, g := range neu.outbounds[1:] {
					_ = g.Close()
				}
				_ = neu.outbounds[0].Close()
				for _, d := range nds {
					_ = d.Close()
				}
			}
		}
		for _, g := range old.outbounds {
			_ = g.Close()
		}
		for _, d := range ods {
			_ = d.Close()
		}
	}
}
