//go:build verif && linux

package control

import (
	"context"
	"fmt"
	"net"
	"strings"
	"sync"
	"sync/atomic"
	"testing"
	"time"

	"github.com/daeuniverse/dae/pkg/verifutil"
	"github.com/daeuniverse/outbound/netproxy"
)

// behaviours emitted by spec/SpliceRelay.tla
type spBehaviour struct {
	Hist []struct {
		Ev   string `json:"ev"`
		J    int    `json:"j"`
		Mode string `json:"mode"`
		Size string `json:"size"`
	} `json:"hist"`
}

var spSizes = map[string]int{"s": 1, "m": 4096, "l": 300000}

// the byte job j sends at absolute stream offset off
func spByte(j int, off int) byte { return byte(j<<5) | byte(off%31) }

type spJob struct {
	id                 int
	mode               string
	client, relayLeft  *net.TCPConn
	relayRight, server *net.TCPConn
	sent               int
	mu                 sync.Mutex
	got                []byte
	readerDone         chan struct{}
	copyDone           chan error
	killed             bool
	accounted          atomic.Int64
}

func (j *spJob) received() int {
	j.mu.Lock()
	defer j.mu.Unlock()
	return len(j.got)
}

func (j *spJob) closeAll() {
	for _, c := range []*net.TCPConn{j.client, j.relayLeft, j.relayRight, j.server} {
		if c != nil {
			_ = c.Close()
		}
	}
}

func spDrainPipePool() {
	for {
		select {
		case p := <-relaySplicePipePool:
			p.close()
		default:
			return
		}
	}
}

func spChunk(j, off, n int) []byte {
	b := make([]byte, n)
	for i := range b {
		b[i] = spByte(j, off+i)
	}
	return b
}

const spWait = 30 * time.Second // generous: only a relay that withholds data for this long is reported

func spRunOne(t *testing.T, b *spBehaviour, res *verifutil.Result) {
	spDrainPipePool()
	defer spDrainPipePool()
	jobs := map[int]*spJob{}
	defer func() {
		for _, j := range jobs {
			j.closeAll()
		}
	}()
	var trail []string
	fail := func(suffix, format string, a ...any) {
		res.Failf("c05splice:"+strings.Join(trail, ";")+suffix, append([]string(nil), trail...), "%v: %s", trail, fmt.Sprintf(format, a...))
	}
	// what the destination of job j holds must be exactly the first bytes its own source sent
	check := func(j *spJob) bool {
		j.mu.Lock()
		defer j.mu.Unlock()
		res.Eval(1)
		for i, c := range j.got {
			if c != spByte(j.id, i) {
				fail("|foreign", "the destination of connection %d received, at stream offset %d, a byte that its source never sent there (byte %#x: connection %d's pattern; expected %#x); %d bytes received, %d sent",
					j.id, i, c, int(c>>5), spByte(j.id, i), len(j.got), j.sent)
				return false
			}
		}
		if len(j.got) > j.sent {
			fail("|surplus", "the destination of connection %d received %d bytes, its source sent %d", j.id, len(j.got), j.sent)
			return false
		}
		return true
	}
	waitReceived := func(j *spJob) bool {
		deadline := time.Now().Add(spWait)
		for j.received() < j.sent {
			if time.Now().After(deadline) {
				fail("|withheld", "connection %d (%s): %d of the %d bytes sent reached the destination within %v", j.id, j.mode, j.received(), j.sent, spWait)
				return false
			}
			time.Sleep(200 * time.Microsecond)
		}
		return check(j)
	}
	for _, ev := range b.Hist {
		switch ev.Ev {
		case "begin":
			j := &spJob{id: ev.J, mode: ev.Mode, readerDone: make(chan struct{}), copyDone: make(chan error, 1)}
			jobs[ev.J] = j
			j.client, j.relayLeft = tcpConnPair(t)
			j.relayRight, j.server = tcpConnPair(t)
			n := spSizes[ev.Size]
			trail = append(trail, fmt.Sprintf("connection %d starts (%s) and sends %d B", ev.J, ev.Mode, n))
			first := spChunk(j.id, 0, n)
			var src netproxy.Conn = j.relayLeft
			var record func(int64)
			switch ev.Mode {
			case "exact":
				record = func(k int64) { j.accounted.Add(k) }
			case "prefixed":
				// the first bytes were read ahead by the sniffer and travel with the connection object
				src = &prefixedConn{Conn: j.relayLeft, prefix: first}
				record = func(k int64) { j.accounted.Add(k) }
			}
			if ev.Mode != "prefixed" {
				go func() { _, _ = j.client.Write(first) }()
			}
			j.sent = n
			go func() { // the destination application
				defer close(j.readerDone)
				buf := make([]byte, 64<<10)
				for {
					k, err := j.server.Read(buf)
					if k > 0 {
						j.mu.Lock()
						j.got = append(j.got, buf[:k]...)
						j.mu.Unlock()
					}
					if err != nil {
						return
					}
				}
			}()
			go func() { // what relayCore.runDirection does
				_, err := defaultRelayCopyEngine{}.Copy(context.Background(), j.relayRight, src, record)
				_ = j.relayRight.CloseWrite()
				j.copyDone <- err
			}()
			if !waitReceived(j) {
				return
			}
		case "xfer", "break":
			j := jobs[ev.J]
			n := spSizes[ev.Size]
			chunk := spChunk(j.id, j.sent, n)
			j.sent += n
			if ev.Ev == "xfer" {
				trail = append(trail, fmt.Sprintf("connection %d sends %d B", ev.J, n))
				go func() { _, _ = j.client.Write(chunk) }()
				if !waitReceived(j) {
					return
				}
			} else {
				trail = append(trail, fmt.Sprintf("connection %d sends %d B towards the reset destination", ev.J, n))
				go func() { _, _ = j.client.Write(chunk) }()
				select {
				case <-j.copyDone:
				case <-time.After(spWait):
					res.Note(fmt.Sprintf("%v: the copy towards a reset destination did not end", trail))
					return
				}
			}
		case "kill":
			j := jobs[ev.J]
			trail = append(trail, fmt.Sprintf("the destination of connection %d resets", ev.J))
			j.killed = true
			_ = j.server.SetLinger(0)
			_ = j.server.Close()
			<-j.readerDone
			// the relay-side socket has seen the reset once a read on it fails (nobody else reads that socket: one direction only)
			_ = j.relayRight.SetReadDeadline(time.Now().Add(spWait))
			_, _ = j.relayRight.Read(make([]byte, 1))
			_ = j.relayRight.SetReadDeadline(time.Time{})
		case "end":
			j := jobs[ev.J]
			trail = append(trail, fmt.Sprintf("connection %d: end of stream at the source", ev.J))
			_ = j.client.CloseWrite()
			select {
			case err := <-j.copyDone:
				if err != nil && !j.killed {
					fail("|copyerr", "connection %d (%s): the copy of a healthy connection ended with %v", j.id, j.mode, err)
					return
				}
			case <-time.After(spWait):
				fail("|stuck", "connection %d (%s): the copy did not end %v after the source's end of stream", j.id, j.mode, spWait)
				return
			}
			if !j.killed {
				select {
				case <-j.readerDone: // end of stream reached the destination
				case <-time.After(spWait):
					fail("|noeof", "connection %d (%s): the end of stream did not reach the destination", j.id, j.mode)
					return
				}
				if !check(j) {
					return
				}
				if j.received() != j.sent {
					fail("|lost", "connection %d (%s): the destination received %d of the %d bytes sent before the end of stream", j.id, j.mode, j.received(), j.sent)
					return
				}
			}
		}
	}
	// the pool never holds a pipe with bytes in it (would surface in a later connection)
	res.Count("c05splice_"+fmt.Sprint(len(b.Hist)), 1)
}

func TestVerifC05Splice(t *testing.T) {
	bs, err := verifutil.ReadLines[spBehaviour]("VERIF_IN")
	if err != nil {
		t.Fatal(err)
	}
	res := verifutil.NewResult()
	defer func() {
		if err := res.Write(); err != nil {
			t.Fatal(err)
		}
	}()
	for bi := range bs {
		res.Case()
		if bi < 2 {
			res.Sample(bs[bi].Hist)
		}
		spRunOne(t, &bs[bi], res)
	}
}
