//go:build verif

package control

import (
	"context"
	"errors"
	"fmt"
	"io"
	"net"
	"net/netip"
	"os"
	"runtime"
	"strings"
	"sync"
	"sync/atomic"
	"syscall"
	"testing"
	"testing/synctest"
	"time"

	"github.com/daeuniverse/dae/common/consts"
	"github.com/daeuniverse/dae/component/outbound/dialer"
	"github.com/daeuniverse/dae/pkg/verifutil"
	D "github.com/daeuniverse/outbound/dialer"
	"github.com/daeuniverse/outbound/netproxy"
)

// behaviours emitted by spec/UdpEndpointPool.tla
type epEvent struct {
	Ev  string `json:"ev"`
	K   string `json:"k"`
	E   int    `json:"e"`
	X   any    `json:"x"`
	Res string `json:"res"`
	Obs struct {
		Dials   int                       `json:"dials"`
		Closed  []int                     `json:"closed"`
		Retain  map[string]map[string]int `json:"retain"`
		Pool    map[string]int            `json:"pool"`
		Tickets map[string]int            `json:"tickets"`
	} `json:"obs"`
}
type epBehaviour struct {
	Hist []epEvent `json:"hist"`
}

type epConn struct {
	reads     chan epRead
	closed    chan struct{}
	once      sync.Once
	closes    atomic.Int32
	failWrite atomic.Bool
}
type epRead struct {
	data []byte
	from netip.AddrPort
	err  error
}

func (c *epConn) Read([]byte) (int, error)    { return 0, io.EOF }
func (c *epConn) Write(b []byte) (int, error) { return len(b), nil }
func (c *epConn) ReadFrom(p []byte) (int, netip.AddrPort, error) {
	select {
	case <-c.closed:
		return 0, netip.AddrPort{}, io.EOF
	case r := <-c.reads:
		if r.err != nil {
			return 0, netip.AddrPort{}, r.err
		}
		return copy(p, r.data), r.from, nil
	}
}
func (c *epConn) WriteTo(p []byte, addr string) (int, error) {
	if c.failWrite.Load() {
		return 0, errors.New("fake: write failed")
	}
	return len(p), nil
}
func (c *epConn) Close() error {
	c.closes.Add(1)
	c.once.Do(func() { close(c.closed) })
	return nil
}
func (c *epConn) SetDeadline(time.Time) error      { return nil }
func (c *epConn) SetReadDeadline(time.Time) error  { return nil }
func (c *epConn) SetWriteDeadline(time.Time) error { return nil }

type epDialer struct {
	mu     sync.Mutex
	dials  int
	fail   bool
	script []string      // outcomes of the next dial attempts ("unreach" | "fail" | "ok"); then `fail` decides
	gate   chan struct{} // non-nil: the dial waits here (slow dial)
	conns  []*epConn
}

func (d *epDialer) DialContext(ctx context.Context, network, addr string) (netproxy.Conn, error) {
	d.mu.Lock()
	d.dials++
	fail, gate := d.fail, d.gate
	if len(d.script) > 0 {
		step := d.script[0]
		d.script = d.script[1:]
		if step == "unreach" {
			d.mu.Unlock()
			return nil, &net.OpError{Op: "dial", Net: network, Err: os.NewSyscallError("connect", syscall.ENETUNREACH)}
		}
		fail = step == "fail"
	}
	d.mu.Unlock()
	if gate != nil {
		<-gate
	}
	if fail {
		return nil, errors.New("fake: dial failed")
	}
	c := &epConn{reads: make(chan epRead, 8), closed: make(chan struct{})}
	d.mu.Lock()
	d.conns = append(d.conns, c)
	d.mu.Unlock()
	return c, nil
}

// a control-plane generation owning kernel flow entries on behalf of endpoints: the REAL controlPlaneCore with its real
// udpConnStateTracker (no kernel map attached: the tracker's reference counts are what is observed); the wrapper only adds
// the gate that parks a hand-over for the adoption / close race
type epOwner struct {
	core   *controlPlaneCore
	mu     sync.Mutex
	gate   chan struct{} // non-nil: a transfer parks here until released
	parked chan struct{}
}

func (o *epOwner) RetainUdpConnStateTuples(keys []bpfTuplesKey) { o.core.RetainUdpConnStateTuples(keys) }
func (o *epOwner) TransferRetainedUdpConnStateTuplesFrom(previous udpConnStateOwner, keys []bpfTuplesKey) {
	o.mu.Lock()
	gate, parked := o.gate, o.parked
	o.mu.Unlock()
	if gate != nil {
		close(parked)
		<-gate
	}
	if p, ok := previous.(*epOwner); ok && p != nil {
		o.core.TransferRetainedUdpConnStateTuplesFrom(p.core, keys)
	}
}
func (o *epOwner) ReleaseUdpConnStateTuples(keys []bpfTuplesKey) error {
	return o.core.ReleaseUdpConnStateTuples(keys)
}

// how often the generation's tracker holds the entry; an entry whose deletion is in flight counts as not held
func (o *epOwner) heldCount(k bpfTuplesKey) (int, bool) {
	t := o.core.getUdpConnStateTracker()
	t.mu.Lock()
	defer t.mu.Unlock()
	e, ok := t.entries[k]
	if !ok {
		return 0, false
	}
	return e.refs, e.deleting
}

func epRunOne(b *epBehaviour, res *verifutil.Result) {
	pool := NewUdpEndpointPool()
	time.Sleep(125 * time.Millisecond) // the events happen between two janitor ticks, never at the instant of one
	defer pool.Close()
	nd := &epDialer{}
	log := verifLogger()
	d := dialer.NewDialer(nd, &dialer.GlobalOption{Log: log, CheckInterval: time.Hour}, dialer.InstanceOption{DisableCheck: true}, &dialer.Property{Property: D.Property{Name: "n1"}})
	defer func() { _ = d.Close() }()
	nt := &dialer.NetworkType{L4Proto: consts.L4ProtoStr_UDP, IpVersion: consts.IpVersionStr_4, UdpHealthDomain: dialer.UdpHealthDomainData}
	dst := netip.MustParseAddrPort("198.51.100.9:4000")
	keys := map[string]UdpEndpointKey{
		"k1": {Src: netip.MustParseAddrPort("192.0.2.10:5001"), Dst: dst},
		"k2": {Src: netip.MustParseAddrPort("192.0.2.10:5002"), Dst: dst},
	}
	owners := map[string]*epOwner{"o1": {core: &controlPlaneCore{}}, "o2": {core: &controlPlaneCore{}}}
	tupleDst := map[string]netip.AddrPort{"t1": netip.MustParseAddrPort("203.0.113.1:7000"), "t2": netip.MustParseAddrPort("203.0.113.2:7000")}
	trackers := map[string]*controlPlaneDrainTracker{"o1": newControlPlaneDrainTracker(), "o2": newControlPlaneDrainTracker()}
	opts := func(o string) *UdpEndpointOptions {
		return &UdpEndpointOptions{
			Handler:        func(*UdpEndpoint, []byte, netip.AddrPort) error { return nil },
			NatTimeout:     30 * time.Second,
			ConnStateOwner: owners[o],
			DrainTracker:   trackers[o],
			Log:            log,
			GetDialOption: func(context.Context) (*DialOption, error) {
				return &DialOption{Target: dst.String(), Dialer: d, Network: "udp", NetworkType: nt}, nil
			},
		}
	}
	eps := map[int]*UdpEndpoint{} // model id -> endpoint
	conns := map[int]*epConn{}    // model id -> transport
	ids := map[*UdpEndpoint]int{}
	next := 0
	var trail []string
	fail := func(suffix, format string, a ...any) {
		res.Failf("c13ep:"+strings.Join(trail, ";")+suffix, append([]string(nil), trail...), "%v: %s", trail, fmt.Sprintf(format, a...))
	}
	for _, ev := range b.Hist {
		switch ev.Ev {
		case "get":
			o, _ := ev.X.(string)
			nd.mu.Lock()
			nd.fail = ev.Res == "dial-error"
			nd.script = map[string][]string{"new-after-retry": {"unreach", "ok"}, "dial-error-after-retry": {"unreach", "fail"}}[ev.Res]
			retried := strings.HasSuffix(ev.Res, "-after-retry")
			ev.Res = strings.TrimSuffix(ev.Res, "-after-retry")
			if retried {
				trail = append(trail, "(next dial: network unreachable on the first attempt, then "+map[string]string{"new": "success", "dial-error": "an ordinary failure"}[ev.Res]+")")
			}
			before := len(nd.conns)
			nd.mu.Unlock()
			trail = append(trail, fmt.Sprintf("get(%s by %s)", ev.K, o))
			ue, isNew, err := pool.GetOrCreate(keys[ev.K], opts(o))
			res.Eval(1)
			got := "same"
			switch {
			case errors.Is(err, ErrEndpointFailed):
				got = "failed-recently"
			case err != nil:
				got = "dial-error"
			case isNew:
				got = "new"
			}
			if got != ev.Res {
				why := map[string]string{
					"same":            "the key's endpoint is alive, not invalidated before carrying traffic and not expired: every packet of the source must go through it (no dial)",
					"new":             "the key has no usable endpoint: a new one is dialled",
					"failed-recently": "the key's dial failed less than 2 s ago: it must not be handed out or re-dialled",
					"dial-error":      "the dial fails",
				}[ev.Res]
				fail("", "GetOrCreate answered %q (err %v); expected %q: %s", got, err, ev.Res, why)
				return
			}
			switch got {
			case "new":
				next++
				eps[next], ids[ue] = ue, next
				nd.mu.Lock()
				if len(nd.conns) > before {
					conns[next] = nd.conns[len(nd.conns)-1]
				}
				nd.mu.Unlock()
			case "dial-error":
				next++
			case "same":
				if ids[ue] != ev.E {
					fail("|stable", "GetOrCreate returned endpoint #%d, the key's live endpoint is #%d", ids[ue], ev.E)
					return
				}
			}
		case "get2":
			trail = append(trail, fmt.Sprintf("two concurrent first packets for %s", ev.K))
			gate := make(chan struct{})
			nd.mu.Lock()
			nd.fail, nd.gate = false, gate
			before := len(nd.conns)
			nd.mu.Unlock()
			o, _ := ev.X.(string)
			type r struct {
				ue  *UdpEndpoint
				err error
			}
			ch := make(chan r, 2)
			for i := 0; i < 2; i++ {
				go func() {
					ue, _, err := pool.GetOrCreate(keys[ev.K], opts(o))
					ch <- r{ue, err}
				}()
			}
			// the first caller is inside the (slow) dial, the second one queues behind the per-key creation lock; a goroutine
			// waiting for a mutex is not "durably blocked", so synctest.Wait cannot be used here
			for i := 0; i < 200000; i++ {
				nd.mu.Lock()
				started := nd.dials
				nd.mu.Unlock()
				if started > ev.Obs.Dials-1 {
					break
				}
				runtime.Gosched()
			}
			for i := 0; i < 200; i++ {
				runtime.Gosched()
			}
			close(gate)
			nd.mu.Lock()
			nd.gate = nil
			nd.mu.Unlock()
			a, c := <-ch, <-ch
			res.Eval(1)
			if a.err != nil || c.err != nil || a.ue != c.ue {
				fail("|single", "two concurrent first packets got endpoints %p / %p (errors %v / %v): they must share one", a.ue, c.ue, a.err, c.err)
				return
			}
			next++
			eps[next], ids[a.ue] = a.ue, next
			nd.mu.Lock()
			if len(nd.conns) > before {
				conns[next] = nd.conns[len(nd.conns)-1]
			}
			nd.mu.Unlock()
		case "adoptclose":
			o, _ := ev.X.(string)
			trail = append(trail, fmt.Sprintf("#%d is adopted by %s while it is being closed", ev.E, o))
			ow := owners[o]
			ow.mu.Lock()
			ow.gate, ow.parked = make(chan struct{}), make(chan struct{})
			gate, parked := ow.gate, ow.parked
			ow.mu.Unlock()
			adoptDone := make(chan struct{})
			go func() {
				_, _, _ = pool.GetOrCreate(keys[ev.K], opts(o))
				close(adoptDone)
			}()
			<-parked // the hand-over is in progress
			closeDone := make(chan struct{})
			ue := eps[ev.E]
			go func() {
				_ = ue.Close()
				close(closeDone)
			}()
			for i := 0; i < 2000; i++ { // let the close run as far as the code lets it
				runtime.Gosched()
			}
			close(gate)
			ow.mu.Lock()
			ow.gate, ow.parked = nil, nil
			ow.mu.Unlock()
			<-adoptDone
			<-closeDone
			_ = pool.Remove(keys[ev.K], ue)
		case "write":
			trail = append(trail, fmt.Sprintf("#%d forwards a packet", ev.E))
			if _, err := eps[ev.E].WriteTo([]byte("payload"), dst.String()); err != nil {
				fail("|write", "writing through live endpoint #%d failed: %v", ev.E, err)
				return
			}
		case "reply":
			trail = append(trail, fmt.Sprintf("#%d receives a reply", ev.E))
			conns[ev.E].reads <- epRead{data: []byte("reply"), from: dst}
		case "writeerr":
			trail = append(trail, fmt.Sprintf("#%d: write error", ev.E))
			conns[ev.E].failWrite.Store(true)
			_, _ = eps[ev.E].WriteTo([]byte("payload"), dst.String())
		case "readerr":
			trail = append(trail, fmt.Sprintf("#%d: read error", ev.E))
			conns[ev.E].reads <- epRead{err: errors.New("fake: read failed")}
		case "track":
			t, _ := ev.X.(string)
			trail = append(trail, fmt.Sprintf("#%d registers kernel entry %s", ev.E, t))
			eps[ev.E].TrackUdpConnStateTuplePair(eps[ev.E].lAddr, tupleDst[t])
		case "invalidate":
			trail = append(trail, "dialer health changes")
			pool.InvalidateDialerNetworkType(d, nt)
		case "tick":
			secs := 1
			fmt.Sscanf(ev.K, "%d", &secs)
			trail = append(trail, fmt.Sprintf("+%ds", secs))
			time.Sleep(time.Duration(secs) * time.Second)
		case "reset":
			trail = append(trail, "pool reset")
			pool.Reset()
		}
		synctest.Wait()
		// ---- observations
		nd.mu.Lock()
		dials := nd.dials
		nd.mu.Unlock()
		res.Eval(1)
		if dials != ev.Obs.Dials {
			fail("|dials", "%d dials so far, expected %d (one per endpoint creation; none while a usable endpoint exists, none while a recent failure blocks the key)", dials, ev.Obs.Dials)
			return
		}
		for id, c := range conns {
			want := 0
			if id-1 < len(ev.Obs.Closed) {
				want = ev.Obs.Closed[id-1]
			}
			res.Eval(1)
			if got := int(c.closes.Load()); got != want {
				if got > 1 {
					fail("|closed", "the transport of endpoint #%d was closed %d times", id, got)
				} else if got == 0 {
					fail("|leak", "endpoint #%d has left the pool (retired / expired / reset / replaced) but its transport is still open", id)
				} else {
					fail("|closed", "the transport of endpoint #%d was closed although the endpoint is still the key's live endpoint", id)
				}
				return
			}
		}
		for on, o := range owners {
			for tn, td := range tupleDst {
				want := ev.Obs.Retain[on][tn]
				// the endpoint registers the forward and the reverse tuple together; every source key has its own pair
				got := 0
				for _, k := range keys {
					n, deleting := o.heldCount(bpfTuplesKeyFromAddrPorts(k.Src, td, 17))
					if deleting {
						fail("|kernel", "generation %s: the deletion of kernel entry %s is still marked in flight at quiescence (a later flow with that tuple would wait for ever)", on, tn)
						return
					}
					got += n
				}
				res.Eval(1)
				if got != want {
					fail("|kernel", "owner %s holds kernel entry %s %d times, expected %d (exactly once per live endpoint that registered it, moved on adoption, released when the endpoint goes away)", on, tn, got, want)
					return
				}
			}
		}
		for on, tr := range trackers {
			want, known := ev.Obs.Tickets[on]
			res.Eval(1)
			if got := tr.Count(); known && got != want {
				fail("|drain", "generation %s counts %d live sessions, expected %d (one per live endpoint it owns: taken at the dial, handed over on adoption, given back at the close)", on, got, want)
				return
			}
			idle := false
			select {
			case <-tr.IdleCh():
				idle = true
			default:
			}
			if known && idle != (want == 0) {
				fail("|drain", "generation %s: drained=%v with %d live sessions expected", on, idle, want)
				return
			}
		}
		for kn, k := range keys {
			want := ev.Obs.Pool[kn]
			ue, ok := pool.Get(k)
			if ok && ids[ue] != want {
				fail("|pool", "the pool offers endpoint #%d for %s, expected #%d", ids[ue], kn, want)
				return
			}
		}
	}
	res.Count("c13ep", 1)
}

func TestVerifC13Endpoints(t *testing.T) {
	bs, err := verifutil.ReadLines[epBehaviour]("VERIF_IN")
	if err != nil {
		t.Fatal(err)
	}
	res := verifutil.NewResult()
	defer func() {
		if err := res.Write(); err != nil {
			t.Fatal(err)
		}
	}()
	synctest.Test(t, func(t *testing.T) {
		for bi := range bs {
			res.Case()
			if bi < 2 {
				res.Sample(bs[bi].Hist)
			}
			epRunOne(&bs[bi], res)
			synctest.Wait()
		}
	})
}
