//go:build verif

package control

import (
	"context"
	"errors"
	"fmt"
	"net/netip"
	"strings"
	"testing"
	"testing/synctest"
	"time"

	"github.com/bits-and-blooms/bloom/v3"
	"github.com/daeuniverse/dae/common"
	"github.com/daeuniverse/dae/common/consts"
	"github.com/daeuniverse/dae/common/netutils"
	"github.com/daeuniverse/dae/pkg/verifutil"
	"github.com/daeuniverse/outbound/netproxy"
)

// behaviours emitted by spec/DialProbe.tla
type c18ProbeBehaviour struct {
	Hist []struct {
		Ev     string `json:"ev"`
		A4     string `json:"a4"`
		A6     string `json:"a6"`
		Target string `json:"target"`
	} `json:"hist"`
}

func TestVerifC18Probe(t *testing.T) {
	bs, err := verifutil.ReadLines[c18ProbeBehaviour]("VERIF_IN")
	if err != nil {
		t.Fatal(err)
	}
	res := verifutil.NewResult()
	defer func() {
		if err := res.Write(); err != nil {
			t.Fatal(err)
		}
	}()
	oldResolve, oldTTL := resolveIp46ForRealDomainProbe, realDomainNegativeCacheTTL
	defer func() { resolveIp46ForRealDomainProbe, realDomainNegativeCacheTTL = oldResolve, oldTTL }()
	realDomainNegativeCacheTTL = 10 * time.Second
	const name = "sniffed.example"
	dst := netip.MustParseAddrPort("203.0.113.7:443")
	for bi := range bs {
		b := &bs[bi]
		res.Case()
		if bi < 2 {
			res.Sample(b.Hist)
		}
		synctest.Test(t, func(t *testing.T) {
			ctx, cancel := context.WithCancel(context.Background())
			defer cancel()
			cp := &ControlPlane{realDomainSet: bloom.NewWithEstimates(2048, 0.001), log: verifLogger(), ctx: ctx, cancel: cancel}
			cp.dialMode = consts.DialMode_Domain
			cp.dnsController = &DnsController{dnsControllerStore: &dnsControllerStore{}}
			cp.bootstrapResolvers = []netip.AddrPort{netip.MustParseAddrPort("192.0.2.53:53")}
			var a4, a6 string
			probes := 0
			resolveIp46ForRealDomainProbe = func(context.Context, netproxy.Dialer, netip.AddrPort, string, string, bool) (*netutils.Ip46, error, error) {
				probes++
				out := &netutils.Ip46{}
				var e4, e6 error
				switch a4 {
				case "addr":
					out.Ip4 = netip.MustParseAddr("198.51.100.9")
				case "error":
					e4 = errors.New("lookup A: i/o timeout")
				}
				switch a6 {
				case "addr":
					out.Ip6 = netip.MustParseAddr("2001:db8::9")
				case "error":
					e6 = errors.New("lookup AAAA: i/o timeout")
				}
				return out, e4, e6
			}
			knowledgeKey := cp.dnsController.cacheKey(name, common.AddrToDnsType(dst.Addr()))
			var trail []string
			for _, ev := range b.Hist {
				switch ev.Ev {
				case "learn":
					trail = append(trail, "dae resolves the name (ttl 60s)")
					cp.dnsController.rememberDnsKnowledge(knowledgeKey, time.Now().Add(60*time.Second))
				case "forget":
					trail = append(trail, "+61s (the answer's ttl is over)")
					time.Sleep(61 * time.Second)
				case "expire":
					trail = append(trail, "+11s (the negative entry is over)")
					time.Sleep(11 * time.Second)
				case "conn":
					a4, a6 = ev.A4, ev.A6
					trail = append(trail, fmt.Sprintf("connection (a verification probe would see A:%s AAAA:%s)", a4, a6))
					target, _, dialIp := cp.ChooseDialTarget(consts.OutboundUserDefinedMin, dst, name)
					synctest.Wait() // the verification probe, if one was started, has finished
					res.Eval(1)
					want := dst.String()
					if ev.Target == "name" {
						want = name + ":443"
					}
					if target != want {
						why := "the name was neither resolved through dae nor verified by a probe that obtained an address"
						if ev.Target == "name" {
							why = "the name is known to be genuine"
						}
						res.Failf("c18probe:"+strings.Join(trail, ";"), append([]string(nil), trail...), "dial_mode domain, %v: the proxy is given %q (dialIp=%v), expected %q: %s", trail, target, dialIp, want, why)
						return
					}
				}
			}
			_ = probes
		})
	}
}
