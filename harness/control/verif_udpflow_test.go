//go:build verif

package control

import (
	"bytes"
	"context"
	"crypto/aes"
	"crypto/cipher"
	"crypto/hkdf"
	"crypto/sha256"
	"errors"
	"fmt"
	"io"
	"math/rand"
	"net/netip"
	"sort"
	"strings"
	"sync"
	"testing"
	"testing/synctest"
	"time"

	"github.com/bits-and-blooms/bloom/v3"
	"github.com/daeuniverse/dae/common/consts"
	"github.com/daeuniverse/dae/component/outbound"
	"github.com/daeuniverse/dae/component/outbound/dialer"
	"github.com/daeuniverse/dae/pkg/verifutil"
	D "github.com/daeuniverse/outbound/dialer"
	"github.com/daeuniverse/outbound/netproxy"
)

// behaviours emitted by spec/UdpFlow.tla, replayed on the real ControlPlane.handlePkt (control/udp.go) with the real
// DefaultUdpEndpointPool / DefaultPacketSnifferSessionMgr in virtual time; fake transports record what is written upstream.
type ufWrite struct {
	C int `json:"c"`
	P int `json:"p"`
}
type ufEvent struct {
	Ev  string `json:"ev"`
	F   string `json:"f"`
	K   string `json:"k"`
	C   int    `json:"c"`
	RR  string `json:"rr"`
	Obs struct {
		Writes  []ufWrite `json:"writes"`
		Dials   int       `json:"dials"`
		Closed  []int     `json:"closed"`
		Held    []int     `json:"held"`
		Dropped []int     `json:"dropped"`
		Groups  []string  `json:"groups"`
		Names   []string  `json:"names"`
	} `json:"obs"`
}
type ufBehaviour struct {
	Hist  []ufEvent `json:"hist"`
	Scope bool      `json:"scope"`
}

func ufRoutingResult(rr string) *bpfRoutingResult {
	switch rr {
	case "cpr1":
		return &bpfRoutingResult{Outbound: uint8(consts.OutboundControlPlaneRouting), Dscp: 1}
	case "g1":
		return &bpfRoutingResult{Outbound: uint8(consts.OutboundUserDefinedMin)}
	case "g2":
		return &bpfRoutingResult{Outbound: uint8(consts.OutboundUserDefinedMin) + 1}
	}
	return &bpfRoutingResult{Outbound: uint8(consts.OutboundControlPlaneRouting)}
}

type ufConn struct {
	id     int
	grp    string
	env    *ufEnv
	reads  chan epRead
	closed chan struct{}
	once   sync.Once
	mu     sync.Mutex
	closes int
	wfail  bool
}

func (c *ufConn) Read([]byte) (int, error)    { return 0, io.EOF }
func (c *ufConn) Write(b []byte) (int, error) { return len(b), nil }
func (c *ufConn) ReadFrom(p []byte) (int, netip.AddrPort, error) {
	select {
	case <-c.closed:
		return 0, netip.AddrPort{}, io.EOF
	case r := <-c.reads:
		if r.err != nil {
			return 0, netip.AddrPort{}, r.err
		}
		return copy(p, r.data), r.from, nil
	}
}
func (c *ufConn) WriteTo(p []byte, addr string) (int, error) {
	c.mu.Lock()
	fail := c.wfail
	c.mu.Unlock()
	if fail {
		return 0, errors.New("fake: write failed")
	}
	c.env.mu.Lock()
	c.env.writes = append(c.env.writes, ufRealWrite{conn: c.id, data: append([]byte(nil), p...), addr: addr})
	c.env.mu.Unlock()
	return len(p), nil
}
func (c *ufConn) Close() error {
	c.mu.Lock()
	c.closes++
	c.mu.Unlock()
	c.once.Do(func() { close(c.closed) })
	return nil
}
func (c *ufConn) SetDeadline(time.Time) error      { return nil }
func (c *ufConn) SetReadDeadline(time.Time) error  { return nil }
func (c *ufConn) SetWriteDeadline(time.Time) error { return nil }

type ufRealWrite struct {
	conn int
	data []byte
	addr string
}
type ufEnv struct {
	mu       sync.Mutex
	writes   []ufRealWrite
	conns    []*ufConn
	dials    int
	dialFail bool
}
type ufDialer struct {
	env *ufEnv
	grp string
}

func (d *ufDialer) DialContext(ctx context.Context, network, addr string) (netproxy.Conn, error) {
	d.env.mu.Lock()
	defer d.env.mu.Unlock()
	d.env.dials++
	if d.env.dialFail {
		return nil, errors.New("fake: dial failed")
	}
	c := &ufConn{id: len(d.env.conns) + 1, grp: d.grp, env: d.env, reads: make(chan epRead, 4), closed: make(chan struct{})}
	d.env.conns = append(d.env.conns, c)
	return c, nil
}

// ---- datagrams: QUIC v1 Initial packets protected per RFC 9001 s5 with the standard library only --------------------
var ufSalt = []byte{0x38, 0x76, 0x2c, 0xf7, 0xf5, 0x59, 0x34, 0xb3, 0x4d, 0x17, 0x9a, 0xe6, 0xa4, 0xc8, 0x0c, 0xad, 0xcc, 0xbb, 0x7f, 0x0a}

func ufExpandLabel(secret []byte, label string, n int) []byte {
	full := "tls13 " + label
	info := append([]byte{byte(n >> 8), byte(n), byte(len(full))}, full...)
	info = append(info, 0)
	out, err := hkdf.Expand(sha256.New, secret, string(info), n)
	if err != nil {
		panic(err)
	}
	return out
}
func ufVarint(n int) []byte {
	if n < 64 {
		return []byte{byte(n)}
	}
	return []byte{0x40 | byte(n>>8), byte(n)}
}
func ufInitial(dcid []byte, pn uint32, pnLen int, payload []byte) []byte {
	prk, _ := hkdf.Extract(sha256.New, dcid, ufSalt)
	secret := ufExpandLabel(prk, "client in", 32)
	key, iv, hp := ufExpandLabel(secret, "quic key", 16), ufExpandLabel(secret, "quic iv", 12), ufExpandLabel(secret, "quic hp", 16)
	for len(payload) < 1100 { // a client pads its Initial datagrams (RFC 9000 s14.1)
		payload = append(payload, 0)
	}
	hdr := []byte{0xc0 | byte(pnLen-1), 0, 0, 0, 1, byte(len(dcid))}
	hdr = append(hdr, dcid...)
	hdr = append(hdr, 3, 's', 'r', 'c', 0)
	hdr = append(hdr, ufVarint(pnLen+len(payload)+16)...)
	pnOff := len(hdr)
	for i := pnLen - 1; i >= 0; i-- {
		hdr = append(hdr, byte(pn>>(8*i)))
	}
	block, _ := aes.NewCipher(key)
	aead, _ := cipher.NewGCM(block)
	nonce := append([]byte(nil), iv...)
	for i := 0; i < 4; i++ {
		nonce[11-i] ^= byte(pn >> (8 * i))
	}
	pkt := append(append([]byte(nil), hdr...), aead.Seal(nil, nonce, payload, hdr)...)
	hpb, _ := aes.NewCipher(hp)
	mask := make([]byte, 16)
	hpb.Encrypt(mask, pkt[pnOff+4:pnOff+20])
	pkt[0] ^= mask[0] & 0x0f
	for i := 0; i < pnLen; i++ {
		pkt[pnOff+i] ^= mask[1+i]
	}
	return pkt
}

// a TLS 1.3 ClientHello handshake message with a server_name extension
func ufClientHello(name string) []byte {
	sni := append([]byte{0, byte(len(name) >> 8), byte(len(name))}, name...)
	sniList := append([]byte{byte(len(sni) >> 8), byte(len(sni))}, sni...)
	ext := append([]byte{0, 0, byte(len(sniList) >> 8), byte(len(sniList))}, sniList...)
	ext = append(ext, 0, 0x2b, 0, 3, 2, 3, 4) // supported_versions
	body := []byte{3, 3}
	body = append(body, bytes.Repeat([]byte{0x5a}, 32)...) // random
	body = append(body, 0)                                 // session id
	body = append(body, 0, 2, 0x13, 0x01)                  // cipher suites
	body = append(body, 1, 0)                              // compression
	body = append(body, byte(len(ext)>>8), byte(len(ext)))
	body = append(body, ext...)
	return append([]byte{1, byte(len(body) >> 16), byte(len(body) >> 8), byte(len(body))}, body...)
}
func ufCrypto(hs []byte, off, end int) []byte {
	f := append([]byte{6}, ufVarint(off)...)
	f = append(f, ufVarint(end-off)...)
	return append(f, hs[off:end]...)
}

type ufFlow struct {
	dst  netip.AddrPort
	name string
	dcid []byte
}

var ufSrc = netip.MustParseAddrPort("192.168.89.3:42687")
var ufFlows = map[string]ufFlow{
	"A": {dst: netip.MustParseAddrPort("52.199.194.44:443"), name: "example.com", dcid: []byte{0xa1, 2, 3, 4, 5, 6, 7, 8}},
	"B": {dst: netip.MustParseAddrPort("52.199.194.45:443"), name: "other.org", dcid: []byte{0xb1, 2, 3, 4, 5, 6, 7, 9}},
	"C": {dst: netip.MustParseAddrPort("52.199.194.46:1000")},
}

func ufDatagram(f, k string, pid int, rng *rand.Rand) []byte {
	fl := ufFlows[f]
	dcid := append([]byte(nil), fl.dcid...)
	if len(dcid) == 8 {
		dcid[7] ^= byte(rng.Intn(256))
	} // (the same for every datagram of the behaviour: rng is re-seeded per flow by the caller)
	switch k {
	case "s":
		b := []byte{0x40 | byte(pid&0x3f), byte(pid), 0xde, 0xad}
		return append(b, bytes.Repeat([]byte{byte(pid)}, 40+pid)...)
	}
	name := fl.name
	if k == "jf" { // a second connection on the same addresses and ports: other connection ids, other name
		name = "second.net"
		dcid[0] ^= 0x55
	}
	hs := ufClientHello(name)
	cut := len(hs) / 2
	var payload []byte
	switch k {
	case "i1":
		payload = ufCrypto(hs, 0, cut)
	case "i2":
		payload = ufCrypto(hs, cut, len(hs))
	case "if", "jf":
		payload = ufCrypto(hs, 0, len(hs))
	}
	pnLen := 1 + (pid+int(dcid[7]))%4
	return ufInitial(dcid, uint32(pid)+uint32(dcid[7]&0x3f), pnLen, payload)
}

func ufRunOne(b *ufBehaviour, m *RoutingMatcher, res *verifutil.Result, bseed int64) {
	oldUdp, oldSn, oldFailed := DefaultUdpEndpointPool, DefaultPacketSnifferSessionMgr, getFailedQuicDcidCache()
	DefaultUdpEndpointPool = NewUdpEndpointPool()
	DefaultPacketSnifferSessionMgr = NewPacketSnifferPool()
	SetFailedQuicDcidCache(newFailedQuicDcidCache(failedQuicDcidCacheShardCount))
	time.Sleep(125 * time.Millisecond) // events fall between two janitor ticks
	env := &ufEnv{}
	trail0 := ""
	log := verifLogger()
	gopt := &dialer.GlobalOption{Log: log, CheckInterval: time.Hour}
	var dialers []*dialer.Dialer
	mk := func(name string) *outbound.DialerGroup {
		dd := dialer.NewDialer(&ufDialer{env: env, grp: name}, gopt, dialer.InstanceOption{DisableCheck: true}, &dialer.Property{Property: D.Property{Name: name}})
		dialers = append(dialers, dd)
		return outbound.NewDialerGroup(gopt, name, []*dialer.Dialer{dd}, []*dialer.Annotation{{}},
			outbound.DialerSelectionPolicy{Policy: consts.DialerSelectionPolicy_Fixed, FixedIndex: 0}, func(bool, *dialer.NetworkType, bool) {})
	}
	groups := []*outbound.DialerGroup{mk("direct"), mk("block"), mk("g1"), mk("g2")}
	ctx, cancel := context.WithCancel(context.Background())
	cp := &ControlPlane{realDomainSet: bloom.NewWithEstimates(2048, 0.001), log: log, ctx: ctx, cancel: cancel}
	cp.dnsController = &DnsController{dnsControllerStore: &dnsControllerStore{}}
	cp.routingMatcher = m
	cp.outbounds = groups
	cp.soMarkFromDae = 0x100
	cp.udpRouteScopeSensitive = b.Scope
	if b.Scope {
		trail0 = "[routing looks at packet metadata] "
	}
	defer func() {
		cancel()
		DefaultUdpEndpointPool.Reset()
		DefaultUdpEndpointPool.Close()
		DefaultUdpEndpointPool = oldUdp
		DefaultPacketSnifferSessionMgr.Close()
		DefaultPacketSnifferSessionMgr = oldSn
		SetFailedQuicDcidCache(oldFailed)
		for _, d := range dialers {
			_ = d.Close()
		}
	}()

	var trail []string
	if trail0 != "" {
		trail = append(trail, trail0)
	}
	sent := map[int][]byte{} // packet id -> bytes as the client sent them
	flowOf := map[int]string{}
	delivered := map[int]int{} // packet id -> real transport
	seen := 0                  // writes already examined
	npk := 0
	violated := false
	fail := func(suffix, format string, a ...any) {
		violated = true
		res.Failf("udpflow:"+strings.Join(trail, ";")+suffix, append([]string(nil), trail...), "%v: %s", trail, fmt.Sprintf(format, a...))
	}
	drift := func(format string, a ...any) {
		res.AddDrift(fmt.Sprintf("udpflow %v: %s", trail, fmt.Sprintf(format, a...)))
	}
	identify := func(data []byte) int {
		for id, b := range sent {
			if bytes.Equal(b, data) {
				return id
			}
		}
		return 0
	}
	for _, ev := range b.Hist {
		var thisPid int
		switch ev.Ev {
		case "pkt":
			npk++
			thisPid = npk
			fl := ufFlows[ev.F]
			data := ufDatagram(ev.F, ev.K, npk, rand.New(rand.NewSource(bseed+int64(ev.F[0]))))
			sent[npk] = append([]byte(nil), data...)
			flowOf[npk] = ev.F
			trail = append(trail, fmt.Sprintf("#%d %s:%s/%s", npk, ev.F, ev.K, ev.RR))
			// what the ingress loop of control_plane.go does before the task is queued
			dec := ClassifyUdpFlow(ufSrc, fl.dst, data)
			if dec.IsQuicInitial {
				dec = dec.EnsureSnifferSession()
			}
			if wantInit := ev.K != "s"; dec.IsQuicInitial != wantInit {
				fail("|classify", "datagram #%d (%s) classified IsQuicInitial=%v", npk, ev.K, dec.IsQuicInitial)
				return
			}
			rr := ufRoutingResult(ev.RR)
			func() {
				defer func() {
					if r := recover(); r != nil {
						fail("|panic", "handlePkt panicked on datagram #%d: %v", npk, r)
					}
				}()
				buf := append([]byte(nil), data...)
				_ = cp.handlePkt(nil, buf, ufSrc, fl.dst, rr, dec, false)
			}()
			if violated {
				return
			}
		case "wfail":
			trail = append(trail, fmt.Sprintf("writes on transport %d fail", ev.C))
			env.mu.Lock()
			if ev.C > len(env.conns) {
				env.mu.Unlock()
				drift("transport %d of the model does not exist", ev.C)
				return
			}
			c := env.conns[ev.C-1]
			env.mu.Unlock()
			c.mu.Lock()
			c.wfail = true
			c.mu.Unlock()
		case "rexit":
			trail = append(trail, fmt.Sprintf("reply loop of transport %d ends", ev.C))
			env.mu.Lock()
			if ev.C > len(env.conns) {
				env.mu.Unlock()
				drift("transport %d of the model does not exist", ev.C)
				return
			}
			c := env.conns[ev.C-1]
			env.mu.Unlock()
			c.reads <- epRead{err: errors.New("fake: read failed")}
		case "dialfail":
			trail = append(trail, "dials "+map[string]string{"on": "fail from now on", "off": "work again"}[ev.K])
			env.mu.Lock()
			env.dialFail = ev.K == "on"
			env.mu.Unlock()
		case "tick6":
			trail = append(trail, "6 s pass")
			time.Sleep(6 * time.Second)
		case "tick121":
			trail = append(trail, "121 s pass")
			time.Sleep(121 * time.Second)
		}
		synctest.Wait()
		res.Eval(1)
		// ---- property layer, judged on what the real code wrote to the transports ----
		env.mu.Lock()
		writes := append([]ufRealWrite(nil), env.writes[seen:]...)
		seen = len(env.writes)
		dials := env.dials
		conns := append([]*ufConn(nil), env.conns...)
		env.mu.Unlock()
		var batch []int
		for _, w := range writes {
			id := identify(w.data)
			if id == 0 {
				near := 0
				for pid, b := range sent {
					if len(b) == len(w.data) {
						near = pid
					}
				}
				fail("|payload", "a datagram of %d bytes was written upstream (transport %d) that is not byte for byte any datagram the client sent (closest: #%d)", len(w.data), w.conn, near)
				return
			}
			if prev, dup := delivered[id]; dup {
				fail("|dup", "datagram #%d was written upstream twice (transports %d and %d)", id, prev, w.conn)
				return
			}
			delivered[id] = w.conn
			if want := ufFlows[flowOf[id]].dst.String(); w.addr != want {
				fail("|target", "datagram #%d of flow %s was sent to target %q, the original destination is %s", id, flowOf[id], w.addr, want)
				return
			}
			batch = append(batch, id)
		}
		if ev.Ev != "pkt" && len(batch) > 0 {
			fail("|spontaneous", "datagrams %v were written upstream although no datagram arrived", batch)
			return
		}
		if len(batch) > 1 {
			res.Count("uf_replayed_batches", 1)
		}
		if len(ev.Obs.Held) > 0 {
			res.Count("uf_steps_with_held_datagrams", 1)
		}
		if ev.Ev == "pkt" && len(batch) > 0 {
			if !sort.IntsAreSorted(batch) {
				fail("|order", "the call for datagram #%d wrote %v upstream: held datagrams must be replayed in ingress order", thisPid, batch)
				return
			}
			if batch[len(batch)-1] != thisPid {
				fail("|order", "the call for datagram #%d wrote %v upstream: the datagram of the call must come last", thisPid, batch)
				return
			}
			for _, id := range batch {
				if flowOf[id] != flowOf[thisPid] {
					fail("|flowmix", "the call for datagram #%d (flow %s) wrote datagram #%d of flow %s", thisPid, flowOf[thisPid], id, flowOf[id])
					return
				}
			}
		}
		// completeness: everything the specification says is written by now (not held by an unfinished ClientHello, not dropped for a
		// stated reason) must have been written
		held := map[int]bool{}
		for _, p := range ev.Obs.Held {
			held[p] = true
		}
		dropped := map[int]bool{}
		for _, p := range ev.Obs.Dropped {
			dropped[p] = true
		}
		for pid := 1; pid <= npk; pid++ {
			_, ok := delivered[pid]
			if !ok && !held[pid] && !dropped[pid] {
				fail("|withheld", "datagram #%d (flow %s) has not been written upstream: it is neither part of a ClientHello still being collected nor lost to a failed dial / an expired sniffing session", pid, flowOf[pid])
				return
			}
			if ok && held[pid] {
				drift("datagram #%d written although the model still holds it", pid)
			}
		}
		// one transport per call without retry, no second dial for a live key: compared through the model's transport numbering
		if len(writes) != len(ev.Obs.Writes) {
			drift("the call wrote %d datagrams, the model %d", len(writes), len(ev.Obs.Writes))
		} else {
			for i, w := range writes {
				mw := ev.Obs.Writes[i]
				if id := identify(w.data); id != mw.P {
					drift("write %d is datagram #%d, the model says #%d", i, id, mw.P)
				} else if w.conn != mw.C {
					fail("|transport", "datagram #%d went through transport %d; the endpoint of its key is alive on transport %d (transports numbered in dial order)", id, w.conn, mw.C)
					return
				}
			}
		}
		if dials != ev.Obs.Dials {
			if dials > ev.Obs.Dials {
				fail("|dials", "%d dials so far, the specification accounts for %d: an endpoint that is alive was dialled again, or a cached dial failure was not honoured", dials, ev.Obs.Dials)
				return
			}
			drift("%d dials so far, the model %d", dials, ev.Obs.Dials)
		}
		for i, c := range conns {
			if i >= len(ev.Obs.Groups) {
				break
			}
			if c.grp != ev.Obs.Groups[i] {
				fail("|route", "transport %d was dialled through group %s; the name sniffed for it (%q) routes to %s", i+1, c.grp, ev.Obs.Names[i], ev.Obs.Groups[i])
				return
			}
		}
		wantClosed := map[int]bool{}
		for _, c := range ev.Obs.Closed {
			wantClosed[c] = true
		}
		for i, c := range conns {
			c.mu.Lock()
			n := c.closes
			c.mu.Unlock()
			if n > 1 {
				fail("|closedtwice", "transport %d was closed %d times", i+1, n)
				return
			}
			if wantClosed[i+1] && n == 0 {
				fail("|leak", "transport %d is still open although its endpoint ended (failed write / reply loop exit / expiry)", i+1)
				return
			}
			if !wantClosed[i+1] && n > 0 {
				drift("transport %d was closed although the model's endpoint is alive", i+1)
			}
		}
	}
	// the end: a pool reset closes every transport exactly once
	DefaultUdpEndpointPool.Reset()
	synctest.Wait()
	env.mu.Lock()
	conns := append([]*ufConn(nil), env.conns...)
	env.mu.Unlock()
	for i, c := range conns {
		c.mu.Lock()
		n := c.closes
		c.mu.Unlock()
		if n != 1 {
			trail = append(trail, "pool reset")
			fail("|closeonce", "transport %d was closed %d times after the pool reset", i+1, n)
			return
		}
	}
}

func TestVerifUdpFlow(t *testing.T) {
	bs, err := verifutil.ReadLines[ufBehaviour]("VERIF_IN")
	if err != nil {
		t.Fatal(err)
	}
	res := verifutil.NewResult()
	defer func() {
		if err := res.Write(); err != nil {
			t.Fatal(err)
		}
	}()
	n2i := map[string]uint8{"direct": 0, "block": 1, "g1": 2, "g2": 3}
	bld, err := verifCompileRouting("routing {\n domain(full: example.com) -> g2\n fallback: g1\n}", n2i, nil, true)
	if err != nil {
		t.Fatal(err)
	}
	m, err := bld.BuildUserspace()
	if err != nil {
		t.Fatal(err)
	}
	synctest.Test(t, func(t *testing.T) {
		for bi := range bs {
			res.Case()
			if bi < 2 {
				res.Sample(bs[bi].Hist)
			}
			ufRunOne(&bs[bi], m, res, verifutil.Seed()*1000003+int64(bi))
			synctest.Wait()
		}
	})
}
