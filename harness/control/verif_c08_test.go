//go:build verif

package control

import (
	"fmt"
	"net/netip"
	"strings"
	"testing"
	"testing/synctest"
	"time"

	"github.com/daeuniverse/dae/pkg/verifutil"
	dnsmessage "github.com/miekg/dns"
)

// behaviours emitted by spec/DnsCache.tla
type c08Step struct {
	A string `json:"a"`
	K string `json:"k"`
	X struct {
		Ans int `json:"ans"`
		Ttl int `json:"ttl"`
	} `json:"x"`
	Obs string `json:"obs"`
	Now int    `json:"now"`
}
type c08Behaviour struct {
	Hist       []c08Step `json:"hist"`
	Optimistic bool      `json:"optimistic"`
	Stale      int       `json:"stale"`
	MaxSize    int       `json:"maxSize"`
	Fixed      int       `json:"fixed"`
	Live       []string  `json:"live"`
}

type c08Key struct {
	name  string
	qtype uint16
	scope string
}

// k1 and k2: same name and type, different upstream scope; k3: another name and type
var c08Keys = map[string]c08Key{
	"k1": {"a.test.", dnsmessage.TypeA, "upstream-1"},
	"k2": {"a.test.", dnsmessage.TypeA, "upstream-2"},
	"k3": {"b.test.", dnsmessage.TypeAAAA, "upstream-1"},
}

func c08Addr(k string, ans int) netip.Addr {
	ck := c08Keys[k]
	if ck.qtype == dnsmessage.TypeA {
		return netip.AddrFrom4([4]byte{198, 51, byte(k[1] - '0'), byte(ans)})
	}
	return netip.MustParseAddr(fmt.Sprintf("2001:db8:%c::%d", k[1], ans))
}

func c08NewController(b *c08Behaviour) (*DnsController, error) {
	opt := &DnsControllerOption{
		Log: verifLogger(),
		NewCache: func(fqdn string, answers, ns, extra []dnsmessage.RR, deadline time.Time, originalDeadline time.Time) (*DnsCache, error) {
			// as control_plane.go builds it (the domain bitmap is irrelevant here)
			return &DnsCache{DomainBitmap: make([]uint32, 32), NS: ns, Extra: extra, Answer: answers, Deadline: deadline, OriginalDeadline: originalDeadline}, nil
		},
		OptimisticCache:    b.Optimistic,
		OptimisticCacheTtl: b.Stale,
		MaxCacheSize:       b.MaxSize,
	}
	if b.Fixed != 0 {
		opt.FixedDomainTtl = map[string]int{"a.test": b.Fixed}
	}
	return NewDnsController(nil, opt)
}

func c08RunOne(b *c08Behaviour, res *verifutil.Result) {
	c, err := c08NewController(b)
	if err != nil {
		res.Note("NewDnsController: " + err.Error())
		return
	}
	defer func() { _ = c.Close() }()
	start := time.Now()
	var trail []string
	cfg := fmt.Sprintf("optimistic=%v stale=%d max=%d fixed=%d", b.Optimistic, b.Stale, b.MaxSize, b.Fixed)
	refreshAsked := map[string]int{}
	for si, st := range b.Hist {
		trail = append(trail, fmt.Sprintf("t=%d:%s(%s,%d,%d)", st.Now, st.A, st.K, st.X.Ans, st.X.Ttl))
		key := "c08:" + cfg + ":" + strings.Join(trail, ";")
		ck := c08Keys[st.K]
		switch st.A {
		case "insert":
			msg := new(dnsmessage.Msg)
			msg.SetQuestion(ck.name, ck.qtype)
			msg.Response = true
			msg.Rcode = dnsmessage.RcodeSuccess
			hdr := dnsmessage.RR_Header{Name: ck.name, Rrtype: ck.qtype, Class: dnsmessage.ClassINET, Ttl: uint32(st.X.Ttl)}
			ip := c08Addr(st.K, st.X.Ans)
			if ck.qtype == dnsmessage.TypeA {
				msg.Answer = []dnsmessage.RR{&dnsmessage.A{Hdr: hdr, A: ip.AsSlice()}}
			} else {
				msg.Answer = []dnsmessage.RR{&dnsmessage.AAAA{Hdr: hdr, AAAA: ip.AsSlice()}}
			}
			if err := c.NormalizeAndCacheDnsResp_(msg, c.cacheKey(ck.name, ck.qtype)+"|"+ck.scope); err != nil {
				res.Failf(key, trail, "[%s] %v: caching an answer failed: %v", cfg, trail, err)
				return
			}
			refreshAsked[st.K] = 0
		case "lookup":
			// the client may spell the name in another letter case
			qname := ck.name
			if si%2 == 1 {
				qname = strings.ToUpper(qname)
			}
			q := new(dnsmessage.Msg)
			q.SetQuestion(qname, ck.qtype)
			resp, needRefresh := c.LookupDnsRespCache_(q, c.cacheKey(qname, ck.qtype)+"|"+ck.scope, false)
			res.Eval(1)
			elapsed := int(time.Since(start) / time.Second)
			if elapsed != st.Now {
				res.Note(fmt.Sprintf("virtual clock %d, model %d", elapsed, st.Now))
				return
			}
			got := "miss"
			var gotIP netip.Addr
			var gotTTL uint32
			if resp != nil {
				var m dnsmessage.Msg
				if err := m.Unpack(resp); err != nil {
					res.Failf(key, trail, "[%s] %v: the cache returned bytes that do not parse: %v", cfg, trail, err)
					return
				}
				got = "served"
				for _, rr := range m.Answer {
					if ip, ok := dnsAnswerIP(rr); ok {
						gotIP = ip
						gotTTL = rr.Header().Ttl
					}
				}
				if len(m.Question) != 1 || !strings.EqualFold(m.Question[0].Name, ck.name) || m.Question[0].Qtype != ck.qtype {
					res.Failf(key+"|question", trail, "[%s] %v: the served answer is for question %v, asked %s type %d", cfg, trail, m.Question, qname, ck.qtype)
				}
			}
			switch st.Obs {
			case "miss":
				if got != "miss" {
					res.Failf(key, trail, "[%s] %v: at t=%ds the cache served %v for %s although no live entry exists for that name, type and scope (dead, out of the stale window, or never inserted)", cfg, trail, st.Now, gotIP, st.K)
					return
				}
			case "fresh", "stale", "stale-refresh":
				if got == "miss" {
					res.Failf(key, trail, "[%s] %v: at t=%ds the cache did not serve the %s answer of %s (it is %s)", cfg, trail, st.Now, st.Obs, st.K, map[bool]string{true: "still fresh", false: "expired but inside the stale window with optimistic caching on"}[st.Obs == "fresh"])
					return
				}
				if want := c08Addr(st.K, st.X.Ans); gotIP != want {
					res.Failf(key, trail, "[%s] %v: lookup of %s returned address %v, the answer cached for that key is %v", cfg, trail, st.K, gotIP, want)
					return
				}
				if st.Obs == "fresh" {
					if int(gotTTL) > st.X.Ttl+15 {
						res.Failf(key+"|ttl", trail, "[%s] %v: the client is shown ttl=%ds, the entry lives %ds more (slack 15s)", cfg, trail, gotTTL, st.X.Ttl)
					}
					if needRefresh {
						res.Failf(key+"|refresh", trail, "[%s] %v: a fresh answer asked for a refresh", cfg, trail)
					}
				} else {
					if needRefresh {
						refreshAsked[st.K]++
					}
					if refreshAsked[st.K] > 1 {
						res.Failf(key+"|refresh", trail, "[%s] %v: %d lookups of %s were told to refresh while one refresh is in flight", cfg, trail, refreshAsked[st.K], st.K)
					}
					if (st.Obs == "stale-refresh") != needRefresh {
						res.AddDrift(fmt.Sprintf("%v: needRefresh=%v, model %s", trail, needRefresh, st.Obs))
					}
				}
			}
		case "refreshfail":
			if v, ok := c.dnsCache.Load(c.cacheKey(ck.name, ck.qtype) + "|" + ck.scope); ok {
				v.(*DnsCache).MarkRefreshed()
			}
			refreshAsked[st.K] = 0
		case "tick":
			time.Sleep(time.Duration(st.X.Ttl) * time.Second)
			synctest.Wait()
			if st.Obs == "janitor" && b.MaxSize > 0 {
				n := 0
				c.dnsCache.Range(func(_, _ any) bool { n++; return true })
				res.Eval(1)
				if n > b.MaxSize {
					res.Failf(key+"|size", trail, "[%s] %v: %d entries after a janitor run, limit %d", cfg, trail, n, b.MaxSize)
				}
			}
		case "reload":
			clone := c.CloneCacheForReload()
			c2, err := c08NewController(b)
			if err != nil {
				res.Note(err.Error())
				return
			}
			c2.RestoreReloadCache(clone, nil, time.Now())
			_ = c.Close()
			c = c2
			for k := range refreshAsked {
				refreshAsked[k] = 0 // the new generation starts without refreshes in flight
			}
		}
	}
	// which keys are still cached (LRU / expiry), unless an eviction tie made the victim arbitrary
	tie := false
	for _, st := range b.Hist {
		if st.Obs == "janitor-tie" {
			tie = true
		}
	}
	if !tie {
		var live []string
		for k, ck := range c08Keys {
			if _, ok := c.dnsCache.Load(c.cacheKey(ck.name, ck.qtype) + "|" + ck.scope); ok {
				live = append(live, k)
			}
		}
		want := map[string]bool{}
		for _, k := range b.Live {
			want[k] = true
		}
		// entries the model removed may linger until the next janitor run or lookup; entries the model keeps must exist
		for k := range want {
			found := false
			for _, l := range live {
				if l == k {
					found = true
				}
			}
			res.Eval(1)
			if !found {
				res.Failf("c08:"+cfg+":"+strings.Join(trail, ";")+"|evicted", trail, "[%s] %v: entry %s was evicted although it is alive and was used more recently than the entries that survived (or no limit applies)", cfg, trail, k)
			}
		}
	}
}

func TestVerifC08(t *testing.T) {
	bs, err := verifutil.ReadLines[c08Behaviour]("VERIF_IN")
	if err != nil {
		t.Fatal(err)
	}
	res := verifutil.NewResult()
	defer func() {
		if err := res.Write(); err != nil {
			t.Fatal(err)
		}
	}()
	for bi := range bs {
		b := &bs[bi]
		res.Case()
		if bi < 2 {
			res.Sample(b.Hist)
		}
		synctest.Test(t, func(t *testing.T) {
			c08RunOne(b, res)
		})
	}
}
