//go:build verif

package control

import (
	"context"
	"fmt"
	"net"
	"net/netip"
	"strings"
	"sync"
	"testing"
	"time"

	"github.com/daeuniverse/dae/common/consts"
	componentdns "github.com/daeuniverse/dae/component/dns"
	"github.com/daeuniverse/dae/config"
	"github.com/daeuniverse/dae/pkg/verifutil"
	dnsmessage "github.com/miekg/dns"
	"github.com/sirupsen/logrus"
)

// behaviours emitted by spec/DnsHitPath.tla
type hpBehaviour struct {
	Size string         `json:"size"`
	Cid  map[string]int `json:"cid"`
	Hist []struct {
		Ev string `json:"ev"`
		C  string `json:"c"`
	} `json:"hist"`
}

// parks a goroutine at the trace message sendPkt logs right before it writes a datagram to a given client
type hpGateHook struct {
	mu    sync.Mutex
	gates map[string]*hpGate // client address -> gate
}
type hpGate struct {
	reached chan struct{}
	release chan struct{}
	once    sync.Once
}

func (h *hpGateHook) Levels() []logrus.Level { return []logrus.Level{logrus.TraceLevel} }
func (h *hpGateHook) Fire(e *logrus.Entry) error {
	if e.Message != "sendPkt: preparing to send UDP packet" {
		return nil
	}
	to, _ := e.Data["to"].(string)
	h.mu.Lock()
	g := h.gates[to]
	h.mu.Unlock()
	if g == nil {
		return nil
	}
	g.once.Do(func() {
		close(g.reached)
		<-g.release
	})
	return nil
}

func hpRunOne(b *hpBehaviour, res *verifutil.Result) (infra string) {
	hook := &hpGateHook{gates: map[string]*hpGate{}}
	log := logrus.New()
	log.SetOutput(discardAll{})
	log.SetLevel(logrus.TraceLevel)
	log.AddHook(hook)
	routing, err := componentdns.New(&config.Dns{
		Routing: config.DnsRouting{Request: config.DnsRequestRouting{Fallback: "asis"}, Response: config.DnsResponseRouting{Fallback: "accept"}},
	}, &componentdns.NewOption{Logger: log, UpstreamReadyCallback: func(*componentdns.Upstream) error { return nil }})
	if err != nil {
		return "dns.New: " + err.Error()
	}
	ctrl, err := NewDnsController(routing, &DnsControllerOption{
		Log: log, LifecycleContext: context.Background(),
		CacheAccessCallback: func(*DnsCache) error { return nil },
		CacheRemoveCallback: func(*DnsCache) error { return nil },
		NewCache: func(fqdn string, answers, ns, extra []dnsmessage.RR, deadline, originalDeadline time.Time) (*DnsCache, error) {
			return &DnsCache{DomainBitmap: make([]uint32, 32), Answer: answers, NS: ns, Extra: extra, Deadline: deadline, OriginalDeadline: originalDeadline}, nil
		},
	})
	if err != nil {
		return "NewDnsController: " + err.Error()
	}
	defer func() { _ = ctrl.Close() }()
	replyConn, err := net.ListenUDP("udp4", &net.UDPAddr{IP: net.IPv4(127, 0, 0, 1)})
	if err != nil {
		return "listen: " + err.Error()
	}
	defer replyConn.Close()
	listenerConn, err := net.ListenUDP("udp4", &net.UDPAddr{IP: net.IPv4(127, 0, 0, 1)})
	if err != nil {
		return "listen: " + err.Error()
	}
	defer listenerConn.Close()
	replyAddr := replyConn.LocalAddr().(*net.UDPAddr).AddrPort()
	af := &Anyfrom{UDPConn: replyConn, ttl: AnyfromTimeout}
	af.RefreshTtl()
	shard := DefaultAnyfromPool.shardFor(replyAddr)
	shard.mu.Lock()
	shard.pool[replyAddr] = af
	shard.mu.Unlock()

	// the cached answer: a TXT record set of the requested size
	const name = "big.hit.test."
	payload := 200
	if b.Size == "big" {
		payload = 1500
	}
	var txt []string
	for payload > 0 {
		n := min(payload, 250)
		txt = append(txt, strings.Repeat("x", n))
		payload -= n
	}
	ans := []dnsmessage.RR{&dnsmessage.TXT{Hdr: dnsmessage.RR_Header{Name: name, Rrtype: dnsmessage.TypeTXT, Class: dnsmessage.ClassINET, Ttl: 300}, Txt: txt}}
	probeReq := &udpRequest{realSrc: netip.MustParseAddrPort("127.0.0.1:9"), realDst: replyAddr, routingResult: &bpfRoutingResult{}}
	cacheKey := ctrl.responseCacheKey(ctrl.cacheKey(name, dnsmessage.TypeTXT), probeReq, consts.DnsRequestOutboundIndex_AsIs, nil)
	if err := ctrl.UpdateDnsCacheTtlWithKey(cacheKey, name, dnsmessage.TypeTXT, ans, nil, nil, 300); err != nil {
		return "cache insert: " + err.Error()
	}

	type client struct {
		conn *net.UDPConn
		addr netip.AddrPort
		gate *hpGate
		done chan error
	}
	clients := map[string]*client{}
	for c := range b.Cid {
		conn, err := net.ListenUDP("udp4", &net.UDPAddr{IP: net.IPv4(127, 0, 0, 1)})
		if err != nil {
			return "listen: " + err.Error()
		}
		defer conn.Close()
		cl := &client{conn: conn, addr: conn.LocalAddr().(*net.UDPAddr).AddrPort(), gate: &hpGate{reached: make(chan struct{}), release: make(chan struct{})}, done: make(chan error, 1)}
		clients[c] = cl
		hook.mu.Lock()
		hook.gates[cl.addr.String()] = cl.gate
		hook.mu.Unlock()
	}
	var trail []string
	for _, ev := range b.Hist {
		cl := clients[ev.C]
		switch ev.Ev {
		case "patch":
			trail = append(trail, fmt.Sprintf("%s(id %#x) looks up the cached answer and prepares its reply", ev.C, b.Cid[ev.C]))
			q := new(dnsmessage.Msg)
			q.SetQuestion(name, dnsmessage.TypeTXT)
			q.Id = uint16(b.Cid[ev.C])
			req := &udpRequest{realSrc: cl.addr, realDst: replyAddr, src: cl.addr, lConn: listenerConn, routingResult: &bpfRoutingResult{}}
			go func() { cl.done <- ctrl.Handle_(context.Background(), q, req) }()
			select {
			case <-cl.gate.reached:
			case err := <-cl.done:
				return fmt.Sprintf("%v: the handler finished before reaching the send point (err %v)", trail, err)
			case <-time.After(60 * time.Second):
				return fmt.Sprintf("%v: the handler did not reach the send point", trail)
			}
		case "send":
			trail = append(trail, fmt.Sprintf("%s's reply is sent", ev.C))
			close(cl.gate.release)
			select {
			case err := <-cl.done:
				if err != nil {
					return fmt.Sprintf("%v: handler error %v", trail, err)
				}
			case <-time.After(60 * time.Second):
				return fmt.Sprintf("%v: the handler did not finish", trail)
			}
			buf := make([]byte, 4096)
			_ = cl.conn.SetReadDeadline(time.Now().Add(60 * time.Second))
			n, _, err := cl.conn.ReadFromUDPAddrPort(buf)
			if err != nil {
				return fmt.Sprintf("%v: client %s received nothing: %v", trail, ev.C, err)
			}
			var m dnsmessage.Msg
			res.Eval(1)
			key := fmt.Sprintf("c09hit:%s:%s", b.Size, strings.Join(trail, ";"))
			if err := m.Unpack(buf[:n]); err != nil {
				res.Failf(key, trail, "[%s answer] %v: client %s received bytes that do not parse: %v", b.Size, trail, ev.C, err)
				return ""
			}
			if int(m.Id) != b.Cid[ev.C] || len(m.Question) != 1 || !strings.EqualFold(m.Question[0].Name, name) {
				res.Failf(key, trail, "[%s answer] %v: client %s (transaction id %#x) received a reply with id %#x, question %v", b.Size, trail, ev.C, b.Cid[ev.C], m.Id, m.Question)
				return ""
			}
		}
	}
	// serving hits must leave the cached bytes as they were
	res.Count("c09hit_"+b.Size, 1)
	return ""
}

type discardAll struct{}

func (discardAll) Write(p []byte) (int, error) { return len(p), nil }

func TestVerifC09HitPath(t *testing.T) {
	bs, err := verifutil.ReadLines[hpBehaviour]("VERIF_IN")
	if err != nil {
		t.Fatal(err)
	}
	res := verifutil.NewResult()
	defer func() {
		if err := res.Write(); err != nil {
			t.Fatal(err)
		}
	}()
	old := DefaultAnyfromPool
	DefaultAnyfromPool = newTestAnyfromPoolWithoutJanitor()
	defer func() {
		DefaultAnyfromPool.Reset()
		DefaultAnyfromPool = old
	}()
	for bi := range bs {
		res.Case()
		if bi < 2 {
			res.Sample(bs[bi].Hist)
		}
		if msg := hpRunOne(&bs[bi], res); msg != "" {
			res.Note(msg)
			res.Count("c09hit_undecided", 1)
		}
	}
}
