//go:build verif && !dae_stub_ebpf

package control

import (
	"encoding/binary"
	"bytes"
	"fmt"
	"math/rand"
	"net/netip"
	"strings"
	"testing"

	"github.com/cilium/ebpf"
	"github.com/daeuniverse/dae/common/consts"
	"github.com/daeuniverse/dae/component/outbound/dialer"
	"github.com/daeuniverse/dae/pkg/verifutil"
	"golang.org/x/sys/unix"
)

// behaviours emitted by spec/Datapath.tla
type c03Dec struct {
	Out  string `json:"out"`
	Mark int    `json:"mark"`
	Must bool   `json:"must"`
}
type c03Obs struct {
	Verdict string `json:"verdict"`
	Mark    int    `json:"mark"`
	Rec     c03Dec `json:"rec"`
}
type c03Event struct {
	Ev      string `json:"ev"`
	K       string `json:"k"`
	P       string `json:"p"`
	Obs     c03Obs `json:"obs"`
	At      int    `json:"at"`
	Rules   c03Dec `json:"rules"`
	Tracked bool   `json:"tracked"`
}
type c03Behaviour struct {
	L4   string     `json:"l4"`
	Side string     `json:"side"`
	Init c03Dec     `json:"init"`
	Hist []c03Event `json:"hist"`
}

var c03Ids = map[string]uint8{"direct": 0, "block": 1, "pa": 2, "pb": 3, "cp": uint8(consts.OutboundControlPlaneRouting)}

const c03DaePid = 4242
const c03UserPid = 777

func c03FirstDiff(a, b []byte) int {
	n := min(len(a), len(b))
	for i := 0; i < n; i++ {
		if a[i] != b[i] {
			return i
		}
	}
	return n
}

func c03DecText(d c03Dec) string {
	name := d.Out
	if d.Must {
		name = "must_" + name
	}
	if d.Mark != 0 {
		return fmt.Sprintf("%s(mark: %d)", name, d.Mark)
	}
	return name
}

func c03InstallRules(k *vKern, dst netip.Addr, d c03Dec) error {
	pfx := fmt.Sprintf("%s/%d", dst, dst.BitLen())
	if dst.Is6() {
		pfx = "'" + pfx + "'"
	}
	text := fmt.Sprintf("routing {\n  dip(%s) -> %s\n  fallback: direct\n}\n", pfx, c03DecText(d))
	b, err := verifCompileRouting(text, map[string]uint8{"direct": 0, "block": 1, "pa": 2, "pb": 3}, k.objs, true)
	if err != nil {
		return fmt.Errorf("%s: %w", text, err)
	}
	_, err = b.KernspaceSnapshot().BuildKernspace(verifLogger(), k.objs)
	return err
}

// Tick: every entry of the flow ages by d seconds (the kernel compares bpf_ktime_get_ns() with last_seen_ns)
func c03Age(k *vKern, src, dst netip.AddrPort, l4 uint8, d int) {
	for _, key := range []bpfTuplesKey{bpfTuplesKeyFromAddrPorts(src, dst, l4), bpfTuplesKeyFromAddrPorts(dst, src, l4)} {
		var cs bpfConnState
		if err := k.objs.ConnStateMap.Lookup(&key, &cs); err == nil {
			cs.LastSeenNs -= uint64(d) * 1e9
			_ = k.objs.ConnStateMap.Update(&key, &cs, ebpf.UpdateExist)
		}
		var h bpfRoutingHandoffEntry
		if err := k.objs.RoutingHandoffMap.Lookup(&key, &h); err == nil {
			h.LastSeenNs -= uint64(d) * 1e9
			_ = k.objs.RoutingHandoffMap.Update(&key, &h, ebpf.UpdateExist)
		}
	}
}

func c03RunOne(k *vKern, b *c03Behaviour, idx int, rng *rand.Rand, res *verifutil.Result) {
	v6 := idx%2 == 1
	l4 := uint8(unix.IPPROTO_UDP)
	dport := uint16(4000)
	switch b.L4 {
	case "tcp":
		l4, dport = unix.IPPROTO_TCP, 443
	case "dns":
		dport = 53
	}
	var src, dst netip.AddrPort
	if v6 {
		src = netip.AddrPortFrom(netip.MustParseAddr(fmt.Sprintf("fd00::%x", 0x100+idx%0xe00)), uint16(20000+idx%30000))
		dst = netip.AddrPortFrom(netip.MustParseAddr("2001:db8::53"), dport)
	} else {
		src = netip.AddrPortFrom(netip.AddrFrom4([4]byte{10, 9, byte(idx >> 8), byte(idx)}), uint16(20000+idx%30000))
		dst = netip.AddrPortFrom(netip.MustParseAddr("203.0.113.77"), dport)
	}
	// link type: every other pair of behaviours runs on the L3 programs (devices without a link-layer header). BPF_PROG_TEST_RUN
	// derives skb->protocol from bytes 12-13 of the frame, which for a frame that starts with the IP header lie inside the source
	// address: the L3 flows use addresses that carry the ethertype there (8.0.x.y; xxxx:xxxx:86dd::...), in both directions.
	l3 := (idx/2)%2 == 1
	if l3 {
		if v6 {
			src = netip.AddrPortFrom(netip.MustParseAddr(fmt.Sprintf("fd00:0:86dd::%x", 0x100+idx%0xe00)), src.Port())
			dst = netip.AddrPortFrom(netip.MustParseAddr("2001:db8:86dd::53"), dport)
		} else {
			src = netip.AddrPortFrom(netip.AddrFrom4([4]byte{8, 0, byte(idx >> 8), byte(idx)}), src.Port())
			dst = netip.AddrPortFrom(netip.MustParseAddr("8.0.113.77"), dport)
		}
	}
	wire := func(fr *vFrame) []byte {
		if !l3 {
			return fr.Bytes()
		}
		if fr.PadTo > 0 {
			fr.PadTo += 14
		}
		return fr.Bytes()[14:]
	}
	dscp := uint8([]int{0, 10, 46}[idx%3])
	srcMac := [6]byte{2, 0, 0, 0, 1, byte(idx)}
	k.ForgetFlow(src, dst, l4)
	if err := c03InstallRules(k, dst.Addr(), b.Init); err != nil {
		res.Note("rules: " + err.Error())
		return
	}
	_ = k.SetAllAlive([]uint8{0, 1}, 1) // the reserved groups are reported alive by the control plane (ARRAY slots start at 0)
	alive := map[string]bool{"pa": true, "pb": true}
	setAlive := func() {
		domain := "tcp"
		nt := &dialer.NetworkType{L4Proto: consts.L4ProtoStr_TCP, IpVersion: consts.IpVersionStr_4}
		if l4 == unix.IPPROTO_UDP {
			nt.L4Proto = consts.L4ProtoStr_UDP
			nt.UdpHealthDomain = dialer.UdpHealthDomainData
			domain = "data-udp"
			if b.L4 == "dns" {
				nt.IsDns = true
				nt.UdpHealthDomain = dialer.UdpHealthDomainDns
				domain = "dns-udp"
			}
		}
		if v6 {
			nt.IpVersion = consts.IpVersionStr_6
		}
		_ = domain
		for g, id := range map[string]uint8{"pa": 2, "pb": 3} {
			mine := outboundConnectivityMapKey(id, nt)
			for slot := uint32(0); slot < 6; slot++ {
				key := uint32(id)*6 + slot
				val := uint32(1)
				if key == mine {
					if !alive[g] {
						val = 0
					}
				} else if alive[g] {
					val = 0 // the other protocols / families of the group say the opposite: a wrong slot shows
				}
				_ = k.objs.OutboundConnectivityMap.Update(key, val, ebpf.UpdateAny)
			}
		}
	}
	setAlive()
	fam := map[bool]string{false: "v4", true: "v6"}[v6]
	if l3 {
		fam += " L3 link"
	}
	cfg := fmt.Sprintf("%s %s %s", b.Side, b.L4, fam)
	var trail []string
	trail = append(trail, "rules: "+c03DecText(b.Init))
	fail := func(suffix, format string, a ...any) {
		res.Failf("c03:"+cfg+":"+strings.Join(trail, ";")+suffix, append([]string(nil), trail...), "[%s] %v: %s", cfg, trail, fmt.Sprintf(format, a...))
	}
	pname := [16]byte{'c', 'u', 'r', 'l'}
	for _, ev := range b.Hist {
		switch ev.Ev {
		case "tick":
			trail = append(trail, fmt.Sprintf("+%ds", ev.Obs.Mark))
			c03Age(k, src, dst, l4, ev.Obs.Mark)
		case "janitor":
			// the control plane's conn-state janitor; "lead": the datapath refreshed the flow's entry after the janitor sampled
			// its clock - the janitor sees an entry that is newer than its "now" (reproduced by stamping the entry ahead)
			keys := []bpfTuplesKey{bpfTuplesKeyFromAddrPorts(src, dst, l4), bpfTuplesKeyFromAddrPorts(dst, src, l4)}
			saved := map[int]uint64{}
			if ev.K == "lead" {
				trail = append(trail, "janitor scan racing with a packet of the flow")
				var ts unix.Timespec
				_ = unix.ClockGettime(unix.CLOCK_MONOTONIC, &ts)
				for i, key := range keys {
					var cs bpfConnState
					if err := k.objs.ConnStateMap.Lookup(&key, &cs); err == nil {
						saved[i] = cs.LastSeenNs
						cs.LastSeenNs = uint64(ts.Nano()) + 2e9
						_ = k.objs.ConnStateMap.Update(&key, &cs, ebpf.UpdateExist)
					}
				}
			} else {
				trail = append(trail, "janitor scan")
			}
			core := &controlPlaneCore{}
			core.bpf.Store(k.objs)
			jp := &ControlPlane{log: verifLogger(), core: core, controlPlaneDatapathJanitor: controlPlaneDatapathJanitor{connStateJanitorStop: make(chan struct{})}}
			jp.cleanupConnStateMap(false)
			present := false
			for i, key := range keys {
				var cs bpfConnState
				if err := k.objs.ConnStateMap.Lookup(&key, &cs); err == nil {
					present = true
					if old, ok := saved[i]; ok {
						cs.LastSeenNs = old
						_ = k.objs.ConnStateMap.Update(&key, &cs, ebpf.UpdateExist)
					}
				}
			}
			res.Eval(1)
			if want := ev.Obs.Verdict == "kept"; present != want {
				if want {
					fail("|janitor", "the janitor ended the tracking of a flow that has not been idle for its timeout (120 s, closing TCP 10 s): its later packets no longer follow the first packet's decision")
				} else {
					fail("|janitor", "the janitor kept the entry of a flow that has been idle for longer than its timeout")
				}
				return
			}
		case "rules":
			trail = append(trail, "rules change: "+c03DecText(ev.Obs.Rec))
			if err := c03InstallRules(k, dst.Addr(), ev.Obs.Rec); err != nil {
				res.Note("rules: " + err.Error())
				return
			}
		case "alive":
			alive[ev.K] = ev.Obs.Verdict == "up"
			trail = append(trail, fmt.Sprintf("group %s %s", ev.K, ev.Obs.Verdict))
			setAlive()
		case "rev":
			trail = append(trail, "reverse "+ev.K)
			fr := vFrame{Src: dst, Dst: src, L4: l4, DstMac: srcMac, SrcMac: [6]byte{2, 0, 0, 0, 0, 0xfe}, Payload: []byte("reply123")}
			switch ev.K {
			case "SYN":
				fr.TcpFlags = 0x02
			case "EST":
				fr.TcpFlags = 0x10
			case "FIN":
				fr.TcpFlags = 0x11
			}
			if rng.Intn(2) == 0 {
				fr.PadTo = 140
			}
			revProg := k.objs.TproxyWanIngressL2
			if l3 {
				revProg = k.objs.TproxyWanIngressL3
			}
			run, err := vRunProg(revProg, wire(&fr), 0)
			if err != nil {
				res.Note("wan ingress run: " + err.Error())
				return
			}
			res.Eval(1)
			if run.Ret != vTcPipe {
				fail("|rev", "the WAN-ingress hook returned %d for a reverse-direction packet (expected to let it continue)", run.Ret)
				return
			}
		case "pkt":
			fr := vFrame{Src: src, Dst: dst, L4: l4, Dscp: dscp, SrcMac: srcMac, DstMac: [6]byte{2, 0, 0, 0, 0, 0xfe}, Payload: []byte("payload!")}
			switch ev.K {
			case "SYN":
				fr.TcpFlags = 0x02
			case "EST":
				fr.TcpFlags = 0x10
			case "FIN":
				fr.TcpFlags = 0x11
			}
			path := "short frame (byte-load parser)"
			if rng.Intn(2) == 0 {
				fr.PadTo = 128 + rng.Intn(200)
				path = "long frame (direct packet access)"
			}
			if v6 && rng.Intn(3) == 0 {
				fr.ExtHdrs = []byte{0}
				path += " + hop-by-hop header"
			}
			trail = append(trail, fmt.Sprintf("%s by %s [%s]", ev.K, ev.P, path))
			prog := k.objs.TproxyLanIngressL2
			if l3 {
				prog = k.objs.TproxyLanIngressL3
			}
			mark := uint32(0)
			var window []uint64
			if b.Side == "wan" {
				prog = k.objs.TproxyWanEgressL2
				if l3 {
					prog = k.objs.TproxyWanEgressL3
				}
				var err error
				switch ev.P {
				case "user":
					window, err = k.ArmProcess(c03UserPid, pname)
				case "daepid":
					window, err = k.ArmProcess(c03DaePid, [16]byte{'d', 'a', 'e'})
				case "daemark":
					mark = 0x100
				}
				if err != nil {
					res.Note("ArmProcess: " + err.Error())
					return
				}
			}
			sentBytes := wire(&fr)
			run, err := vRunProg(prog, sentBytes, mark)
			if err != nil {
				res.Note("prog run: " + err.Error())
				return
			}
			procKnown := false
			if window != nil {
				procKnown = k.DisarmProcess(window)
				// (established TCP packets are decided from the flow's state: the kernel does not look at the socket)
				if !procKnown && ev.P == "daepid" && (ev.K == "SYN" || ev.K == "DGRAM") {
					res.Count("c03_cookie_window_missed", 1)
					return // the kernel could not see the process: no verdict for this behaviour
				}
			}
			res.Eval(1)
			want := map[string]uint32{"OK": vTcOk, "SHOT": vTcShot, "REDIRECT": vTcRedirect}[ev.Obs.Verdict]
			got := map[uint32]string{vTcOk: "pass", vTcShot: "drop", vTcRedirect: "redirect to dae", vTcPipe: "pipe"}[run.Ret]
			if run.Ret != want {
				why := "rules now: " + c03DecText(ev.Rules)
				if ev.Tracked {
					why = "the flow is tracked: it follows the decision of its first packet (" + why + ")"
				}
				fail("", "verdict %s, expected %s; %s; groups alive %v", got, map[string]string{"OK": "pass", "SHOT": "drop", "REDIRECT": "redirect to dae"}[ev.Obs.Verdict], why, alive)
				return
			}
			// the frame itself: passed traffic is let through unmodified; a redirected frame is the original behind the link-layer header
			// dae0 expects (L2: destination MAC rewritten; L3: a header put in front), nothing else changed
			if run.Ret == vTcOk && ev.Obs.Verdict == "OK" {
				res.Eval(1)
				if l3 {
					res.Count("c03_l3_passes", 1)
				}
				if !bytes.Equal(run.Data, sentBytes) {
					fail("|modified", "the frame was passed on but not unmodified: %d bytes in, %d bytes out, first difference at byte %d", len(sentBytes), len(run.Data), c03FirstDiff(run.Data, sentBytes))
					return
				}
			}
			if run.Ret == vTcRedirect && ev.Obs.Verdict == "REDIRECT" {
				res.Eval(1)
				got, in := run.Data, sentBytes
				if l3 {
					res.Count("c03_l3_redirects", 1)
					if len(got) != len(in)+14 {
						fail("|modified", "redirected L3 frame: %d bytes in, %d bytes out, expected a 14-byte link-layer header in front", len(in), len(got))
						return
					}
					wantType := uint16(0x0800)
					if v6 {
						wantType = 0x86dd
					}
					if binary.BigEndian.Uint16(got[12:14]) != wantType {
						fail("|modified", "redirected L3 frame carries ethertype %#x in the header put in front, the packet is %s", binary.BigEndian.Uint16(got[12:14]), fam)
						return
					}
					got = got[14:]
				} else if len(got) >= 6 && len(in) >= 6 {
					got, in = got[6:], in[6:]
				}
				if !bytes.Equal(got, in) {
					fail("|modified", "the frame redirected to dae differs from what was sent beyond the link-layer header (first difference at byte %d)", c03FirstDiff(got, in))
					return
				}
			}
			if ev.Obs.Verdict == "OK" && b.Side == "lan" && int(run.Mark) != ev.Obs.Mark {
				fail("|mark", "forwarded direct traffic leaves with mark %#x, the rule says %#x", run.Mark, ev.Obs.Mark)
				return
			}
			if ev.Obs.Verdict == "REDIRECT" {
				res.Eval(1)
				if run.Cb[0] != 0x8000000 {
					fail("|cb", "redirected frame carries cb[0]=%#x, expected the tproxy mark", run.Cb[0])
					return
				}
				rr, err := k.core.RetrieveRoutingResult(src, dst, l4)
				if err != nil {
					fail("|record", "the frame was redirected to dae but the control plane finds no routing record for the flow: %v", err)
					return
				}
				wantOut := c03Ids[ev.Obs.Rec.Out]
				if rr.Outbound != wantOut || int(rr.Mark) != ev.Obs.Rec.Mark || (rr.Must != 0) != ev.Obs.Rec.Must {
					fail("|record", "the control plane recovers (outbound %d, mark %#x, must %d); the kernel's decision was (%s=%d, mark %#x, must %v)", rr.Outbound, rr.Mark, rr.Must, ev.Obs.Rec.Out, wantOut, ev.Obs.Rec.Mark, ev.Obs.Rec.Must)
					return
				}
				wantMac := srcMac
				if l3 {
					wantMac = [6]byte{} // no link-layer header: no source MAC
				}
				if rr.Dscp != dscp || (rr.Mac != wantMac) {
					fail("|meta", "the record carries dscp %d mac %v, the flow has dscp %d mac %v", rr.Dscp, rr.Mac, dscp, wantMac)
					return
				}
				if b.Side == "wan" && ev.P == "user" && procKnown && !ev.Tracked {
					if rr.Pid != c03UserPid || rr.Pname != pname {
						fail("|proc", "the record carries process %q pid %d, the packet was sent by %q pid %d", string(rr.Pname[:]), rr.Pid, string(pname[:]), c03UserPid)
						return
					}
				}
			}
		}
	}
	res.Count("c03_"+b.Side+"_"+b.L4, 1)
}

func TestVerifC03(t *testing.T) {
	bs, err := verifutil.ReadLines[c03Behaviour]("VERIF_IN")
	if err != nil {
		t.Fatal(err)
	}
	res := verifutil.NewResult()
	defer func() {
		if err := res.Write(); err != nil {
			t.Fatal(err)
		}
	}()
	k, err := vNewKern(func(spec *ebpf.CollectionSpec) error {
		return spec.Variables["PARAM"].Set(struct {
			tproxyPort           uint32
			controlPlanePid      uint32
			dae0Ifindex          uint32
			daeNetnsId           uint32
			dae0peerMac          [6]byte
			paddingAfterMac      [2]uint8
			useRedirectPeer      uint8
			hasBpfGetCurrentTask uint8
			padding2             uint16
			daeSocketMark        uint32
		}{controlPlanePid: c03DaePid, dae0Ifindex: 1, dae0peerMac: [6]byte{2, 0, 0, 0, 0, 9}})
	})
	if err != nil {
		if verifBpfRequired() {
			t.Fatalf("kernel datapath unavailable: %v", err)
		}
		t.Skip(err)
	}
	defer k.Close()
	rng := rand.New(rand.NewSource(verifutil.Seed()))
	for bi := range bs {
		res.Case()
		if bi < 2 {
			res.Sample(bs[bi].Hist)
		}
		c03RunOne(k, &bs[bi], bi, rng, res)
	}
}
