// Shared by the C07 harnesses (component/dns and control): the data emitted by spec/DnsRoute.tla, its rendering as
// configuration text and as DNS messages.
package verifutil

import (
	"encoding/json"
	"fmt"
	"math/rand"
	"net"
	"net/netip"
	"regexp"
	"strings"

	dnsmessage "github.com/miekg/dns"
)

// vectors emitted by spec/DnsRoute.tla (EmitVector)
type C07Addr struct {
	Fam int   `json:"fam"`
	B   []int `json:"b"`
}
type C07Group struct {
	Key  string            `json:"key"`
	Vals []json.RawMessage `json:"vals"`
}
type C07Cond struct {
	Fn     string     `json:"fn"`
	Not    bool       `json:"not"`
	Groups []C07Group `json:"groups"`
}
type C07Rule struct {
	Conds []C07Cond `json:"conds"`
	Out   string    `json:"out"`
}
type C07Cfg struct {
	Req     []C07Rule `json:"req"`
	Resp    []C07Rule `json:"resp"`
	ReqFb   string    `json:"reqFb"`
	RespFb  string    `json:"respFb"`
	Profile int       `json:"profile"`
}
type C07Rec struct {
	T  string  `json:"t"`
	Ip C07Addr `json:"ip"`
}
type C07Ctx struct {
	Name  []string `json:"name"`
	Qtype string   `json:"qtype"`
	Ans   []C07Rec `json:"ans"`
	From  string   `json:"from"`
}
type C07Case struct {
	Ctx C07Ctx `json:"ctx"`
	Exp string `json:"exp"`
}
type C07Vector struct {
	Cfg       C07Cfg    `json:"cfg"`
	ReqCases  []C07Case `json:"reqCases"`
	RespCases []C07Case `json:"respCases"`
}

var C07Ups = []string{"u1", "u2", "u3"}
var C07Urls = map[string]string{"u1": "udp://192.0.2.1:53", "u2": "udp://192.0.2.2:53", "u3": "udp://192.0.2.1:53"}
var C07Qtypes = map[string]uint16{"A": dnsmessage.TypeA, "AAAA": dnsmessage.TypeAAAA, "TXT": dnsmessage.TypeTXT}

func C07AddrOf(a C07Addr) netip.Addr {
	if a.Fam == 4 {
		return netip.AddrFrom4([4]byte{byte(a.B[0]), byte(a.B[1]), byte(a.B[2]), byte(a.B[3])})
	}
	var x [16]byte
	for i := range x {
		x[i] = byte(a.B[i])
	}
	return netip.AddrFrom16(x)
}

func C07Quote(s string) string {
	if strings.ContainsAny(s, ":^$\\|.*()[] ") || s == "" || (s[0] >= '0' && s[0] <= '9') {
		return "'" + s + "'"
	}
	return s
}

func C07Value(fn, key string, raw json.RawMessage) string {
	switch fn {
	case "ip":
		var p struct {
			Fam int   `json:"fam"`
			B   []int `json:"b"`
			Len int   `json:"len"`
		}
		_ = json.Unmarshal(raw, &p)
		return fmt.Sprintf("'%s/%d'", C07AddrOf(C07Addr{p.Fam, p.B}), p.Len)
	case "qname":
		if key == "regex" {
			var r struct {
				Pre  bool       `json:"pre"`
				Post bool       `json:"post"`
				Alts [][]string `json:"alts"`
			}
			_ = json.Unmarshal(raw, &r)
			var alts []string
			for _, a := range r.Alts {
				alts = append(alts, regexp.QuoteMeta(strings.Join(a, "")))
			}
			s := "(?:" + strings.Join(alts, "|") + ")"
			if r.Pre {
				s = "^" + s
			}
			if r.Post {
				s += "$"
			}
			return "'" + s + "'"
		}
		var cs []string
		_ = json.Unmarshal(raw, &cs)
		return C07Quote(strings.Join(cs, ""))
	default: // qtype, upstream
		var s string
		_ = json.Unmarshal(raw, &s)
		return C07Quote(s)
	}
}

func C07Rules(rules []C07Rule, fb string) string {
	var sb strings.Builder
	for _, r := range rules {
		var conds []string
		for _, c := range r.Conds {
			var params []string
			for _, g := range c.Groups {
				for _, raw := range g.Vals {
					val := C07Value(c.Fn, g.Key, raw)
					if g.Key != "" {
						params = append(params, g.Key+": "+val)
					} else {
						params = append(params, val)
					}
				}
			}
			s := c.Fn + "(" + strings.Join(params, ", ") + ")"
			if c.Not {
				s = "!" + s
			}
			conds = append(conds, s)
		}
		sb.WriteString("      " + strings.Join(conds, " && ") + " -> " + r.Out + "\n")
	}
	sb.WriteString("      fallback: " + fb + "\n")
	return sb.String()
}

// C07Render writes the dns section the way a user would.
func C07Render(c *C07Cfg) string { return C07RenderUrls(c, C07Urls) }

// C07SwappedUrls: the declarations keep their names and order, the resolvers behind u1/u3 and u2 are exchanged.
var C07SwappedUrls = map[string]string{"u1": "udp://192.0.2.2:53", "u2": "udp://192.0.2.1:53", "u3": "udp://192.0.2.2:53"}

func C07RenderUrls(c *C07Cfg, urls map[string]string) string {
	var sb strings.Builder
	sb.WriteString("global{}\nrouting{ fallback: direct }\ndns {\n  upstream {\n")
	for _, u := range C07Ups {
		sb.WriteString("    " + u + ": '" + urls[u] + "'\n")
	}
	sb.WriteString("  }\n  routing {\n    request {\n" + C07Rules(c.Req, c.ReqFb) + "    }\n    response {\n" + C07Rules(c.Resp, c.RespFb) + "    }\n  }\n}\n")
	return sb.String()
}

// spelling of a question name: the model's characters, letter case flipped at random
func C07Spell(cs []string, rng *rand.Rand) string {
	s := strings.Join(cs, "")
	b := []byte(s)
	for i := range b {
		if rng.Intn(3) == 0 {
			if b[i] >= 'a' && b[i] <= 'z' {
				b[i] -= 32
			} else if b[i] >= 'A' && b[i] <= 'Z' {
				b[i] += 32
			}
		}
	}
	return string(b)
}

func C07ReqName(idx uint8) string {
	switch idx {
	case 0xFD:
		return "asis"
	case 0xFC:
		return "reject"
	}
	if int(idx) < len(C07Ups) {
		return C07Ups[idx]
	}
	return fmt.Sprintf("index-%d", idx)
}

func C07RespName(idx uint8) string {
	switch idx {
	case 0xFC:
		return "accept"
	case 0xFD:
		return "reject"
	}
	if int(idx) < len(C07Ups) {
		return C07Ups[idx]
	}
	return fmt.Sprintf("index-%d", idx)
}

func C07Answer(name string, recs []C07Rec) []dnsmessage.RR {
	var out []dnsmessage.RR
	for _, r := range recs {
		switch r.T {
		case "A":
			out = append(out, &dnsmessage.A{Hdr: dnsmessage.RR_Header{Name: name, Rrtype: dnsmessage.TypeA, Class: dnsmessage.ClassINET, Ttl: 60}, A: net.IP(C07AddrOf(r.Ip).AsSlice())})
		case "AAAA":
			out = append(out, &dnsmessage.AAAA{Hdr: dnsmessage.RR_Header{Name: name, Rrtype: dnsmessage.TypeAAAA, Class: dnsmessage.ClassINET, Ttl: 60}, AAAA: net.IP(C07AddrOf(r.Ip).AsSlice())})
		case "CNAME":
			out = append(out, &dnsmessage.CNAME{Hdr: dnsmessage.RR_Header{Name: name, Rrtype: dnsmessage.TypeCNAME, Class: dnsmessage.ClassINET, Ttl: 60}, Target: "alias.test."})
		default:
			out = append(out, &dnsmessage.TXT{Hdr: dnsmessage.RR_Header{Name: name, Rrtype: dnsmessage.TypeTXT, Class: dnsmessage.ClassINET, Ttl: 60}, Txt: []string{"v=1"}})
		}
	}
	return out
}

func C07AnsText(recs []C07Rec) string {
	var s []string
	for _, r := range recs {
		if r.T == "A" || r.T == "AAAA" {
			s = append(s, r.T+" "+C07AddrOf(r.Ip).String())
		} else {
			s = append(s, r.T)
		}
	}
	return "[" + strings.Join(s, ", ") + "]"
}

