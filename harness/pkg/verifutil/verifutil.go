// Package verifutil is copied into a scratch copy of the repository by /verif/tools/scratch.sh.
// It carries the small amount of glue shared by the conformance harnesses: reading vectors /
// behaviours emitted by TLC (one JSON document per line) and writing the result file that
// /verif/tools/check.py turns into a verdict.
package verifutil

import (
	"bufio"
	"encoding/json"
	"fmt"
	"os"
	"strconv"
	"sync"
)

// Failure is one observed deviation of the real code from the specification's property layer.
type Failure struct {
	Key  string `json:"key"`  // canonical identification of the failing input / schedule
	What string `json:"what"` // human readable: got vs want
	Case any    `json:"case"` // replayable input
}

type Result struct {
	mu        sync.Mutex
	Evaluated int            `json:"evaluated"` // individual comparisons against the spec oracle
	Cases     int            `json:"cases"`     // vectors / behaviours executed
	Failures  []Failure      `json:"failures"`
	Drift     []string       `json:"drift"` // disagreement with the implementation layer only
	Samples   []any          `json:"samples"`
	Counters  map[string]int `json:"counters"`
	Notes     []string       `json:"notes"`
}

func NewResult() *Result { return &Result{Counters: map[string]int{}} }

func (r *Result) Fail(key, what string, c any) {
	r.mu.Lock()
	defer r.mu.Unlock()
	if len(r.Failures) < 200 {
		r.Failures = append(r.Failures, Failure{Key: key, What: what, Case: c})
	}
}
func (r *Result) Failf(key string, c any, format string, a ...any) {
	r.Fail(key, fmt.Sprintf(format, a...), c)
}
func (r *Result) AddDrift(s string) {
	r.mu.Lock()
	defer r.mu.Unlock()
	if len(r.Drift) < 50 {
		r.Drift = append(r.Drift, s)
	}
}
func (r *Result) Count(name string, n int) {
	r.mu.Lock()
	r.Counters[name] += n
	r.mu.Unlock()
}
func (r *Result) Eval(n int) {
	r.mu.Lock()
	r.Evaluated += n
	r.mu.Unlock()
}
func (r *Result) Case() {
	r.mu.Lock()
	r.Cases++
	r.mu.Unlock()
}
func (r *Result) Sample(s any) {
	r.mu.Lock()
	if len(r.Samples) < 3 {
		r.Samples = append(r.Samples, s)
	}
	r.mu.Unlock()
}
func (r *Result) Note(s string) {
	r.mu.Lock()
	r.Notes = append(r.Notes, s)
	r.mu.Unlock()
}

// Write stores the result at $VERIF_OUT.
func (r *Result) Write() error {
	p := os.Getenv("VERIF_OUT")
	if p == "" {
		return fmt.Errorf("VERIF_OUT not set")
	}
	b, err := json.MarshalIndent(r, "", " ")
	if err != nil {
		return err
	}
	return os.WriteFile(p, b, 0o644)
}

// ReadLines decodes every line of the file named by env into a T.
func ReadLines[T any](env string) ([]T, error) {
	p := os.Getenv(env)
	if p == "" {
		return nil, fmt.Errorf("%s not set", env)
	}
	f, err := os.Open(p)
	if err != nil {
		return nil, err
	}
	defer f.Close()
	sc := bufio.NewScanner(f)
	sc.Buffer(make([]byte, 1<<20), 1<<28)
	var out []T
	for sc.Scan() {
		if len(sc.Bytes()) == 0 {
			continue
		}
		var v T
		if err := json.Unmarshal(sc.Bytes(), &v); err != nil {
			return nil, fmt.Errorf("line %d: %w", len(out)+1, err)
		}
		out = append(out, v)
	}
	return out, sc.Err()
}

func Seed() int64 {
	n, err := strconv.ParseInt(os.Getenv("VERIF_SEED"), 10, 64)
	if err != nil {
		return 1
	}
	return n
}

func EnvInt(name string, def int) int {
	n, err := strconv.Atoi(os.Getenv(name))
	if err != nil {
		return def
	}
	return n
}

// Recode converts a decoded JSON value into a typed one.
func Recode(from any, to any) {
	b, err := json.Marshal(from)
	if err != nil {
		panic(err)
	}
	if err := json.Unmarshal(b, to); err != nil {
		panic(err)
	}
}
