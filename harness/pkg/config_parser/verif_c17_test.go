//go:build verif

package config_parser

import (
	"fmt"
	"math/rand"
	"strings"
	"testing"
	"time"

	"github.com/daeuniverse/dae/pkg/verifutil"
)

// vectors emitted by spec/ConfGrammar.tla
type cgLit struct {
	Q string `json:"q"`
	S string `json:"s"`
}
type cgParam struct {
	Key string `json:"key"`
	Lit cgLit  `json:"lit"`
}
type cgFunc struct {
	Name   string    `json:"name"`
	Not    bool      `json:"not"`
	Params []cgParam `json:"params"`
}
type cgItem struct {
	Kind  string    `json:"kind"`
	Key   string    `json:"key"`
	Lits  []cgLit   `json:"lits"`
	Funcs []cgFunc  `json:"funcs"`
	Annos []cgParam `json:"annos"`
	Out   cgFunc    `json:"out"`
	Items []cgItem  `json:"items"`
}
type cgSection struct {
	Name  string   `json:"name"`
	Items []cgItem `json:"items"`
}
type cgVector struct {
	Sections []cgSection `json:"sections"`
	Mut      struct {
		Kind string `json:"kind"`
		Pos  int    `json:"pos"`
	} `json:"mut"`
	Expect string `json:"expect"`
}

// ---- rendering: AST -> token list -> text -----------------------------------------------------------------------

func cgLitTok(l cgLit) string {
	switch l.Q {
	case "single":
		return "'" + l.S + "'"
	case "double":
		return "\"" + l.S + "\""
	}
	return l.S
}

func cgParamToks(ps []cgParam) []string {
	var t []string
	for i, p := range ps {
		if i > 0 {
			t = append(t, ",")
		}
		if p.Key != "" {
			t = append(t, p.Key, ":")
		}
		t = append(t, cgLitTok(p.Lit))
	}
	return t
}

func cgFuncToks(f cgFunc) []string {
	var t []string
	if f.Not {
		t = append(t, "!")
	}
	t = append(t, f.Name, "(")
	t = append(t, cgParamToks(f.Params)...)
	return append(t, ")")
}

func cgFuncExprToks(fs []cgFunc) []string {
	var t []string
	for i, f := range fs {
		if i > 0 {
			t = append(t, "&&")
		}
		t = append(t, cgFuncToks(f)...)
	}
	return t
}

func cgItemToks(it cgItem) []string {
	var t []string
	switch it.Kind {
	case "param":
		t = append(t, it.Key, ":")
		for i, l := range it.Lits {
			if i > 0 {
				t = append(t, ",")
			}
			t = append(t, cgLitTok(l))
		}
	case "fparam":
		t = append(t, it.Key, ":")
		t = append(t, cgFuncExprToks(it.Funcs)...)
		if len(it.Annos) > 0 {
			t = append(t, "[")
			t = append(t, cgParamToks(it.Annos)...)
			t = append(t, "]")
		}
	case "rule":
		t = append(t, cgFuncExprToks(it.Funcs)...)
		t = append(t, "->")
		if len(it.Out.Params) == 0 {
			t = append(t, it.Out.Name)
		} else {
			t = append(t, cgFuncToks(it.Out)...)
		}
	case "literal":
		t = append(t, cgLitTok(it.Lits[0]))
	case "section":
		t = append(t, it.Key, "{")
		for _, sub := range it.Items {
			t = append(t, cgItemToks(sub)...)
			t = append(t, "\n")
		}
		t = append(t, "}")
	}
	return t
}

func cgToks(secs []cgSection) []string {
	var t []string
	for _, s := range secs {
		t = append(t, s.Name, "{")
		for _, it := range s.Items {
			t = append(t, cgItemToks(it)...)
			t = append(t, "\n")
		}
		t = append(t, "}")
	}
	return t
}

var cgTrivia = []string{" ", " ", "\n", "  \t", " # a comment { } -> ' \n", "\n\n", " /* block } comment */ ", ""}

func cgText(toks []string, rng *rand.Rand) string {
	var sb strings.Builder
	for i, tk := range toks {
		if tk == "\n" {
			sb.WriteString("\n")
			continue
		}
		sb.WriteString(tk)
		if i+1 < len(toks) {
			tr := cgTrivia[rng.Intn(len(cgTrivia))]
			// two adjacent word-like tokens need at least one separator
			if tr == "" {
				tr = " "
			}
			sb.WriteString(tr)
		}
	}
	return sb.String()
}

// ---- comparison: parsed sections vs expected AST ---------------------------------------------------------------

func cgCmpFunc(path string, got *Function, want cgFunc) string {
	if got == nil {
		return path + ": function missing"
	}
	if got.Name != want.Name || got.Not != want.Not {
		return fmt.Sprintf("%s: function %q not=%v, written %q not=%v", path, got.Name, got.Not, want.Name, want.Not)
	}
	if len(got.Params) != len(want.Params) {
		return fmt.Sprintf("%s: %d parameters, written %d", path, len(got.Params), len(want.Params))
	}
	for i, p := range want.Params {
		if got.Params[i].Key != p.Key || got.Params[i].Val != p.Lit.S {
			return fmt.Sprintf("%s: parameter %d is %q:%q, written %q:%q", path, i, got.Params[i].Key, got.Params[i].Val, p.Key, p.Lit.S)
		}
	}
	return ""
}

func cgCmpItems(path string, got []*Item, want []cgItem) string {
	if len(got) != len(want) {
		return fmt.Sprintf("%s: %d items, written %d", path, len(got), len(want))
	}
	for i, w := range want {
		p := fmt.Sprintf("%s[%d:%s]", path, i, w.Kind)
		g := got[i]
		switch w.Kind {
		case "param", "literal":
			pp, ok := g.Value.(*Param)
			if !ok {
				return p + ": not a parameter"
			}
			var vals []string
			for _, l := range w.Lits {
				vals = append(vals, l.S)
			}
			if pp.Key != w.Key || pp.Val != strings.Join(vals, ",") || len(pp.AndFunctions) != 0 {
				return fmt.Sprintf("%s: key %q value %q, written key %q value %q", p, pp.Key, pp.Val, w.Key, strings.Join(vals, ","))
			}
		case "fparam":
			pp, ok := g.Value.(*Param)
			if !ok {
				return p + ": not a parameter"
			}
			if pp.Key != w.Key || len(pp.AndFunctions) != len(w.Funcs) {
				return fmt.Sprintf("%s: key %q with %d functions, written key %q with %d", p, pp.Key, len(pp.AndFunctions), w.Key, len(w.Funcs))
			}
			for j := range w.Funcs {
				if d := cgCmpFunc(fmt.Sprintf("%s.f%d", p, j), pp.AndFunctions[j], w.Funcs[j]); d != "" {
					return d
				}
			}
			if len(pp.Annotation) != len(w.Annos) {
				return fmt.Sprintf("%s: %d annotation entries, written %d", p, len(pp.Annotation), len(w.Annos))
			}
			for j, a := range w.Annos {
				if pp.Annotation[j].Key != a.Key || pp.Annotation[j].Val != a.Lit.S {
					return fmt.Sprintf("%s: annotation %d is %q:%q, written %q:%q", p, j, pp.Annotation[j].Key, pp.Annotation[j].Val, a.Key, a.Lit.S)
				}
			}
		case "rule":
			r, ok := g.Value.(*RoutingRule)
			if !ok {
				return p + ": not a routing rule"
			}
			if len(r.AndFunctions) != len(w.Funcs) {
				return fmt.Sprintf("%s: %d conditions, written %d", p, len(r.AndFunctions), len(w.Funcs))
			}
			for j := range w.Funcs {
				if d := cgCmpFunc(fmt.Sprintf("%s.f%d", p, j), r.AndFunctions[j], w.Funcs[j]); d != "" {
					return d
				}
			}
			if d := cgCmpFunc(p+".out", &r.Outbound, w.Out); d != "" {
				return d
			}
		case "section":
			s, ok := g.Value.(*Section)
			if !ok {
				return p + ": not a section"
			}
			if s.Name != w.Key {
				return fmt.Sprintf("%s: nested section %q, written %q", p, s.Name, w.Key)
			}
			if d := cgCmpItems(p, s.Items, w.Items); d != "" {
				return d
			}
		}
	}
	return ""
}

type cgOutcome struct {
	secs   []*Section
	err    error
	panicV any
	hung   bool
}

func cgParse(text string) cgOutcome {
	ch := make(chan cgOutcome, 1)
	go func() {
		var o cgOutcome
		defer func() {
			if r := recover(); r != nil {
				o.panicV = r
			}
			ch <- o
		}()
		o.secs, o.err = Parse(text)
	}()
	select {
	case o := <-ch:
		return o
	case <-time.After(20 * time.Second):
		return cgOutcome{hung: true}
	}
}

var cgBytes = []string{"\x00", "\xff\xfe", "'", "\"", "{", "}", "}}", "->", "&&", "!", "(", ")", "[", "]", ":", ",", "/*", "*/", "#", "\\", "\r", "()", "a(", "-> x()", ": :"}

func TestVerifC17Grammar(t *testing.T) {
	vecs, err := verifutil.ReadLines[cgVector]("VERIF_IN")
	if err != nil {
		t.Fatal(err)
	}
	res := verifutil.NewResult()
	defer func() {
		if err := res.Write(); err != nil {
			t.Fatal(err)
		}
	}()
	rng := rand.New(rand.NewSource(verifutil.Seed()))
	for vi, v := range vecs {
		res.Case()
		toks := cgToks(v.Sections)
		mutDesc := ""
		if v.Mut.Kind != "none" {
			// positions index real tokens only
			var idx []int
			for i, tk := range toks {
				if tk != "\n" {
					idx = append(idx, i)
				}
			}
			p := idx[v.Mut.Pos%len(idx)]
			switch v.Mut.Kind {
			case "delete":
				toks = append(append([]string{}, toks[:p]...), toks[p+1:]...)
			case "duplicate":
				toks = append(append(append([]string{}, toks[:p+1]...), toks[p]), toks[p+1:]...)
			case "swap":
				q := idx[(v.Mut.Pos+1)%len(idx)]
				toks = append([]string{}, toks...)
				toks[p], toks[q] = toks[q], toks[p]
			case "bytes":
				toks = append(append(append([]string{}, toks[:p]...), cgBytes[rng.Intn(len(cgBytes))]), toks[p:]...)
			}
			mutDesc = fmt.Sprintf(" (near-miss: %s token %d)", v.Mut.Kind, v.Mut.Pos)
		}
		text := cgText(toks, rng)
		if vi < 2 {
			res.Sample(text)
		}
		o := cgParse(text)
		res.Eval(1)
		key := "c17-parse:" + strings.Join(strings.Fields(text), " ")
		switch {
		case o.hung:
			res.Failf(key+"|hang", text, "Parse did not return within 20s on%s:\n%s", mutDesc, text)
		case o.panicV != nil:
			res.Failf(key+"|panic", text, "Parse crashed (%v) on%s:\n%s", o.panicV, mutDesc, text)
		case v.Expect == "tree":
			if o.err != nil {
				res.Failf(key, text, "text generated from the grammar was rejected: %v\n%s", o.err, text)
				break
			}
			if len(o.secs) != len(v.Sections) {
				res.Failf(key, text, "%d sections parsed, %d written:\n%s", len(o.secs), len(v.Sections), text)
				break
			}
			for i, s := range v.Sections {
				if o.secs[i].Name != s.Name {
					res.Failf(key, text, "section %d is %q, written %q:\n%s", i, o.secs[i].Name, s.Name, text)
					break
				}
				if d := cgCmpItems(s.Name, o.secs[i].Items, s.Items); d != "" {
					res.Failf(key, text, "parsed configuration differs from what is written: %s\n%s", d, text)
					break
				}
			}
		}
	}
	// arbitrary bytes
	alphabet := []string{"a", "b", "1", " ", "\n", "{", "}", "(", ")", "[", "]", ":", ",", "!", "->", "&&", "'", "\"", "#", "/*", "*/", "\x00", "\xff", "\\", "\t", "-", ">", "&", "é", "routing", "global", "fallback"}
	nBytes := verifutil.EnvInt("VERIF_C17_BYTES", 3000)
	for i := 0; i < nBytes; i++ {
		var sb strings.Builder
		n := 1 + rng.Intn(14)
		for j := 0; j < n; j++ {
			sb.WriteString(alphabet[rng.Intn(len(alphabet))])
		}
		text := sb.String()
		o := cgParse(text)
		res.Eval(1)
		res.Count("arbitrary_texts", 1)
		if o.hung {
			res.Failf("c17-bytes|hang:"+fmt.Sprintf("%q", text), text, "Parse did not return on %q", text)
		} else if o.panicV != nil {
			res.Failf("c17-bytes|panic:"+fmt.Sprintf("%q", text), text, "Parse crashed (%v) on %q", o.panicV, text)
		}
	}
}
