//go:build verif

package sniffing

import (
	"bytes"
	"crypto/aes"
	"crypto/cipher"
	"crypto/hkdf"
	"crypto/sha256"
	"errors"
	"fmt"
	"io"
	"math/rand"
	"net"
	"os"
	"strings"
	"sync"
	"testing"
	"testing/synctest"
	"time"

	"github.com/daeuniverse/dae/pkg/verifutil"
)

// ---- vectors emitted by spec/Sniff.tla -------------------------------------------------------------
type c06Entry struct {
	Typ  int    `json:"typ"`
	Name string `json:"name"`
}
type c06Ext struct {
	Kind    string     `json:"kind"`
	Entries []c06Entry `json:"entries"`
}
type c06Hello struct {
	RecMinor int      `json:"recMinor"`
	HsType   int      `json:"hsType"`
	VMinor   int      `json:"vMinor"`
	Sid      int      `json:"sid"`
	Exts     []c06Ext `json:"exts"`
}
type c06Hdr struct {
	Name  string `json:"name"`
	Value string `json:"value"`
}
type c06Cut struct {
	At  string `json:"at"`
	Gap string `json:"gap"`
}
type c06Frame struct {
	Piece int `json:"piece"`
}
type c06Packet struct {
	Frames []c06Frame `json:"frames"`
	Pad    string     `json:"pad"`
	PnLen  int        `json:"pnLen"`
	Other  bool       `json:"other"`
	Bad    bool       `json:"bad"` // corrupted on the way: well-formed, but it does not authenticate
}
type c06Res struct {
	R    string `json:"r"`
	Name string `json:"name"`
}
type c06Vector struct {
	Kind  string   `json:"kind"`
	Hello c06Hello `json:"hello"`
	Http  struct {
		Method string   `json:"method"`
		Hdrs   []c06Hdr `json:"hdrs"`
	} `json:"http"`
	Cuts  []c06Cut `json:"cuts"`
	Drain string   `json:"drain"`
	Quic  struct {
		Version int           `json:"version"`
		Npieces int           `json:"npieces"`
		Dgs     [][]c06Packet `json:"dgs"`
		Dcid    int           `json:"dcid"`
	} `json:"quic"`
	Expect any `json:"expect"`
}

var c06Names = map[string]string{
	"plain": "example.com", "mixed": "ExAmple.COM", "dot": "example.com.", "idn": "xn--bcher-kva.example",
	"long": strings.Repeat("a", 60) + "." + strings.Repeat("b", 60) + "." + strings.Repeat("c", 60) + ".example.com",
	"port": "example.com:8080", "spaces": "  example.com ", "any": "*/*",
}

func c06Expected(id string) string { return strings.ToLower(strings.TrimSuffix(c06Names[id], ".")) }

// ---- rendering: TLS ClientHello (RFC 8446 s4.1.2, RFC 6066 s3) --------------------------------------
func c06U16(n int) []byte { return []byte{byte(n >> 8), byte(n)} }

func c06ExtBytes(e c06Ext, rng *rand.Rand) []byte {
	var body []byte
	typ := 0
	switch e.Kind {
	case "sni":
		var list []byte
		for _, en := range e.Entries {
			name := []byte(c06Names[en.Name])
			list = append(list, byte(en.Typ))
			list = append(list, c06U16(len(name))...)
			list = append(list, name...)
		}
		body = append(c06U16(len(list)), list...)
		typ = 0
	case "grease":
		typ = 0x0a0a + 0x1010*rng.Intn(15)
		if rng.Intn(2) == 0 {
			body = []byte{0}
		}
	case "pad":
		typ = 21
		body = make([]byte, rng.Intn(64))
	case "alpn":
		typ = 16
		body = []byte{0, 12, 2, 'h', '2', 8, 'h', 't', 't', 'p', '/', '1', '.', '1'}
	case "versions":
		typ = 43
		body = []byte{4, 3, 4, 3, 3}
	case "keyshare":
		typ = 51
		k := make([]byte, 32)
		rng.Read(k)
		body = append([]byte{0, 36, 0, 29, 0, 32}, k...)
	}
	out := append(c06U16(typ), c06U16(len(body))...)
	return append(out, body...)
}

// the handshake message (without record layer)
func c06Handshake(h *c06Hello, rng *rand.Rand) []byte {
	var b []byte
	b = append(b, 3, byte(h.VMinor))
	random := make([]byte, 32)
	rng.Read(random)
	b = append(b, random...)
	sid := make([]byte, h.Sid)
	rng.Read(sid)
	b = append(b, byte(len(sid)))
	b = append(b, sid...)
	suites := []byte{0x0a, 0x0a, 0x13, 0x01, 0x13, 0x02, 0xc0, 0x2f}[:2+2*rng.Intn(4)]
	b = append(b, c06U16(len(suites))...)
	b = append(b, suites...)
	b = append(b, 1, 0)
	var exts []byte
	for _, e := range h.Exts {
		exts = append(exts, c06ExtBytes(e, rng)...)
	}
	b = append(b, c06U16(len(exts))...)
	b = append(b, exts...)
	out := []byte{byte(h.HsType), byte(len(b) >> 16), byte(len(b) >> 8), byte(len(b))}
	return append(out, b...)
}

func c06TlsRecord(h *c06Hello, rng *rand.Rand) []byte {
	hs := c06Handshake(h, rng)
	out := []byte{0x16, 3, byte(h.RecMinor)}
	out = append(out, c06U16(len(hs))...)
	return append(out, hs...)
}

func c06HttpHead(v *c06Vector) []byte {
	var sb strings.Builder
	target := "/index.html"
	if v.Http.Method == "CONNECT" {
		target = "example.com:443"
	}
	sb.WriteString(v.Http.Method + " " + target + " HTTP/1.1\r\n")
	for _, h := range v.Http.Hdrs {
		sb.WriteString(h.Name + ": " + c06Names[h.Value] + "\r\n")
	}
	sb.WriteString("\r\nbody-bytes")
	return []byte(sb.String())
}

// ---- a client connection delivering chunks on a schedule (virtual time) ------------------------------
type c06Conn struct {
	mu       sync.Mutex
	chunks   [][]byte
	gaps     []time.Duration // wait before chunk i becomes readable, counted from when chunk i-1 was consumed
	idx      int
	ready    time.Time
	deadline time.Time
	closed   bool
	// a reader may report an error together with the last bytes it has (io.Reader): the end of the stream with the final chunk, and
	// a deadline that will pass before the next chunk together with the chunk before it - as wrappers that hold a prefix do
	errWithData bool
}
type c06TimeoutErr struct{}

func (c06TimeoutErr) Error() string   { return "i/o timeout" }
func (c06TimeoutErr) Timeout() bool   { return true }
func (c06TimeoutErr) Temporary() bool { return true }

func (c *c06Conn) Read(p []byte) (int, error) {
	for {
		c.mu.Lock()
		if c.closed {
			c.mu.Unlock()
			return 0, net.ErrClosed
		}
		now := time.Now()
		dl := c.deadline
		if !dl.IsZero() && !now.Before(dl) { // as a socket: an expired deadline is reported before anything else
			c.mu.Unlock()
			return 0, c06TimeoutErr{}
		}
		if c.idx >= len(c.chunks) {
			c.mu.Unlock()
			time.Sleep(time.Millisecond) // a read costs time: a caller polling a finished stream must still reach its deadline
			return 0, io.EOF
		}
		if !now.Before(c.ready) {
			ch := c.chunks[c.idx]
			n := copy(p, ch)
			if n < len(ch) {
				c.chunks[c.idx] = ch[n:]
			} else {
				c.idx++
				if c.idx < len(c.chunks) {
					c.ready = now.Add(c.gaps[c.idx])
					if c.errWithData && !dl.IsZero() && c.ready.After(dl) && n > 0 {
						// nothing more arrives before the deadline: the reader waits it out and reports the bytes with the timeout
						c.mu.Unlock()
						time.Sleep(dl.Sub(now))
						return n, c06TimeoutErr{}
					}
				} else if c.errWithData && n > 0 {
					c.mu.Unlock()
					return n, io.EOF
				}
			}
			c.mu.Unlock()
			return n, nil
		}
		wait := c.ready.Sub(now)
		if !dl.IsZero() && dl.Sub(now) < wait {
			wait = dl.Sub(now)
		}
		c.mu.Unlock()
		time.Sleep(wait)
	}
}
func (c *c06Conn) Write(p []byte) (int, error) { return len(p), nil }
func (c *c06Conn) Close() error                { c.mu.Lock(); c.closed = true; c.mu.Unlock(); return nil }
func (c *c06Conn) LocalAddr() net.Addr         { return &net.TCPAddr{IP: net.IPv4(127, 0, 0, 1), Port: 1} }
func (c *c06Conn) RemoteAddr() net.Addr        { return &net.TCPAddr{IP: net.IPv4(127, 0, 0, 1), Port: 2} }
func (c *c06Conn) SetDeadline(t time.Time) error {
	c.mu.Lock()
	c.deadline = t
	c.mu.Unlock()
	return nil
}
func (c *c06Conn) SetReadDeadline(t time.Time) error  { return c.SetDeadline(t) }
func (c *c06Conn) SetWriteDeadline(t time.Time) error { return nil }

const c06Timeout = 100 * time.Millisecond

var c06ErrWithData bool // set per vector by the driver loop

func c06Classify(d string, err error) (string, string) {
	switch {
	case err == nil:
		return "found", d
	case errors.Is(err, ErrNotFound):
		return "notfound", ""
	case errors.Is(err, ErrNotApplicable):
		return "notapplicable", ""
	case errors.Is(err, ErrNeedMore):
		return "needmore", ""
	}
	return "error:" + err.Error(), ""
}

func c06CutPos(at string, n int) int {
	switch at {
	case "h-1":
		return 4
	case "h":
		return 5
	case "h+1":
		return 6
	case "hs":
		return 9
	case "mid":
		return n / 2
	}
	return n - 1
}

func c06RunStream(v *c06Vector, data []byte, unitLen int, label string, strict bool, res *verifutil.Result) {
	var exp struct {
		Allowed []string `json:"allowed"`
		Name    string   `json:"name"`
		Timeout bool     `json:"timeout"`
	}
	verifutil.Recode(v.Expect, &exp)
	conn := &c06Conn{errWithData: c06ErrWithData}
	if c06ErrWithData {
		label += " [reader reports errors together with the last bytes]"
	}
	prev := 0
	gap := time.Duration(0)
	var cutText []string
	for _, c := range v.Cuts {
		pos := c06CutPos(c.At, unitLen) // cut positions are relative to the record / request head
		if pos <= prev || pos >= len(data) {
			continue
		}
		conn.chunks = append(conn.chunks, append([]byte(nil), data[prev:pos]...))
		conn.gaps = append(conn.gaps, gap)
		prev = pos
		switch c.Gap {
		case "now":
			gap = 0
		case "soon":
			gap = c06Timeout / 4
		default:
			gap = c06Timeout * 2
		}
		cutText = append(cutText, fmt.Sprintf("%d/%s", pos, c.Gap))
	}
	conn.chunks = append(conn.chunks, append([]byte(nil), data[prev:]...))
	conn.gaps = append(conn.gaps, gap)
	key := fmt.Sprintf("c06:%s|cuts=%v|drain=%s", label, cutText, v.Drain)
	start := time.Now()
	var class, name string
	var drained []byte
	func() {
		defer func() {
			if r := recover(); r != nil {
				class = fmt.Sprintf("PANIC: %v", r)
			}
		}()
		cs := NewConnSniffer(conn, c06Timeout)
		defer func() { _ = cs.Close() }()
		// (a sniffer that never comes back must not hang the check: past 20 timeouts the stream is torn down under it)
		type sniffRes struct {
			d   string
			err error
		}
		done := make(chan sniffRes, 1)
		go func() {
			defer func() {
				if r := recover(); r != nil {
					done <- sniffRes{"", fmt.Errorf("PANIC: %v", r)}
				}
			}()
			d, err := cs.SniffTcp()
			done <- sniffRes{d, err}
		}()
		var sr sniffRes
		select {
		case sr = <-done:
		case <-time.After(20 * c06Timeout):
			res.Failf(key+"|never", label, "%s cuts %v: sniffing is still waiting %v after it started, the sniffing timeout is %v", label, cutText, time.Since(start), c06Timeout)
			_ = conn.Close()
			sr = <-done
		}
		d, err := sr.d, sr.err
		class, name = c06Classify(d, err)
		elapsed := time.Since(start)
		res.Eval(1)
		if elapsed > c06Timeout+time.Millisecond {
			res.Failf(key+"|late", label, "%s cuts %v: sniffing returned after %v, the sniffing timeout is %v", label, cutText, elapsed, c06Timeout)
		}
		var buf bytes.Buffer
		switch v.Drain {
		case "read":
			p := make([]byte, 1500)
			for {
				n, err := cs.Read(p)
				buf.Write(p[:n])
				if err != nil {
					if err != io.EOF {
						buf.WriteString("<read error: " + err.Error() + ">")
					}
					break
				}
			}
		case "writeto":
			if _, err := cs.WriteTo(&buf); err != nil {
				buf.WriteString("<writeto error: " + err.Error() + ">")
			}
		default:
			buf.Write(cs.TakeRelayPrefix())
			if _, err := io.Copy(&buf, cs.Conn); err != nil {
				buf.WriteString("<copy error: " + err.Error() + ">")
			}
		}
		drained = buf.Bytes()
	}()
	res.Eval(2)
	if strings.HasPrefix(class, "PANIC") {
		res.Failf(key+"|panic", label, "%s cuts %v: %s", label, cutText, class)
		return
	}
	if !bytes.Equal(drained, data) {
		res.Failf(key+"|payload", label, "%s cuts %v, sniff result %s: the relay (%s) received %d bytes, the client sent %d; first difference at byte %d; tail %q", label, cutText, class, v.Drain, len(drained), len(data), c06FirstDiff(drained, data), c06Tail(drained))
		return
	}
	if !strict {
		if class == "found" && exp.Name != "?" && exp.Name != "" && name != c06Expected(exp.Name) {
			res.Failf(key+"|name", label, "%s cuts %v: reported %q, the name carried is %q", label, cutText, name, c06Expected(exp.Name))
		}
		return
	}
	ok := false
	for _, a := range exp.Allowed {
		if a == class {
			ok = true
		}
	}
	if strings.HasPrefix(class, "error:") && exp.Timeout {
		ok = true
	}
	if !ok {
		res.Failf(key, label, "%s cuts %v: sniffing says %s %q; by its structure and delivery it must be one of %v (name %q)", label, cutText, class, name, exp.Allowed, c06Expected(exp.Name))
		return
	}
	if class == "found" && name != c06Expected(exp.Name) {
		res.Failf(key+"|name", label, "%s cuts %v: reported %q, the name carried is %q", label, cutText, name, c06Expected(exp.Name))
	}
}

func c06FirstDiff(a, b []byte) int {
	for i := 0; i < len(a) && i < len(b); i++ {
		if a[i] != b[i] {
			return i
		}
	}
	if len(a) < len(b) {
		return len(a)
	}
	return len(b)
}
func c06Tail(b []byte) string {
	if len(b) > 40 {
		b = b[len(b)-40:]
	}
	return string(b)
}

// ---- QUIC Initial protection: RFC 9001 s5 / RFC 9369, standard library only ---------------------------
var c06Salt = map[int][]byte{
	1: {0x38, 0x76, 0x2c, 0xf7, 0xf5, 0x59, 0x34, 0xb3, 0x4d, 0x17, 0x9a, 0xe6, 0xa4, 0xc8, 0x0c, 0xad, 0xcc, 0xbb, 0x7f, 0x0a},
	2: {0x0d, 0xed, 0xe3, 0xde, 0xf7, 0x00, 0xa6, 0xdb, 0x81, 0x93, 0x81, 0xbe, 0x6e, 0x26, 0x9d, 0xcb, 0xf9, 0xbd, 0x2e, 0xd9},
}

func c06ExpandLabel(secret []byte, label string, n int) []byte {
	full := "tls13 " + label
	info := append([]byte{byte(n >> 8), byte(n), byte(len(full))}, full...)
	info = append(info, 0)
	out, err := hkdf.Expand(sha256.New, secret, string(info), n)
	if err != nil {
		panic(err)
	}
	return out
}

func c06Varint(n int) []byte {
	switch {
	case n < 64:
		return []byte{byte(n)}
	case n < 16384:
		return []byte{0x40 | byte(n>>8), byte(n)}
	}
	return []byte{0x80 | byte(n>>24), byte(n >> 16), byte(n >> 8), byte(n)}
}

func c06InitialPacket(version int, dcid []byte, pn uint32, pnLen int, payload []byte) []byte {
	prk, err := hkdf.Extract(sha256.New, dcid, c06Salt[version])
	if err != nil {
		panic(err)
	}
	pfx := "quic "
	clientIn := "client in"
	typeBits := byte(0)
	wire := []byte{0, 0, 0, 1}
	if version == 2 {
		pfx = "quicv2 "
		typeBits = 1
		wire = []byte{0x6b, 0x33, 0x43, 0xcf}
	}
	secret := c06ExpandLabel(prk, clientIn, 32)
	key := c06ExpandLabel(secret, pfx+"key", 16)
	iv := c06ExpandLabel(secret, pfx+"iv", 12)
	hp := c06ExpandLabel(secret, pfx+"hp", 16)
	for len(payload) < 24 {
		payload = append(payload, 0)
	}
	hdr := []byte{0xc0 | typeBits<<4 | byte(pnLen-1)}
	hdr = append(hdr, wire...)
	hdr = append(hdr, byte(len(dcid)))
	hdr = append(hdr, dcid...)
	hdr = append(hdr, 3, 's', 'r', 'c')
	hdr = append(hdr, 0) // token length
	hdr = append(hdr, c06Varint(pnLen+len(payload)+16)...)
	pnOff := len(hdr)
	for i := pnLen - 1; i >= 0; i-- {
		hdr = append(hdr, byte(pn>>(8*i)))
	}
	block, _ := aes.NewCipher(key)
	aead, _ := cipher.NewGCM(block)
	nonce := append([]byte(nil), iv...)
	for i := 0; i < 4; i++ {
		nonce[11-i] ^= byte(pn >> (8 * i))
	}
	pkt := append(append([]byte(nil), hdr...), aead.Seal(nil, nonce, payload, hdr)...)
	hpb, _ := aes.NewCipher(hp)
	mask := make([]byte, 16)
	hpb.Encrypt(mask, pkt[pnOff+4:pnOff+20])
	pkt[0] ^= mask[0] & 0x0f
	for i := 0; i < pnLen; i++ {
		pkt[pnOff+i] ^= mask[1+i]
	}
	return pkt
}

func c06RunQuic(v *c06Vector, rng *rand.Rand, res *verifutil.Result) {
	var exp []c06Res
	verifutil.Recode(v.Expect, &exp)
	hs := c06Handshake(&v.Hello, rng)
	// piece boundaries
	n := v.Quic.Npieces
	bounds := []int{0}
	for i := 1; i < n; i++ {
		lo := bounds[i-1] + 1
		hi := len(hs) - (n - i)
		bounds = append(bounds, lo+rng.Intn(hi-lo+1))
	}
	bounds = append(bounds, len(hs))
	dcid := make([]byte, v.Quic.Dcid)
	rng.Read(dcid)
	label := fmt.Sprintf("quic v%d dcid=%d hello=%+v pieces=%v", v.Quic.Version, v.Quic.Dcid, v.Hello.Exts, bounds)
	var dgs [][]byte
	var layout []string
	var badUpTo []bool // a corrupted packet has been sent in this or an earlier datagram
	sawBad := false
	pn := uint32(0)
	for _, dg := range v.Quic.Dgs {
		var d []byte
		var lt []string
		for _, p := range dg {
			var payload []byte
			if p.Pad == "front" {
				payload = append(payload, make([]byte, 20)...)
			}
			if p.Pad == "ping" {
				payload = append(payload, 1)
			}
			var fr []string
			for fi, f := range p.Frames {
				if fi > 0 && (p.Pad == "between" || p.Pad == "ping") {
					payload = append(payload, 0, 0, 0)
				}
				off, end := bounds[f.Piece-1], bounds[f.Piece]
				payload = append(payload, 6)
				payload = append(payload, c06Varint(off)...)
				payload = append(payload, c06Varint(end-off)...)
				payload = append(payload, hs[off:end]...)
				fr = append(fr, fmt.Sprintf("crypto[%d,%d)", off, end))
			}
			payload = append(payload, make([]byte, rng.Intn(40))...)
			pkt := c06InitialPacket(v.Quic.Version, dcid, pn, p.PnLen, payload)
			if p.Bad {
				pkt[len(pkt)-20] ^= 0x40 // inside the protected payload, after the header-protection sample
				fr = append(fr, "CORRUPTED")
				sawBad = true
			}
			d = append(d, pkt...)
			pn++
			if p.Other {
				// a coalesced long-header packet of another type (Handshake)
				o := []byte{0xe0, 0, 0, 0, 1, byte(len(dcid))}
				if v.Quic.Version == 2 {
					o = []byte{0xf0, 0x6b, 0x33, 0x43, 0xcf, byte(len(dcid))}
				}
				o = append(o, dcid...)
				o = append(o, 0, 0x40, 30)
				o = append(o, make([]byte, 30)...)
				d = append(d, o...)
				fr = append(fr, "+handshake")
			}
			lt = append(lt, fmt.Sprintf("pkt(pn%d/%dB %s %v)", pn-1, p.PnLen, p.Pad, fr))
		}
		dgs = append(dgs, d)
		badUpTo = append(badUpTo, sawBad)
		layout = append(layout, strings.Join(lt, " "))
	}
	key := "c06:" + label + "|" + strings.Join(layout, " || ")
	var s *Sniffer
	defer func() {
		if r := recover(); r != nil {
			res.Failf(key+"|panic", label, "%s %v: PANIC %v", label, layout, r)
		}
		if s != nil {
			_ = s.Close()
		}
	}()
	for k, dg := range dgs {
		if k == 0 {
			s = NewPacketSniffer(append([]byte(nil), dg...), c06Timeout)
		} else {
			s.AppendData(append([]byte(nil), dg...))
		}
		d, err := s.SniffUdp()
		class, name := c06Classify(d, err)
		if class == "notfound" && s.NeedMore() {
			class = "needmore"
		}
		res.Eval(2)
		want := exp[k]
		ok := class == want.R || (want.R == "notfound" && class == "needmore") ||
			(want.R == "needmore" && class == "found" && want.Name != "") || // found early: the name is checked below
			badUpTo[k] // after a corrupted packet there is no obligation to find the name; what is reported must be right, the payload intact
		if !ok {
			res.Failf(key, label, "%s datagrams %v: after datagram %d sniffing says %s %q, the CRYPTO data received so far %s (%s %q)", label, layout, k+1, class, name,
				map[bool]string{true: "does not cover the ClientHello yet", false: "covers the whole ClientHello"}[want.R == "needmore"], want.R, c06Expected(want.Name))
			return
		}
		if class == "found" && name != c06Expected(want.Name) {
			res.Failf(key+"|name", label, "%s datagrams %v: reported %q, the name carried is %q", label, layout, name, c06Expected(want.Name))
			return
		}
		got := s.Data()
		if len(got) != k+1 {
			res.Failf(key+"|data", label, "%s datagrams %v: after datagram %d the sniffer holds %d datagrams to replay", label, layout, k+1, len(got))
			return
		}
		for i := 0; i <= k; i++ {
			if !bytes.Equal(got[i], dgs[i]) {
				res.Failf(key+"|payload", label, "%s datagrams %v: datagram %d is not byte-for-byte what the client sent after sniffing (first difference at byte %d)", label, layout, i+1, c06FirstDiff(got[i], dgs[i]))
				return
			}
		}
	}
}

func TestVerifC06(t *testing.T) {
	vs, err := verifutil.ReadLines[c06Vector]("VERIF_IN")
	if err != nil {
		t.Fatal(err)
	}
	res := verifutil.NewResult()
	defer func() {
		if err := res.Write(); err != nil {
			t.Fatal(err)
		}
	}()
	rng := rand.New(rand.NewSource(verifutil.Seed()))
	_ = os.Getenv
	synctest.Test(t, func(t *testing.T) {
		for vi := range vs {
			v := &vs[vi]
			res.Case()
			res.Count("c06_"+v.Kind, 1)
			switch v.Kind {
			case "tls":
				rec := c06TlsRecord(&v.Hello, rng)
				data := append(append([]byte(nil), rec...), []byte("application-data-after-hello")...)
				if vi < 2 {
					res.Sample(fmt.Sprintf("%+v", v.Hello))
				}
				c06ErrWithData = vi%2 == 1
				c06RunStream(v, data, len(rec), fmt.Sprintf("tls hello rec=3.%d hs=%d ver=3.%d sid=%d exts=%+v", v.Hello.RecMinor, v.Hello.HsType, v.Hello.VMinor, v.Hello.Sid, v.Hello.Exts), true, res)
				_ = rec
			case "http":
				c06ErrWithData = vi%2 == 1
				c06RunStream(v, c06HttpHead(v), len(c06HttpHead(v)), fmt.Sprintf("http %s %+v", v.Http.Method, v.Http.Hdrs), true, res)
			case "junk":
				// byte strings that are none of these: random, truncated and bit-flipped hellos
				h := &c06Hello{RecMinor: 3, HsType: 1, VMinor: 3, Sid: 32, Exts: []c06Ext{{Kind: "grease"}, {Kind: "sni", Entries: []c06Entry{{0, "plain"}}}, {Kind: "alpn"}}}
				for j := 0; j < 6; j++ {
					var data []byte
					label := ""
					switch j {
					case 0:
						data = make([]byte, 10+rng.Intn(200))
						rng.Read(data)
						label = "random bytes"
					case 1:
						data = make([]byte, 10+rng.Intn(200))
						rng.Read(data)
						data[0], data[1] = 0x16, 3
						label = "random bytes after a record prefix"
					case 2:
						full := c06TlsRecord(h, rng)
						data = full[:6+rng.Intn(len(full)-6)]
						label = "truncated hello"
					default:
						data = c06TlsRecord(h, rng)
						for f := 0; f < j-2; f++ {
							data[rng.Intn(len(data))] ^= 1 << rng.Intn(8)
						}
						label = fmt.Sprintf("hello with %d flipped bits", j-2)
					}
					vv := *v
					c06RunStream(&vv, data, len(data), fmt.Sprintf("%s %x", label, data), false, res)
				}
			case "quic":
				c06RunQuic(v, rng, res)
			}
		}
	})
}
