//go:build verif

package domain_matcher

import (
	"fmt"
	"io"
	"math/rand"
	"regexp"
	"strings"
	"testing"

	"github.com/daeuniverse/dae/common/consts"
	"github.com/daeuniverse/dae/pkg/verifutil"
	"github.com/sirupsen/logrus"
)

// vectors emitted by spec/DomainMatch.tla
type c11Vector struct {
	Kind  string   `json:"kind"`
	Pats  []any    `json:"pats"` // []string of chars, or regex record
	Names [][]string `json:"names"`
	Exp   []bool   `json:"exp"`
}

func c11Join(cs []any) string {
	var sb strings.Builder
	for _, c := range cs {
		sb.WriteString(c.(string))
	}
	return sb.String()
}

func c11Pattern(kind string, p any) string {
	if kind != "regex" {
		return c11Join(p.([]any))
	}
	r := p.(map[string]any)
	var alts []string
	for _, a := range r["alts"].([]any) {
		alts = append(alts, regexp.QuoteMeta(c11Join(a.([]any))))
	}
	s := "(?:" + strings.Join(alts, "|") + ")"
	if r["pre"].(bool) {
		s = "^" + s
	}
	if r["post"].(bool) {
		s += "$"
	}
	return s
}

func TestVerifC11(t *testing.T) {
	vecs, err := verifutil.ReadLines[c11Vector]("VERIF_IN")
	if err != nil {
		t.Fatal(err)
	}
	res := verifutil.NewResult()
	defer func() {
		if err := res.Write(); err != nil {
			t.Fatal(err)
		}
	}()
	log := logrus.New()
	log.SetOutput(io.Discard)
	rng := rand.New(rand.NewSource(verifutil.Seed()))
	// pairs-mode vectors carry no name list: they use the (identical) list of the singleton vectors
	var shared [][]string
	for _, v := range vecs {
		if len(v.Names) > 0 && len(v.Names) == len(v.Exp) && shared == nil && len(v.Pats) == 1 {
			shared = v.Names
		}
	}
	for i := range vecs {
		if len(vecs[i].Names) == 0 {
			vecs[i].Names = shared
		}
		if len(vecs[i].Names) != len(vecs[i].Exp) {
			t.Fatalf("vector %d: %d names, %d expectations", i, len(vecs[i].Names), len(vecs[i].Exp))
		}
	}
	const bitLen = 1024
	// Independence of sets: vectors are packed many-at-a-time into ONE matcher at distinct, seed-chosen
	// bit indices (always including the word boundaries 0,31,32,1023); every name must produce exactly
	// the union of the per-set expectations.
	group := verifutil.EnvInt("VERIF_C11_GROUP", 64)
	rng.Shuffle(len(vecs), func(i, j int) { vecs[i], vecs[j] = vecs[j], vecs[i] })
	for start := 0; start < len(vecs); start += group {
		end := min(start+group, len(vecs))
		batch := vecs[start:end]
		perm := rng.Perm(bitLen)
		special := []int{0, 31, 32, 1023, 63, 64}
		bits := make([]int, len(batch))
		used := map[int]bool{}
		for i := range batch {
			if i < len(special) {
				bits[i] = special[i]
			} else {
				for _, b := range perm {
					if !used[b] && b != 0 && b != 31 && b != 32 && b != 1023 && b != 63 && b != 64 {
						bits[i] = b
						break
					}
				}
			}
			used[bits[i]] = true
		}
		m := NewAhocorasickSlimtrie(log, bitLen)
		var texts [][]string
		for i, v := range batch {
			var ps []string
			for _, p := range v.Pats {
				ps = append(ps, c11Pattern(v.Kind, p))
			}
			texts = append(texts, ps)
			m.AddSet(bits[i], ps, consts.RoutingDomainKey(v.Kind))
		}
		if err := m.Build(); err != nil {
			// a keyword pattern with a character outside the alphabet is rejected as a whole (clean error);
			// rebuild without the offending keyword sets
			m = NewAhocorasickSlimtrie(log, bitLen)
			for i, v := range batch {
				bad := false
				if v.Kind == "keyword" {
					for _, p := range texts[i] {
						if strings.ContainsAny(p, "!") {
							bad = true
						}
					}
				}
				if bad {
					batch[i].Exp = make([]bool, len(v.Exp)) // contributes nothing
					res.Count("keyword_sets_rejected_cleanly", 1)
					continue
				}
				m.AddSet(bits[i], texts[i], consts.RoutingDomainKey(v.Kind))
			}
			if err2 := m.Build(); err2 != nil {
				res.Failf("build:"+err2.Error(), texts, "Build failed for valid pattern sets: %v (first error %v)", err2, err)
				continue
			}
		}
		// group vectors by identical name lists (pairs mode: all identical)
		for i, v := range batch {
			res.Case()
			if start == 0 && i < 2 {
				res.Sample(map[string]any{"kind": v.Kind, "patterns": texts[i], "bit": bits[i], "names": len(v.Names)})
			}
			for ni, nm := range v.Names {
				name := strings.Join(nm, "")
				bm := m.MatchDomainBitmap(name)
				res.Eval(1)
				got := (bm[bits[i]/32]>>(bits[i]%32))&1 == 1
				if got != v.Exp[ni] {
					res.Failf(fmt.Sprintf("match:%s:%v:%q", v.Kind, texts[i], name),
						map[string]any{"kind": v.Kind, "patterns": texts[i], "name": name, "bit": bits[i]},
						"%s set %v (bit %d, packed with %d other sets) on name %q: matcher says %v, the pattern kind's meaning says %v",
						v.Kind, texts[i], bits[i], len(batch)-1, name, got, v.Exp[ni])
				}
				// no foreign bit may be set that no packed set explains: check the whole bitmap on a sample of names
				if ni%17 == 0 {
					for j, w := range batch {
						// find this name in w's list (same list in pairs mode)
						if len(w.Names) == len(v.Names) && strings.Join(w.Names[ni], "") == name {
							g := (bm[bits[j]/32]>>(bits[j]%32))&1 == 1
							res.Eval(1)
							if g != w.Exp[ni] {
								res.Failf(fmt.Sprintf("match:%s:%v:%q", w.Kind, texts[j], name),
									map[string]any{"kind": w.Kind, "patterns": texts[j], "name": name, "bit": bits[j]},
									"%s set %v (bit %d) on name %q: matcher says %v, spec says %v", w.Kind, texts[j], bits[j], name, g, w.Exp[ni])
							}
						}
					}
					// bits not assigned to any set must be zero
					for w := 0; w < len(bm); w++ {
						for b := 0; b < 32; b++ {
							if bm[w]&(1<<b) != 0 && !used[w*32+b] {
								res.Failf(fmt.Sprintf("foreignbit:%d", w*32+b), name, "bit %d set for %q although no set was added at that index", w*32+b, name)
							}
						}
					}
				}
			}
		}
	}
}
