//go:build verif

package outbound

import (
	"errors"
	"fmt"
	"io"
	"strings"
	"testing"
	"time"

	"github.com/daeuniverse/dae/common/consts"
	"github.com/daeuniverse/dae/component/outbound/dialer"
	"github.com/daeuniverse/dae/pkg/verifutil"
	D "github.com/daeuniverse/outbound/dialer"
	"github.com/daeuniverse/outbound/protocol/direct"
	"github.com/sirupsen/logrus"
)

// behaviours emitted by spec/GroupSelect.tla
type c15gType struct {
	Dom string `json:"dom"`
	Fam string `json:"fam"`
}
type c15gEvent struct {
	Ev string   `json:"ev"`
	N  int      `json:"n"`
	T  c15gType `json:"t"`
	X  struct {
		Strict bool   `json:"strict"`
		Ex     int    `json:"ex"`
		Policy string `json:"policy"`
		Expect struct {
			Kind  string `json:"kind"`
			Nodes []int  `json:"nodes"`
			Pref  []int  `json:"pref"`
		} `json:"expect"`
	} `json:"x"`
}
type c15gBehaviour struct {
	Nodes int         `json:"nodes"`
	Init  string      `json:"init"`
	Hist  []c15gEvent `json:"hist"`
}

func c15gNT(t c15gType) *dialer.NetworkType {
	nt := &dialer.NetworkType{IpVersion: consts.IpVersionStr_4}
	if t.Fam == "6" {
		nt.IpVersion = consts.IpVersionStr_6
	}
	switch t.Dom {
	case "tcp":
		nt.L4Proto = consts.L4ProtoStr_TCP
	case "dns":
		nt.L4Proto = consts.L4ProtoStr_UDP
		nt.IsDns = true
		nt.UdpHealthDomain = dialer.UdpHealthDomainDns
	default:
		nt.L4Proto = consts.L4ProtoStr_UDP
		nt.UdpHealthDomain = dialer.UdpHealthDomainData
	}
	return nt
}

func c15gPolicy(p string) DialerSelectionPolicy {
	switch p {
	case "min":
		return DialerSelectionPolicy{Policy: consts.DialerSelectionPolicy_MinLastLatency}
	case "random":
		return DialerSelectionPolicy{Policy: consts.DialerSelectionPolicy_Random}
	case "fixed1":
		return DialerSelectionPolicy{Policy: consts.DialerSelectionPolicy_Fixed, FixedIndex: 0}
	}
	return DialerSelectionPolicy{Policy: consts.DialerSelectionPolicy_Fixed, FixedIndex: 1}
}

func TestVerifC15Group(t *testing.T) {
	bs, err := verifutil.ReadLines[c15gBehaviour]("VERIF_IN")
	if err != nil {
		t.Fatal(err)
	}
	res := verifutil.NewResult()
	defer func() {
		if err := res.Write(); err != nil {
			t.Fatal(err)
		}
	}()
	log := logrus.New()
	log.SetOutput(io.Discard)
	gopt := &dialer.GlobalOption{Log: log, CheckInterval: time.Hour}
	for bi := range bs {
		b := &bs[bi]
		res.Case()
		if bi < 2 {
			res.Sample(b.Hist)
		}
		var ds []*dialer.Dialer
		var ann []*dialer.Annotation
		for i := 0; i < b.Nodes; i++ {
			ds = append(ds, dialer.NewDialer(direct.SymmetricDirect, gopt, dialer.InstanceOption{DisableCheck: true}, &dialer.Property{Property: D.Property{Name: fmt.Sprintf("n%d", i+1)}}))
			ann = append(ann, &dialer.Annotation{})
		}
		g := NewDialerGroup(gopt, "g", ds, ann, c15gPolicy(b.Init), func(bool, *dialer.NetworkType, bool) {})
		idx := map[*dialer.Dialer]int{}
		for i, d := range ds {
			idx[d] = i + 1
		}
		trail := []string{fmt.Sprintf("%d nodes, policy %s", b.Nodes, b.Init)}
		for _, ev := range b.Hist {
			nt := c15gNT(ev.T)
			tn := ev.T.Dom + ev.T.Fam
			switch ev.Ev {
			case "kill":
				trail = append(trail, fmt.Sprintf("n%d dies for %s", ev.N, tn))
				ds[ev.N-1].ReportUnavailableForced(nt, errors.New("forced by the harness"))
			case "revive":
				trail = append(trail, fmt.Sprintf("n%d revives for %s", ev.N, tn))
				ds[ev.N-1].MarkAliveForReloadFallback(nt)
			case "policy":
				trail = append(trail, "policy -> "+ev.X.Policy)
				g.SetSelectionPolicy(c15gPolicy(ev.X.Policy))
			case "select":
				var ex *dialer.Dialer
				exn := "nobody"
				if ev.X.Ex != 0 {
					ex = ds[ev.X.Ex-1]
					exn = fmt.Sprintf("n%d", ev.X.Ex)
				}
				trail = append(trail, fmt.Sprintf("select(%s, strict=%v, excluding %s)", tn, ev.X.Strict, exn))
				key := "c15g:" + strings.Join(trail, ";")
				// random policies: ask several times, every answer must be acceptable
				rounds := 1
				if ev.X.Policy == "random" {
					rounds = 6
				}
				for r := 0; r < rounds; r++ {
					d, _, _, serr := g.SelectWithExclusionResult(nt, ev.X.Strict, ex)
					res.Eval(1)
					got := 0
					if serr == nil && d != nil {
						got = idx[d]
					}
					ok := false
					for _, n := range ev.X.Expect.Nodes {
						if n == got {
							ok = true
						}
					}
					switch ev.X.Expect.Kind {
					case "none":
						if got != 0 {
							// the dialer's own health must agree before this is a violation of "only alive nodes"
							res.Failf(key, trail, "%v: selection returned n%d although no node is alive for any type tried", trail, got)
						}
					default:
						if got == 0 {
							res.Failf(key, trail, "%v: selection reported %v although node(s) %v are alive for a type that is tried", trail, serr, ev.X.Expect.Nodes)
						} else if !ok {
							res.Failf(key, trail, "%v: selection returned n%d; acceptable are %v (alive for a tried type, not excluded)", trail, got, ev.X.Expect.Nodes)
						} else {
							pref := false
							for _, n := range ev.X.Expect.Pref {
								if n == got {
									pref = true
								}
							}
							if !pref {
								res.AddDrift(fmt.Sprintf("%v: n%d comes from the other IP family although the requested family has a candidate", trail, got))
							}
						}
					}
				}
			}
		}
		_ = g.Close()
		for _, d := range ds {
			_ = d.Close()
		}
	}
}
