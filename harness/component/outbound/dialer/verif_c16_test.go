//go:build verif

package dialer

import (
	"context"
	"errors"
	"fmt"
	"io"
	"strings"
	"testing"
	"time"

	"github.com/daeuniverse/dae/common/consts"
	"github.com/daeuniverse/dae/pkg/verifutil"
	D "github.com/daeuniverse/outbound/dialer"
	"github.com/daeuniverse/outbound/protocol/direct"
	"github.com/sirupsen/logrus"
)

// behaviours emitted by spec/Health.tla
type c16Step struct {
	A string `json:"a"`
	N int    `json:"n"`
	D string `json:"d"`
	K int    `json:"k"`
}
type c16Cb struct {
	N     int    `json:"n"`
	D     string `json:"d"`
	Alive bool   `json:"alive"`
}
type c16Behaviour struct {
	Hist  []c16Step         `json:"hist"`
	Alive []map[string]bool `json:"alive"`
	Cbs   []c16Cb           `json:"cbs"`
}

var c16Domains = []string{"tcp4", "tcp6", "dns4", "dns6", "data4", "data6"}

func c16Type(d string) *NetworkType {
	switch d {
	case "tcp4":
		return &NetworkType{L4Proto: consts.L4ProtoStr_TCP, IpVersion: consts.IpVersionStr_4}
	case "tcp6":
		return &NetworkType{L4Proto: consts.L4ProtoStr_TCP, IpVersion: consts.IpVersionStr_6}
	case "dns4":
		return &NetworkType{L4Proto: consts.L4ProtoStr_UDP, IpVersion: consts.IpVersionStr_4, UdpHealthDomain: UdpHealthDomainDns, IsDns: true}
	case "dns6":
		return &NetworkType{L4Proto: consts.L4ProtoStr_UDP, IpVersion: consts.IpVersionStr_6, UdpHealthDomain: UdpHealthDomainDns, IsDns: true}
	case "data4":
		return &NetworkType{L4Proto: consts.L4ProtoStr_UDP, IpVersion: consts.IpVersionStr_4, UdpHealthDomain: UdpHealthDomainData}
	default:
		return &NetworkType{L4Proto: consts.L4ProtoStr_UDP, IpVersion: consts.IpVersionStr_6, UdpHealthDomain: UdpHealthDomainData}
	}
}

func c16DomainOf(t *NetworkType) string {
	v := "4"
	if t.IpVersion == consts.IpVersionStr_6 {
		v = "6"
	}
	if t.L4Proto == consts.L4ProtoStr_TCP {
		return "tcp" + v
	}
	if t.EffectiveUdpHealthDomain() == UdpHealthDomainDns {
		return "dns" + v
	}
	return "data" + v
}

// the documented thresholds
func c16ThrProbe(d string) int {
	if strings.HasPrefix(d, "tcp") {
		return 1
	}
	return 3
}
func c16ThrTraffic(d string) int {
	if strings.HasPrefix(d, "tcp") {
		return 10
	}
	return 50
}

type c16Oracle struct {
	alive            map[string]bool // "n/d"
	probeF, trafficF map[string]int
	deaths           int // per address: both nodes share one address
	muted            bool
	transitions      []string
}

func (o *c16Oracle) key(n int, d string) string { return fmt.Sprintf("%d/%s", n, d) }
func (o *c16Oracle) die(n int, d string, forced bool) {
	k := o.key(n, d)
	was := o.alive[k]
	o.alive[k] = false
	if was {
		o.transitions = append(o.transitions, fmt.Sprintf("%s:dead", k))
		if !forced {
			o.deaths++
			if o.deaths >= 3 {
				o.deaths = 0
				for _, dd := range c16Domains {
					o.die(n, dd, true)
				}
			}
		}
	}
}
func (o *c16Oracle) revive(n int, d string) {
	k := o.key(n, d)
	if !o.alive[k] {
		o.transitions = append(o.transitions, fmt.Sprintf("%s:alive", k))
	}
	o.alive[k] = true
	o.probeF[k], o.trafficF[k] = 0, 0
	o.deaths = 0
}

func TestVerifC16(t *testing.T) {
	bs, err := verifutil.ReadLines[c16Behaviour]("VERIF_IN")
	if err != nil {
		t.Fatal(err)
	}
	res := verifutil.NewResult()
	defer func() {
		if err := res.Write(); err != nil {
			t.Fatal(err)
		}
	}()
	log := logrus.New()
	log.SetOutput(io.Discard)
	for bi, b := range bs {
		res.Case()
		resetGlobalProxyState()
		reloadProxyFailureSuppression.Store(0)
		reloadProxyFailureSuppressUntil.Store(0)
		const nNodes = 2
		var realTransitions []string
		bit := map[string][]bool{}
		// one generation: the nodes' dialers and one latency-policy group per health domain containing both nodes (its callback
		// is the kernel connectivity bit); the transition callbacks are registered by the caller
		newGeneration := func() ([]*Dialer, map[string]*AliveDialerSet) {
			ds := make([]*Dialer, nNodes)
			for i := 0; i < nNodes; i++ {
				ds[i] = NewDialer(direct.SymmetricDirect, &GlobalOption{Log: log, CheckInterval: time.Hour}, InstanceOption{},
					&Property{Property: D.Property{Name: fmt.Sprintf("n%d", i+1), Address: "proxy.example:443"}})
			}
			ss := map[string]*AliveDialerSet{}
			for _, d := range c16Domains {
				d := d
				ss[d] = NewAliveDialerSet(log, "g", c16Type(d), 0, consts.DialerSelectionPolicy_MinLastLatency, ds,
					[]*Annotation{{}, {}}, func(alive bool) { bit[d] = append(bit[d], alive) }, true)
				for _, dl := range ds {
					dl.RegisterAliveDialerSet(ss[d])
				}
			}
			return ds, ss
		}
		watch := func(ds []*Dialer) {
			for i := range ds {
				i := i
				ds[i].RegisterAliveTransitionCallback(func(nt *NetworkType, alive bool) {
					st := "dead"
					if alive {
						st = "alive"
					}
					realTransitions = append(realTransitions, fmt.Sprintf("%d/%s:%s", i+1, c16DomainOf(nt), st))
				})
			}
		}
		dialers, sets := newGeneration()
		watch(dialers)
		o := &c16Oracle{alive: map[string]bool{}, probeF: map[string]int{}, trafficF: map[string]int{}}
		for n := 1; n <= nNodes; n++ {
			for _, d := range c16Domains {
				o.alive[o.key(n, d)] = true
			}
		}
		bitWant := map[string]bool{}
		for _, d := range c16Domains {
			bitWant[d] = true
			bit[d] = nil
		}
		var trail []string
		failed := false
		for _, st := range b.Hist {
			trail = append(trail, fmt.Sprintf("%s(%d,%s,%d)", st.A, st.N, st.D, st.K))
			key := "c16:" + strings.Join(trail, ";")
			var dl *Dialer
			var nt *NetworkType
			if st.N > 0 {
				dl, nt = dialers[st.N-1], c16Type(st.D)
			}
			k := o.key(st.N, st.D)
			switch st.A {
			case "ProbeOk":
				// the probe takes 0, 1 or 2 ms by turns: revivals come with latencies above and below earlier ones
				lat := time.Duration((len(trail)+bi)%3) * time.Millisecond
				_, _ = dl.Check(&CheckOption{networkType: nt, CheckFunc: func(context.Context, *NetworkType) (bool, error) { time.Sleep(lat); return true, nil }})
				o.revive(st.N, st.D)
			case "ProbeFail":
				_, _ = dl.Check(&CheckOption{networkType: nt, CheckFunc: func(context.Context, *NetworkType) (bool, error) { return false, errors.New("probe failed") }})
				if !o.muted {
					o.probeF[k]++
					if o.probeF[k] >= c16ThrProbe(st.D) {
						o.die(st.N, st.D, false)
					}
				}
			case "TrafficFail":
				for i := 0; i < st.K; i++ {
					dl.ReportUnavailable(nt, errors.New("write: connection reset"))
					if !o.muted {
						o.trafficF[k]++
						if o.trafficF[k] >= c16ThrTraffic(st.D) {
							o.die(st.N, st.D, false)
						}
					}
				}
			case "TrafficOk":
				dl.ReportAvailableTraffic(nt)
				o.trafficF[k] = 0
				if strings.HasPrefix(st.D, "data") && !o.alive[k] {
					o.revive(st.N, st.D)
				}
			case "Forced":
				dl.ReportUnavailableForced(nt, errors.New("forced"))
				o.die(st.N, st.D, true)
			case "Ignorable":
				dl.ReportUnavailable(nt, context.Canceled)
				dl.ReportUnavailableTransactional(nt, context.Canceled)
				_, _ = dl.Check(&CheckOption{networkType: nt, CheckFunc: func(context.Context, *NetworkType) (bool, error) { return false, context.Canceled }})
				_, _ = dl.Check(&CheckOption{networkType: nt, CheckFunc: func(context.Context, *NetworkType) (bool, error) { return false, nil }})
			case "Reload":
				// the new generation's groups exist when the last known health is handed over, as in the control plane
				nds, nss := newGeneration()
				for d := range bit {
					bit[d] = nil
				}
				for i := range nds {
					nds[i].RestoreHealthSnapshot(dialers[i].ReloadHealthSnapshot())
				}
				for _, dl := range dialers {
					_ = dl.Close()
				}
				dialers, sets = nds, nss
				watch(dialers)
				realTransitions, o.transitions = nil, nil
				for kk := range o.probeF {
					o.probeF[kk] = 0
				}
				for kk := range o.trafficF {
					o.trafficF[kk] = 0
				}
				for _, d := range c16Domains {
					bitWant[d] = true // a new group starts from "alive"; the hand-over must have told it otherwise where needed
				}
			case "SuppressOn":
				BeginReloadProxyFailureSuppression()
				o.muted = true
			case "SuppressOff":
				EndReloadProxyFailureSuppression()
				reloadProxyFailureSuppressUntil.Store(0) // the quiesce window has passed
				o.muted = false
			}
			// Thresholds: the node's state is what the documented rules say
			for n := 1; n <= nNodes; n++ {
				for _, d := range c16Domains {
					res.Eval(1)
					got, want := dialers[n-1].MustGetAlive(c16Type(d)), o.alive[o.key(n, d)]
					if got != want {
						res.Failf(key+"|state", trail, "after %v node n%d is reported alive=%v for %s; the documented thresholds give alive=%v", trail, n, got, d, want)
						failed = true
					}
				}
			}
			// EdgeOnly: one callback per actual transition
			res.Eval(1)
			if strings.Join(realTransitions, ",") != strings.Join(o.transitions, ",") {
				res.Failf(key+"|edges", trail, "after %v the transition callbacks were %v; the actual transitions are %v", trail, realTransitions, o.transitions)
				failed = true
			}
			// GroupsAgree + KernBit
			for _, d := range c16Domains {
				want := 0
				for n := 1; n <= nNodes; n++ {
					if o.alive[o.key(n, d)] {
						want++
					}
				}
				res.Eval(1)
				if got := sets[d].Len(); got != want {
					res.Failf(key+"|group", trail, "after %v the %s group sees %d alive nodes, the nodes report %d", trail, d, got, want)
					failed = true
				}
				wantBit := want > 0
				if wantBit != bitWant[d] {
					bitWant[d] = wantBit
					if len(bit[d]) == 0 || bit[d][len(bit[d])-1] != wantBit {
						res.Failf(key+"|kernbit", trail, "after %v the %s group has %d alive nodes but its connectivity callback sequence is %v (expected a final %v)", trail, d, want, bit[d], wantBit)
						failed = true
					}
				} else if n := len(bit[d]); n > 0 && bit[d][n-1] != wantBit {
					res.Failf(key+"|kernbit", trail, "after %v the %s group has %d alive nodes but its last connectivity callback was %v", trail, d, want, bit[d][n-1])
					failed = true
				}
			}
			if failed {
				break
			}
		}
		if bi < 2 {
			res.Sample(strings.Join(trail, " "))
		}
		if !failed {
			// implementation layer: the model's final state
			for n := 1; n <= nNodes && n <= len(b.Alive); n++ {
				for d, a := range b.Alive[n-1] {
					if dialers[n-1].MustGetAlive(c16Type(d)) != a {
						res.AddDrift(fmt.Sprintf("%v: model says n%d %s alive=%v", trail, n, d, a))
					}
				}
			}
		}
		for _, d := range dialers {
			_ = d.Close()
		}
	}
}
