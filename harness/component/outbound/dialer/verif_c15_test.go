//go:build verif

package dialer

import (
	"fmt"
	"io"
	"strings"
	"testing"
	"time"

	"github.com/daeuniverse/dae/common/consts"
	"github.com/daeuniverse/dae/pkg/verifutil"
	D "github.com/daeuniverse/outbound/dialer"
	"github.com/daeuniverse/outbound/protocol/direct"
	"github.com/sirupsen/logrus"
)

// behaviours emitted by spec/AliveSet.tla
type c15Step struct {
	A      string `json:"a"`
	N      int    `json:"n"`
	Alive  bool   `json:"alive"`
	Sample int    `json:"sample"`
	P      string `json:"p"`
	Chosen int    `json:"chosen"`
	Len    int    `json:"len"`
	Ncb    int    `json:"ncb"`
}
type c15Behaviour struct {
	Hist   []c15Step `json:"hist"`
	Cbs    []bool    `json:"cbs"`
	Tol    int       `json:"tol"`
	Offset []int     `json:"offset"`
}

const c15Unit = 10 * time.Millisecond

func vNewDialer(name string) *Dialer {
	log := logrus.New()
	log.SetOutput(io.Discard)
	return NewDialer(direct.SymmetricDirect, &GlobalOption{Log: log, CheckInterval: time.Minute}, InstanceOption{},
		&Property{Property: D.Property{Name: name}})
}

func TestVerifC15Set(t *testing.T) {
	bs, err := verifutil.ReadLines[c15Behaviour]("VERIF_IN")
	if err != nil {
		t.Fatal(err)
	}
	res := verifutil.NewResult()
	defer func() {
		if err := res.Write(); err != nil {
			t.Fatal(err)
		}
	}()
	nt := &NetworkType{L4Proto: consts.L4ProtoStr_TCP, IpVersion: consts.IpVersionStr_4, IsDns: false}
	for bi, b := range bs {
		res.Case()
		n := len(b.Offset)
		dialers := make([]*Dialer, n)
		annos := make([]*Annotation, n)
		for i := 0; i < n; i++ {
			dialers[i] = vNewDialer(fmt.Sprintf("n%d", i+1))
			annos[i] = &Annotation{AddLatency: time.Duration(b.Offset[i]) * c15Unit}
		}
		var cbs []bool
		tol := time.Duration(b.Tol) * c15Unit
		set := NewAliveDialerSet(dialers[0].Log, "g", nt, tol, consts.DialerSelectionPolicy_MinLastLatency, dialers, annos,
			func(alive bool) { cbs = append(cbs, alive) }, false)
		cbs = nil // construction-time notifications are not part of the history
		idx := map[*Dialer]int{}
		for i, d := range dialers {
			idx[d] = i + 1
		}
		// the harness's own bookkeeping of what the group was told (property layer, independent of the model)
		alive := make([]bool, n+1)
		lat := make([]time.Duration, n+1) // 0 = no measurement
		policy := "min"
		prevChosen := 0
		var prevLat []time.Duration
		var trail []string
		sort := func(l []time.Duration, i int) time.Duration { return l[i] + time.Duration(b.Offset[i-1])*c15Unit }
		for si, st := range b.Hist {
			prevLat = append([]time.Duration(nil), lat...)
			prevAliveOfChosen := prevChosen != 0 && alive[prevChosen]
			_ = prevAliveOfChosen
			policySwitched := false
			if st.A == "policy" {
				if st.P == "min" {
					set.SetSelectionPolicy(consts.DialerSelectionPolicy_MinLastLatency)
				} else {
					set.SetSelectionPolicy(consts.DialerSelectionPolicy_Random)
				}
				policy = st.P
				policySwitched = true
				trail = append(trail, "policy("+st.P+")")
			} else {
				d := dialers[st.N-1]
				if st.Sample != 0 {
					d.MustGetLatencies10(nt).AppendLatency(time.Duration(st.Sample) * c15Unit)
					lat[st.N] = time.Duration(st.Sample) * c15Unit
				}
				set.NotifyLatencyChange(d, st.Alive)
				alive[st.N] = st.Alive
				trail = append(trail, fmt.Sprintf("notify(n%d,alive=%v,sample=%d)", st.N, st.Alive, st.Sample))
			}
			key := "c15:tol" + fmt.Sprint(b.Tol) + ":" + strings.Join(trail, ";")
			nAlive := 0
			for i := 1; i <= n; i++ {
				if alive[i] {
					nAlive++
				}
			}
			res.Eval(1)
			if got := set.Len(); got != nAlive {
				res.Failf(key+"|len", trail, "after %v the set reports %d alive nodes, it was told %d are alive", trail, got, nAlive)
			}
			if policy == "min" {
				cd, _ := set.GetMinLatency(nil)
				chosen := idx[cd]
				if chosen != 0 && !alive[chosen] {
					res.Failf(key+"|deadchoice", trail, "after %v the min policy returns node n%d which is recorded not alive", trail, chosen)
				}
				if chosen == 0 && nAlive > 0 {
					res.Failf(key+"|nochoice", trail, "after %v the min policy returns no node although %d nodes are alive", trail, nAlive)
				}
				if chosen != 0 && lat[chosen] != 0 {
					for i := 1; i <= n; i++ {
						if i != chosen && alive[i] && lat[i] != 0 && sort(lat, i) < sort(lat, chosen) && sort(lat, i)+tol <= sort(lat, chosen) {
							res.Failf(key+"|beaten", trail, "after %v the min policy keeps n%d (%v) although alive n%d (%v) beats it by the tolerance %v or more", trail, chosen, sort(lat, chosen), i, sort(lat, i), tol)
						}
					}
				}
				// why may the choice change?
				if !policySwitched && prevChosen != 0 && chosen != 0 && chosen != prevChosen && alive[prevChosen] && lat[prevChosen] != 0 && lat[chosen] != 0 {
					newS, oldS, oldBefore := sort(lat, chosen), sort(lat, prevChosen), sort(prevLat, prevChosen)
					ok := newS <= oldS && (oldBefore < tol || oldS < tol || newS+tol <= oldS || newS+tol <= oldBefore)
					if !ok {
						res.Failf(key+"|tolrule", trail, "after %v the choice moved from n%d (%v) to n%d (%v) although the new node is not better by the tolerance %v", trail, prevChosen, oldS, chosen, newS, tol)
					}
				}
				// excluded node is never returned while another alive node exists
				for i := 1; i <= n; i++ {
					ed, _ := set.GetMinLatency(dialers[i-1])
					e := idx[ed]
					if e == i {
						res.Failf(key+"|excluded", trail, "after %v GetMinLatency(excluded n%d) returned the excluded node", trail, i)
					}
					if e != 0 && !alive[e] {
						res.Failf(key+"|excluded-dead", trail, "after %v GetMinLatency(excluded n%d) returned n%d which is not alive", trail, i, e)
					}
					if e == 0 && nAlive-btoi(alive[i]) > 0 {
						res.Failf(key+"|excluded-none", trail, "after %v GetMinLatency(excluded n%d) returned nothing although another node is alive", trail, i)
					}
				}
				if chosen != st.Chosen {
					res.AddDrift(fmt.Sprintf("step %d of %v: real choice n%d, model n%d", si, trail, chosen, st.Chosen))
				}
				prevChosen = chosen
			} else {
				prevChosen = 0
			}
			// random draws: only alive nodes, never the excluded one
			for k := 0; k < 12; k++ {
				rd := set.GetRand()
				if r := idx[rd]; (r == 0) != (nAlive == 0) || (r != 0 && !alive[r]) {
					res.Failf(key+"|rand", trail, "after %v GetRand returned n%d with %d alive nodes", trail, r, nAlive)
				}
				ex := 1 + k%n
				rd = set.GetRandExcluded(dialers[ex-1])
				if r := idx[rd]; r == ex || (r != 0 && !alive[r]) || (r == 0 && nAlive-btoi(alive[ex]) > 0) {
					res.Failf(key+"|randex", trail, "after %v GetRandExcluded(n%d) returned n%d (alive: %v)", trail, ex, r, alive[1:])
				}
			}
			// (the group-level alive callback sequence is judged under C16; here it is only compared with the model)
			if len(cbs) != st.Ncb {
				res.AddDrift(fmt.Sprintf("step %d of %v: %d callbacks, model %d", si, trail, len(cbs), st.Ncb))
			}
		}
		if bi < 2 {
			res.Sample(strings.Join(trail, " "))
		}
		for _, d := range dialers {
			_ = d.Close()
		}
	}
}

func btoi(b bool) int {
	if b {
		return 1
	}
	return 0
}
