//go:build verif

package outbound

import (
	"encoding/json"
	"fmt"
	"io"
	"regexp"
	"strings"
	"testing"
	"time"

	"github.com/daeuniverse/dae/common/consts"
	"github.com/daeuniverse/dae/component/outbound/dialer"
	"github.com/daeuniverse/dae/config"
	"github.com/daeuniverse/dae/pkg/config_parser"
	"github.com/daeuniverse/dae/pkg/verifutil"
	D "github.com/daeuniverse/outbound/dialer"
	"github.com/daeuniverse/outbound/protocol/direct"
	"github.com/sirupsen/logrus"
)

// vectors emitted by spec/GroupFilter.tla
type c14Val struct {
	K    string     `json:"k"`
	S    []string   `json:"s"`
	Pre  bool       `json:"pre"`
	Post bool       `json:"post"`
	Alts [][]string `json:"alts"`
}
type c14Alt struct {
	Key string `json:"key"`
	Val c14Val `json:"val"`
}
type c14Cond struct {
	Input string   `json:"input"`
	Not   bool     `json:"not"`
	Alts  []c14Alt `json:"alts"`
}
type c14Anno struct {
	Key string `json:"key"`
	Val string `json:"val"`
}
type c14Line struct {
	Conds []c14Cond `json:"conds"`
	Annos []c14Anno `json:"annos"`
}
type c14Vector struct {
	Pool []struct {
		Name []string `json:"name"`
		Tag  []string `json:"tag"`
	} `json:"pool"`
	Lines []c14Line `json:"lines"`
	Exp   struct {
		Err     bool `json:"err"`
		Members []struct {
			Idx    int    `json:"idx"`
			Offset string `json:"offset"`
		} `json:"members"`
	} `json:"exp"`
}

func c14Quote(s string) string { return "'" + s + "'" }

func c14ValText(v c14Val) string {
	switch v.K {
	case "str":
		return c14Quote(strings.Join(v.S, ""))
	case "badre":
		return c14Quote("(unclosed")
	}
	var alts []string
	for _, a := range v.Alts {
		alts = append(alts, regexp.QuoteMeta(strings.Join(a, "")))
	}
	s := "(?:" + strings.Join(alts, "|") + ")"
	if v.Pre {
		s = "^" + s
	}
	if v.Post {
		s += "$"
	}
	return c14Quote(s)
}

func c14GroupText(lines []c14Line, policy string) string {
	var sb strings.Builder
	sb.WriteString("global{}\nrouting{ fallback: g }\ngroup {\n g {\n")
	for _, l := range lines {
		var conds []string
		for _, c := range l.Conds {
			var ps []string
			for _, a := range c.Alts {
				if a.Key == "" {
					ps = append(ps, c14ValText(a.Val))
				} else {
					ps = append(ps, a.Key+": "+c14ValText(a.Val))
				}
			}
			s := c.Input + "(" + strings.Join(ps, ", ") + ")"
			if c.Not {
				s = "!" + s
			}
			conds = append(conds, s)
		}
		line := "  filter: " + strings.Join(conds, " && ")
		if len(l.Annos) > 0 {
			var as []string
			for _, a := range l.Annos {
				as = append(as, a.Key+": "+a.Val)
			}
			line += " [" + strings.Join(as, ", ") + "]"
		}
		sb.WriteString(line + "\n")
	}
	sb.WriteString("  policy: " + policy + "\n }\n}\n")
	return sb.String()
}

func TestVerifC14(t *testing.T) {
	res := verifutil.NewResult()
	defer func() {
		if err := res.Write(); err != nil {
			t.Fatal(err)
		}
	}()
	vecs, err := verifutil.ReadLines[c14Vector]("VERIF_IN")
	if err != nil {
		t.Fatal(err)
	}
	log := logrus.New()
	log.SetOutput(io.Discard)
	gopt := &dialer.GlobalOption{Log: log, CheckInterval: time.Hour}
	offsets := map[string]time.Duration{"0": 0, "100ms": 100 * time.Millisecond, "-500ms": -500 * time.Millisecond, "200ms": 200 * time.Millisecond}
	for vi, v := range vecs {
		res.Case()
		set := &DialerSet{log: log, nodeToTagMap: map[*dialer.Dialer]string{}}
		for _, n := range v.Pool {
			d := dialer.NewDialer(direct.SymmetricDirect, gopt, dialer.InstanceOption{DisableCheck: true},
				&dialer.Property{Property: D.Property{Name: strings.Join(n.Name, "")}, SubscriptionTag: strings.Join(n.Tag, "")})
			set.dialers = append(set.dialers, d)
			set.nodeToTagMap[d] = strings.Join(n.Tag, "")
		}
		text := c14GroupText(v.Lines, "min")
		var pool []string
		for _, n := range v.Pool {
			pool = append(pool, strings.Join(n.Name, "")+"@"+strings.Join(n.Tag, ""))
		}
		key := fmt.Sprintf("c14:%v:%s", pool, text)
		repl := map[string]any{"pool": pool, "config": text}
		if vi < 2 {
			res.Sample(repl)
		}
		res.Eval(1)
		func() {
			defer func() {
				if r := recover(); r != nil {
					res.Failf(key+"|panic", repl, "group definition\n%s panicked: %v", text, r)
				}
			}()
			sections, err := config_parser.Parse(text)
			if err != nil {
				res.Failf(key+"|parse", repl, "well-formed group text rejected by the parser: %v\n%s", err, text)
				return
			}
			conf, err := config.New(sections)
			if err != nil {
				res.Failf(key+"|confnew", repl, "config.New rejected the group: %v\n%s", err, text)
				return
			}
			g := conf.Group[0]
			dialers, annos, ferr := set.FilterAndAnnotate(g.Filter, g.FilterAnnotation)
			if v.Exp.Err {
				if ferr == nil {
					res.Failf(key, repl, "pool %v, group\n%s: an invalid filter/annotation element is reached while deciding a node, but no configuration error was reported (members %d)", pool, text, len(dialers))
				}
				return
			}
			if ferr != nil {
				res.Failf(key, repl, "pool %v, group\n%s: unexpected error %v", pool, text, ferr)
				return
			}
			if len(dialers) != len(v.Exp.Members) || len(annos) != len(dialers) {
				res.Failf(key, repl, "pool %v, group\n%s: %d members, the filters select %d", pool, text, len(dialers), len(v.Exp.Members))
				return
			}
			for i, m := range v.Exp.Members {
				if dialers[i] != set.dialers[m.Idx-1] {
					res.Failf(key, repl, "pool %v, group\n%s: member %d is %q, expected pool node #%d", pool, text, i, dialers[i].Property().Name, m.Idx)
					return
				}
				if annos[i].AddLatency != offsets[m.Offset] {
					res.Failf(key, repl, "pool %v, group\n%s: member %q carries offset %v, the first line it satisfies gives %v", pool, text, dialers[i].Property().Name, annos[i].AddLatency, offsets[m.Offset])
					return
				}
			}
		}()
		for _, d := range set.dialers {
			_ = d.Close()
		}
	}
	// ---- policies: the six policies, fixed(i) in and out of range, malformed ones
	type pcase struct {
		text  string
		ok    bool
		fixed int
	}
	cases := []pcase{{"random", true, -1}, {"fixed(0)", true, 0}, {"fixed(1)", true, 1}, {"fixed(2)", true, 2}, {"fixed(-1)", true, -1}, {"min", true, -1},
		{"min_avg10", true, -1}, {"min_moving_avg", true, -1}, {"fixed(x)", false, 0}, {"fixed()", false, 0}, {"fixed(0, 1)", false, 0},
		{"fixed(a: 0)", false, 0}, {"!fixed(0)", false, 0}, {"fastest", false, 0}, {"min && random", false, 0}}
	for _, pc := range cases {
		res.Case()
		res.Eval(1)
		text := c14GroupText(nil, pc.text)
		key := "c14-policy:" + pc.text
		func() {
			defer func() {
				if r := recover(); r != nil {
					res.Failf(key+"|panic", text, "policy %q panicked: %v", pc.text, r)
				}
			}()
			sections, err := config_parser.Parse(text)
			if err != nil {
				if pc.ok {
					res.Failf(key, text, "valid policy %q rejected by the parser: %v", pc.text, err)
				}
				return
			}
			conf, err := config.New(sections)
			if err != nil {
				if pc.ok {
					res.Failf(key, text, "valid policy %q rejected: %v", pc.text, err)
				}
				return
			}
			p, err := NewDialerSelectionPolicyFromGroupParam(&conf.Group[0])
			if !pc.ok {
				if err == nil {
					res.Failf(key, text, "invalid policy %q accepted as %+v", pc.text, p)
				}
				return
			}
			if err != nil {
				res.Failf(key, text, "valid policy %q rejected: %v", pc.text, err)
				return
			}
			// a two-node group: fixed(i) returns the i-th node or an error when out of range, never another node
			ds := []*dialer.Dialer{
				dialer.NewDialer(direct.SymmetricDirect, gopt, dialer.InstanceOption{DisableCheck: true}, &dialer.Property{Property: D.Property{Name: "n0"}}),
				dialer.NewDialer(direct.SymmetricDirect, gopt, dialer.InstanceOption{DisableCheck: true}, &dialer.Property{Property: D.Property{Name: "n1"}}),
			}
			g := NewDialerGroup(gopt, "g", ds, []*dialer.Annotation{{}, {}}, *p, func(bool, *dialer.NetworkType, bool) {})
			nt := &dialer.NetworkType{L4Proto: consts.L4ProtoStr_TCP, IpVersion: consts.IpVersionStr_4}
			sel, _, serr := g.Select(nt, true)
			if p.Policy == consts.DialerSelectionPolicy_Fixed {
				if pc.fixed >= 0 && pc.fixed < 2 {
					if serr != nil || sel != ds[pc.fixed] {
						res.Failf(key, text, "policy %q selected %v (err %v), expected node %d", pc.text, sel, serr, pc.fixed)
					}
				} else if serr == nil {
					res.Failf(key, text, "policy %q (index out of range) selected %q instead of reporting an error", pc.text, sel.Property().Name)
				}
			} else if serr != nil || sel == nil {
				res.Failf(key, text, "policy %q on a group with two alive nodes selected nothing (err %v)", pc.text, serr)
			}
			_ = g.Close()
			for _, d := range ds {
				_ = d.Close()
			}
		}()
	}
	_ = json.Marshal
}
