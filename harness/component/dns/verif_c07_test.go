//go:build verif

package dns

import (
	"context"
	"fmt"
	"io"
	"math/rand"
	"net/netip"
	"strings"
	"testing"

	"github.com/daeuniverse/dae/common/assets"
	"github.com/daeuniverse/dae/common/netutils"
	"github.com/daeuniverse/dae/config"
	"github.com/daeuniverse/dae/pkg/config_parser"
	"github.com/daeuniverse/dae/pkg/verifutil"
	dnsmessage "github.com/miekg/dns"
	"github.com/sirupsen/logrus"
)

func c07Build(text string) (s *Dns, err error) {
	defer func() {
		if r := recover(); r != nil {
			err = fmt.Errorf("PANIC: %v", r)
		}
	}()
	sections, err := config_parser.Parse(text)
	if err != nil {
		return nil, fmt.Errorf("parse: %w", err)
	}
	conf, err := config.New(sections)
	if err != nil {
		return nil, fmt.Errorf("config.New: %w", err)
	}
	log := logrus.New()
	log.SetOutput(io.Discard)
	return New(&conf.Dns, &NewOption{
		Logger:                  log,
		LocationFinder:          assets.NewLocationFinder(nil),
		UpstreamReadyCallback:   func(*Upstream) error { return nil },
		UpstreamResolverNetwork: "udp",
	})
}

// TestVerifC07Vectors: every configuration emitted by the model is written as configuration text, built by the production
// dns.New, and every context of the vector is put to RequestSelect / ResponseSelect.
func TestVerifC07Vectors(t *testing.T) {
	vs, err := verifutil.ReadLines[verifutil.C07Vector]("VERIF_IN")
	if err != nil {
		t.Fatal(err)
	}
	res := verifutil.NewResult()
	defer func() {
		if err := res.Write(); err != nil {
			t.Fatal(err)
		}
	}()
	rng := rand.New(rand.NewSource(verifutil.Seed()))
	ctx := context.Background()
	for vi := range vs {
		v := &vs[vi]
		text := verifutil.C07Render(&v.Cfg)
		res.Case()
		if vi < 2 {
			res.Sample(text)
		}
		s, err := c07Build(text)
		if err != nil {
			res.Failf("c07:build:"+text, text, "a well-formed dns section was refused: %v\n%s", err, text)
			continue
		}
		// the upstream objects, by declaration
		ptr := map[string]*Upstream{}
		okPtr := true
		for i, u := range verifutil.C07Ups {
			p, err := s.upstream[i].GetUpstream(ctx)
			if err != nil {
				res.Note("GetUpstream: " + err.Error())
				okPtr = false
				break
			}
			ptr[u] = p
		}
		if !okPtr {
			continue
		}
		for _, c := range v.ReqCases {
			name := verifutil.C07Spell(c.Ctx.Name, rng)
			idx, up, err := s.RequestSelect(ctx, name, verifutil.C07Qtypes[c.Ctx.Qtype])
			res.Eval(1)
			key := fmt.Sprintf("c07:req:%s|%s %s", verifutil.C07Rules(v.Cfg.Req, v.Cfg.ReqFb), strings.ToLower(strings.TrimSuffix(name, ".")), c.Ctx.Qtype)
			if err != nil {
				res.Failf(key, text, "request rules\n%s question %q %s: RequestSelect failed: %v", verifutil.C07Rules(v.Cfg.Req, v.Cfg.ReqFb), name, c.Ctx.Qtype, err)
				continue
			}
			if got := verifutil.C07ReqName(uint8(idx)); got != c.Exp {
				res.Failf(key, text, "request rules\n%s question %q %s is routed to %s; the first matching rule (or the fallback) says %s", verifutil.C07Rules(v.Cfg.Req, v.Cfg.ReqFb), name, c.Ctx.Qtype, got, c.Exp)
				continue
			}
			if want := ptr[c.Exp]; up != want {
				res.Failf(key+"|object", text, "request rules\n%s question %q %s: routed to %s but the upstream object returned is not the one declared under that name", verifutil.C07Rules(v.Cfg.Req, v.Cfg.ReqFb), name, c.Ctx.Qtype, c.Exp)
			}
		}
		for _, c := range v.RespCases {
			name := dnsmessage.Fqdn(strings.TrimSuffix(verifutil.C07Spell(c.Ctx.Name, rng), "."))
			msg := new(dnsmessage.Msg)
			msg.SetQuestion(name, verifutil.C07Qtypes[c.Ctx.Qtype])
			msg.Response = true
			msg.Answer = verifutil.C07Answer(name, c.Ctx.Ans)
			var from *Upstream
			if c.Ctx.From == "asis" {
				// as dialSend builds it for a question left with the client's own resolver (here the same server as u1)
				ip := netip.MustParseAddr("192.0.2.1")
				from = &Upstream{Scheme: "udp", Hostname: ip.String(), Port: 53, Ip46: &netutils.Ip46{Ip4: ip}}
			} else {
				from = ptr[c.Ctx.From]
			}
			idx, up, err := s.ResponseSelect(ctx, msg, from)
			res.Eval(1)
			key := fmt.Sprintf("c07:resp:%s|%s %s %s from %s", verifutil.C07Rules(v.Cfg.Resp, v.Cfg.RespFb), strings.ToLower(name), c.Ctx.Qtype, verifutil.C07AnsText(c.Ctx.Ans), c.Ctx.From)
			if err != nil {
				res.Failf(key, text, "response rules\n%s answer %s to %q %s from %s: ResponseSelect failed: %v", verifutil.C07Rules(v.Cfg.Resp, v.Cfg.RespFb), verifutil.C07AnsText(c.Ctx.Ans), name, c.Ctx.Qtype, c.Ctx.From, err)
				continue
			}
			if got := verifutil.C07RespName(uint8(idx)); got != c.Exp {
				res.Failf(key, text, "response rules\n%s answer %s to %q %s from %s is handled as %s; the first matching rule (or the fallback) says %s", verifutil.C07Rules(v.Cfg.Resp, v.Cfg.RespFb), verifutil.C07AnsText(c.Ctx.Ans), name, c.Ctx.Qtype, c.Ctx.From, got, c.Exp)
				continue
			}
			if want := ptr[c.Exp]; up != want {
				res.Failf(key+"|object", text, "response rules\n%s: re-ask at %s, but the upstream object returned is not the one declared under that name", verifutil.C07Rules(v.Cfg.Resp, v.Cfg.RespFb), c.Exp)
			}
		}
	}
}
