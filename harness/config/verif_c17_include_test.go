//go:build verif

package config

import (
	"fmt"
	"os"
	"path/filepath"
	"strings"
	"testing"
	"unsafe"

	"github.com/daeuniverse/dae/pkg/config_parser"
	"github.com/daeuniverse/dae/pkg/verifutil"
	"golang.org/x/sys/unix"
)

// vectors emitted by spec/Include.tla
type incVector struct {
	Inc       map[string][]string `json:"inc"`
	Err       string              `json:"err"`
	Order     []string            `json:"order"`
	Reads     []string            `json:"reads"`
	Diamond   bool                `json:"diamond"`
	Odd       string              `json:"odd"`
	OddMerged bool                `json:"oddMerged"`
	Twice     string              `json:"twice"`
	Rules     []string            `json:"rules"`
}

type incTree struct {
	root string
	path map[string]string // file id -> absolute path
}

func newIncTree(t *testing.T) *incTree {
	root := t.TempDir()
	tr := &incTree{root: root, path: map[string]string{}}
	for _, d := range []string{"P/E/sub", "P/other"} {
		if err := os.MkdirAll(filepath.Join(root, d), 0o755); err != nil {
			t.Fatal(err)
		}
	}
	tr.path["main"] = filepath.Join(root, "P/E/main.dae")
	tr.path["a"] = filepath.Join(root, "P/E/a.dae")
	tr.path["z"] = filepath.Join(root, "P/E/z.dae")
	tr.path["c"] = filepath.Join(root, "P/E/c.conf")
	tr.path["b"] = filepath.Join(root, "P/E/sub/b.dae")
	tr.path["p"] = filepath.Join(root, "P/p.dae")
	tr.path["o"] = filepath.Join(root, "P/other/o.dae")
	return tr
}

func (tr *incTree) specText(s string) string {
	if strings.HasPrefix(s, "ABS:") {
		return tr.path[strings.TrimPrefix(s, "ABS:")]
	}
	return s
}

func (tr *incTree) write(inc map[string][]string, odd, twice string) error {
	for id, p := range tr.path {
		var sb strings.Builder
		if specs := inc[id]; len(specs) > 0 {
			sb.WriteString("include {\n")
			for _, s := range specs {
				sb.WriteString("  '" + tr.specText(s) + "'\n")
			}
			sb.WriteString("}\n")
		}
		// marker items: the order of these in the merged sections is the merge order
		// (lan_interface is a key that may be given several times: its values accumulate in merge order)
		fmt.Fprintf(&sb, "global {\n  marker: %s\n  lan_interface: if_%s\n}\nrouting {\n  pname(%s) -> direct\n}\n", id, id, id)
		if id == twice {
			// the same section spelled a second time in the same file
			fmt.Fprintf(&sb, "routing {\n  pname(%s2) -> direct\n}\n", id)
		}
		if id == odd {
			// a section name dae does not know (a typo of "routing"): it must survive the merge so that config.New can reject it
			fmt.Fprintf(&sb, "routng {\n  marker: %s\n}\n", id)
		}
		if err := os.WriteFile(p, []byte(sb.String()), 0o600); err != nil {
			return err
		}
	}
	return nil
}

// inotify watcher over all directories of the tree: which files were opened while Merge ran
type incWatch struct {
	fd  int
	wds map[int32]string
}

func newIncWatch(tr *incTree) (*incWatch, error) {
	fd, err := unix.InotifyInit1(unix.IN_NONBLOCK | unix.IN_CLOEXEC)
	if err != nil {
		return nil, err
	}
	w := &incWatch{fd: fd, wds: map[int32]string{}}
	for _, d := range []string{"P", "P/E", "P/E/sub", "P/other"} {
		wd, err := unix.InotifyAddWatch(fd, filepath.Join(tr.root, d), unix.IN_OPEN|unix.IN_ACCESS)
		if err != nil {
			return nil, err
		}
		w.wds[int32(wd)] = d
	}
	return w, nil
}

func (w *incWatch) drain() map[string]bool {
	opened := map[string]bool{}
	buf := make([]byte, 64*1024)
	for {
		n, err := unix.Read(w.fd, buf)
		if n <= 0 || err != nil {
			break
		}
		off := 0
		for off+unix.SizeofInotifyEvent <= n {
			ev := (*unix.InotifyEvent)(unsafe.Pointer(&buf[off]))
			nameLen := int(ev.Len)
			name := strings.TrimRight(string(buf[off+unix.SizeofInotifyEvent:off+unix.SizeofInotifyEvent+nameLen]), "\x00")
			if name != "" && ev.Mask&unix.IN_ISDIR == 0 {
				opened[filepath.Join(w.wds[ev.Wd], name)] = true
			}
			off += unix.SizeofInotifyEvent + nameLen
		}
	}
	return opened
}

func (w *incWatch) close() { _ = unix.Close(w.fd) }

func TestVerifC17Include(t *testing.T) {
	vecs, err := verifutil.ReadLines[incVector]("VERIF_IN")
	if err != nil {
		t.Fatal(err)
	}
	res := verifutil.NewResult()
	defer func() {
		if err := res.Write(); err != nil {
			t.Fatal(err)
		}
	}()
	tr := newIncTree(t)
	w, err := newIncWatch(tr)
	if err != nil {
		res.Note("inotify unavailable: " + err.Error())
		t.Fatal(err)
	}
	defer w.close()
	rel := map[string]string{"main": "P/E/main.dae", "a": "P/E/a.dae", "z": "P/E/z.dae", "c": "P/E/c.conf", "b": "P/E/sub/b.dae", "p": "P/p.dae", "o": "P/other/o.dae"}
	allowed := map[string]bool{"P/E/main.dae": true, "P/E/a.dae": true, "P/E/z.dae": true, "P/E/sub/b.dae": true}
	for vi, v := range vecs {
		res.Case()
		if err := tr.write(v.Inc, v.Odd, v.Twice); err != nil {
			t.Fatal(err)
		}
		w.drain() // forget the writes
		key := fmt.Sprintf("c17-include:main=%v;a=%v;b=%v;odd=%s;twice=%s", v.Inc["main"], v.Inc["a"], v.Inc["b"], v.Odd, v.Twice)
		repl := map[string]any{"includes": v.Inc, "file_with_unknown_section": v.Odd, "file_with_two_routing_blocks": v.Twice}
		if vi < 2 {
			res.Sample(repl)
		}
		var sections []*config_parser.Section
		var merr error
		func() {
			defer func() {
				if r := recover(); r != nil {
					merr = fmt.Errorf("PANIC: %v", r)
					res.Failf(key+"|panic", repl, "Merge crashed on include lists %v: %v", v.Inc, r)
				}
			}()
			sections, _, merr = NewMerger(tr.path["main"]).Merge()
		}()
		opened := w.drain()
		res.Eval(2)
		// (1) confinement: nothing outside the entry directory and no non-.dae file is opened, whatever the outcome
		for f := range opened {
			if !allowed[f] {
				res.Failf(key+"|read:"+f, repl, "include lists %v: the merger opened %s (outside the entry configuration directory, or not a .dae file)", v.Inc, f)
			}
		}
		// (2) outcome
		if v.Err != "" {
			if merr == nil && !v.Diamond {
				res.Failf(key, repl, "include lists %v must be rejected (%s) but were merged", v.Inc, v.Err)
			}
			continue
		}
		if merr != nil {
			res.Failf(key, repl, "include lists %v: unexpected error %v", v.Inc, merr)
			continue
		}
		// merge order per section = depth-first pre-order of the files
		for _, sec := range sections {
			if sec.Name != "global" && sec.Name != "routing" {
				continue
			}
			var got []string
			for _, it := range sec.Items {
				switch x := it.Value.(type) {
				case *config_parser.Param:
					if x.Key == "marker" {
						got = append(got, x.Val)
					}
				case *config_parser.RoutingRule:
					got = append(got, x.AndFunctions[0].Params[0].Val)
				}
			}
			want := v.Order
			if sec.Name == "routing" {
				want = v.Rules
			}
			if strings.Join(got, ",") != strings.Join(want, ",") {
				res.Failf(key+"|order", repl, "include lists %v (file %q spells routing in two blocks): section %s merged in order %v, what is written gives %v", v.Inc, v.Twice, sec.Name, got, want)
			}
		}
		// the typed configuration holds exactly the rules that are written, in order (whatever the shape of the merged section list)
		if v.Odd == "none" {
			var typed []*config_parser.Section
			for _, sec := range sections {
				g := &config_parser.Section{Name: sec.Name}
				for _, it := range sec.Items {
					if pr, ok := it.Value.(*config_parser.Param); ok && pr.Key == "marker" {
						continue
					}
					g.Items = append(g.Items, it)
				}
				typed = append(typed, g)
			}
			res.Eval(1)
			conf, nerr := New(typed)
			if nerr != nil {
				res.Failf(key+"|typed", repl, "include lists %v (file %q spells routing in two blocks): config.New rejects the merged sections: %v", v.Inc, v.Twice, nerr)
			} else {
				var got []string
				for _, r := range conf.Routing.Rules {
					if len(r.AndFunctions) > 0 && len(r.AndFunctions[0].Params) > 0 {
						got = append(got, r.AndFunctions[0].Params[0].Val)
					}
				}
				var wantLan []string
				for _, f := range v.Order {
					wantLan = append(wantLan, "if_"+f)
				}
				if strings.Join(conf.Global.LanInterface, ",") != strings.Join(wantLan, ",") {
					res.Failf(key+"|list", repl, "include lists %v: every file gives lan_interface once; the typed configuration holds %v, what is written gives %v (a key that may be repeated accumulates its values in merge order)", v.Inc, conf.Global.LanInterface, wantLan)
				}
				if strings.Join(got, ",") != strings.Join(v.Rules, ",") {
					res.Failf(key+"|rules", repl, "include lists %v (file %q spells routing in two blocks): the typed configuration holds the routing rules %v, what is written gives %v", v.Inc, v.Twice, got, v.Rules)
				}
			}
		}
		// a section of unknown name is carried through the merge, from whichever file it comes, and then rejected by config.New
		hasOdd := false
		for _, sec := range sections {
			if sec.Name == "routng" {
				hasOdd = true
			}
		}
		res.Eval(1)
		if hasOdd != v.OddMerged {
			res.Failf(key+"|odd", repl, "include lists %v, file %s carries a section named routng: after merging the section is present=%v, expected %v (an unknown section must reach config.New, which rejects it)", v.Inc, v.Odd, hasOdd, v.OddMerged)
		} else if v.OddMerged {
			// (the marker items are instrumentation of this harness, not dae keys: taken out before the typed layer sees the sections)
			var typed []*config_parser.Section
			for _, sec := range sections {
				if sec.Name != "global" {
					typed = append(typed, sec)
					continue
				}
				g := &config_parser.Section{Name: sec.Name}
				for _, it := range sec.Items {
					if pr, ok := it.Value.(*config_parser.Param); ok && pr.Key == "marker" {
						continue
					}
					g.Items = append(g.Items, it)
				}
				typed = append(typed, g)
			}
			if _, nerr := New(typed); nerr == nil || !strings.Contains(nerr.Error(), "routng") {
				res.Failf(key+"|oddnew", repl, "include lists %v, file %s carries a section named routng: config.New answered %v, expected a rejection naming it", v.Inc, v.Odd, nerr)
			}
		}
		// every file the merge needed was indeed one of the allowed ones (sanity of the vector)
		for _, f := range v.Reads {
			if !allowed[rel[f]] {
				t.Fatalf("vector expects a read of %s", f)
			}
		}
	}
}
