//go:build verif

package cmd

import (
	"fmt"
	"go/ast"
	"go/parser"
	"go/token"
	"math/rand"
	"runtime"
	"strings"
	"sync"
	"sync/atomic"
	"testing"
	"time"
	_ "unsafe"

	"github.com/daeuniverse/dae/common/consts"
	_ "github.com/daeuniverse/dae/component/outbound/dialer"
	"github.com/daeuniverse/dae/pkg/verifutil"
)

//go:linkname c20SuppressCounter github.com/daeuniverse/dae/component/outbound/dialer.reloadProxyFailureSuppression
var c20SuppressCounter atomic.Int32

// ---- gate scheduler (actors are identified explicitly, no goroutine ids needed) ------------------------------

type c20Actor struct {
	name    string
	arrive  chan string
	release chan struct{}
	at      string
}

type c20World struct {
	m         *reloadManager
	mu        sync.Mutex
	progress  byte
	progLog   []byte
	free      atomic.Bool
	timeout   time.Duration
	main, wkr *c20Actor
	waiters   []*c20Actor
	waiterCh  []chan struct{} // retirement channels, in spawn order
	pendingCh chan struct{}
	// replay: a retirement the model has completed (RetireDone) whose channel is closed for real only when the model lets
	// the waiter wake (RWake) - the waiter's first statement, flag.Store(false), has no gate in front of it
	retired map[chan struct{}]bool
}

func newC20Actor(name string) *c20Actor {
	return &c20Actor{name: name, arrive: make(chan string, 8), release: make(chan struct{}, 1)}
}

// park blocks the calling actor at a gate until the scheduler releases it
func (w *c20World) park(a *c20Actor, gate string) {
	if w.free.Load() || a == nil {
		return
	}
	a.arrive <- gate
	<-a.release
}

// idle reports that the actor finished its composite call (it does not block: the next command follows)
func (w *c20World) idle(a *c20Actor) {
	if w.free.Load() {
		return
	}
	a.arrive <- "idle"
}

func (w *c20World) step(a *c20Actor) string {
	a.at = ""
	a.release <- struct{}{}
	select {
	case g := <-a.arrive:
		a.at = g
		return g
	case <-time.After(w.timeout):
		return ""
	}
}

func (w *c20World) await(a *c20Actor) string {
	select {
	case g := <-a.arrive:
		a.at = g
		return g
	case <-time.After(w.timeout):
		return ""
	}
}

// The real code calls these package-level function variables; the harness turns them into gates.
// Which actor is calling is known through a goroutine-keyed registry.
var c20Reg sync.Map // goroutine id -> *c20Actor

func c20Bind(a *c20Actor)   { c20Reg.Store(c20Goid(), a) }
func c20Current() *c20Actor {
	if v, ok := c20Reg.Load(c20Goid()); ok {
		return v.(*c20Actor)
	}
	return nil
}

func (w *c20World) install() (restore func()) {
	oldBegin, oldEnd, oldSet, oldGet := beginReloadProxyFailureSuppression, endReloadProxyFailureSuppression, setRunSignalProgress, getRunSignalProgress
	beginReloadProxyFailureSuppression = func() {
		w.park(c20Current(), "begin")
		oldBegin()
	}
	endReloadProxyFailureSuppression = func() {
		a := c20Current()
		if a == nil && !w.free.Load() {
			// a goroutine spawned by releaseReloadPendingAfterRetirement: register it as a waiter actor
			a = w.adoptWaiter()
		}
		w.park(a, "end")
		oldEnd()
	}
	setRunSignalProgress = func(code byte, content string) error {
		w.park(c20Current(), "set:"+string(code))
		w.mu.Lock()
		w.progress = code
		w.progLog = append(w.progLog, code)
		w.mu.Unlock()
		return nil
	}
	getRunSignalProgress = func() (byte, string, error) {
		w.park(c20Current(), "get")
		w.mu.Lock()
		defer w.mu.Unlock()
		return w.progress, "", nil
	}
	return func() {
		beginReloadProxyFailureSuppression, endReloadProxyFailureSuppression, setRunSignalProgress, getRunSignalProgress = oldBegin, oldEnd, oldSet, oldGet
	}
}

var c20NewWaiter = make(chan *c20Actor, 16)

func (w *c20World) adoptWaiter() *c20Actor {
	a := newC20Actor(fmt.Sprintf("waiter%d", len(w.waiters)+1))
	c20Bind(a)
	c20NewWaiter <- a
	return a
}

// ---- skeletons of the two goroutines of cmd/run.go, built from the real primitives -----------------------------

type c20Cmd struct {
	op  string
	arg bool
}

// main loop goroutine: signals and the completion of a reload run on it
func (w *c20World) mainLoop(cmds <-chan c20Cmd) {
	c20Bind(w.main)
	for c := range cmds {
		switch c.op {
		case "signal":
			w.m.queueReloadRequest(nil, reloadRequest{isSuspend: c.arg, requestedAt: time.Now()})
		case "take":
			<-w.m.runStateChanges
		case "failError":
			_ = setRunSignalProgress(consts.ReloadError, "x")
		case "finishFailure":
			w.m.finishReloadFailure()
		case "okProgress":
			if c.arg && w.pendingChIsNil() {
				w.startRetirement() // staged hand-off: the retirement of the old generation starts here
			}
			_ = setRunSignalProgress(consts.ReloadDone, "OK")
		case "finishSuccess":
			w.m.finishReloadSuccess()
		}
		w.idle(w.main)
	}
}

func (w *c20World) pendingChIsNil() bool {
	w.m.mu.Lock()
	defer w.m.mu.Unlock()
	return w.m.pendingRetirementDone == nil
}

// what startControlPlaneRetirement publishes: a channel closed when the old generation has retired
func (w *c20World) startRetirement() {
	ch := make(chan struct{})
	w.m.mu.Lock()
	w.m.pendingRetirementDone = ch
	w.m.mu.Unlock()
	w.mu.Lock()
	w.pendingCh = ch
	w.mu.Unlock()
}

// reload worker goroutine
func (w *c20World) worker(cmds <-chan c20Cmd) {
	c20Bind(w.wkr)
	var req reloadRequest
	for c := range cmds {
		switch c.op {
		case "dequeue":
			req = <-w.m.reloadReqs
		case "active":
			w.m.reloadActive.Store(true)
		case "coalesce":
			req = w.m.coalesceReloadRequest(req)
		case "processing":
			_ = setRunSignalProgress(consts.ReloadProcessing, "")
		case "failError":
			_ = setRunSignalProgress(consts.ReloadError, "x")
		case "failInactive":
			w.m.reloadActive.Store(false)
		case "clearPending":
			clearReloadPending(&w.m.reloadPending)
		case "handoff":
			w.m.clearPendingRetirement()
			w.mu.Lock()
			w.pendingCh = nil
			w.mu.Unlock()
			if c.arg {
				w.startRetirement()
			}
			w.m.beginHandoff()
		}
		w.idle(w.wkr)
	}
	_ = req
}

type c20Obs struct {
	Pending, Active, Reloading bool
	Suppress                   int32
	Chan                       int
	Progress                   byte
}

func (w *c20World) observe() c20Obs {
	w.mu.Lock()
	p := w.progress
	w.mu.Unlock()
	return c20Obs{Pending: w.m.reloadPending.Load(), Active: w.m.reloadActive.Load(), Reloading: w.m.reloading.Load(),
		Suppress: c20SuppressCounter.Load(), Chan: len(w.m.reloadReqs), Progress: p}
}

// ---- replay of Reload.tla behaviours ----------------------------------------------------------------------------

type c20Action struct {
	A      string `json:"a"`
	Retire bool   `json:"retire"`
	W      int    `json:"w"`
}
type c20Behaviour struct {
	Schedule  []c20Action `json:"schedule"`
	Pending   bool        `json:"pending"`
	Active    bool        `json:"active"`
	Reloading bool        `json:"reloading"`
	Suppress  int32       `json:"suppress"`
	Progress  string      `json:"progress"`
	Origin    string      `json:"origin"`
}

type c20Run struct {
	w              *c20World
	mainCmd, wCmd  chan c20Cmd
	restore        func()
	admittedSeen   int
	refusedChanged []string
}

func newC20Run() *c20Run {
	c20SuppressCounter.Store(0)
	w := &c20World{timeout: 60 * time.Second}
	w.m = newReloadManager(make(chan reloadRequest, 1), make(chan struct{}, 1), nil)
	w.progress = consts.ReloadDone
	w.main, w.wkr = newC20Actor("main"), newC20Actor("worker")
	for len(c20NewWaiter) > 0 {
		<-c20NewWaiter
	}
	r := &c20Run{w: w, mainCmd: make(chan c20Cmd), wCmd: make(chan c20Cmd)}
	r.restore = w.install()
	go w.mainLoop(r.mainCmd)
	go w.worker(r.wCmd)
	return r
}

func (r *c20Run) close() {
	r.w.free.Store(true)
	// retirements the history left unfinished: let their waiters go
	for _, ch := range append(append([]chan struct{}(nil), r.w.waiterCh...), r.w.pendingCh) {
		if ch == nil {
			continue
		}
		select {
		case <-ch:
		default:
			close(ch)
		}
	}
	for _, a := range append([]*c20Actor{r.w.main, r.w.wkr}, r.w.waiters...) {
		select {
		case a.release <- struct{}{}:
		default:
		}
	}
	close(r.mainCmd)
	close(r.wCmd)
	time.Sleep(time.Millisecond)
	r.restore()
}

// issue starts a composite call on an idle actor and returns the first gate it reaches
func (r *c20Run) issue(a *c20Actor, ch chan c20Cmd, c c20Cmd) string {
	select {
	case ch <- c:
	case <-time.After(r.w.timeout):
		return "" // the actor is not idle (still inside a previous call)
	}
	return r.w.await(a)
}

// closedRetirements: every retirement channel handed to finishReloadSuccess has a goroutine waiting on it; once the
// channel is closed that goroutine WILL reach the end-suppression gate. The harness waits for exactly those - no
// timing assumptions (a short poll made the check depend on machine load).
func (r *c20Run) closedRetirements() int {
	n := 0
	for _, ch := range r.w.waiterCh {
		select {
		case <-ch:
			n++
		default:
		}
	}
	return n
}

func (r *c20Run) collectWaiters() {
	want := r.closedRetirements()
	deadline := time.After(r.w.timeout)
	for len(r.w.waiters) < want {
		select {
		case a := <-c20NewWaiter:
			r.w.await(a) // parks at "end"
			r.w.waiters = append(r.w.waiters, a)
		case <-deadline:
			return
		}
	}
}

// continueWaiter releases a waiter goroutine from its gate and waits for what it does next. After the "get" gate the
// goroutine either rewrites a rejected (busy) progress to done - one more gate - or returns; which of the two follows from
// the progress value it was just handed.
func (r *c20Run) continueWaiter(a *c20Actor) string {
	from := a.at
	r.w.mu.Lock()
	busy := r.w.progress == consts.ReloadBusy
	r.w.mu.Unlock()
	a.at = ""
	a.release <- struct{}{}
	if from == "get" && !busy {
		a.at = "done"
		return "done"
	}
	g := r.w.await(a)
	if g == "" {
		return ""
	}
	if from == "get" || strings.HasPrefix(from, "set:") {
		// the last gate of the goroutine: let it finish
		if strings.HasPrefix(g, "set:") {
			r.w.mu.Lock()
			n := len(r.w.progLog)
			r.w.mu.Unlock()
			a.release <- struct{}{}
			// the write happens after the gate: wait for it (it WILL happen; no timing assumption)
			for deadline := time.Now().Add(r.w.timeout); time.Now().Before(deadline); {
				r.w.mu.Lock()
				done := len(r.w.progLog) > n
				r.w.mu.Unlock()
				if done {
					break
				}
				time.Sleep(20 * time.Microsecond)
			}
		}
		a.at = "done"
		return "done"
	}
	return g
}

// do performs one model action; returns a drift description or ""
func (r *c20Run) do(act c20Action) string {
	w := r.w
	exp := func(got string, want ...string) string {
		for _, x := range want {
			if got == x {
				return ""
			}
		}
		return fmt.Sprintf("%s: reached gate %q, model expects one of %v", act.A, got, want)
	}
	switch act.A {
	case "SigCas":
		before := w.observe()
		g := r.issue(w.main, r.mainCmd, c20Cmd{op: "signal"})
		if g == "set:"+string(consts.ReloadBusy) {
			after := w.observe()
			if before.Pending != after.Pending || before.Active != after.Active || before.Reloading != after.Reloading || before.Suppress != after.Suppress || before.Chan != after.Chan {
				r.refusedChanged = append(r.refusedChanged, fmt.Sprintf("before %+v after %+v", before, after))
			}
		}
		return exp(g, "begin", "set:"+string(consts.ReloadBusy))
	case "SigBegin":
		return exp(w.step(w.main), "idle")
	case "SigSend":
		return ""
	case "SigBusy":
		before := w.observe()
		g := w.step(w.main)
		after := w.observe()
		if before.Pending != after.Pending || before.Active != after.Active || before.Reloading != after.Reloading || before.Suppress != after.Suppress || before.Chan != after.Chan {
			r.refusedChanged = append(r.refusedChanged, fmt.Sprintf("before %+v after %+v", before, after))
		}
		// the refused request looks at the admission flag again right after its report (no gate in between): when the flag
		// is clear it goes on to clear the report and is now parked before reading the progress file
		if g == "get" {
			return ""
		}
		return exp(g, "idle")
	case "SigLoad":
		return "" // happened together with SigBusy (see there)
	case "SigClear":
		if w.main.at != "get" {
			return "SigClear: the real handler is not about to clear its busy report (at " + w.main.at + ")"
		}
		before := w.observe()
		g := w.step(w.main)
		if g == "set:"+string(consts.ReloadDone) {
			g = w.step(w.main)
		}
		after := w.observe()
		if before.Pending != after.Pending || before.Active != after.Active || before.Reloading != after.Reloading || before.Suppress != after.Suppress || before.Chan != after.Chan {
			r.refusedChanged = append(r.refusedChanged, fmt.Sprintf("before %+v after %+v", before, after))
		}
		return exp(g, "idle")
	case "WDequeue":
		if len(w.m.reloadReqs) == 0 {
			return "WDequeue: the real channel is empty"
		}
		return exp(r.issue(w.wkr, r.wCmd, c20Cmd{op: "dequeue"}), "idle")
	case "WActive":
		return exp(r.issue(w.wkr, r.wCmd, c20Cmd{op: "active"}), "idle")
	case "WCoalesce":
		return exp(r.issue(w.wkr, r.wCmd, c20Cmd{op: "coalesce"}), "idle")
	case "WProcessing":
		g := r.issue(w.wkr, r.wCmd, c20Cmd{op: "processing"})
		if d := exp(g, "set:"+string(consts.ReloadProcessing)); d != "" {
			return d
		}
		return exp(w.step(w.wkr), "idle")
	case "WFailError":
		g := r.issue(w.wkr, r.wCmd, c20Cmd{op: "failError"})
		if d := exp(g, "set:"+string(consts.ReloadError)); d != "" {
			return d
		}
		return exp(w.step(w.wkr), "idle")
	case "WFailInactive":
		return exp(r.issue(w.wkr, r.wCmd, c20Cmd{op: "failInactive"}), "idle")
	case "WCp1":
		return exp(r.issue(w.wkr, r.wCmd, c20Cmd{op: "clearPending"}), "end")
	case "WCp2":
		return exp(w.step(w.wkr), "get")
	case "WCp3":
		g := w.step(w.wkr)
		if g == "set:"+string(consts.ReloadDone) {
			g = w.step(w.wkr)
		}
		return exp(g, "idle")
	case "WHandoff":
		return exp(r.issue(w.wkr, r.wCmd, c20Cmd{op: "handoff", arg: act.Retire}), "idle")
	case "MTake":
		if len(w.m.runStateChanges) == 0 {
			return "MTake: no run-state change is queued in the real manager"
		}
		return exp(r.issue(w.main, r.mainCmd, c20Cmd{op: "take"}), "idle")
	case "MFailError":
		g := r.issue(w.main, r.mainCmd, c20Cmd{op: "failError"})
		if d := exp(g, "set:"+string(consts.ReloadError)); d != "" {
			return d
		}
		return exp(w.step(w.main), "idle")
	case "MFailFlags":
		return exp(r.issue(w.main, r.mainCmd, c20Cmd{op: "finishFailure"}), "end")
	case "MCp2", "MSCp2":
		return exp(w.step(w.main), "get")
	case "MCp3", "MSCp3":
		g := w.step(w.main)
		if g == "set:"+string(consts.ReloadDone) {
			g = w.step(w.main)
		}
		return exp(g, "idle")
	case "MOkProgress":
		g := r.issue(w.main, r.mainCmd, c20Cmd{op: "okProgress", arg: act.Retire})
		if d := exp(g, "set:"+string(consts.ReloadDone)); d != "" {
			return d
		}
		return exp(w.step(w.main), "idle")
	case "MOkFlags":
		w.mu.Lock()
		ch := w.pendingCh
		w.pendingCh = nil
		w.mu.Unlock()
		g := r.issue(w.main, r.mainCmd, c20Cmd{op: "finishSuccess"})
		if ch != nil {
			w.waiterCh = append(w.waiterCh, ch)
			return exp(g, "idle")
		}
		return exp(g, "end")
	case "RetireDone":
		if w.retired == nil {
			w.retired = map[chan struct{}]bool{}
		}
		if act.W == 0 {
			w.mu.Lock()
			ch := w.pendingCh
			w.mu.Unlock()
			if ch == nil {
				return "RetireDone: no pending retirement channel"
			}
			w.retired[ch] = true
			// stays the pending channel until finishReloadSuccess takes it
			return ""
		}
		if act.W-1 >= len(w.waiterCh) {
			return "RetireDone: unknown waiter"
		}
		w.retired[w.waiterCh[act.W-1]] = true
		return ""
	case "RWake":
		// the retirement channel is closed now: the waiter goroutine wakes, clears the admission flag and runs to the
		// EndSuppression gate
		if act.W-1 >= len(w.waiterCh) {
			return "RWake: unknown waiter"
		}
		if ch := w.waiterCh[act.W-1]; w.retired[ch] {
			delete(w.retired, ch)
			close(ch)
		} else {
			return "RWake: the retirement of this waiter has not completed in the real run"
		}
		r.collectWaiters()
		if act.W-1 >= len(w.waiters) {
			return "RWake: the waiter goroutine did not show up"
		}
		return exp(w.waiters[act.W-1].at, "end")
	case "RCp2":
		return exp(r.continueWaiter(w.waiters[act.W-1]), "get")
	case "RCp3":
		return exp(r.continueWaiter(w.waiters[act.W-1]), "done")
	}
	return "unknown action " + act.A
}

var c20ProgressName = map[byte]string{consts.ReloadSend: "send", consts.ReloadProcessing: "processing", consts.ReloadDone: "done", consts.ReloadError: "error", consts.ReloadBusy: "busy"}

func TestVerifC20Replay(t *testing.T) {
	bs, err := verifutil.ReadLines[c20Behaviour]("VERIF_IN")
	if err != nil {
		t.Fatal(err)
	}
	res := verifutil.NewResult()
	defer func() {
		if err := res.Write(); err != nil {
			t.Fatal(err)
		}
	}()
	for bi, b := range bs {
		res.Case()
		r := newC20Run()
		var names []string
		drift := ""
		for si, act := range b.Schedule {
			names = append(names, act.A)
			if d := r.do(act); d != "" {
				drift = fmt.Sprintf("step %d %s", si, d)
				break
			}
		}
		key := "c20:" + strings.Join(names, ",")
		if bi < 2 {
			res.Sample(strings.Join(names, " "))
		}
		if drift != "" {
			res.AddDrift(fmt.Sprintf("[%s] %s", b.Origin, drift))
			res.Count("drift", 1)
		} else {
			// (a schedule of the model variant without the re-check ends with the real handler still inside its refusal: let it finish)
			for i := 0; i < 3 && (r.w.main.at == "get" || strings.HasPrefix(r.w.main.at, "set:")); i++ {
				r.w.step(r.w.main)
			}
			// quiescent end state of the behaviour: the property layer on the real objects
			o := r.w.observe()
			res.Eval(1)
			if o.Pending || o.Active || o.Reloading || o.Suppress != 0 || o.Chan != 0 {
				res.Failf(key, names, "after schedule %v the real reload manager is left with pending=%v active=%v reloading=%v suppression=%d queued=%d (all must be clear once everything has settled)", names, o.Pending, o.Active, o.Reloading, o.Suppress, o.Chan)
			}
			// ... and the progress file says Done or Error: 'dae reload' / 'dae suspend' refuse to signal on anything else
			if o.Progress != consts.ReloadDone && o.Progress != consts.ReloadError {
				res.Failf(key+"|progress", names, "after schedule %v everything has settled but the progress file is left at %q: 'dae reload' and 'dae suspend' will refuse to send a new request", names, c20ProgressName[o.Progress])
			}
			if o.Pending != b.Pending || o.Active != b.Active || o.Reloading != b.Reloading || o.Suppress != b.Suppress {
				res.AddDrift(fmt.Sprintf("end state differs from the model: real %+v model %+v", o, b))
			}
		}
		for _, c := range r.refusedChanged {
			res.Failf(key+"|refused", names, "a refused request changed the manager state: %s", c)
		}
		r.close()
	}
}

// ---- random gated walks on the real primitives: schedules not taken from the model ---------------------------------

func TestVerifC20RandomWalk(t *testing.T) {
	res := verifutil.NewResult()
	defer func() {
		if err := res.Write(); err != nil {
			t.Fatal(err)
		}
	}()
	rng := rand.New(rand.NewSource(verifutil.Seed()))
	walks := verifutil.EnvInt("VERIF_C20_WALKS", 400)
	for wi := 0; wi < walks; wi++ {
		r := newC20Run()
		w := r.w
		w.timeout = 60 * time.Second
		signals := 3
		var trail []string
		// per-actor continuation: what the actor does next when chosen
		wStage := "idle" // idle, got, active, coalesced, processing, work, failed1, failed2, clearing
		mStage := "idle" // idle, taken, failed1, finishing, ok1
		dead := false
		lastActor := ""
		inflightMax := 0
		for step := 0; step < 200 && !dead; step++ {
			r.collectWaiters()
			type opt struct {
				name string
				run  func() string
			}
			var opts []opt
			add := func(name string, f func() string) { opts = append(opts, opt{name, f}) }
			// main goroutine
			switch {
			case w.main.at != "" && w.main.at != "idle":
				add("main.continue", func() string { return w.step(w.main) })
			case mStage == "idle":
				if signals > 0 {
					add("main.signal", func() string {
						signals--
						return r.issue(w.main, r.mainCmd, c20Cmd{op: "signal", arg: rng.Intn(2) == 0})
					})
				}
				if len(w.m.runStateChanges) > 0 && w.m.reloading.Load() {
					add("main.take", func() string { mStage = "taken"; return r.issue(w.main, r.mainCmd, c20Cmd{op: "take"}) })
				}
			case mStage == "taken":
				add("main.failError", func() string { mStage = "failed1"; return r.issue(w.main, r.mainCmd, c20Cmd{op: "failError"}) })
				add("main.okProgress", func() string {
					mStage = "ok1"
					return r.issue(w.main, r.mainCmd, c20Cmd{op: "okProgress", arg: rng.Intn(2) == 0})
				})
			case mStage == "failed1":
				add("main.finishFailure", func() string { mStage = "idle"; return r.issue(w.main, r.mainCmd, c20Cmd{op: "finishFailure"}) })
			case mStage == "ok1":
				add("main.finishSuccess", func() string {
					mStage = "idle"
					w.mu.Lock()
					ch := w.pendingCh
					w.pendingCh = nil
					w.mu.Unlock()
					if ch != nil {
						w.waiterCh = append(w.waiterCh, ch)
					}
					return r.issue(w.main, r.mainCmd, c20Cmd{op: "finishSuccess"})
				})
			}
			// worker goroutine
			switch {
			case w.wkr.at != "" && w.wkr.at != "idle":
				add("worker.continue", func() string { return w.step(w.wkr) })
			case wStage == "idle":
				if len(w.m.reloadReqs) > 0 {
					add("worker.dequeue", func() string { wStage = "got"; return r.issue(w.wkr, r.wCmd, c20Cmd{op: "dequeue"}) })
				}
			case wStage == "got":
				add("worker.active", func() string { wStage = "active"; return r.issue(w.wkr, r.wCmd, c20Cmd{op: "active"}) })
			case wStage == "active":
				add("worker.coalesce", func() string { wStage = "coalesced"; return r.issue(w.wkr, r.wCmd, c20Cmd{op: "coalesce"}) })
			case wStage == "coalesced":
				add("worker.processing", func() string { wStage = "work"; return r.issue(w.wkr, r.wCmd, c20Cmd{op: "processing"}) })
			case wStage == "work":
				add("worker.failError", func() string { wStage = "failed1"; return r.issue(w.wkr, r.wCmd, c20Cmd{op: "failError"}) })
				add("worker.handoff", func() string {
					wStage = "idle"
					return r.issue(w.wkr, r.wCmd, c20Cmd{op: "handoff", arg: rng.Intn(2) == 0})
				})
			case wStage == "failed1":
				add("worker.failInactive", func() string { wStage = "failed2"; return r.issue(w.wkr, r.wCmd, c20Cmd{op: "failInactive"}) })
			case wStage == "failed2":
				add("worker.clearPending", func() string { wStage = "idle"; return r.issue(w.wkr, r.wCmd, c20Cmd{op: "clearPending"}) })
			}
			// retirement completions and waiter goroutines
			w.mu.Lock()
			pch := w.pendingCh
			w.mu.Unlock()
			if pch != nil {
				select {
				case <-pch:
				default:
					add("retire.pending", func() string { close(pch); return "ok" })
				}
			}
			for i, ch := range w.waiterCh {
				ch := ch
				select {
				case <-ch:
				default:
					add(fmt.Sprintf("retire.held%d", i+1), func() string { close(ch); return "ok" })
				}
			}
			for _, a := range w.waiters {
				a := a
				if a.at != "" && a.at != "done" {
					add(a.name+".continue", func() string { return r.continueWaiter(a) })
				}
			}
			if len(opts) == 0 {
				break
			}
			// sticky choice: keep running the same goroutine with probability 3/4, so that one goroutine can
			// get through many steps while another one is parked inside a primitive (long preemption windows)
			o := opts[rng.Intn(len(opts))]
			if lastActor != "" && rng.Intn(4) != 0 {
				for _, c := range opts {
					if strings.HasPrefix(c.name, lastActor) {
						o = c
						break
					}
				}
			}
			lastActor = o.name[:strings.IndexByte(o.name, '.')+1]
			g := o.run()
			trail = append(trail, o.name)
			if g == "" {
				res.Note(fmt.Sprintf("walk %d: %s did not reach a gate", wi, o.name))
				dead = true
			}
			// AtMostOne on the real objects: queued + being worked on + being finished
			inflight := len(w.m.reloadReqs)
			if wStage != "idle" {
				inflight++
			}
			if w.m.reloading.Load() || mStage != "idle" {
				inflight++
			}
			if inflight > inflightMax {
				inflightMax = inflight
			}
		}
		if !dead {
			res.Case()
			// let everything settle: close all retirement channels, run every parked actor to the end
			w.free.Store(true)
			w.mu.Lock()
			if w.pendingCh != nil {
				select {
				case <-w.pendingCh:
				default:
					close(w.pendingCh)
				}
			}
			w.mu.Unlock()
			for _, ch := range w.waiterCh {
				select {
				case <-ch:
				default:
					close(ch)
				}
			}
			for _, a := range append([]*c20Actor{w.main, w.wkr}, w.waiters...) {
				select {
				case a.release <- struct{}{}:
				default:
				}
			}
			time.Sleep(2 * time.Millisecond)
			quiescentWorker := wStage == "idle" && mStage == "idle" && len(w.m.reloadReqs) == 0 && !w.m.reloading.Load()
			o := w.observe()
			key := fmt.Sprintf("c20-walk:seed%d:%d", verifutil.Seed(), wi)
			res.Eval(2)
			if inflightMax > 1 {
				res.Failf(key+"|atmostone", trail, "walk %v: %d reload requests were in progress at the same time", trail, inflightMax)
			}
			if quiescentWorker && (o.Pending || o.Active || o.Suppress != 0) {
				res.Failf(key+"|wedged", trail, "walk %v: everything has settled but pending=%v active=%v suppression=%d", trail, o.Pending, o.Active, o.Suppress)
			}
			if quiescentWorker && !o.Pending && o.Progress != consts.ReloadDone && o.Progress != consts.ReloadError {
				res.Failf(key+"|progress", trail, "walk %v: everything has settled but the progress file is left at %q: 'dae reload' and 'dae suspend' will refuse to send a new request", trail, c20ProgressName[o.Progress])
			}
			for _, c := range r.refusedChanged {
				res.Failf(key+"|refused", trail, "a refused request changed the manager state: %s", c)
			}
			if wi < 1 {
				res.Sample(strings.Join(trail, " "))
			}
		}
		close(r.mainCmd)
		close(r.wCmd)
		time.Sleep(200 * time.Microsecond)
		r.restore()
	}
}

// ---- static binding: the failure branches of the reload worker in run.go perform the modelled sequence -----------

type c20Path struct {
	Line   int      `json:"line"`
	Events []string `json:"events"`
}

func c20CallName(e ast.Expr) string {
	switch x := e.(type) {
	case *ast.Ident:
		return x.Name
	case *ast.SelectorExpr:
		return c20CallName(x.X) + "." + x.Sel.Name
	case *ast.UnaryExpr:
		return x.Op.String() + c20CallName(x.X)
	}
	return "?"
}

func TestVerifC20StaticPaths(t *testing.T) {
	res := verifutil.NewResult()
	defer func() {
		if err := res.Write(); err != nil {
			t.Fatal(err)
		}
	}()
	fset := token.NewFileSet()
	f, err := parser.ParseFile(fset, "run.go", nil, 0)
	if err != nil {
		t.Fatal(err)
	}
	// find `for req := range reloadManager.reloadReqs { ... }`
	var worker *ast.RangeStmt
	ast.Inspect(f, func(n ast.Node) bool {
		if r, ok := n.(*ast.RangeStmt); ok && c20CallName(r.X) == "reloadManager.reloadReqs" {
			worker = r
		}
		return true
	})
	if worker == nil {
		res.Note("reload worker loop not found in run.go (shape changed)")
		t.Fatal("worker loop not found")
	}
	interesting := map[string]string{
		"setRunSignalProgress": "progress", "reloadManager.reloadActive.Store": "active", "clearReloadPending": "clearPending",
		"reloadManager.beginHandoff": "beginHandoff", "reloadManager.finishReloadFailure": "finishFailure", "reloadManager.finishReloadSuccess": "finishSuccess",
	}
	var events func(stmts []ast.Stmt) []string
	events = func(stmts []ast.Stmt) []string {
		var out []string
		for _, s := range stmts {
			ast.Inspect(s, func(n ast.Node) bool {
				if _, ok := n.(*ast.FuncLit); ok {
					return false
				}
				if _, ok := n.(*ast.BlockStmt); ok && n != s {
					return false // nested blocks are separate paths
				}
				if c, ok := n.(*ast.CallExpr); ok {
					name := c20CallName(c.Fun)
					if ev, ok := interesting[name]; ok {
						arg := ""
						if len(c.Args) > 0 {
							arg = c20CallName(c.Args[0])
							if b, ok := c.Args[0].(*ast.Ident); ok {
								arg = b.Name
							}
						}
						out = append(out, ev+"("+arg+")")
					}
				}
				return true
			})
		}
		return out
	}
	var paths []c20Path
	ast.Inspect(worker.Body, func(n ast.Node) bool {
		if _, ok := n.(*ast.FuncLit); ok {
			return false
		}
		b, ok := n.(*ast.BlockStmt)
		if !ok || len(b.List) == 0 {
			return true
		}
		if br, ok := b.List[len(b.List)-1].(*ast.BranchStmt); ok && br.Tok == token.CONTINUE && b != worker.Body {
			paths = append(paths, c20Path{Line: fset.Position(br.Pos()).Line, Events: events(b.List)})
		}
		return true
	})
	// the loop body's own tail (falls through to the next iteration)
	paths = append(paths, c20Path{Line: fset.Position(worker.Body.Rbrace).Line, Events: events(worker.Body.List)})
	if len(paths) < 3 {
		res.Note("fewer than 3 exits from the reload worker iteration found (shape changed)")
		t.Fatalf("only %d paths", len(paths))
	}
	for _, p := range paths {
		res.Case()
		res.Eval(1)
		seq := strings.Join(p.Events, " ")
		res.Sample(map[string]any{"line": p.Line, "events": p.Events})
		failTail := "progress(consts.ReloadError) active(false) clearPending(&reloadManager.reloadPending)"
		switch {
		case strings.HasSuffix(seq, failTail) && !strings.Contains(seq, "beginHandoff"):
			// failure branch: Error report, then inactive, then pending released
		case strings.Contains(seq, "beginHandoff") && !strings.Contains(seq, "clearPending") && !strings.HasSuffix(seq, "active(false)"):
			// hand-off: the main loop finishes the request
		default:
			res.Failf(fmt.Sprintf("c20-static:run.go:%d", p.Line), p, "an exit of the reload worker iteration at run.go:%d performs %q: neither the failure sequence (Error report, reloadActive=false, clearReloadPending) nor a hand-off to the main loop; the admitted request would never be settled", p.Line, seq)
		}
	}
}

func c20Goid() int64 {
	var buf [64]byte
	n := runtime.Stack(buf[:], false)
	s := string(buf[:n])
	s = strings.TrimPrefix(s, "goroutine ")
	i := strings.IndexByte(s, ' ')
	var id int64
	fmt.Sscanf(s[:i], "%d", &id)
	return id
}
