//go:build verif

package cmd

import (
	"context"
	"fmt"
	"io"
	"sync"
	"sync/atomic"
	"testing"
	"testing/synctest"
	"time"

	"github.com/daeuniverse/dae/pkg/verifutil"
	"github.com/sirupsen/logrus"
)

// vectors of spec/Retire.tla
type rtVector struct {
	R struct {
		Elapsed  int  `json:"elapsed"`
		Abort    bool `json:"abort"`
		Overlap  bool `json:"overlap"`
		Sessions bool `json:"sessions"`
		DrainAt  int  `json:"drainAt"`
		CancelAt int  `json:"cancelAt"`
	} `json:"r"`
	EndsAt    int  `json:"endsAt"`
	Aborts    bool `json:"aborts"`
	Remaining int  `json:"remaining"`
}

const rtNever = 1000000

// the old generation as the retirement sees it
type rtPlane struct {
	sessions atomic.Int32
	idle     chan struct{}
	once     sync.Once
	aborts   atomic.Int32
}

func (p *rtPlane) ActiveSessionCount() int      { return int(p.sessions.Load()) }
func (p *rtPlane) DrainIdleCh() <-chan struct{} { return p.idle }
func (p *rtPlane) AbortConnections() error      { p.aborts.Add(1); p.drain(); return nil }
func (p *rtPlane) drain()                       { p.sessions.Store(0); p.once.Do(func() { close(p.idle) }) }

func TestVerifC20Retire(t *testing.T) {
	vecs, err := verifutil.ReadLines[rtVector]("VERIF_IN")
	if err != nil {
		t.Fatal(err)
	}
	res := verifutil.NewResult()
	defer func() {
		if err := res.Write(); err != nil {
			t.Fatal(err)
		}
	}()
	log := logrus.New()
	log.SetOutput(io.Discard)
	for vi := range vecs {
		v := &vecs[vi]
		res.Case()
		if vi < 2 {
			res.Sample(v)
		}
		synctest.Test(t, func(t *testing.T) {
			requestedAt := time.Now()
			time.Sleep(time.Duration(v.R.Elapsed) * time.Second) // config load, prepare, hand-over
			budget := remainingReloadRetirementBudget(requestedAt, reloadTotalSwitchBudget)
			plane := &rtPlane{idle: make(chan struct{})}
			if v.R.Sessions {
				plane.sessions.Store(1)
			} else {
				plane.drain()
			}
			ctx, cancel := context.WithCancel(context.Background())
			defer cancel()
			start := time.Now()
			done := make(chan struct{})
			go func() {
				retireControlPlaneConnections(log, ctx, plane, v.R.Abort, v.R.Overlap, budget)
				close(done)
			}()
			if v.R.Sessions && v.R.DrainAt != rtNever {
				go func() { time.Sleep(time.Duration(v.R.DrainAt) * time.Second); plane.drain() }()
			}
			if v.R.CancelAt != rtNever {
				go func() { time.Sleep(time.Duration(v.R.CancelAt) * time.Second); cancel() }()
			}
			desc := fmt.Sprintf("retirement starting %ds after the request (abort=%v, dialer overlap=%v, live sessions=%v ending at %s, next retirement at %s)",
				v.R.Elapsed, v.R.Abort, v.R.Overlap, v.R.Sessions, rtTime(v.R.DrainAt), rtTime(v.R.CancelAt))
			key := "c20retire:" + desc
			res.Eval(1)
			select {
			case <-done:
			case <-time.After(time.Duration(v.Remaining)*time.Second + 2*time.Second):
				res.Failf(key+"|never", v, "%s: still waiting %v after it started; the switch budget left was %ds - the admission flag and the muting stay set, every later request is refused", desc, time.Since(start), v.Remaining)
				cancel()
				plane.drain()
				<-done
				return
			}
			took := time.Since(start)
			if took != time.Duration(v.EndsAt)*time.Second {
				res.Failf(key+"|when", v, "%s: ended after %v, expected %ds", desc, took, v.EndsAt)
				return
			}
			if got := plane.aborts.Load() > 0; got != v.Aborts {
				res.Failf(key+"|abort", v, "%s: left-over connections aborted=%v, expected %v", desc, got, v.Aborts)
			}
			// let the helper goroutines end inside the bubble
			cancel()
			plane.drain()
			time.Sleep(time.Duration(rtNever) * time.Second / 1000)
		})
	}
}

func rtTime(s int) string {
	if s == rtNever {
		return "never"
	}
	return fmt.Sprintf("%ds", s)
}
