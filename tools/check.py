#!/usr/bin/env python3
"""check.py <property id> quick|thorough [--replay <file>]

Decides one property of /verif/properties.jsonl for /repo's *current working tree*:
  1. TLC checks the TLA+ specification (spec/*.tla) and emits vectors / behaviours,
  2. a scratch copy of /repo is built with the harness files of /verif/harness and the `verif` build tag,
  3. the vectors/behaviours are replayed on the real code (and real executions are validated against the spec),
  4. /verif/evidence/<id>.json is written.
exit 0: property held on everything explored; 1: VIOLATION line(s) printed; 2: infrastructure failure."""
import importlib, os, sys, traceback

sys.path.insert(0, os.path.dirname(os.path.abspath(__file__)))
import vlib


def main():
    if len(sys.argv) < 3:
        print(__doc__)
        return 2
    pid, tier = sys.argv[1], sys.argv[2]
    tier = os.environ.get("VERIF_TIER", tier)
    replay = None
    if "--replay" in sys.argv:
        replay = sys.argv[sys.argv.index("--replay") + 1]
    try:
        mod = importlib.import_module("props." + pid)
    except ImportError as e:
        print("no check for", pid, e, file=sys.stderr)
        return 2
    ev = os.path.join(vlib.EVID, pid + ".json")
    if os.path.exists(ev):
        os.remove(ev)
    v = vlib.Verdict(pid, tier)
    try:
        with vlib.Workdir(pid) as wd:
            mod.run(tier, v, wd, replay)
        return v.finish()
    except vlib.Infra as e:
        print("INFRASTRUCTURE FAILURE (no verdict): %s" % e, file=sys.stderr)
        return 2
    except Exception:
        traceback.print_exc()
        print("INFRASTRUCTURE FAILURE (no verdict): internal error", file=sys.stderr)
        return 2


if __name__ == "__main__":
    sys.exit(main())
