#!/usr/bin/env python3
"""save_seed.py <seed-id> <property> <agent out dir> <demo file> <demo pkg dir> <needs> [confirm-json]
Stores a confirmed seeded change under /verif/seeded/<seed-id>/ (patch.diff, demonstration, meta.json)."""
import json, os, shutil, sys
sid, prop, outdir, demo, pkg, needs = sys.argv[1:7]
confirm = json.loads(sys.argv[7]) if len(sys.argv) > 7 else {}
d = os.path.join("/verif/seeded", sid)
os.makedirs(d, exist_ok=True)
shutil.copy(os.path.join(outdir, "patch.diff"), os.path.join(d, "patch.diff"))
shutil.copy(os.path.join(outdir, demo), os.path.join(d, demo + ".txt" if not demo.endswith(".go") else demo.replace("_test.go", "_test.go.txt")))
if os.path.exists(os.path.join(outdir, "README.md")):
    shutil.copy(os.path.join(outdir, "README.md"), os.path.join(d, "AGENT_README.md"))
meta = {"seed": sid, "breaks_property": prop, "needs_to_manifest": needs,
        "demonstration": {"file": demo, "package_dir": pkg},
        "confirmed_by": "tools/confirm_seed.sh in a scratch worktree of /repo HEAD: existing suite result identical to HEAD with the change; demonstration fails with the change and passes without it",
        "confirm_result": confirm, "detected_by": []}
json.dump(meta, open(os.path.join(d, "meta.json"), "w"), indent=1)
print("saved", d)
