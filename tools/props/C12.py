"""C12 - address sets match by CIDR containment, in userspace and in kernel key form (spec/Cidr.tla)"""
import os
import vlib
from props.common import run_vectors


def run(tier, v, wd, replay=None):
    vec = os.path.join(wd.path, "c12.ndjson")
    cfgs = ["Cidr_mc.cfg", "Cidr_rand.cfg"] if tier == "quick" else ["Cidr_mc3.cfg", "Cidr_rand_big.cfg"]
    with open(vec, "w") as out:
        for cfg in cfgs:
            part = vec + "." + cfg
            r = vlib.tlc(wd, "Cidr", cfg, emit_to=part, timeout=3000)
            if r.violated:
                # the implementation-layer model disagrees with the reference semantics: a modelling error
                raise vlib.Infra("Cidr.tla: %s violated in the model itself:\n%s" % (r.violated, "\n".join(r.trace[:40])))
            v.add_tlc(r)
            with open(part) as f:
                out.write(f.read())
    repo = vlib.scratch_repo(wd, "real")
    env = {}
    if tier != "quick":
        env = {"VERIF_C12_KERNEL_EVERY": "3", "VERIF_C12_RULE_EVERY": "2"}
    run_vectors(v, wd, repo, "./control/", "TestVerifC12", vec, env=env, timeout=3000)
    v.coverage["exhaustive"] = True
    v.coverage["explanation"] = ("every subset (size<=%s) of the 19-prefix boundary universe x 130 spec-defined probes, plus "
                                 "Randomization-drawn sets over all lengths 0..32/0..128; each run through the userspace trie, "
                                 "the emitted LPM keys (software LPM + real kernel LPM trie) and dip()/sip() rule programs" % ("2" if tier == "quick" else "3"))
    v.assumptions += ["kernel BPF_MAP_TYPE_LPM_TRIE semantics as implemented by the running kernel",
                      "netip.ParsePrefix/String round trip used to render spec prefixes as configuration text"]
