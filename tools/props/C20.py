"""C20 - reload requests are serialised, answered, and never leave dae wedged (spec/Reload.tla)"""
import json, os
import vlib
from props.common import run_vectors


def cfg(nsig, begin_first, invs, emit=False, props=True, recheck=True):
    return """SPECIFICATION Spec
CONSTANTS
  NSignals = %d
  BeginBeforeSend = %s
  RecheckAfterBusy = %s
VIEW View
INVARIANTS %s %s
%s
""" % (nsig, "TRUE" if begin_first else "FALSE", "TRUE" if recheck else "FALSE", " ".join(invs), "Emit" if emit else "", "PROPERTIES RefusedChangesNothing" if props else "")


INVS = ["AtMostOne", "SuppressBalanced", "NeverWedged", "AnsweredAll", "ProgressSettles"]


def run(tier, v, wd, replay=None):
    sd = vlib.spec_dir(wd)
    # exhaustive safety, liveness under fairness
    for name, text in [("Reload_gen_mc.cfg", cfg(3 if tier == "quick" else 4, True, INVS))]:
        open(os.path.join(sd, name), "w").write(text)
        r = vlib.tlc(wd, "Reload", name, timeout=1500)
        v.add_tlc(r)
        if r.violated:
            raise vlib.Infra("Reload.tla violates %s in the model:\n%s" % (r.violated, "\n".join(r.trace[:80])))
    r = vlib.tlc(wd, "Reload", "Reload_live.cfg", timeout=1500)
    v.add_tlc(r)
    if r.violated:
        raise vlib.Infra("Reload.tla violates liveness property in the model")
    behaviours = []
    # regression schedule: the counterexample of the reordered variant (muting begun after the send)
    open(os.path.join(sd, "Reload_gen_reordered.cfg"), "w").write(cfg(2, False, ["SuppressBalanced"], props=False))
    dump = os.path.join(wd.path, "ce_reload.json")
    r = vlib.tlc(wd, "Reload", "Reload_gen_reordered.cfg", timeout=1500, dump_trace=dump)
    v.add_tlc(r)
    # regression schedule 2: without the re-check after a busy report the progress file can be left at Busy (non-vacuity of
    # ProgressSettles, and the schedule of the defect repaired under C20)
    open(os.path.join(sd, "Reload_gen_norecheck.cfg"), "w").write(cfg(2, True, ["ProgressSettles"], props=False, recheck=False))
    dump2 = os.path.join(wd.path, "ce_reload_busy.json")
    r = vlib.tlc(wd, "Reload", "Reload_gen_norecheck.cfg", timeout=1500, dump_trace=dump2)
    v.add_tlc(r)
    if r.violated != "ProgressSettles":
        raise vlib.Infra("Reload.tla without the re-check no longer violates ProgressSettles: vacuous model")
    if os.path.exists(dump2):
        last = json.load(open(dump2))["counterexample"]["state"][-1][1]
        behaviours.append({"schedule": last["hist"], "pending": last["pending"], "active": last["active"], "reloading": last["reloading"],
                           "suppress": last["suppress"], "progress": "done", "origin": "counterexample_ProgressSettles"})
    # behaviours of the model to quiescence (BFS: one per distinct quiescent view state; plus simulation)
    open(os.path.join(sd, "Reload_gen_emit.cfg"), "w").write(cfg(3, True, INVS, emit=True, props=False))
    r = vlib.tlc(wd, "Reload", "Reload_gen_emit.cfg", timeout=1500)
    v.add_tlc(r)
    for b in r.emitted:
        b["origin"] = "bfs"
        behaviours.append(b)
    n = 300 if tier == "quick" else 3000
    r = vlib.tlc(wd, "Reload", "Reload_gen_emit.cfg", simulate={"num": n * 20}, depth=90, workers=4, timeout=1500, max_emit=n)
    v.add_tlc(r)
    for b in r.emitted:
        b["origin"] = "simulation"
        behaviours.append(b)
    infile = os.path.join(wd.path, "c20.ndjson")
    with open(infile, "w") as f:
        for b in behaviours:
            f.write(json.dumps(b) + "\n")
    repo = vlib.scratch_repo(wd, "stub")
    tags = "verif,dae_stub_ebpf"
    run_vectors(v, wd, repo, "./cmd/", "TestVerifC20Replay", infile, tags=tags, timeout=300, outname="c20_replay.json")
    run_vectors(v, wd, repo, "./cmd/", "TestVerifC20RandomWalk", infile, env={"VERIF_C20_WALKS": "400" if tier == "quick" else "4000"},
                tags=tags, timeout=600, outname="c20_walk.json")
    run_vectors(v, wd, repo, "./cmd/", "TestVerifC20StaticPaths", infile, tags=tags, timeout=600, outname="c20_static.json")
    # the retirement of the old generation always ends, within what is left of the switch budget (Retire.tla)
    rfile = os.path.join(wd.path, "c20retire.ndjson")
    r = vlib.tlc(wd, "Retire", "Retire_mc.cfg", emit_to=rfile, timeout=600)
    v.add_tlc(r)
    if r.violated:
        raise vlib.Infra("Retire.tla: %s violated" % r.violated)
    run_vectors(v, wd, repo, "./cmd/", "TestVerifC20Retire", rfile, tags=tags, timeout=900, outname="c20_retire.json")
    v.coverage["exhaustive"] = True
    v.assumptions += ["retirement: retireControlPlaneConnections / remainingReloadRetirementBudget run on a fake old generation (session count, idle channel, abort) in virtual time; closing the old control plane itself is not driven",
                      "the worker and main-loop goroutines of cmd/run.go are represented by skeletons that call the real primitives "
                      "(tryQueueReloadRequest, coalesceReloadRequest, clearReloadPending, finishReloadSuccess/Failure, beginHandoff, "
                      "releaseReloadPendingAfterRetirement); the static path check ties every exit of the real worker iteration to that skeleton",
                      "the content of each stage (building a control plane) is abstracted"]
