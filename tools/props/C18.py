"""C18 - the dial target follows dial_mode (spec/DialTarget.tla)"""
import os
import vlib
from props.common import run_vectors


def run(tier, v, wd, replay=None):
    infile = os.path.join(wd.path, "c18.ndjson")
    r = vlib.tlc(wd, "DialTarget", "DialTarget_mc.cfg", emit_to=infile, timeout=600)
    if r.violated:
        raise vlib.Infra("DialTarget.tla: %s violated" % r.violated)
    v.add_tlc(r)
    repo = vlib.scratch_repo(wd, "stub")
    run_vectors(v, wd, repo, "./control/", "TestVerifC18", infile, tags="verif,dae_stub_ebpf", timeout=600)
    v.coverage["exhaustive"] = True
    v.assumptions += ["'resolved through dae' is injected as an unexpired DNS-knowledge entry, 'verified' through the real-domain set, 'negative' through the negative cache",
                      "rerouting in plain domain mode is not constrained (the property is silent; the code reroutes genuine names)"]
