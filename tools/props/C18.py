"""C18 - the dial target follows dial_mode (spec/DialTarget.tla)"""
import os
import vlib
from props.common import run_vectors
from props import udpflow


def run(tier, v, wd, replay=None):
    infile = os.path.join(wd.path, "c18.ndjson")
    r = vlib.tlc(wd, "DialTarget", "DialTarget_mc.cfg", emit_to=infile, timeout=600)
    if r.violated:
        raise vlib.Infra("DialTarget.tla: %s violated" % r.violated)
    v.add_tlc(r)
    repo = vlib.scratch_repo(wd, "stub")
    run_vectors(v, wd, repo, "./control/", "TestVerifC18", infile, tags="verif,dae_stub_ebpf", timeout=600)
    # flow level: chooseProxyDialer (first decision, re-route, second decision) - spec/DialFlow.tla
    ffile = os.path.join(wd.path, "c18flow.ndjson")
    r = vlib.tlc(wd, "DialFlow", "DialFlow_mc.cfg", emit_to=ffile, timeout=600)
    if r.violated:
        raise vlib.Infra("DialFlow.tla: %s violated" % r.violated)
    v.add_tlc(r)
    r2 = vlib.tlc(wd, "DialFlow", "DialFlow_stale.cfg", timeout=600, workers=1)
    if r2.violated != "TargetFollowsMode":
        raise vlib.Infra("DialFlow.tla without the second decision no longer violates TargetFollowsMode: vacuous model")
    run_vectors(v, wd, repo, "./control/", "TestVerifC18Flow", ffile, tags="verif,dae_stub_ebpf", timeout=600, outname="out-flow.json")
    # what makes a name "known to be genuine": DNS knowledge with its TTL, verification probes and their cache (DialProbe.tla)
    r = vlib.tlc(wd, "DialProbe", "DialProbe_mc.cfg", timeout=600)
    v.add_tlc(r)
    if r.violated:
        raise vlib.Infra("DialProbe.tla: %s violated" % r.violated)
    r2 = vlib.tlc(wd, "DialProbe", "DialProbe_half.cfg", timeout=600, workers=1)
    if r2.violated != "GenuineOnly":
        raise vlib.Infra("DialProbe.tla with half-failed probes verifying no longer violates GenuineOnly: vacuous model")
    pfile = os.path.join(wd.path, "c18probe.ndjson")
    r = vlib.tlc(wd, "DialProbe", "DialProbe_gen.cfg", emit_to=pfile, timeout=900)
    v.add_tlc(r)
    run_vectors(v, wd, repo, "./control/", "TestVerifC18Probe", pfile, tags="verif,dae_stub_ebpf", timeout=900, outname="out-probe.json")
    # "resolved through dae": the knowledge kept next to the DNS cache, per record type and upstream scope (DnsKnowledge.tla)
    kfile = os.path.join(wd.path, "c18know.ndjson")
    kn = 3000 if tier == "quick" else 40000
    r = vlib.tlc(wd, "DnsKnowledge", "DnsKnowledge_gen.cfg", emit_to=kfile, simulate={"num": kn}, depth=10, workers=4, timeout=900, max_emit=kn)
    v.add_tlc(r)
    run_vectors(v, wd, repo, "./control/", "TestVerifC18Knowledge", kfile, tags="verif,dae_stub_ebpf", timeout=900, outname="out-know.json")
    # UDP: whatever was sniffed, the target handed to the node stays the original destination (UdpFlow.tla on handlePkt)
    udpflow.run("C18", tier, v, wd, repo)
    v.coverage["exhaustive"] = True
    v.assumptions += ["'resolved through dae' is injected as an unexpired DNS-knowledge entry, 'verified' through the real-domain set, 'negative' through the negative cache",
                      "rerouting in plain domain mode is not constrained (the property is silent; the code reroutes genuine names)",
                      "verification probes: the A / AAAA lookups are scripted through the resolveIp46ForRealDomainProbe seam; virtual time (testing/synctest) for the knowledge TTL and the negative entry's lifetime",
                      "flow level: userspace routing is one rule on the sniffed name plus a fallback; TCP flows; every group has one fixed node"]
