"""C10 - the kernel's address-to-domain table always mirrors the live DNS cache (spec/DomainTracker.tla)"""
import os
import vlib
from props.common import run_vectors


def run(tier, v, wd, replay=None):
    r = vlib.tlc(wd, "DomainTracker", "DomainTracker_mc.cfg", timeout=1500)
    if r.violated:
        raise vlib.Infra("DomainTracker.tla violates %s in the model:\n%s" % (r.violated, "\n".join(r.trace[:60])))
    v.add_tlc(r)
    infile = os.path.join(wd.path, "c10.ndjson")
    part = infile + ".gen"
    r = vlib.tlc(wd, "DomainTracker", "DomainTracker_gen.cfg", emit_to=part, timeout=1500)
    v.add_tlc(r)
    part2 = infile + ".sim"
    n = 4000 if tier == "quick" else 120000
    # (TLC evaluates invariants - hence Emit - on every candidate successor during simulation: cap the emission)
    r2 = vlib.tlc(wd, "DomainTracker", "DomainTracker_sim.cfg", emit_to=part2, simulate={"num": n}, depth=14, workers=4, timeout=1500, max_emit=n)
    v.add_tlc(r2)
    with open(infile, "w") as out:
        for p in (part, part2):
            with open(p) as f:
                out.write(f.read())
    repo = vlib.scratch_repo(wd, "real")
    run_vectors(v, wd, repo, "./control/", "TestVerifC10", infile, timeout=3000)
    # once more with answers that repeat an address so that a refreshed answer keeps the record count of the previous one
    run_vectors(v, wd, repo, "./control/", "TestVerifC10", infile, env={"VERIF_C10_PAD": "prev"}, timeout=3000, outname="out-pad.json")
    # a full kernel table: failed syncs and retries (Cap = 2)
    r = vlib.tlc(wd, "DomainTracker", "DomainTracker_cap.cfg", timeout=1500)
    v.add_tlc(r)
    if r.violated:
        raise vlib.Infra("DomainTracker.tla (full table) violates %s in the model" % r.violated)
    r = vlib.tlc(wd, "DomainTracker", "DomainTracker_cap_first.cfg", timeout=1500, workers=1)
    if r.violated != "MirrorWhenSynced":
        raise vlib.Infra("DomainTracker.tla with bookkeeping before the kernel writes no longer violates MirrorWhenSynced: vacuous model")
    capfile = os.path.join(wd.path, "c10cap.ndjson")
    r = vlib.tlc(wd, "DomainTracker", "DomainTracker_cap_gen.cfg", emit_to=capfile + ".all", timeout=1500)
    v.add_tlc(r)
    keep = 6 if tier == "quick" else 1
    with open(capfile, "w") as out:
        for i, line in enumerate(sorted(open(capfile + ".all").read().splitlines())):
            if (i + vlib.seed()) % keep == 0:
                out.write(line + "\n")
    os.remove(capfile + ".all")
    run_vectors(v, wd, repo, "./control/", "TestVerifC10Cap", capfile, timeout=3000, outname="out-cap.json")
    v.coverage["exhaustive"] = True
    v.coverage["explanation"] = ("TLC: all 32768 cache configurations of 3 owners x 2 addresses (+unspecified) x 2-bit bitmaps reachable in <=6 events keep Mirror; "
                                 "every history of length 4 over 2 owners x bitmaps {b0},{b1} x address sets {},{1},{1,2} (38416) and random histories of length 14 "
                                 "over 3 owners / 3 addresses / 3 bits are replayed through BatchUpdateDomainRouting/BatchRemoveDomainRouting on a real kernel "
                                 "domain_routing_map, which is read back and compared with the spec's table after every step")
    v.assumptions += ["events enter at controlPlaneCore.BatchUpdateDomainRouting / BatchRemoveDomainRouting (the DNS controller's callbacks call these)",
                      "abstract bits b0,b1,b2 are placed at bitmap indices 0, 33, 1023",
                      "full table: a stand-alone kernel hash map with the layout of domain_routing_map and 2 entries; only failures of single-entry updates are generated (a batch failing half-way leaves a kernel-dependent part written)"]
