"""C09 - every DNS client gets an answer to its own question under its own ID (spec/DnsConc.tla)"""
import os
import vlib
from props.common import run_vectors


def run(tier, v, wd, replay=None):
    beh = os.path.join(wd.path, "c09.ndjson")
    suffix = "_gen" if tier == "quick" else "_gen4"
    with open(beh, "w") as out:
        for t in ("udp", "tcp"):
            part = beh + "." + t
            # exhaustive: every behaviour of the model in which all clients are served; invariants checked in every state
            r = vlib.tlc(wd, "DnsConc", "DnsConc_%s%s.cfg" % (t, suffix), emit_to=part, timeout=3000)
            v.add_tlc(r)
            if r.violated:
                raise vlib.Infra("DnsConc.tla violates %s in the model (%s)" % (r.violated, t))
            with open(part) as f:
                lines = f.readlines()
            os.remove(part)
            cap = 4000 if tier == "quick" else 60000
            if len(lines) > cap:       # deterministic thinning, seeded
                import random
                rnd = random.Random(vlib.seed())
                lines = rnd.sample(lines, cap)
            out.writelines(lines)
            # the same, the server answering with name errors: relayed to the leader and every waiter, never cached
            r = vlib.tlc(wd, "DnsConc", "DnsConc_%s_gen_nx.cfg" % t, emit_to=part, timeout=3000)
            v.add_tlc(r)
            if r.violated:
                raise vlib.Infra("DnsConc.tla violates %s in the model (%s, name errors)" % (r.violated, t))
            with open(part) as f:
                lines = f.readlines()
            os.remove(part)
            cap = 2000 if tier == "quick" else 60000
            if len(lines) > cap:
                import random
                lines = random.Random(vlib.seed() + 1).sample(lines, cap)
            out.writelines(lines)
    # the code as found (answers accepted on their id alone): the model must exhibit the mix-up, otherwise the property is vacuous here
    for t in ("udp", "tcp"):
        r = vlib.tlc(wd, "DnsConc", "DnsConc_%s_found.cfg" % t, timeout=600, workers=1)
        if r.violated != "ReplyMatches":
            raise vlib.Infra("DnsConc.tla without the question check no longer violates ReplyMatches (%s): vacuous model" % r.violated)
    repo = vlib.scratch_repo(wd, "stub")
    run_vectors(v, wd, repo, "./control/", "TestVerifC09", beh, tags="verif,dae_stub_ebpf", timeout=3000)
    # the same behaviours with the two questions differing in record type only (one name asked for A and for CAA = 257)
    beh2 = beh + ".bytype"
    with open(beh2, "w") as f:
        f.writelines([l for i, l in enumerate(open(beh)) if (i + vlib.seed()) % (4 if tier == "quick" else 1) == 0])
    run_vectors(v, wd, repo, "./control/", "TestVerifC09", beh2, env={"VERIF_C09_QMODE": "type"}, tags="verif,dae_stub_ebpf", timeout=3000, outname="out-bytype.json")
    # cache hits on the packet path: all interleavings of copy+patch and send for concurrent clients (DnsHitPath.tla)
    hfile = os.path.join(wd.path, "c09hit.ndjson")
    with open(hfile, "w") as out:
        for sz in ("small", "big"):
            part = hfile + "." + sz
            r = vlib.tlc(wd, "DnsHitPath", "DnsHitPath_%s.cfg" % sz, emit_to=part, timeout=600)
            v.add_tlc(r)
            if r.violated:
                raise vlib.Infra("DnsHitPath.tla violates %s in the model" % r.violated)
            out.write(open(part).read())
    r = vlib.tlc(wd, "DnsHitPath", "DnsHitPath_inplace.cfg", timeout=600, workers=1)
    if r.violated != "OwnId":
        raise vlib.Infra("DnsHitPath.tla with in-place patching no longer violates OwnId: vacuous model")
    res = run_vectors(v, wd, repo, "./control/", "TestVerifC09HitPath", hfile, tags="verif,dae_stub_ebpf", timeout=900, outname="out-hit.json")
    if (res.get("counters") or {}).get("c09hit_undecided", 0) > len(open(hfile).readlines()) // 2:
        raise vlib.Infra("the packet-path replay could not be driven: %s" % (res.get("notes") or [])[:3])
    # an upstream declared tcp+udp: truncated and foreign datagrams left in the pooled socket, the TCP retry answered or failing (DnsFallback.tla)
    fb = os.path.join(wd.path, "c09fb.ndjson")
    r = vlib.tlc(wd, "DnsFallback", "DnsFallback_gen.cfg" if tier == "quick" else "DnsFallback_gen3.cfg", emit_to=fb, timeout=900)
    v.add_tlc(r)
    if r.violated:
        raise vlib.Infra("DnsFallback.tla violates %s in the model" % r.violated)
    r = vlib.tlc(wd, "DnsFallback", "DnsFallback_served.cfg", timeout=600, workers=1)
    if r.violated != "ReplyOwn":
        raise vlib.Infra("DnsFallback.tla with a controller that serves the truncated datagram no longer violates ReplyOwn: vacuous model")
    run_vectors(v, wd, repo, "./control/", "TestVerifC09Fallback", fb, tags="verif,dae_stub_ebpf", timeout=1500, outname="out-fb.json")
    # the forwarder cache: use counting, retirement after errors, the idle janitor (FwdIdle.tla)
    r = vlib.tlc(wd, "FwdIdle", "FwdIdle_mc.cfg", timeout=900)
    v.add_tlc(r)
    if r.violated:
        raise vlib.Infra("FwdIdle.tla violates %s in the model" % r.violated)
    r = vlib.tlc(wd, "FwdIdle", "FwdIdle_code.cfg", timeout=900, workers=1)
    if r.violated != "NeverInUse":
        raise vlib.Infra("FwdIdle.tla with a janitor that closes forwarders itself no longer violates NeverInUse: vacuous model")
    ffile = os.path.join(wd.path, "c09fwd.ndjson")
    r = vlib.tlc(wd, "FwdIdle", "FwdIdle_gen.cfg", emit_to=ffile + ".all", timeout=900)
    v.add_tlc(r)
    keep = 4 if tier == "quick" else 1
    with open(ffile, "w") as out:
        for i, line in enumerate(sorted(open(ffile + ".all").read().splitlines())):
            if (i + vlib.seed()) % keep == 0:
                out.write(line + "\n")
    os.remove(ffile + ".all")
    res = run_vectors(v, wd, repo, "./control/", "TestVerifC09FwdIdle", ffile, tags="verif,dae_stub_ebpf", timeout=1500, outname="out-fwd.json")
    # code -> specification: random gated walks on the real cache (schedules not taken from the model), judged on the real
    # forwarders and validated line by line against FwdIdle.tla (TraceFwdIdle.tla)
    ftrace = os.path.join(vlib.spec_dir(wd), "fwdtrace.ndjson")
    nviol = len(v.violations)
    run_vectors(v, wd, repo, "./control/", "TestVerifC09FwdWalk", ffile, env={"VERIF_TRACE_OUT": ftrace, "VERIF_C09_WALKS": "300" if tier == "quick" else "3000"},
                tags="verif,dae_stub_ebpf", timeout=1500, outname="out-fwdwalk.json")
    if not os.path.exists(ftrace) or os.path.getsize(ftrace) == 0:
        raise vlib.Infra("the forwarder-cache walks recorded no trace")
    try:
        r = vlib.tlc(wd, "TraceFwdIdle", "TraceFwdIdle.cfg", workers=1, timeout=1500)
    except vlib.Infra as e:
        if len(v.violations) > nviol:
            v.drift.append("trace validation: the recorded walks are not accepted by FwdIdle.tla")
            r = None
        else:
            raise vlib.Infra("trace validation: the recorded executions of the real forwarder cache are not accepted by FwdIdle.tla "
                             "(the specification no longer describes the code's steps; no verdict):\n%s" % str(e)[-1500:])
    if r is not None:
        v.add_tlc(r)
        if r.violated:
            v.violation("fwdcache-trace:" + r.violated,
                        "a recorded execution of the real forwarder cache (random gated walk) drives FwdIdle.tla into a state violating %s:\n%s" % (r.violated, "\n".join(r.trace[:40])),
                        {"invariant": r.violated, "trace": r.trace[:200]})
        elif "Postcondition" in r.out and "is false" in r.out:
            if len(v.violations) > nviol:
                v.drift.append("trace validation: the recorded walks are not accepted by FwdIdle.tla")
            else:
                raise vlib.Infra("trace validation: recorded executions not accepted by FwdIdle.tla (no verdict):\n%s" % r.out[-1500:])
        v.coverage["fwd_trace_lines_validated"] = sum(1 for _ in open(ftrace))
    v.assumptions += ["tcp+udp fallback: queries one after another under one transaction id, each for a name of its own; the server's datagrams and the fate of the TCP retry are scripted per query; real DoUDP (pooled socket) and DoTCP (pipelined connection) over in-memory sockets, virtual time",
                      "forwarder cache: fake forwarders behind the dnsForwarderFactory seam hold every exchange until the history answers it; the janitor and the queries are parked at the verif yield points dnsfwd.evict.idle / dnsfwd.acquired; virtual time",
                      "packet path: real loopback UDP sockets; the point between patching and sending is the trace message sendPkt logs (a logging hook parks the goroutine there)",
                      "one upstream reached as-is; real DoUDP (udpConnPool) / DoTCP (pipelinedConn) forwarders over in-memory sockets and a scripted server; virtual time (testing/synctest)",
                      "data is consumed as soon as it arrives (every goroutine runs to a durable block between steps): races inside one step are not explored",
                      "tcp: a deadline passes only while the leader is alone on the connection"]
