"""UdpFlow.tla - ControlPlane.handlePkt for the datagrams of one client source (shared by C06, C13, C18).
Each property takes the verdict classes that belong to its statement; the others are left to the sibling checks."""
import os
import vlib
from props.common import run_vectors

CLASSES = {
    # C06: the datagrams handed to the proxy are byte for byte what the client sent, none withheld once sniffing concluded,
    # held datagrams replayed in ingress order, the name found is the name carried (seen through the group it routes to)
    "C06": ("payload", "dup", "order", "flowmix", "withheld", "spontaneous", "panic", "route", "classify"),
    # C13: one stable endpoint per key (no second dial while it is alive, cached dial failures honoured), transports
    # closed exactly once when their endpoint ends
    "C13": ("transport", "dials", "closedtwice", "leak", "closeonce", "dup", "panic"),
    # C18: the UDP target stays the original destination
    "C18": ("target",),
}


def run(pid, tier, v, wd, repo, tags="verif,dae_stub_ebpf"):
    sd = vlib.spec_dir(wd)
    infile = os.path.join(wd.path, "udpflow.ndjson")
    n = 0
    with open(infile, "w") as out:
        plan = {   # configuration -> 1/keep of its behaviours in the quick tier
            "C06": [("UdpFlow_genA.cfg", 3), ("UdpFlow_genAB.cfg", 1), ("UdpFlow_genConn2.cfg", 3)],
            "C13": [("UdpFlow_genA.cfg", 3), ("UdpFlow_genAB.cfg", 1), ("UdpFlow_genScope.cfg", 8), ("UdpFlow_genConn2.cfg", 4)],
            "C18": [("UdpFlow_genAB.cfg", 1), ("UdpFlow_genMixed.cfg", 8)],
        }[pid] + ([("UdpFlow_genAB5.cfg", 1)] if tier != "quick" else [])
        for cfg, keep in plan:
            part = infile + ".part"
            r = vlib.tlc(wd, "UdpFlow", cfg, emit_to=part, timeout=3000)
            v.add_tlc(r)
            if r.violated:
                raise vlib.Infra("UdpFlow.tla violates %s in the model (%s)" % (r.violated, cfg))
            lines = open(part).read().splitlines()
            os.remove(part)
            if tier != "quick":
                keep = 1
            for i, line in enumerate(lines):
                if (i + vlib.seed()) % keep == 0:
                    out.write(line + "\n")
                    n += 1
        part = infile + ".sim"
        ns = 1500 if tier == "quick" else 20000
        r = vlib.tlc(wd, "UdpFlow", "UdpFlow_sim.cfg", simulate={"num": ns * 30}, depth=12, workers=4, timeout=1500, max_emit=ns, emit_to=part)
        v.add_tlc(r)
        out.write(open(part).read())
        os.remove(part)
    if tier != "quick":
        r = vlib.tlc(wd, "UdpFlow", "UdpFlow_mc.cfg", timeout=3000)
        v.add_tlc(r)
        if r.violated:
            raise vlib.Infra("UdpFlow.tla violates %s in the model" % r.violated)
    nviol = len(v.violations)
    nknown = len(v.known)
    res = run_vectors(v, wd, repo, "./control/", "TestVerifUdpFlow", infile, tags=tags, timeout=3000, outname="out-udpflow.json")
    # keep the classes of this property only
    mine = CLASSES[pid]
    v.violations[nviol:] = [x for x in v.violations[nviol:] if x[0].rsplit("|", 1)[-1] in mine]
    c = res.get("counters") or {}
    if c.get("uf_replayed_batches", 0) == 0 or c.get("uf_steps_with_held_datagrams", 0) == 0:
        raise vlib.Infra("the handlePkt replay never held or replayed a datagram: vacuous (%s)" % c)
    v.assumptions.append("handlePkt: one client source, flows to two sniffable destinations and one other; kernel routing results cpr (two DSCP values) / g1 / g2, with and without a routing program that looks at packet metadata (endpoint keys with routing scope); ClientHello in one or two Initial datagrams, optionally followed by the Initial of a second connection (other connection ids and name) on the same addresses and ports (QUIC v1, "
                         "packet-number lengths 1-4, protected by an independent RFC 9001 implementation); the harness classifies each datagram as the ingress loop of "
                         "control_plane.go does (ClassifyUdpFlow + EnsureSnifferSession) and calls handlePkt one datagram at a time; fixed-policy groups g1 / g2 behind "
                         "routing { domain(full: example.com) -> g2, fallback: g1 }; replies from upstream are not driven; virtual time")
    return res
