"""C03 - datapath verdicts: direct passes, block drops, proxied flows hand over the route (spec/Datapath.tla)"""
import os
import vlib
from props.common import run_vectors

FLOWS = ["lan_tcp", "lan_udp", "lan_dns", "wan_tcp", "wan_udp", "wan_dns"]


def run(tier, v, wd, replay=None):
    beh = os.path.join(wd.path, "c03.ndjson")
    n = 400 if tier == "quick" else 15000
    with open(beh, "w") as out:
        for fl in FLOWS:
            r = vlib.tlc(wd, "Datapath", "Datapath_%s_mc.cfg" % fl, timeout=1500)
            v.add_tlc(r)
            if r.violated:
                raise vlib.Infra("Datapath.tla violates %s in the model (%s)" % (r.violated, fl))
            part = beh + "." + fl
            r = vlib.tlc(wd, "Datapath", "Datapath_%s_gen.cfg" % fl, emit_to=part, simulate={"num": n}, depth=12, workers=4, timeout=1500, max_emit=n)
            v.add_tlc(r)
            if r.violated:
                raise vlib.Infra("Datapath.tla violates %s in the model (gen %s)" % (r.violated, fl))
            with open(part) as f:
                out.writelines(f.readlines())
            os.remove(part)
    repo = vlib.scratch_repo(wd, "real")
    res3 = run_vectors(v, wd, repo, "./control/", "TestVerifC03", beh, tags="verif", timeout=600 if tier == "quick" else 3000)
    c3 = res3.get("counters") or {}
    if c3.get("c03_l3_redirects", 0) == 0 or c3.get("c03_l3_passes", 0) == 0:
        raise vlib.Infra("the L3 link-type runs never reached a redirect / pass verdict (the frames were not recognised as IP by the L3 programs): %s" % c3)
    # frame shapes: options, extension headers, fragments, foreign protocols, truncation; both header parsers (FrameShape.tla)
    ffile = os.path.join(wd.path, "c03frames.ndjson")
    r = vlib.tlc(wd, "FrameShape", "FrameShape_mc.cfg", emit_to=ffile, timeout=600)
    v.add_tlc(r)
    if r.violated:
        raise vlib.Infra("FrameShape.tla: %s violated" % r.violated)
    run_vectors(v, wd, repo, "./control/", "TestVerifC03Frames", ffile, tags="verif", timeout=1500, outname="out-frames.json")
    v.assumptions += ["the real tc programs (tproxy_lan_ingress_l2/_l3, tproxy_wan_egress_l2/_l3, tproxy_wan_ingress_l2/_l3) run in the kernel through BPF_PROG_TEST_RUN on crafted Ethernet frames (IPv4 / IPv6, with and without a hop-by-hop header, short and >=128 byte frames); real maps; rules installed through the production builder",
                      "Tick(d) ages last_seen_ns of the flow's map entries; process identity through cookie_pid_map entries around the test-run socket cookie (a missed window yields no verdict)",
                      "frame shapes (IPv4 options, IPv6 extension chains, first / later fragments, ICMP and unknown protocols, frames cut inside the IP header / extension chain / transport header) are run on fresh flows through both parsers and compared with each other and with the plain frame of the same kind",
                      "L3 (no Ethernet header) link types, the local-socket lookup and a full conn_state_map are not driven"]
