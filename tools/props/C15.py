"""C15 - a group picks only nodes it believes alive, by the set policy and tolerance (spec/AliveSet.tla)"""
import os
import vlib
from props.common import run_vectors


def run(tier, v, wd, replay=None):
    for cfg in ["AliveSet_mc.cfg", "AliveSet_mc_t0.cfg"] + (["AliveSet_mc_t3.cfg"] if tier != "quick" else []):
        r = vlib.tlc(wd, "AliveSet", cfg, timeout=1500)
        v.add_tlc(r)
        if r.violated:
            raise vlib.Infra("AliveSet.tla violates %s in the model (%s):\n%s" % (r.violated, cfg, "\n".join(r.trace[:60])))
    infile = os.path.join(wd.path, "c15.ndjson")
    n = 2500 if tier == "quick" else 40000
    with open(infile, "w") as out:
        for cfg in ["AliveSet_gen_t2.cfg", "AliveSet_gen_t0.cfg"]:
            part = infile + "." + cfg
            r = vlib.tlc(wd, "AliveSet", cfg, emit_to=part, simulate={"num": n}, depth=10, workers=4, timeout=1500, max_emit=n)
            v.add_tlc(r)
            out.write(open(part).read())
    repo = vlib.scratch_repo(wd, "stub")
    run_vectors(v, wd, repo, "./component/outbound/dialer/", "TestVerifC15Set", infile, timeout=900)
    # group level: fallback chain (data-UDP -> DNS-UDP -> TCP, other family when allowed), exclusion, last resort, run-time policy switches
    r = vlib.tlc(wd, "GroupSelect", "GroupSelect_mc.cfg", timeout=1500)
    v.add_tlc(r)
    if r.violated:
        raise vlib.Infra("GroupSelect.tla violates %s in the model" % r.violated)
    gfile = os.path.join(wd.path, "c15g.ndjson")
    gn = 1500 if tier == "quick" else 30000
    with open(gfile, "w") as out:
        for cfg, k in [("GroupSelect_gen.cfg", gn), ("GroupSelect_gen2.cfg", gn), ("GroupSelect_gen1.cfg", gn // 5)]:
            part = gfile + "." + cfg
            r = vlib.tlc(wd, "GroupSelect", cfg, emit_to=part, simulate={"num": k}, depth=20, workers=4, timeout=1500, max_emit=k)
            v.add_tlc(r)
            out.write(open(part).read())
        # exhaustive: every 6-event history over 2 nodes x one type x all policies that ends in a selection
        part = gfile + ".bfs"
        r = vlib.tlc(wd, "GroupSelect", "GroupSelect_bfs.cfg", emit_to=part, timeout=1500)
        v.add_tlc(r)
        if r.violated:
            raise vlib.Infra("GroupSelect.tla violates %s in the model (bfs)" % r.violated)
        out.write(open(part).read())
        # exhaustive: every 5-event history over 2 nodes x DNS-UDP of both families that ends in a non-strict selection
        # (the fallback to the other family must stay inside the DNS-UDP health domain)
        part = gfile + ".fam"
        r = vlib.tlc(wd, "GroupSelect", "GroupSelect_fam.cfg", emit_to=part, timeout=1500)
        v.add_tlc(r)
        if r.violated:
            raise vlib.Infra("GroupSelect.tla violates %s in the model (fam)" % r.violated)
        out.write(open(part).read())
    run_vectors(v, wd, repo, "./component/outbound/", "TestVerifC15Group", gfile, timeout=900, outname="out-g.json")
    v.assumptions += ["group level: health notifications through ReportUnavailableForced / MarkAliveForReloadFallback, selection through SelectWithExclusionResult; which alive node a min policy prefers is judged at set level only",
                      "set level (AliveDialerSet = one group x network type); latencies in units of 10ms; MinLastLatency and Random policies",
                      "an alive node without any measurement is treated optimistically by the code (sorting latency 0); the property layer does not constrain switches to such a node"]
