"""C07 - DNS questions and answers are routed by the first matching DNS rule; re-asks are bounded (spec/DnsRoute.tla)"""
import os
import vlib
from props.common import run_vectors


def run(tier, v, wd, replay=None):
    # design level: the two scans refine first-match, the optimisers preserve it, the controller flow is bounded
    mc = "DnsRoute_mcq.cfg" if tier == "quick" else "DnsRoute_mc.cfg"
    r = vlib.tlc(wd, "DnsRoute", mc, timeout=3000)
    v.add_tlc(r)
    if r.violated:
        raise vlib.Infra("DnsRoute.tla violates %s in the model (%s)" % (r.violated, mc))
    # matcher level: every single-rule configuration over the full condition universe, all contexts
    vec = os.path.join(wd.path, "c07v.ndjson")
    with open(vec, "w") as out:
        parts = [("DnsRoute_single_req.cfg", {}), ("DnsRoute_single_resp.cfg", {})]
        n = 60 if tier == "quick" else 1500
        parts.append(("DnsRoute_sim.cfg", dict(simulate={"num": n}, depth=40, workers=1, max_emit=n)))
        for cfg, kw in parts:
            part = vec + "." + cfg
            r = vlib.tlc(wd, "DnsRoute", cfg, emit_to=part, timeout=3000, **kw)
            if r.violated:
                raise vlib.Infra("DnsRoute.tla violates %s in the model (%s)" % (r.violated, cfg))
            v.add_tlc(r)
            with open(part) as f:
                for line in f:
                    out.write(line)
            os.remove(part)
    repo = vlib.scratch_repo(wd, "stub")
    run_vectors(v, wd, repo, "./component/dns/", "TestVerifC07Vectors", vec, timeout=1500, outname="out-v.json")
    # controller level: behaviours (configuration + client questions) against the real DnsController with fake servers
    beh = os.path.join(wd.path, "c07b.ndjson")
    n = 3000 if tier == "quick" else 60000
    r = vlib.tlc(wd, "DnsRoute", "DnsRoute_gen.cfg", emit_to=beh, simulate={"num": n}, depth=60, workers=4, timeout=3000, max_emit=n)
    v.add_tlc(r)
    if r.violated:
        raise vlib.Infra("DnsRoute.tla violates %s in the model (gen)" % r.violated)
    run_vectors(v, wd, repo, "./control/", "TestVerifC07Flow", beh, tags="verif,dae_stub_ebpf", timeout=2400, outname="out-b.json")
    v.assumptions += ["upstreams are fake forwarders behind the dnsForwarderFactory / bestDialerChooser seams; u3 is declared with u1's URL and the client's own resolver is that server too",
                      "letter case of question names is varied by VERIF_SEED; the wire form always carries the trailing dot"]
