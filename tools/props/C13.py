"""C13 - UDP flows: ordered exactly-once tasks over one stable, leak-free endpoint
   (spec/UdpTaskPool.tla; endpoint pool and tuple tracker: see the later sections of this driver)"""
import json, os
import vlib
from props.common import run_vectors
from props import udpflow

KEYS3 = {"p1": "A", "p2": "A", "p3": "B"}
POP_RECHECK = True     # the code as repaired: popOverflowTask looks at the channel again under enqueueMu
INVS = ["NoResidue", "NoLostTask", "NoForeignQueue", "PerKeyFifo", "OneAtATime", "NoDuplicate"]


def cfg_text(found, ntasks, invs, qids="{1, 2, 3}", chans="{1, 2, 3}", cap=1, maxtimer=1, emit=False, poprecheck=None, producers="MC3"):
    if poprecheck is None:
        poprecheck = POP_RECHECK
    return """SPECIFICATION Spec
CONSTANTS
  Producers <- %sProducers
  KeyOf <- %sKeyOf
  NTasks = %d
  QIds = %s
  ChanIds = %s
  ChanCap = %d
  ClaimRecheck = %s
  PopRecheck = %s
  MaxTimer = %d
VIEW View
INVARIANTS RefsSane %s %s
""" % (producers, producers, ntasks, qids, chans, cap, "FALSE" if found else "TRUE", "TRUE" if poprecheck else "FALSE", maxtimer, " ".join(invs), "Emit" if emit else "")


def taskpool(tier, v, wd):
    sd = vlib.spec_dir(wd)
    behaviours = []
    # (A) the model of the pool as it is meant to work (claim re-checked): exhaustive
    for name, text, kw in [
        ("UdpTaskPool_gen_mc.cfg", cfg_text(False, 1, INVS), {}),
    ] + ([("UdpTaskPool_gen_mc2.cfg", cfg_text(False, 2, INVS, qids="{1, 2, 3}", chans="{1, 2, 3}", cap=1, maxtimer=1, producers="MC2"), {})] if tier != "quick" else []):
        with open(os.path.join(sd, name), "w") as f:
            f.write(text)
        r = vlib.tlc(wd, "UdpTaskPool", name, timeout=3000)
        v.add_tlc(r)
        if r.violated:
            v.drift.append("UdpTaskPool.tla (ClaimRecheck=TRUE) violates %s in the model" % r.violated)
    # (B) regression schedules: the counterexamples TLC finds in the check-then-claim variant, one per invariant
    for inv in ["NoResidue", "NoLostTask", "NoForeignQueue"]:
        name = "UdpTaskPool_gen_found_%s.cfg" % inv
        with open(os.path.join(sd, name), "w") as f:
            f.write(cfg_text(True, 1, [inv], qids="{1, 2, 3, 4}", chans="{1, 2, 3}"))
        dump = os.path.join(wd.path, "ce_%s.json" % inv)
        r = vlib.tlc(wd, "UdpTaskPool", name, timeout=3000, dump_trace=dump, quiet=False)
        v.add_tlc(r)
        if r.violated and os.path.exists(dump):
            ce = json.load(open(dump))["counterexample"]["state"]
            last = ce[-1][1]
            behaviours.append({"schedule": last["hist"], "executed": [], "accepted": last["accepted"], "ntasks": 1, "keys": KEYS3,
                               "origin": "counterexample_" + inv, "chancap": 1})
    # (B2) the window between the worker's look at the channel and popOverflowTask: without the second look under enqueueMu the
    # overflow FIFO's head overtakes what producers put into the channel meanwhile (one flow, two tasks, channel capacity 1)
    name = "UdpTaskPool_gen_found_pop.cfg"
    with open(os.path.join(sd, name), "w") as f:
        f.write(cfg_text(False, 2, ["PerKeyFifo"], qids="{1, 2}", chans="{1, 2}", cap=1, poprecheck=False, producers="MC1"))
    dump = os.path.join(wd.path, "ce_pop.json")
    r = vlib.tlc(wd, "UdpTaskPool", name, timeout=3000, dump_trace=dump, workers=1)
    v.add_tlc(r)
    if r.violated != "PerKeyFifo" or not os.path.exists(dump):
        raise vlib.Infra("UdpTaskPool.tla without the second look at the channel no longer violates PerKeyFifo: vacuous model")
    last = json.load(open(dump))["counterexample"]["state"][-1][1]
    behaviours.append({"schedule": last["hist"], "executed": [], "accepted": last["accepted"], "ntasks": 2, "keys": {"p1": "A"},
                       "origin": "counterexample_PerKeyFifo_popov", "chancap": 1})
    # (C) behaviours of the intended model, by simulation, replayed step by step
    name = "UdpTaskPool_gen_sim.cfg"
    with open(os.path.join(sd, name), "w") as f:
        f.write(cfg_text(False, 2, INVS, qids="{1, 2, 3, 4, 5}", chans="{1, 2, 3, 4}", cap=1, maxtimer=3, emit=True))
    n = 150 if tier == "quick" else 1500
    r = vlib.tlc(wd, "UdpTaskPool", name, simulate={"num": n * 40}, depth=70, workers=4, timeout=1500, max_emit=n)
    v.add_tlc(r)
    for b in r.emitted:
        b.update({"ntasks": 2, "keys": KEYS3, "origin": "simulation", "chancap": 1})
        behaviours.append(b)
    return behaviours


def run(tier, v, wd, replay=None):
    behaviours = taskpool(tier, v, wd)
    infile = os.path.join(wd.path, "taskpool_behaviours.ndjson")
    with open(infile, "w") as f:
        for b in behaviours:
            f.write(json.dumps(b) + "\n")
    repo = vlib.scratch_repo(wd, "stub")
    run_vectors(v, wd, repo, "./control/", "TestVerifTaskPoolReplay", infile, tags="verif,dae_stub_ebpf", timeout=1500, outname="tp_replay.json")
    # the same at the code's own channel capacity: bursts that fill the channel and spill far into the overflow FIFO
    run_vectors(v, wd, repo, "./control/", "TestVerifTaskPoolBurst", infile, tags="verif,dae_stub_ebpf", timeout=900, outname="tp_burst.json")
    walks = "300" if tier == "quick" else "3000"
    tracefile = os.path.join(vlib.spec_dir(wd), "trace.ndjson")
    run_vectors(v, wd, repo, "./control/", "TestVerifTaskPoolRandomWalk", infile, env={"VERIF_TP_WALKS": walks, "VERIF_TRACE_OUT": tracefile},
                tags="verif,dae_stub_ebpf", timeout=3000, outname="tp_walk.json")
    # trace validation (code -> specification): the walks' executions, recorded at the yield points, must be behaviours of
    # UdpTaskPool.tla; TLC evaluates the property layer in every state of the matched behaviour
    if not os.path.exists(tracefile) or os.path.getsize(tracefile) == 0:
        raise vlib.Infra("the walks recorded no trace")
    nlines = sum(1 for _ in open(tracefile))
    rejected = None
    try:
        r = vlib.tlc(wd, "TraceUdpTaskPool", "TraceUdpTaskPool.cfg", workers=1, timeout=3000)
    except vlib.Infra as e:
        if v.violations:
            # the walks themselves already showed the real pool breaking the property: a trace the specification cannot
            # explain is then expected; it is recorded as drift, the verdict comes from the real executions above
            v.drift.append("trace validation: the recorded executions are not accepted by UdpTaskPool.tla")
            rejected = True
            r = None
        elif "TraceAccepted" in str(e) or "ostcondition" in str(e):
            raise vlib.Infra("trace validation: the recorded executions of the real task pool are not accepted by UdpTaskPool.tla "
                             "(the specification no longer describes the code's steps; no verdict):\n%s" % str(e)[-1500:])
        else:
            raise
    if r is not None:
        v.add_tlc(r)
    if r is None:
        pass
    elif r.violated:
        v.violation("taskpool-trace:" + r.violated,
                    "a recorded execution of the real UdpTaskPool (random gated walk) drives UdpTaskPool.tla into a state violating %s:\n%s" % (r.violated, "\n".join(r.trace[:40])),
                    {"invariant": r.violated, "trace": r.trace[:200]})
    elif "Postcondition" in r.out and "is false" in r.out:
        if v.violations:
            v.drift.append("trace validation: the recorded executions are not accepted by UdpTaskPool.tla")
        else:
            raise vlib.Infra("trace validation: recorded executions not accepted by UdpTaskPool.tla (no verdict):\n%s" % r.out[-1500:])
    v.coverage["trace_lines_validated"] = nlines
    # second half of the property: the endpoint pool (stable endpoint per source, single dial, failure cache, retirement,
    # exactly-once close, kernel flow entries with adoption) - UdpEndpointPool.tla replayed on the real pool in virtual time
    r = vlib.tlc(wd, "UdpEndpointPool", "UdpEndpointPool_mc.cfg", timeout=1500)
    v.add_tlc(r)
    if r.violated:
        raise vlib.Infra("UdpEndpointPool.tla violates %s in the model" % r.violated)
    efile = os.path.join(wd.path, "c13ep.ndjson")
    en = 1500 if tier == "quick" else 40000
    r = vlib.tlc(wd, "UdpEndpointPool", "UdpEndpointPool_gen.cfg", emit_to=efile, simulate={"num": en}, depth=16, workers=4, timeout=1500, max_emit=en)
    v.add_tlc(r)
    if r.violated:
        raise vlib.Infra("UdpEndpointPool.tla violates %s in the model (gen)" % r.violated)
    # every history of up to four events over one source (ticks of 1, FailT, NatT and beyond NatT: to the very instant an
    # entry expires, where the janitor has not yet swept it), exhaustively
    bfile = os.path.join(wd.path, "c13ep_bfs.ndjson")
    r = vlib.tlc(wd, "UdpEndpointPool", "UdpEndpointPool_bfs.cfg", emit_to=bfile, workers=4, timeout=1500)
    v.add_tlc(r)
    if r.violated:
        raise vlib.Infra("UdpEndpointPool.tla violates %s in the model (bfs)" % r.violated)
    with open(efile, "a") as f:
        f.write(open(bfile).read())
    run_vectors(v, wd, repo, "./control/", "TestVerifC13Endpoints", efile, tags="verif,dae_stub_ebpf", timeout=900, outname="out-ep.json")
    # third part: the kernel flow entries' reference counts - TupleTracker.tla (release of the last reference in three steps,
    # calls of other owners waiting for a deletion in flight) replayed on the real udpConnStateTracker
    r = vlib.tlc(wd, "TupleTracker", "TupleTracker_mc.cfg", timeout=1500)
    v.add_tlc(r)
    if r.violated:
        raise vlib.Infra("TupleTracker.tla violates %s in the model" % r.violated)
    tfile = os.path.join(wd.path, "c13tt.ndjson")
    r = vlib.tlc(wd, "TupleTracker", "TupleTracker_gen.cfg", emit_to=tfile, workers=4, timeout=1500)
    v.add_tlc(r)
    if r.violated:
        raise vlib.Infra("TupleTracker.tla violates %s in the model (gen)" % r.violated)
    t2 = os.path.join(wd.path, "c13tt_deep.ndjson")
    tn = 2000 if tier == "quick" else 60000
    r = vlib.tlc(wd, "TupleTracker", "TupleTracker_deep.cfg", emit_to=t2, simulate={"num": tn}, depth=40, workers=4, timeout=1500, max_emit=tn)
    v.add_tlc(r)
    with open(tfile, "a") as f:
        f.write(open(t2).read())
    run_vectors(v, wd, repo, "./control/", "TestVerifC13TupleTracker", tfile, tags="verif,dae_stub_ebpf", timeout=900, outname="out-tt.json")
    # fourth part: the endpoints as handlePkt uses them (UdpFlow.tla): the key a datagram is looked up and dialled under, no second dial
    # while the key's endpoint is alive, the retry after a failed write, transports closed exactly once
    udpflow.run("C13", tier, v, wd, repo)
    # fifth part: the listener's batch reader (IngressBatch.tla) on a real loopback socket: what is handed to the tasks is what arrived
    ifile = os.path.join(wd.path, "c13ingress.ndjson")
    r = vlib.tlc(wd, "IngressBatch", "IngressBatch_gen.cfg", emit_to=ifile + ".all", timeout=1500)
    v.add_tlc(r)
    if r.violated:
        raise vlib.Infra("IngressBatch.tla violates %s in the model" % r.violated)
    keep = 20 if tier == "quick" else 2
    with open(ifile, "w") as out:
        for i, line in enumerate(open(ifile + ".all")):
            if (i + vlib.seed()) % keep == 0:
                out.write(line)
    os.remove(ifile + ".all")
    run_vectors(v, wd, repo, "./control/", "TestVerifC13Ingress", ifile, tags="verif,dae_stub_ebpf", timeout=3000, outname="out-ingress.json")
    v.assumptions += ["ingress: real loopback UDP sockets (IP_RECVORIGDSTADDR set), batch size 2, two senders and two destination addresses; datagrams are sent and read one event at a time",
                      "task pool replay: the pool is built with the model's channel capacity (1) so that the spill into the overflow FIFO and the window before popOverflowTask are reached with two tasks; the walks and the trace validation use the production constructor (capacity 128)",
                      "schedules are forced at the verif yield points of udp_task_pool.go; steps between two yield points are atomic in the model",
                      "replay runs with GOMAXPROCS(1) so that sync.Pool behaves as the modelled private slot + shared chain"]
