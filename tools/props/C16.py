"""C16 - node health follows the documented thresholds and is reported on edges only (spec/Health.tla)"""
import os
import vlib
from props.common import run_vectors


def run(tier, v, wd, replay=None):
    r = vlib.tlc(wd, "Health", "Health_mc.cfg", timeout=1500)
    v.add_tlc(r)
    if r.violated:
        raise vlib.Infra("Health.tla violates %s in the model:\n%s" % (r.violated, "\n".join(r.trace[:60])))
    infile = os.path.join(wd.path, "c16.ndjson")
    n = 3000 if tier == "quick" else 40000
    r = vlib.tlc(wd, "Health", "Health_gen.cfg", emit_to=infile, simulate={"num": n}, depth=14, workers=4, timeout=1500, max_emit=n)
    v.add_tlc(r)
    # exhaustive: every history of 4 (thorough: 5) events over 2 nodes x {tcp4, data4} that ends with a node coming back
    # into a domain in which no other node is alive (the connectivity bit must be set again, whatever the latencies)
    part = infile + ".bfs"
    r = vlib.tlc(wd, "Health", "Health_bfs.cfg" if tier == "quick" else "Health_bfs5.cfg", emit_to=part, timeout=1500, workers=8)
    v.add_tlc(r)
    if r.violated:
        raise vlib.Infra("Health.tla violates %s in the model (bfs)" % r.violated)
    with open(infile, "a") as out:
        out.write(open(part).read())
    os.remove(part)
    repo = vlib.scratch_repo(wd, "stub")
    run_vectors(v, wd, repo, "./component/outbound/dialer/", "TestVerifC16", infile, timeout=1500)
    # reload hand-over: the last known state is inherited and every type keeps one selectable node (GroupSelect.tla with WithReload)
    r = vlib.tlc(wd, "GroupSelect", "GroupSelect_reload_mc.cfg", timeout=1500)
    v.add_tlc(r)
    if r.violated:
        raise vlib.Infra("GroupSelect.tla violates %s in the model (reload)" % r.violated)
    rfile = os.path.join(wd.path, "c16r.ndjson")
    rn = 1500 if tier == "quick" else 30000
    r = vlib.tlc(wd, "GroupSelect", "GroupSelect_reload.cfg", emit_to=rfile, simulate={"num": rn}, depth=14, workers=4, timeout=1500, max_emit=rn)
    v.add_tlc(r)
    if r.violated:
        raise vlib.Infra("GroupSelect.tla violates %s in the model (reload gen)" % r.violated)
    # every history of three events followed by the reload (so that "two particular nodes dead, the third alive" does not depend on the sample)
    bfile = rfile + ".bfs"
    r = vlib.tlc(wd, "GroupSelect", "GroupSelect_reload_bfs.cfg", emit_to=bfile, timeout=1500)
    v.add_tlc(r)
    if r.violated:
        raise vlib.Infra("GroupSelect.tla violates %s in the model (reload bfs)" % r.violated)
    with open(rfile, "a") as f:
        f.write(open(bfile).read())
    run_vectors(v, wd, repo, "./control/", "TestVerifC16Reload", rfile, tags="verif,dae_stub_ebpf", timeout=900, outname="out-r.json")
    v.assumptions += ["reload hand-over through the production ControlPlane.InheritDialerHealthFrom on two generations of a three-node group and a second group made of two of its nodes (shared node objects)",
                      "two nodes sharing one proxy address, each in one latency-policy group per health domain",
                      "the reload quiesce tail after EndReloadProxyFailureSuppression is skipped by resetting its deadline (time-based, covered under C20 at protocol level)"]
