"""C11 - domain patterns match exactly the names their kind describes (spec/DomainMatch.tla)"""
import os
import vlib
from props.common import run_vectors


def run(tier, v, wd, replay=None):
    vec = os.path.join(wd.path, "c11.ndjson")
    cfgs = ["DomainMatch_mc.cfg", "DomainMatch_rand.cfg"] if tier == "quick" else ["DomainMatch_mc.cfg", "DomainMatch_rand_big.cfg"]
    with open(vec, "w") as out:
        for cfg in cfgs:
            part = vec + "." + cfg
            r = vlib.tlc(wd, "DomainMatch", cfg, emit_to=part, timeout=3000)
            if r.violated:
                raise vlib.Infra("DomainMatch.tla: %s violated in the model itself:\n%s" % (r.violated, "\n".join(r.trace[:40])))
            v.add_tlc(r)
            with open(part) as f:
                out.write(f.read())
    repo = vlib.scratch_repo(wd, "stub")
    seeds = [vlib.seed()] if tier == "quick" else [vlib.seed(), vlib.seed() + 1, vlib.seed() + 2]
    for s in seeds:
        run_vectors(v, wd, repo, "./component/routing/domain_matcher/", "TestVerifC11", vec,
                    env={"VERIF_SEED": str(s)}, timeout=3000)
    v.coverage["exhaustive"] = True
    v.coverage["explanation"] = ("every singleton and ordered pair over the 53-pattern universe (all strings of length<=2 over {a,b,1,-,_,.} "
                                 "+ hand-picked longer/bad ones) for kinds full/suffix/keyword, 20 structured regexes, against all 258 names "
                                 "of length<=3 + 27 longer names (upper case next to every character class, trailing dot); plus random label-sharing sets; sets are packed "
                                 "64 at a time into one matcher at seed-chosen bit indices incl. 0,31,32,63,64,1023")
    v.assumptions += ["regex kind restricted to (^)?(lit|lit)($)? rendered with regexp.QuoteMeta",
                      "a keyword set containing an out-of-alphabet character may be rejected as a whole by Build (clean error)"]
