"""C06 - sniffing finds the name that is there and never alters or withholds payload (spec/Sniff.tla)"""
import os, random
import vlib
from props.common import run_vectors
from props import udpflow


def run(tier, v, wd, replay=None):
    vec = os.path.join(wd.path, "c06.ndjson")
    cfg = "Sniff_quick.cfg" if tier == "quick" else "Sniff_full.cfg"
    part = vec + ".stream"
    r = vlib.tlc(wd, "Sniff", cfg, emit_to=part, timeout=3000)
    v.add_tlc(r)
    if r.violated:
        raise vlib.Infra("Sniff.tla violates %s in the model" % r.violated)
    with open(part) as f:
        lines = f.readlines()
    os.remove(part)
    cap = 25000 if tier == "quick" else 400000
    if len(lines) > cap:
        lines = random.Random(vlib.seed()).sample(lines, cap)
    n = 4000 if tier == "quick" else 150000
    part = vec + ".quic"
    r = vlib.tlc(wd, "Sniff", "Sniff_quic.cfg", emit_to=part, simulate={"num": n}, depth=12, workers=4, timeout=3000, max_emit=n)
    v.add_tlc(r)
    if r.violated:
        raise vlib.Infra("Sniff.tla violates %s in the model (quic)" % r.violated)
    with open(part) as f:
        lines += f.readlines()
    os.remove(part)
    # every placement of three CRYPTO pieces (in order, out of order, duplicated) in up to three plain packets and datagrams
    part = vec + ".flights"
    r = vlib.tlc(wd, "Sniff", "Sniff_flights.cfg", emit_to=part, timeout=3000)
    v.add_tlc(r)
    if r.violated:
        raise vlib.Infra("Sniff.tla violates %s in the model (flights)" % r.violated)
    with open(part) as f:
        lines += f.readlines()
    os.remove(part)
    with open(vec, "w") as out:
        out.writelines(lines)
    repo = vlib.scratch_repo(wd, "stub")
    run_vectors(v, wd, repo, "./component/sniffing/", "TestVerifC06", vec, timeout=600 if tier == "quick" else 3000)
    # the datagrams as they reach the proxy: UdpFlow.tla replayed on the real ControlPlane.handlePkt (held Initial datagrams, replay in
    # ingress order once the ClientHello is covered, nothing withheld afterwards, byte-for-byte payload, the name routes the flow)
    udpflow.run("C06", tier, v, wd, repo)
    v.assumptions += ["QUIC Initial packets are protected by the harness with an independent implementation of RFC 9001 s5 / RFC 9369 on the standard library",
                      "stream timing is virtual (testing/synctest); sniffing timeout 100 ms; gaps: 0, timeout/4, 2 x timeout",
                      "byte strings that are none of the protocols (random, truncated, bit-flipped hellos) carry only the obligations: no panic, no overrun of the timeout, payload intact"]
