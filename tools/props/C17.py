"""C17 - configuration text becomes exactly the configuration it spells, or a clean error
   (spec/ConfGrammar.tla; spec/ConfBuild.tla + Include.tla for the typed layer and include merging)"""
import os
import vlib
from props.common import run_vectors


def run(tier, v, wd, replay=None):
    infile = os.path.join(wd.path, "c17.ndjson")
    part = infile + ".mc"
    r = vlib.tlc(wd, "ConfGrammar", "ConfGrammar_mc.cfg", emit_to=part, timeout=900)
    if r.violated:
        raise vlib.Infra("ConfGrammar.tla: %s violated" % r.violated)
    v.add_tlc(r)
    part2 = infile + ".sim"
    n = 6000 if tier == "quick" else 100000
    r2 = vlib.tlc(wd, "ConfGrammar", "ConfGrammar_sim.cfg", emit_to=part2, simulate={"num": n}, depth=14, workers=4, timeout=900, max_emit=n)
    v.add_tlc(r2)
    with open(infile, "w") as out:
        for p in (part, part2):
            out.write(open(p).read())
    repo = vlib.scratch_repo(wd, "stub")
    run_vectors(v, wd, repo, "./pkg/config_parser/", "TestVerifC17Grammar", infile, timeout=900,
                env={"VERIF_C17_BYTES": "3000" if tier == "quick" else "100000"}, outname="c17_grammar.json")
    inc = os.path.join(wd.path, "c17_inc.ndjson")
    r3 = vlib.tlc(wd, "Include", "Include_mc.cfg", emit_to=inc, timeout=900)
    if r3.violated:
        raise vlib.Infra("Include.tla: %s violated" % r3.violated)
    v.add_tlc(r3)
    run_vectors(v, wd, repo, "./config/", "TestVerifC17Include", inc, timeout=900, outname="c17_include.json")
    cb = os.path.join(wd.path, "c17_build.ndjson")
    r4 = vlib.tlc(wd, "ConfBuild", "ConfBuild_mc.cfg", emit_to=cb, timeout=900)
    if r4.violated:
        raise vlib.Infra("ConfBuild.tla: %s violated" % r4.violated)
    v.add_tlc(r4)
    with vlib.Workdir("C17real") as wd2:
        repo2 = vlib.scratch_repo(wd2, "real")
        run_vectors(v, wd, repo2, "./control/", "TestVerifC17Build", cb, tags="verif", timeout=900, outname="c17_build.json")
    v.assumptions += ["bare literals are generated from a conservative alphabet; trivia and quoting styles are chosen by VERIF_SEED"]
