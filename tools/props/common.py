"""helpers shared by the per-property drivers"""
import json, os
import vlib


def run_vectors(v, wd, repo, pkg, test, infile, *, env=None, tags="verif", timeout=1500, outname="out.json"):
    """run a vector-driven harness test and fold its result file into the verdict"""
    out = os.path.join(wd.path, outname)
    if os.path.exists(out):
        os.remove(out)
    e = {"VERIF_IN": infile, "VERIF_OUT": out}
    e.update(env or {})
    rc, gout = vlib.go_test(repo, pkg, "^%s$" % test, env=e, tags=tags, timeout=timeout)
    res = vlib.read_result(out, gout)
    if rc != 0 and not res.get("failures"):
        raise vlib.Infra("harness %s failed without reporting a deviation:\n%s" % (test, gout[-5000:]))
    v.coverage["traces_validated_against_impl"] += res.get("cases", 0)
    v.coverage["impl_comparisons"] = v.coverage.get("impl_comparisons", 0) + res.get("evaluated", 0)
    for k, n in (res.get("counters") or {}).items():
        v.coverage[k] = v.coverage.get(k, 0) + n
    for s in res.get("samples") or []:
        v.sample(s)
    for d in res.get("drift") or []:
        v.drift.append(d)
    for f in res.get("failures") or []:
        v.violation(f["key"], f["what"], f.get("case"))
    if res.get("cases", 0) == 0:
        raise vlib.Infra("harness %s executed no case (dead driver)\n%s" % (test, gout[-3000:]))
    return res
