"""C08 - the DNS cache serves only live, correctly scoped answers with truthful TTLs (spec/DnsCache.tla)"""
import os
import vlib
from props.common import run_vectors


def run(tier, v, wd, replay=None):
    r = vlib.tlc(wd, "DnsCache", "DnsCache_mc.cfg", timeout=1500)
    v.add_tlc(r)
    if r.violated:
        raise vlib.Infra("DnsCache.tla violates %s in the model" % r.violated)
    infile = os.path.join(wd.path, "c08.ndjson")
    n = 2500 if tier == "quick" else 40000
    r = vlib.tlc(wd, "DnsCache", "DnsCache_gen.cfg", emit_to=infile, simulate={"num": n}, depth=16, workers=4, timeout=1500, max_emit=n)
    v.add_tlc(r)
    repo = vlib.scratch_repo(wd, "stub")
    run_vectors(v, wd, repo, "./control/", "TestVerifC08", infile, tags="verif,dae_stub_ebpf", timeout=900)
    # the size limit at scale: a janitor run that has to evict several entries at once (DnsLru.tla)
    r = vlib.tlc(wd, "DnsLru", "DnsLru_mc.cfg", timeout=900, workers=4)
    v.add_tlc(r)
    if r.violated:
        raise vlib.Infra("DnsLru.tla violates %s in the model" % r.violated)
    lfile = os.path.join(wd.path, "c08lru.ndjson")
    ln = 400 if tier == "quick" else 6000
    r = vlib.tlc(wd, "DnsLru", "DnsLru_gen.cfg", emit_to=lfile, simulate={"num": ln * 10}, depth=23, workers=4, timeout=1500, max_emit=ln)
    v.add_tlc(r)
    if r.violated:
        raise vlib.Infra("DnsLru.tla violates %s in the model (gen)" % r.violated)
    run_vectors(v, wd, repo, "./control/", "TestVerifC08Lru", lfile, tags="verif,dae_stub_ebpf", timeout=900, outname="out-lru.json")
    v.assumptions += ["virtual time (testing/synctest): Tick is time.Sleep inside the bubble, the real 30 s janitor ticker fires in virtual time",
                      "answers enter through NormalizeAndCacheDnsResp_ with the NewCache callback shaped like control_plane.go's"]
