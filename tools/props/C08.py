"""C08 - the DNS cache serves only live, correctly scoped answers with truthful TTLs (spec/DnsCache.tla)"""
import os
import vlib
from props.common import run_vectors


def run(tier, v, wd, replay=None):
    r = vlib.tlc(wd, "DnsCache", "DnsCache_mc.cfg", timeout=1500)
    v.add_tlc(r)
    if r.violated:
        raise vlib.Infra("DnsCache.tla violates %s in the model" % r.violated)
    infile = os.path.join(wd.path, "c08.ndjson")
    n = 2500 if tier == "quick" else 40000
    r = vlib.tlc(wd, "DnsCache", "DnsCache_gen.cfg", emit_to=infile, simulate={"num": n}, depth=16, workers=4, timeout=1500, max_emit=n)
    v.add_tlc(r)
    repo = vlib.scratch_repo(wd, "stub")
    run_vectors(v, wd, repo, "./control/", "TestVerifC08", infile, tags="verif,dae_stub_ebpf", timeout=900)
    v.assumptions += ["virtual time (testing/synctest): Tick is time.Sleep inside the bubble, the real 30 s janitor ticker fires in virtual time",
                      "answers enter through NormalizeAndCacheDnsResp_ with the NewCache callback shaped like control_plane.go's"]
