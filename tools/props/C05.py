"""C05 - the TCP relay delivers both byte streams intact and honours half-close (spec/TcpRelay.tla)"""
import os
import vlib
from props.common import run_vectors


def run(tier, v, wd, replay=None):
    beh = os.path.join(wd.path, "c05.ndjson")
    n = 1500 if tier == "quick" else 40000
    with open(beh, "w") as out:
        for port in (443, 53):
            r = vlib.tlc(wd, "TcpRelay", "TcpRelay_%d_mc.cfg" % port, timeout=1500)
            v.add_tlc(r)
            if r.violated:
                raise vlib.Infra("TcpRelay.tla violates %s in the model (port %d)" % (r.violated, port))
            part = beh + ".%d" % port
            r = vlib.tlc(wd, "TcpRelay", "TcpRelay_%d_gen.cfg" % port, emit_to=part, simulate={"num": n}, depth=10, workers=4, timeout=1500, max_emit=n)
            v.add_tlc(r)
            if r.violated:
                raise vlib.Infra("TcpRelay.tla violates %s in the model (gen, port %d)" % (r.violated, port))
            with open(part) as f:
                out.writelines(f.readlines())
            os.remove(part)
    repo = vlib.scratch_repo(wd, "stub")
    run_vectors(v, wd, repo, "./control/", "TestVerifC05", beh, tags="verif,dae_stub_ebpf", timeout=600 if tier == "quick" else 3000)
    # the data plane on real TCP sockets: concurrent directional copies sharing the splice-pipe pool (SpliceRelay.tla)
    r = vlib.tlc(wd, "SpliceRelay", "SpliceRelay_mc.cfg", timeout=1500, workers=4)
    v.add_tlc(r)
    if r.violated:
        raise vlib.Infra("SpliceRelay.tla violates %s in the model" % r.violated)
    r = vlib.tlc(wd, "SpliceRelay", "SpliceRelay_dirty.cfg", timeout=600, workers=1)
    if r.violated != "OwnBytes":
        raise vlib.Infra("SpliceRelay.tla with dirty pipes pooled no longer violates OwnBytes: vacuous model")
    sfile = os.path.join(wd.path, "c05splice.ndjson")
    # (a) every history of 5 (thorough: also 6) events in which a copy re-uses a pipe another one gave back, or starts after
    #     another one broke with bytes in its pipe (quick: all of length 5 and a seed-chosen eighth of length 6)
    lines = []
    for cfg, keep in ([("SpliceRelay_bfs.cfg", 1), ("SpliceRelay_bfs6.cfg", 8)] if tier == "quick" else [("SpliceRelay_bfs.cfg", 1), ("SpliceRelay_bfs6.cfg", 1)]):
        part = sfile + "." + cfg
        r = vlib.tlc(wd, "SpliceRelay", cfg, emit_to=part, timeout=1500, workers=4)
        v.add_tlc(r)
        if r.violated:
            raise vlib.Infra("SpliceRelay.tla violates %s in the model (%s)" % (r.violated, cfg))
        ls = sorted(open(part).read().splitlines())
        lines += [l for i, l in enumerate(ls) if (i + vlib.seed()) % keep == 0]
    # (b) longer random histories
    sn = 80 if tier == "quick" else 2000
    part = sfile + ".sim"
    r = vlib.tlc(wd, "SpliceRelay", "SpliceRelay_gen.cfg", emit_to=part, simulate={"num": sn * 3}, depth=10, workers=4, timeout=1500, max_emit=sn)
    v.add_tlc(r)
    if r.violated:
        raise vlib.Infra("SpliceRelay.tla violates %s in the model (gen)" % r.violated)
    lines += open(part).read().splitlines()
    with open(sfile, "w") as f:
        f.write("\n".join(lines) + "\n")
    run_vectors(v, wd, repo, "./control/", "TestVerifC05Splice", sfile, tags="verif,dae_stub_ebpf", timeout=1500 if tier == "quick" else 3000, outname="out-splice.json")
    # handleConn itself on real sockets: segments arriving while the upstream dial is in flight (RelayStart.tla)
    stfile = os.path.join(wd.path, "c05start.ndjson")
    slines = []
    for port in (53, 443):
        part = stfile + ".%d" % port
        r = vlib.tlc(wd, "RelayStart", "RelayStart_%d.cfg" % port, emit_to=part, timeout=900)
        v.add_tlc(r)
        if r.violated:
            raise vlib.Infra("RelayStart.tla violates %s in the model" % r.violated)
        ls = sorted(open(part).read().splitlines())
        keep = 6 if tier == "quick" else 1
        slines += [l for i, l in enumerate(ls) if (i + vlib.seed()) % keep == 0]
    with open(stfile, "w") as f:
        f.write("\n".join(slines) + "\n")
    res = run_vectors(v, wd, repo, "./control/", "TestVerifC05Start", stfile, tags="verif,dae_stub_ebpf", timeout=1500 if tier == "quick" else 3000, outname="out-start.json")
    if (res.get("counters") or {}).get("c05start_undecided", 0) > len(slines) // 4:
        raise vlib.Infra("the real-socket replay of handleConn could not be driven: %s" % (res.get("notes") or [])[:3])
    v.assumptions += ["the real ControlPlane.handleConn is driven over in-memory TCP-like sockets (buffered, CloseWrite, read deadlines) in virtual time; routing falls back to the userspace matcher, the outbound is a one-node group whose dialer returns the fake destination",
                      "the gather-write / splice paths need real *net.TCPConn sockets: they are driven at the level of one directional copy (defaultRelayCopyEngine.Copy, what relayCore.runDirection runs) over loopback TCP in real time; waits are 30 s, only progress is judged, never speed"]
