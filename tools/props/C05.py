"""C05 - the TCP relay delivers both byte streams intact and honours half-close (spec/TcpRelay.tla)"""
import os
import vlib
from props.common import run_vectors


def run(tier, v, wd, replay=None):
    beh = os.path.join(wd.path, "c05.ndjson")
    n = 1500 if tier == "quick" else 40000
    with open(beh, "w") as out:
        for port in (443, 53):
            r = vlib.tlc(wd, "TcpRelay", "TcpRelay_%d_mc.cfg" % port, timeout=1500)
            v.add_tlc(r)
            if r.violated:
                raise vlib.Infra("TcpRelay.tla violates %s in the model (port %d)" % (r.violated, port))
            part = beh + ".%d" % port
            r = vlib.tlc(wd, "TcpRelay", "TcpRelay_%d_gen.cfg" % port, emit_to=part, simulate={"num": n}, depth=10, workers=4, timeout=1500, max_emit=n)
            v.add_tlc(r)
            if r.violated:
                raise vlib.Infra("TcpRelay.tla violates %s in the model (gen, port %d)" % (r.violated, port))
            with open(part) as f:
                out.writelines(f.readlines())
            os.remove(part)
    repo = vlib.scratch_repo(wd, "stub")
    run_vectors(v, wd, repo, "./control/", "TestVerifC05", beh, tags="verif,dae_stub_ebpf", timeout=600 if tier == "quick" else 3000)
    v.assumptions += ["the real ControlPlane.handleConn is driven over in-memory TCP-like sockets (buffered, CloseWrite, read deadlines) in virtual time; routing falls back to the userspace matcher, the outbound is a one-node group whose dialer returns the fake destination",
                      "the gather-write / splice paths that need real *net.TCPConn sockets are not reached through in-memory sockets"]
