"""C14 - a group contains exactly the nodes its filters select, each with its annotation (spec/GroupFilter.tla)"""
import os
import vlib
from props.common import run_vectors


def run(tier, v, wd, replay=None):
    infile = os.path.join(wd.path, "c14.ndjson")
    part = infile + ".mc"
    r = vlib.tlc(wd, "GroupFilter", "GroupFilter_mc.cfg", emit_to=part, timeout=900)
    if r.violated:
        raise vlib.Infra("GroupFilter.tla: %s violated" % r.violated)
    v.add_tlc(r)
    part2 = infile + ".sim"
    n = 3000 if tier == "quick" else 60000
    r2 = vlib.tlc(wd, "GroupFilter", "GroupFilter_sim.cfg", emit_to=part2, simulate={"num": n}, depth=4, workers=4, timeout=900, max_emit=n)
    v.add_tlc(r2)
    with open(infile, "w") as out:
        for p in (part, part2):
            out.write(open(p).read())
    repo = vlib.scratch_repo(wd, "stub")
    run_vectors(v, wd, repo, "./component/outbound/", "TestVerifC14", infile, timeout=900)
    v.coverage["exhaustive"] = True
    v.assumptions += ["the error obligation is read with left-to-right / top-to-bottom evaluation: an invalid element must be reported when it is reached while deciding some node",
                      "fixed(i) out of range is accepted at construction and must make every selection fail (never return another node)",
                      "regex values restricted to (^)?(lit|lit)($)? rendered for regexp2"]
