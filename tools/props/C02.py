"""C02 - the kernel routing program and the userspace matcher decide identically (spec/RuleScan.tla: KScan, KernRefines, IntendedDiff)"""
import vlib
from props.common import run_vectors
from props.rulescan import generate


def run(tier, v, wd, replay=None):
    if tier == "quick":
        cfgs = [("RuleScan_single.cfg", {}), ("RuleScan_c2.cfg", {}), ("RuleScan_r2.cfg", {})]
        env = {"VERIF_RS_EVERY": "9"}
    else:
        cfgs = [("RuleScan_single.cfg", {}), ("RuleScan_c2.cfg", {}), ("RuleScan_r2.cfg", {}),
                ("RuleScan_sim.cfg", dict(simulate={"num": 3000}, depth=14, workers=8, max_emit=12000))]
        env = {"VERIF_RS_EVERY": "2"}
    vec = generate(tier, v, wd, cfgs)
    repo = vlib.scratch_repo(wd, "real")
    run_vectors(v, wd, repo, "./control/", "TestVerifRuleScanKern", vec, env=env, tags="verif", timeout=3000)
    # a second sample with 40 never-matching domain rules in front: the program's own domain sets land in the second 32-rule word
    env2 = dict(env, VERIF_RS_SHIFT="40", VERIF_RS_EVERY=str(int(env["VERIF_RS_EVERY"]) * 3), VERIF_RS_ONLY="domain")
    run_vectors(v, wd, repo, "./control/", "TestVerifRuleScanKern", vec, env=env2, tags="verif", timeout=3000, outname="out-shift.json")
    v.coverage["explanation"] = ("TLC checks KScan (the route() automaton incl. DNS_QUERY hand-over) against the first-match semantics in every state; "
                                 "a seed-independent 1/%s sample of the generated programs is compiled by the production pipeline, installed into real kernel maps by "
                                 "BuildKernspace (LPM ring, routing_map, routing_meta_map) and every LAN packet is run through the real tproxy_lan_ingress_l2 "
                                 "program (BPF_PROG_TEST_RUN, both parser paths); the decision is read back with the production RetrieveRoutingResult" % env["VERIF_RS_EVERY"])
    v.assumptions += ["BPF syscall available (otherwise exit 2)", "LAN side only in this run: process-name packets are exercised by the WAN run of the shimmed object"]
