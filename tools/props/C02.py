"""C02 - the kernel routing program and the userspace matcher decide identically (spec/RuleScan.tla: KScan, KernRefines, IntendedDiff)"""
import vlib
from props.common import run_vectors
from props.rulescan import generate


def run(tier, v, wd, replay=None):
    if tier == "quick":
        cfgs = [("RuleScan_single.cfg", {}), ("RuleScan_c2.cfg", {}), ("RuleScan_r2.cfg", {})]
        env = {"VERIF_RS_EVERY": "9"}
    else:
        cfgs = [("RuleScan_single.cfg", {}), ("RuleScan_c2.cfg", {}), ("RuleScan_r2.cfg", {}),
                ("RuleScan_sim.cfg", dict(simulate={"num": 3000}, depth=14, workers=8, max_emit=12000))]
        env = {"VERIF_RS_EVERY": "2"}
    vec = generate(tier, v, wd, cfgs)
    repo = vlib.scratch_repo(wd, "real")
    run_vectors(v, wd, repo, "./control/", "TestVerifRuleScanKern", vec, env=env, tags="verif", timeout=3000)
    # a second sample with 40 never-matching domain rules in front: the program's own domain sets land in the second 32-rule word
    env2 = dict(env, VERIF_RS_SHIFT="40", VERIF_RS_EVERY=str(int(env["VERIF_RS_EVERY"]) * 3), VERIF_RS_ONLY="domain")
    run_vectors(v, wd, repo, "./control/", "TestVerifRuleScanKern", vec, env=env2, tags="verif", timeout=3000, outname="out-shift.json")
    # install orders: plain start, staged reload, roll-back after a failed hand-over, the ring of trie slots (RingInstall.tla)
    r = vlib.tlc(wd, "RingInstall", "RingInstall_mc.cfg", timeout=1500)
    v.add_tlc(r)
    if r.violated:
        raise vlib.Infra("RingInstall.tla violates %s in the model" % r.violated)
    r = vlib.tlc(wd, "RingInstall", "RingInstall_release.cfg", timeout=600, workers=1)
    if r.violated != "RingRight":
        raise vlib.Infra("RingInstall.tla with a builder that drops its prefix lists no longer violates RingRight: vacuous model")
    r = vlib.tlc(wd, "RingInstall", "RingInstall_window.cfg", timeout=600, workers=1)
    if r.violated != "LiveRight":
        raise vlib.Infra("RingInstall.tla: two generations that do not fit in the ring together no longer open the overlap window: the model does not describe the ring")
    ifile = vec + ".install"
    r = vlib.tlc(wd, "RingInstall", "RingInstall_gen.cfg" if tier == "quick" else "RingInstall_gen3.cfg", emit_to=ifile, timeout=1500)
    v.add_tlc(r)
    if r.violated:
        raise vlib.Infra("RingInstall.tla violates %s in the model (gen)" % r.violated)
    run_vectors(v, wd, repo, "./control/", "TestVerifC02Install", ifile, tags="verif", timeout=3000, outname="out-install.json")
    v.coverage["explanation"] = ("TLC checks KScan (the route() automaton incl. DNS_QUERY hand-over) against the first-match semantics in every state; "
                                 "a seed-independent 1/%s sample of the generated programs is compiled by the production pipeline, installed into real kernel maps by "
                                 "BuildKernspace (LPM ring, routing_map, routing_meta_map) and every LAN packet is run through the real tproxy_lan_ingress_l2 "
                                 "program (BPF_PROG_TEST_RUN, both parser paths); the decision is read back with the production RetrieveRoutingResult" % env["VERIF_RS_EVERY"])
    v.assumptions += ["install orders: every history of 8 build / install steps over two generations (thorough: 9 steps, three generations) of programs with 0-2 (0-3) prefix sets, on one set of kernel maps, the ring cursor carried over from history to history; after every installation the kernel's decision for probes inside and outside every generation's prefixes is compared with the installed generation's own userspace matcher; the window between writing the tries and writing the rules is in the model only",
                      "BPF syscall available (otherwise exit 2)", "LAN side only in this run: process-name packets are exercised by the WAN run of the shimmed object"]
