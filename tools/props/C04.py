"""C04 - rule normalisation never changes what the rules mean (spec/RuleScan.tla: Optimize, OptimizePreserves)"""
import vlib
from props.common import run_vectors
from props.rulescan import generate


def run(tier, v, wd, replay=None):
    if tier == "quick":
        cfgs = [("RuleScan_single.cfg", {}), ("RuleScan_c2.cfg", {}), ("RuleScan_r2.cfg", {})]
    else:
        cfgs = [("RuleScan_single.cfg", {}), ("RuleScan_c2.cfg", {}), ("RuleScan_r2.cfg", {}),
                ("RuleScan_sim.cfg", dict(simulate={"num": 3000}, depth=14, workers=8, max_emit=12000))]
    vec = generate(tier, v, wd, cfgs)
    repo = vlib.scratch_repo(wd, "stub")
    run_vectors(v, wd, repo, "./control/", "TestVerifRuleScanUser", vec, env={"VERIF_RS_MODE": "c04"},
                tags="verif,dae_stub_ebpf", timeout=3000)
    v.coverage["exhaustive"] = True
    v.coverage["explanation"] = ("TLC proves Decide(Optimize(prog)) = Decide(prog) for every generated program (alias, sort-&&, merge-neighbours, "
                                 "dedup as transcribed from optimizer.go); every program is compiled through the production optimiser pipeline "
                                 "(Alias, DatReader, MergeAndSort, DeduplicateParams) and ControlPlane.Route compared with the meaning of the rules as written")
    v.assumptions += ["geodata expansion (DatReaderOptimizer) runs on geosite: values from a generated geosite.dat; geoip:/ext: files are not exercised",
                      "DNS request/response pipelines are covered under C07"]
