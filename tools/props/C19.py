"""C19 - kernel and control plane agree on every shared structure, constant and map key
   (spec/KeyEnc.tla for keys; spec/AbiLayout.tla + generated AbiDecls.tla for layouts and constants)"""
import os
import vlib
from props.common import run_vectors


def run(tier, v, wd, replay=None):
    infile = os.path.join(wd.path, "c19_keys.ndjson")
    r = vlib.tlc(wd, "KeyEnc", "KeyEnc_mc.cfg", emit_to=infile, timeout=600)
    if r.violated:
        raise vlib.Infra("KeyEnc.tla: %s violated" % r.violated)
    v.add_tlc(r)
    repo = vlib.scratch_repo(wd, "real")
    run_vectors(v, wd, repo, "./control/", "TestVerifC19Keys", infile, timeout=900, outname="c19_keys.json")
    # prefix keys: Cidr.tla's LpmKey (prefix length in the 128-bit space, 16 data bytes) against cidrToBpfLpmKey, byte by byte, and
    # against a real kernel LPM trie written with those keys (the rule-program part of the C12 harness is switched off here)
    pfile = os.path.join(wd.path, "c19_lpm.ndjson")
    r = vlib.tlc(wd, "Cidr", "Cidr_mc.cfg", emit_to=pfile, timeout=1500)
    if r.violated:
        raise vlib.Infra("Cidr.tla: %s violated in the model" % r.violated)
    v.add_tlc(r)
    run_vectors(v, wd, repo, "./control/", "TestVerifC12", pfile, env={"VERIF_C12_RULE_EVERY": "1000000000"}, timeout=1500, outname="c19_lpm.json")
    layouts(tier, v, wd, repo)
    v.assumptions += ["the kernel's choice of connectivity slot is observed through the verdict of the real tc program; DNS-UDP slots are never read by the datapath (port 53 always passes) and are compared against the formula only"]


def _tla_str(x):
    return '"' + x.replace("\\", "\\\\").replace('"', '\\"') + '"'


def _decls_tla(name, decls):
    import re
    items = []
    for dn, d in sorted(decls.items()):
        fs = ", ".join("F(%s, %s, %d, %s, %d, %s)" % (_tla_str(f["name"]), _tla_str(f["kind"]), f["size"], _tla_str(f["struct"]), f["count"],
                                                        _tla_str(re.sub(r"[^a-z0-9]", "", f["name"].lower()))) for f in d["fields"] or [])
        items.append("  %s :> [union |-> %s, fields |-> <<%s>>]" % (_tla_str(dn), "TRUE" if d.get("union") else "FALSE", fs))
    return "%s ==\n%s\n" % (name, " @@\n".join(items))


def layouts(tier, v, wd, repo):
    import json, re, subprocess
    # (1) extraction from the sources: real flavour (BTF + Go types), stub flavour (hand-mirrored Go types)
    dumps = {}
    for flavour, tags, rp in (("real", "verif", repo), ("stub", "verif,dae_stub_ebpf", None)):
        if rp is None:
            with vlib.Workdir("C19stub") as wd2:
                rp2 = vlib.scratch_repo(wd2, "stub")
                out = os.path.join(wd.path, "abi_%s.json" % flavour)
                rc, gout = vlib.go_test(rp2, "./control/", "^TestVerifC19Extract$", env={"VERIF_OUT": out}, tags=tags, timeout=600)
        else:
            out = os.path.join(wd.path, "abi_%s.json" % flavour)
            rc, gout = vlib.go_test(rp, "./control/", "^TestVerifC19Extract$", env={"VERIF_OUT": out}, tags=tags, timeout=600)
        if rc != 0 or not os.path.exists(out):
            raise vlib.Infra("ABI extraction (%s) failed:\n%s" % (flavour, gout[-3000:]))
        dumps[flavour] = json.load(open(out))
    real, stub = dumps["real"], dumps["stub"]
    if not real["c"]:
        raise vlib.Infra("no C declarations extracted from BTF: %s" % real.get("notes"))
    # the load-time PARAM literal is one more Go declaration of struct dae_param
    real["go"]["PARAM_literal"] = {"union": False, "fields": real["param"], "size": 0}
    # #define constants of the C sources (preprocessor dump)
    cdefs = {}
    try:
        pp = subprocess.run(["clang", "-target", "bpf", "-dM", "-E", "-DMAX_MATCH_SET_LEN=1024", "-I/usr/include/x86_64-linux-gnu",
                             os.path.join(repo, "control/kern/tproxy.c")], cwd=os.path.join(repo, "control"), capture_output=True, text=True, timeout=120).stdout
        for line in pp.splitlines():
            m = re.match(r"#define (\w+) \(?(0x[0-9A-Fa-f]+|\d+)[uUlL]*\)?$", line.strip())
            if m:
                cdefs[m.group(1)] = int(m.group(2), 0)
    except Exception as e:
        v.drift.append("preprocessor dump failed: %s" % e)
    cen = dict(real["cenums"])
    for k in ("OUTBOUND_DIRECT", "OUTBOUND_BLOCK", "OUTBOUND_MUST_RULES", "OUTBOUND_CONTROL_PLANE_ROUTING", "OUTBOUND_LOGICAL_OR", "OUTBOUND_LOGICAL_AND",
              "OUTBOUND_LOGICAL_MASK", "MAX_MATCH_SET_LEN", "TASK_COMM_LEN", "TPROXY_MARK", "IPPROTO_TCP", "IPPROTO_UDP"):
        if k in cdefs:
            cen[k] = cdefs[k]
    if "max_entries.outbound_connectivity_map" in cen:
        # 256 outbounds x slots per outbound, as mirrored by control/connectivity.go
        cen["outboundConnectivitySlotsPerOutbound"] = cen["max_entries.outbound_connectivity_map"] // 256
    cen = {k: val for k, val in cen.items() if "." not in k and abs(val) < 2**31}
    goen = {k: val for k, val in real["enums"].items() if "." not in k and abs(val) < 2**31}
    pads = sorted({f["name"] for side in (real["c"], real["go"], stub["go"]) for d in side.values() for f in (d["fields"] or [])
                   if re.search(r"pad|^_", f["name"], re.I)})
    pairs = []
    for cname in sorted(real["pairs"]):
        pairs.append((cname, cname, "real"))
        pairs.append((cname, cname, "stub"))
    pairs.append(("dae_param", "PARAM_literal", "real"))
    mod = ["------------------------------ MODULE AbiDecls ------------------------------",
           "(* GENERATED from /repo on this run by tools/props/C19.py - do not edit *)",
           "EXTENDS TLC",
           "F(n, k, s, st, c, nm) == [name |-> n, kind |-> k, size |-> s, struct |-> st, count |-> c, norm |-> nm]   \\* norm: the name without case and punctuation",
           "PadNames == {%s}" % ", ".join(_tla_str(x) for x in pads),
           _decls_tla("CDecls", real["c"]), _decls_tla("GoDeclsReal", real["go"]), _decls_tla("GoDeclsStub", stub["go"]),
           "Pairs == {%s}" % ", ".join('[c |-> %s, go |-> %s, flavour |-> %s]' % (_tla_str(a), _tla_str(b), _tla_str(c)) for a, b, c in pairs),
           "CEnums == %s" % " @@ ".join("%s :> %d" % (_tla_str(k), val) for k, val in sorted(cen.items())),
           "GoEnums == %s" % " @@ ".join("%s :> %d" % (_tla_str(k), val) for k, val in sorted(goen.items())),
           "============================================================================="]
    sd = vlib.spec_dir(wd)
    open(os.path.join(sd, "AbiDecls.tla"), "w").write("\n".join(mod) + "\n")
    r = vlib.tlc(wd, "AbiLayout", "AbiLayout_mc.cfg", timeout=600)
    v.add_tlc(r)
    if r.violated == "ConstsAgree":
        for k in sorted(cen):
            if k in goen and cen[k] != goen[k]:
                v.violation("c19-const:" + k, "shared constant %s is %d in the C sources and %d on the Go side" % (k, cen[k], goen[k]), {"const": k, "c": cen[k], "go": goen[k]})
        return
    if r.violated:
        raise vlib.Infra("AbiLayout.tla: %s" % r.violated)
    v.coverage["abi_pairs"] = len(r.emitted)
    v.coverage["abi_constants_compared"] = len([k for k in cen if k in goen])
    for e in r.emitted:
        # (a) the model's rules against both compilers
        cdecl = real["c"][e["c"]]
        gdecl = (real if e["flavour"] == "real" else stub)["go"][e["go"]]
        ctruth = [f["offset"] for f in cdecl["fields"]]
        gtruth = [f["offset"] for f in gdecl["fields"]]
        if e["go"] != "PARAM_literal":
            if list(e["coffsets"]) != ctruth or e["csize"] != cdecl["size"]:
                raise vlib.Infra("the ABI model's C layout rules disagree with the C compiler for struct %s: model %s/%d, BTF %s/%d" % (e["c"], e["coffsets"], e["csize"], ctruth, cdecl["size"]))
            if list(e["gooffsets"]) != gtruth or e["gosize"] != gdecl["size"]:
                raise vlib.Infra("the ABI model's Go layout rules disagree with the Go compiler for %s (%s): model %s/%d, reflect %s/%d" % (e["go"], e["flavour"], e["gooffsets"], e["gosize"], gtruth, gdecl["size"]))
        # (b) C against Go
        if not e.get("names", True):
            v.violation("c19-names:%s:%s:%s" % (e["c"], e["go"], e["flavour"]),
                        "struct %s vs %s (%s build): fields of equal offset and width carry different names on the two sides: C %s, Go %s - values are written into the wrong member" % (
                            e["c"], e["go"], e["flavour"], [f["name"] for f in cdecl["fields"]], [f["name"] for f in gdecl["fields"]]),
                        {"c": cdecl, "go": gdecl})
        if not e["agrees"]:
            v.violation("c19-layout:%s:%s:%s" % (e["c"], e["go"], e["flavour"]),
                        "struct %s: the C layout (size %d, field offsets %s) and its Go counterpart %s in the %s build (size %d, field offsets %s) differ in size, field offsets or field widths" % (
                            e["c"], e["csize"], e["coffsets"], e["go"], e["flavour"], e["gosize"], e["gooffsets"]),
                        {"c": cdecl, "go": gdecl})
        v.sample({"struct": e["c"], "go": e["go"], "flavour": e["flavour"], "size": e["csize"]})
