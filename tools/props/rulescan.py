"""shared by C01 / C02 / C04: RuleScan.tla model checking + vector generation"""
import os
import vlib


def generate(tier, v, wd, configs, merge_negated=False):
    """runs TLC on the given RuleScan configs; returns the path of the concatenated vector file"""
    vec = os.path.join(wd.path, "rulescan.ndjson")
    with open(vec, "w") as out:
        for cfg, kw in configs:
            part = vec + "." + cfg
            r = vlib.tlc(wd, "RuleScan", cfg, emit_to=part, timeout=3000, **kw)
            if r.violated:
                raise vlib.Infra("RuleScan.tla: %s violated in the model itself (%s):\n%s" % (r.violated, cfg, "\n".join(r.trace[:60])))
            v.add_tlc(r)
            with open(part) as f:
                for line in f:
                    out.write(line)
            os.remove(part)
    return vec
