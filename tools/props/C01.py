"""C01 - traffic is routed by the first matching rule, exactly as written (spec/RuleScan.tla, CidrOps, DomainOps)"""
import vlib
from props.common import run_vectors
from props.rulescan import generate


def run(tier, v, wd, replay=None):
    if tier == "quick":
        cfgs = [("RuleScan_single.cfg", {}), ("RuleScan_c2.cfg", {}), ("RuleScan_r2.cfg", {})]
        every = {"VERIF_RS_EVERY": "1"}
    else:
        cfgs = [("RuleScan_single.cfg", {}), ("RuleScan_c2.cfg", {}), ("RuleScan_r2.cfg", {}),
                ("RuleScan_sim.cfg", dict(simulate={"num": 3000}, depth=14, workers=8, max_emit=12000))]
        every = {}
    vec = generate(tier, v, wd, cfgs)
    repo = vlib.scratch_repo(wd, "stub")
    env = {"VERIF_RS_MODE": "c01"}
    env.update(every)
    run_vectors(v, wd, repo, "./control/", "TestVerifRuleScanUser", vec, env=env, tags="verif,dae_stub_ebpf", timeout=3000)
    v.coverage["exhaustive"] = True
    v.coverage["explanation"] = ("TLC: every single-condition rule over the full value universe of the ten functions x negation x 7 outbound forms x "
                                 "2 fallbacks against the full boundary domain of the mentioned packet field (both families); every 2-rule and every "
                                 "2-condition program over the reduced universe; ScanRefines/KernRefines/OptimizePreserves/LowerWF hold in every state. "
                                 "Each program is rendered to dae configuration text (aliases and key spellings chosen by seed) and compiled by the "
                                 "production pipeline without optimisers; ControlPlane.Route is compared with the spec's Decide for every packet.")
    v.assumptions += ["geosite: values are expanded from a generated geosite.dat (three lists incl. an attribute filter); geoip:/ext: files are not exercised",
                      "regex domain patterns restricted to the structured subset of DomainOps.tla"]
