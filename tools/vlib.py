#!/usr/bin/env python3
"""Common machinery for the dae TLA+ verification checks.

Verdict discipline (DESIGN.md §1): a VIOLATION is printed only when the *real code's* observable behaviour
is outside the specification's property layer.  TLC counterexamples alone, timeouts, dead drivers and
build failures are infrastructure errors (exit 2).
"""
import json, os, re, shutil, subprocess, sys, tempfile, time, hashlib

VERIF = os.environ.get("VERIF_ROOT", "/verif")
REPO = os.environ.get("VERIF_REPO", "/repo")
SPEC = os.path.join(VERIF, "spec")
EVID = os.environ.get("VERIF_EVIDENCE_DIR") or os.path.join(VERIF, "evidence")  # (seed runs keep the committed evidence untouched)
REPLAY = os.path.join(EVID, "replay")
TMPBASE = os.environ.get("VERIF_TMP", "/var/tmp")
GOENV = dict(GOFLAGS="-mod=mod", GOPROXY="off", GOSUMDB="off", GOTOOLCHAIN="local")
GO = "go1.26"
NCPU = os.cpu_count() or 4


class Infra(Exception):
    """infrastructure failure: exit 2, never a violation"""


def seed():
    try:
        return int(os.environ.get("VERIF_SEED", "1"))
    except ValueError:
        return 1


def log(*a):
    print(*a, file=sys.stderr, flush=True)


class Workdir:
    """scratch directory outside /repo and /verif, removed on exit"""

    def __init__(self, tag):
        self.path = tempfile.mkdtemp(prefix="verif-%s-" % tag, dir=TMPBASE)

    def __enter__(self):
        return self

    def __exit__(self, *a):
        if os.environ.get("VERIF_KEEP"):
            log("keeping", self.path)
            return
        subprocess.run(["chmod", "-R", "u+w", self.path], stderr=subprocess.DEVNULL)
        shutil.rmtree(self.path, ignore_errors=True)

    def sub(self, name):
        p = os.path.join(self.path, name)
        os.makedirs(p, exist_ok=True)
        return p


# --------------------------------------------------------------------------------------------- TLC

class TLCResult:
    def __init__(self):
        self.exit = None
        self.generated = 0
        self.distinct = 0
        self.depth = 0
        self.out = ""
        self.emitted = []     # parsed JSON payloads of lines tagged with the emission marker
        self.violated = None  # name of violated invariant/property, if any
        self.trace = []       # raw counterexample text
        self.coverage_zero = []
        self.wall = 0.0

    @property
    def ok(self):
        return self.exit == 0


_EMIT_RE = re.compile(r'^<<"(BEHAVIOUR|VECTOR)", "(.*)">>$')


def _unescape_tla(s):
    # TLC prints TLA+ strings with \" and \\ escapes
    return s.replace('\\"', '"').replace('\\\\', '\\')


def spec_dir(wd):
    """scratch copy of /verif/spec (TLC litters its working directory)"""
    sd = os.path.join(wd.path, "spec")
    if not os.path.isdir(sd):
        shutil.copytree(SPEC, sd)
    return sd


def tlc(wd, module, cfg, *, workers=None, simulate=None, depth=None, timeout=600, extra=(), coverage=False,
        deadlock=False, jvm=(), dfs=False, quiet=False, emit_to=None, max_emit=None, dump_trace=None):
    """Run TLC on spec/<module>.tla with spec/<cfg> in a scratch copy of the spec directory.
    simulate: dict(num=N) -> -simulate num=N ; depth -> -depth D.
    Lines printed by the spec as <<"VECTOR"|"BEHAVIOUR", json>> are collected (or streamed to emit_to)."""
    sd = spec_dir(wd)
    meta = tempfile.mkdtemp(prefix="meta-", dir=wd.path)
    cmd = ["java", "-XX:+UseParallelGC", "-Xss64m", "-Xmx%dg" % int(os.environ.get("VERIF_TLC_HEAP_G", "12"))]
    if dfs:
        cmd.append("-Dtlc2.tool.queue.IStateQueue=StateDeque")
    cmd += list(jvm)
    cmd += ["-cp", "/opt/veriftools/tla/tla2tools.jar:/opt/veriftools/tla/CommunityModules-deps.jar",
            "tlc2.TLC", "-metadir", meta, "-config", cfg, "-noGenerateSpecTE"]
    if not deadlock:
        cmd.append("-deadlock")  # -deadlock DISABLES deadlock checking
    if simulate is not None:
        w = workers or 1
        cmd += ["-workers", str(w), "-simulate", "num=%d" % simulate["num"], "-seed", str(seed())]
        if depth:
            cmd += ["-depth", str(depth)]
    else:
        cmd += ["-workers", str(workers or "auto")]
    if coverage:
        cmd += ["-coverage", "1"]
    if dump_trace:
        cmd += ["-dumpTrace", "json", dump_trace]
    cmd += list(extra)
    cmd.append(module)
    r = TLCResult()
    t0 = time.time()
    fout = open(emit_to, "w") if emit_to else None
    nemit = 0
    try:
        p = subprocess.Popen(cmd, cwd=sd, stdout=subprocess.PIPE, stderr=subprocess.STDOUT, text=True,
                             env=dict(os.environ, JAVA_TOOL_OPTIONS=""))
        other = []
        deadline = t0 + timeout
        for line in p.stdout:
            line = line.rstrip("\n")
            m = _EMIT_RE.match(line)
            if m:
                payload = _unescape_tla(m.group(2))
                nemit += 1
                if fout:
                    fout.write(payload + "\n")
                else:
                    r.emitted.append(json.loads(payload))
                if max_emit and nemit >= max_emit:
                    p.kill()
                    r.exit = 0
                    break
            else:
                other.append(line)
            if time.time() > deadline:
                p.kill()
                raise Infra("TLC timeout after %ds on %s/%s" % (timeout, module, cfg))
        p.wait()
        if r.exit is None:
            r.exit = p.returncode
    finally:
        if fout:
            fout.close()
    r.n_emitted = nemit
    r.wall = time.time() - t0
    r.out = "\n".join(other)
    for line in other:
        m = re.search(r"(\d+) states generated, (\d+) distinct states found", line)
        if m:
            r.generated, r.distinct = int(m.group(1)), int(m.group(2))
        m = re.search(r"The depth of the complete state graph search is (\d+)", line)
        if m:
            r.depth = int(m.group(1))
        m = re.search(r"Invariant (\S+) is violated", line)
        if m:
            r.violated = m.group(1)
        m = re.search(r"Action property (\S+) is violated|Temporal properties were violated|property (\S+) is violated", line)
        if m and not r.violated:
            r.violated = m.group(1) or m.group(2) or "temporal"
        if simulate is not None:
            m = re.search(r"The number of states generated: (\d+)", line)
            if m:
                r.generated = int(m.group(1))
                r.distinct = max(r.distinct, r.generated)
    if coverage:
        for line in other:
            m = re.match(r"^<(\w+) line .* of module (\w+)>: (\d+):(\d+)$", line.strip())
            if m and int(m.group(4)) == 0 and m.group(1) != "Init":
                r.coverage_zero.append(m.group(1))
    if not quiet:
        log("[tlc] %s/%s exit=%s generated=%d distinct=%d emitted=%d wall=%.1fs%s" % (
            module, cfg, r.exit, r.generated, r.distinct, nemit, r.wall,
            (" VIOLATED " + str(r.violated)) if r.violated else ""))
    if r.exit not in (0, 12, 13) and not (max_emit and nemit >= max_emit):
        raise Infra("TLC failed (exit %s) on %s/%s:\n%s" % (r.exit, module, cfg, "\n".join(other[-40:])))
    if r.exit in (12, 13):
        # collect the counterexample text
        keep = False
        for line in other:
            if line.startswith("Error:"):
                keep = True
            if keep:
                r.trace.append(line)
    return r


# --------------------------------------------------------------------------------------------- Go side

def scratch_repo(wd, flavour="real"):
    t0 = time.time()
    p = subprocess.run([os.path.join(VERIF, "tools", "scratch.sh"), wd.path, flavour],
                       stdout=subprocess.PIPE, stderr=subprocess.STDOUT, text=True, env=dict(os.environ, **GOENV))
    if p.returncode != 0:
        raise Infra("scratch build failed:\n" + p.stdout[-4000:])
    log("[scratch] %s flavour=%s %.1fs" % (wd.path, flavour, time.time() - t0))
    return os.path.join(wd.path, "repo")


def go_test(repo, pkg, run, *, env=None, tags="verif", timeout=900, race=False, count=1, extra=()):
    """Run one harness test; the harness communicates through files named in env (VERIF_IN / VERIF_OUT)."""
    cmd = [GO, "test", "-vet=off", "-count=%d" % count, "-tags", tags, "-run", run, "-timeout", "%ds" % timeout]
    if race:
        cmd.append("-race")
    cmd += list(extra)
    cmd.append(pkg)
    e = dict(os.environ, **GOENV)
    e.update(env or {})
    e.setdefault("VERIF_SEED", str(seed()))
    t0 = time.time()
    try:
        p = subprocess.run(cmd, cwd=repo, stdout=subprocess.PIPE, stderr=subprocess.STDOUT, text=True, env=e,
                           timeout=timeout + 120)
    except subprocess.TimeoutExpired:
        raise Infra("go test timeout: %s %s" % (pkg, run))
    log("[go] %s -run %s exit=%d %.1fs" % (pkg, run, p.returncode, time.time() - t0))
    return p.returncode, p.stdout


def read_result(path, gout=""):
    if not os.path.exists(path):
        raise Infra("harness produced no result file %s\n%s" % (path, gout[-6000:]))
    with open(path) as f:
        return json.load(f)


# --------------------------------------------------------------------------------------------- verdicts

def known_findings():
    p = os.path.join(VERIF, "known_findings.json")
    if not os.path.exists(p):
        return {"findings": [], "fixed": []}
    with open(p) as f:
        return json.load(f)


def finding_key(obj):
    return hashlib.sha1(json.dumps(obj, sort_keys=True).encode()).hexdigest()[:16]


class Verdict:
    def __init__(self, pid, tier):
        self.pid, self.tier = pid, tier
        self.t0 = time.time()
        self.violations = []   # (key, description, replay object)
        self.known = []
        self.coverage = {"states": 0, "transitions": 0, "traces_validated_against_impl": 0, "samples": []}
        self.assumptions = []
        self.drift = []
        self._kf = [f for f in known_findings().get("findings", []) if f.get("property") == pid]

    def add_tlc(self, r):
        self.coverage["states"] += r.distinct
        self.coverage["transitions"] += r.generated

    def sample(self, s, limit=5):
        if len(self.coverage["samples"]) < limit:
            self.coverage["samples"].append(s)

    def violation(self, key, what, replay):
        """key: canonical identification of the failing input/schedule (string)"""
        for f in self._kf:
            if f.get("key") == key:
                if key not in [k for k, _ in self.known]:
                    self.known.append((key, f.get("what", what)))
                return
        self.violations.append((key, what, replay))

    def finish(self, extra_cov=None):
        os.makedirs(REPLAY, exist_ok=True)
        for old in os.listdir(REPLAY):
            if old.startswith(self.pid + "-"):
                os.remove(os.path.join(REPLAY, old))
        if extra_cov:
            self.coverage.update(extra_cov)
        if not self.coverage["samples"]:
            self.coverage["samples"] = ["(no sample recorded)"]
        for key, what in self.known:
            print("KNOWN-FINDING: property=%s %s" % (self.pid, what))
        rc = 0
        seen = set()
        for i, (key, what, replay) in enumerate(self.violations):
            if key in seen:
                continue
            seen.add(key)
            if len(seen) > 10:
                break
            path = os.path.join(REPLAY, "%s-%s.json" % (self.pid, re.sub(r"[^A-Za-z0-9_.-]", "_", key)[:60]))
            with open(path, "w") as f:
                json.dump({"property": self.pid, "key": key, "what": what, "replay": replay}, f, indent=1, default=str)
            print("VIOLATION property=%s replay=%s" % (self.pid, path))
            print("  " + what[:600])
            rc = 1
        ev = {
            "property_id": self.pid, "tier": self.tier, "seed": seed(), "level": "model_checking",
            "coverage": self.coverage, "assumptions": self.assumptions,
            "wall_s": round(time.time() - self.t0, 2), "violations": len(seen),
            "model_drift": self.drift[:20], "known_findings": [w for _, w in self.known],
        }
        os.makedirs(EVID, exist_ok=True)
        with open(os.path.join(EVID, self.pid + ".json"), "w") as f:
            json.dump(ev, f, indent=1, default=str)
        log("[%s] %s tier done in %.1fs: states=%d transitions=%d traces=%d violations=%d known=%d" % (
            self.pid, self.tier, ev["wall_s"], self.coverage["states"], self.coverage["transitions"],
            self.coverage["traces_validated_against_impl"], len(seen), len(self.known)))
        return rc
