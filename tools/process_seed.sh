#!/bin/bash
# process_seed.sh <prop> <seed-id> <demo file> <pkg dir> [tags] [check-prop...]
# Confirms a sub-agent's seed from /tmp/seedwt/<prop>-out, saves it under /verif/seeded/<seed-id>, runs the quick check(s).
set -uo pipefail
PROP="$1"; SID="$2"; DEMO="$3"; PKG="$4"; TAGS="${5:-}"; shift 5 || true
OUT=/tmp/seedwt/$PROP-out
cd /verif
CONF=$(BPF_PREP=${BPF_PREP:-} tools/confirm_seed.sh "$SID" "$OUT/patch.diff" "$OUT/$DEMO" "$PKG" "$TAGS" | tail -1)
echo "CONFIRM $CONF"
NEEDS="$(grep -i -m1 -A3 'manifest' "$OUT/README.md" | tr '\n' ' ' | cut -c1-400)"
python3 tools/save_seed.py "$SID" "$PROP" "$OUT" "$DEMO" "$PKG" "$NEEDS" "$CONF"
for P in "${@:-$PROP}"; do
  echo "== check $P on $SID"
  tools/seed_run.sh "$SID" "$P" quick
done
