#!/bin/bash
# run_all.sh [tier] [seed]  - runs every claimed check sequentially; prints one line per check
tier=${1:-quick}; export VERIF_SEED=${2:-1}
cd /verif
for id in $(python3 -c "import json;print(' '.join(c['property_id'] for c in json.load(open('MANIFEST.json'))['checks']))"); do
  s=$(date +%s)
  out=$(timeout 3000 python3 tools/check.py $id $tier 2>&1); rc=$?
  echo "$id rc=$rc $(( $(date +%s)-s ))s $(echo "$out" | grep -c '^VIOLATION') violations $(echo "$out" | grep -c '^KNOWN-FINDING') known"
  [ $rc -ne 0 ] && echo "$out" | tail -5
done
