#!/bin/bash
# reconfirm_seed.sh <seed-id> <DEMO_RUN regexp> [tags]  - re-runs the confirmation of a stored seed with a -run filter and updates meta.json
set -uo pipefail
SID="$1"; export DEMO_RUN="$2"; TAGS="${3:-}"
D=/verif/seeded/$SID
DEMO=$(python3 -c "import json;m=json.load(open('$D/meta.json'));print(m['demonstration']['file'])")
PKG=$(python3 -c "import json;m=json.load(open('$D/meta.json'));print(m['demonstration']['package_dir'])")
cp "$D/${DEMO%.go}.go.txt" "/tmp/$DEMO"
CONF=$(BPF_PREP=${BPF_PREP:-} /verif/tools/confirm_seed.sh "$SID" "$D/patch.diff" "/tmp/$DEMO" "$PKG" "$TAGS" | tail -1)
echo "$CONF"
python3 - "$D/meta.json" "$CONF" "$DEMO_RUN" "$TAGS" <<'P'
import json,sys
p,conf,run,tags=sys.argv[1:5]
m=json.load(open(p)); m['confirm_result']=json.loads(conf); m['demonstration']['run']=run; m['demonstration']['tags']=tags
json.dump(m,open(p,'w'),indent=1)
P
