#!/bin/bash
# confirm_seed.sh <name> <patch.diff> <demo_test.go> <pkgdir> [tags]
# Confirms a seeded property-breaking change in a scratch worktree of /repo (HEAD):
#   1. with the change the repository builds and the existing suite passes (same set of failing packages as HEAD),
#   2. the demonstration test fails with the change,
#   3. and passes without it.
# Prints a JSON summary on stdout. The worktree is removed afterwards.
set -uo pipefail
NAME="$1"; PATCH="$(readlink -f "$2")"; DEMO="$(readlink -f "$3")"; PKG="$4"; TAGS="${5:-}"
export GOFLAGS=-mod=mod GOPROXY=off GOSUMDB=off GOTOOLCHAIN=local
WT=/var/tmp/seedconfirm-$NAME-$$
git -C /repo worktree add --detach "$WT" HEAD >/dev/null 2>&1 || { echo '{"error":"worktree"}'; exit 2; }
trap 'git -C /repo worktree remove --force "$WT" >/dev/null 2>&1; rm -rf "$WT"' EXIT
cd "$WT"
suite() { go1.26 test -vet=off -count=1 ./... 2>&1 | grep -E '^(ok|FAIL|---|panic)' | sed -E 's/[0-9.]+s$//' | sort; }
TAGARG=""; [ -n "$TAGS" ] && TAGARG="-tags $TAGS"
suite > /tmp/seed-$NAME-base.txt
git apply "$PATCH" || { echo '{"error":"patch does not apply"}'; exit 2; }
suite > /tmp/seed-$NAME-mut.txt
SUITE_SAME=false; diff -q /tmp/seed-$NAME-base.txt /tmp/seed-$NAME-mut.txt >/dev/null && SUITE_SAME=true
cp "$DEMO" "$PKG/"
bpfprep() { if [ -n "${BPF_PREP:-}" ]; then (cd control && rm -rf kern/headers && ln -s /verif/bpf/headers kern/headers && GOPACKAGE=control /verif/bin/bpf2go -cc clang -no-strip -cflags "-O2 -Wall -DMAX_MATCH_SET_LEN=1024 -I/usr/include/x86_64-linux-gnu" -tags '!dae_stub_ebpf' -target bpfel -type port_range -type tuples_key bpf kern/tproxy.c -- -I./headers >/dev/null 2>&1); fi; }
bpfprep
go1.26 test -vet=off -count=1 $TAGARG -run "${DEMO_RUN:-.}" "./$PKG/" > /tmp/seed-$NAME-demo-mut.txt 2>&1; DM=$?
[ -n "${DEMO_RUN:-}" ] || true
git apply -R "$PATCH"
bpfprep
go1.26 test -vet=off -count=1 $TAGARG -run "${DEMO_RUN:-.}" "./$PKG/" > /tmp/seed-$NAME-demo-base.txt 2>&1; DB=$?
echo "{\"name\":\"$NAME\",\"suite_same_as_head\":$SUITE_SAME,\"demo_exit_with_change\":$DM,\"demo_exit_without_change\":$DB}"
