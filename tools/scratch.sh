#!/bin/bash
# scratch.sh <dir> [real|stub]
# Makes a scratch copy of /repo's *current working tree* in <dir>/repo, generates the eBPF
# bindings for package control (real flavour), and copies the verification harness files
# (in-package _test.go files under /verif/harness/<pkgpath>/) into it.
# Nothing is written to /repo or /verif.
set -euo pipefail
DIR="$1"; FLAVOUR="${2:-real}"
VERIF="${VERIF_ROOT:-/verif}"
REPO="${VERIF_REPO:-/repo}"
export GOFLAGS=-mod=mod GOPROXY=off GOSUMDB=off GOTOOLCHAIN=local
GO=go1.26
mkdir -p "$DIR"
rsync -a --delete --exclude .git --exclude node_modules "$REPO"/ "$DIR/repo/"
cd "$DIR/repo"
# harness files: /verif/harness/<pkg path>/*  ->  <scratch>/repo/<pkg path>/
if [ -d "$VERIF/harness" ]; then
  (cd "$VERIF/harness" && find . -type f \( -name '*.go' -o -name '*.json' -o -name '*.h' \) | while read -r f; do
     mkdir -p "$DIR/repo/$(dirname "$f")"; cp "$f" "$DIR/repo/$f"; done)
fi
if [ "$FLAVOUR" = real ]; then
  BPF2GO="$VERIF/bin/bpf2go"
  if [ ! -x "$BPF2GO" ]; then
    mkdir -p "$VERIF/bin"
    (cd "$REPO" && $GO build -o "$BPF2GO" github.com/cilium/ebpf/cmd/bpf2go)
  fi
  rm -rf control/kern/headers control/headers
  ln -s "$VERIF/bpf/headers" control/kern/headers
  CFLAGS="-O2 -Wall -DMAX_MATCH_SET_LEN=1024 -I/usr/include/x86_64-linux-gnu"
  (cd control && GOPACKAGE=control "$BPF2GO" -cc clang -no-strip -cflags "$CFLAGS" \
      -tags '!dae_stub_ebpf' -target bpfel -type port_range -type tuples_key bpf kern/tproxy.c -- -I./headers >/dev/null)
  if [ -f "$VERIF/bpf/verif_shims.h" ]; then
    # second object: same unmodified tproxy.c with clock / cookie helper doubles
    clang -target bpf -O2 -g -Wall -DMAX_MATCH_SET_LEN=1024 -I/usr/include/x86_64-linux-gnu \
      -include "$VERIF/bpf/verif_shims.h" -c control/kern/tproxy.c -o control/verif_shimmed_bpfel.o
  fi
fi
echo "$DIR/repo"
