#!/usr/bin/env python3
"""Regenerates /verif/MANIFEST.json from the table below (single source of truth)."""
import json, os, subprocess

VERIF = os.path.dirname(os.path.dirname(os.path.abspath(__file__)))
ALL = ["C%02d" % i for i in range(1, 21)]

CLAIMED = {
 "C03": dict(
   technique="TLA+ spec Datapath.tla: one flow (tcp / udp / dns x forwarded-LAN / locally-originated-WAN) with the abstract content of conn_state_map and routing_handoff_map, the rules' current answer, group health bits and a clock; actions transcribed from do_tproxy_lan_ingress, do_tproxy_wan_egress_{tcp,udp}, do_tproxy_wan_ingress and __mark_{tcp,udp}_seen; model-checked with TLC; simulated behaviours replayed packet by packet on the real tc programs executed by the kernel (BPF_PROG_TEST_RUN) over real maps, decisions read back with the production RetrieveRoutingResult",
   text="TLC checks DirectPasses, BlockDrops, DeadGroupDrops, RedirectCarriesDecision, StickyWhileTracked (+ action property), SynRoutesAfresh, DnsStateless, OwnTrafficNeverCaptured and WanOriginatedRepliesPass exhaustively for all 4-event histories of the six flow classes and simulates 8-event histories (packets SYN/EST/FIN/datagram by user, dae pid or dae socket mark; reverse-direction packets; clock steps across the 1 s / 10 s / 120 s thresholds; rule changes among direct, direct+mark, block, proxy, must proxy+mark; group health flips). Each history runs on the kernel programs with frames in both parser paths (short / >=128 bytes), IPv4 and IPv6 with and without a hop-by-hop header: verdict, skb mark, cb tag, and for redirects the decision (outbound, mark, must, dscp, source MAC, process) recovered by the control plane are compared; the health bit is placed in the flow's own slot with every other slot of the group contradicting it.",
   note="Not driven: L3 link types, IPv4/IPv6 fragments and truncated frames (parse outcome only through the pass/drop classes of C19's parser vectors), the local-socket lookup, a full conn_state_map, dae0 / dae0peer hooks. Trusted: TLC, the kernel's BPF_PROG_TEST_RUN.",
   design="§3 C03"),
 "C05": dict(
   technique="Timed TLA+ spec TcpRelay.tla (one proxied connection: client / server writes of several segment kinds, half-closes in any order, idle periods relative to the DNS-detection, prefetch, sniffing and half-close-grace windows; the obligations after every event: prefix always, nothing withheld after the windows, end of stream passed on, a direction ended only after the opposite end of stream plus grace, idle time never ends a connection) model-checked with TLC; simulated behaviours replayed event by event on the real ControlPlane.handleConn over in-memory TCP-like sockets in virtual time (testing/synctest)",
   text="TLC checks the obligations' own consistency exhaustively for all 4-event histories (Monotone, EndsOnlyAfterEof, IdleNeverCuts, DelayBounded) and simulates 7-event histories for ports 443 and 53. Each is executed on the real handleConn (DNS-over-TCP detection with bufio fall-through, prefetch, ConnSniffer, routeDial through a one-node group to a fake destination, RelayTCPContextWithRecords with the gather / loop copy paths): after every event the bytes received on both ends are compared with the bytes sent (prefix, completeness once the detection windows are over), end-of-stream propagation, and whether the relay ended the connection without licence. This found and fixed three defects (uint16 overflow panic on port 53, leaked 5 s DNS-probe deadline, half-close not forwarded through the sniffing wrappers) and depends on the sniffer fix recorded under C06.",
   note="In-memory sockets: the splice(2) and writev paths that need *net.TCPConn on both sides are exercised by the real-socket part only for byte fidelity and half-close (wall clock, short histories). The destination dial is a fake. Trusted: TLC, testing/synctest.",
   design="§3 C05"),
 "C06": dict(
   technique="Generative TLA+ spec Sniff.tla: abstract TLS ClientHello / HTTP/1 request head / QUIC Initial flight structures with the expected outcome computed from the RFC structure (first host_name entry of server_name, first Host header, CRYPTO range coverage), delivery plans (cuts into reads with gaps relative to the sniffing timeout; CRYPTO frames split, reordered, duplicated, padded, spread over packets and datagrams, coalesced foreign packets; drain method) enumerated / simulated by TLC; every case rendered to bytes (QUIC packets protected by an independent RFC 9001/9369 implementation on the standard library) and run through NewConnSniffer.SniffTcp over a scheduled in-memory connection in virtual time and NewPacketSniffer/AppendData/SniffUdp",
   text="TLC enumerates all hellos with up to 2 (thorough: 3) extensions in all orders (SNI with one / several / unknown-type / no entries, GREASE, padding, ALPN, supported_versions, key_share), record and legacy versions, session ids, non-hello handshake types, all HTTP heads of up to 2 (3) headers over 4 methods, all cut sets of up to 2 cuts over 6 positions x 3 gap classes x 3 drain methods, and simulates QUIC v1/v2 flights of up to 3 packets. Compared: the outcome class and name against the RFC expectation, completion within the sniffing timeout, bytes handed on afterwards through Read / WriteTo / TakeRelayPrefix equal to the bytes sent (the connection stays usable), datagrams byte-for-byte unchanged and in order, no panic; random / truncated / bit-flipped inputs carry only the totality and payload obligations. This found and fixed three defects (sticky timeout error, truncated Host, QUIC v2 never recognised).",
   note="Length-field perturbations of otherwise valid hellos are covered only through bit flips / truncation (no name expectation). A reader polling a finished stream spins until the deadline (observed, within the timeout, not claimed). Trusted: TLC, testing/synctest, crypto/aes, crypto/hkdf.",
   design="§3 C06"),
 "C09": dict(
   technique="TLA+ spec DnsConc.tla (singleflight join/lead/publish, cachedDnsForwarder use counting and retirement, pooled UDP sockets with buffered datagrams, one pipelined TCP connection with lowest-free pipeline ids, a server that answers any request it has seen late / twice / for another question, deadlines) model-checked exhaustively with TLC; every behaviour replayed step by step on a real DnsController with real DoUDP / DoTCP forwarders over in-memory sockets in virtual time (testing/synctest), observations compared after every step",
   text="TLC enumerates all behaviours of 3 (thorough: 4) clients with colliding transaction ids and equal / different questions, 4 server sends and timeouts, for both transports, checking ReplyMatches, CacheTruthful, OneResolution, ClosedOnce and RetiredGetsClosed in every state; the same model with the question validation switched off must violate ReplyMatches (non-vacuity). All behaviours (quick: 8000 sampled by VERIF_SEED, thorough: 120000) are executed on the real code: replies (id, question, answer owner names), the number of requests the server received, forwarder close counts / close-while-in-use / use-after-close after every step, and the cache contents at the end. This found and fixed a defect (answers accepted on the transaction id alone).",
   note="Races inside one step (e.g. response-slot reuse between read loop and deferred release) are not explored; DoH/DoQ/DoT handshakes are not driven; the forwarder idle janitor is not modelled. Trusted: TLC, testing/synctest.",
   design="§3 C09"),
 "C07": dict(
   technique="TLA+ spec DnsRoute.tla: first-match reference semantics of dns.routing request/response rules (qname kinds, qtype, ip on answer records, upstream by declaration), the match-set lowering + sentinel scan of RequestMatcher/ResponseMatcher and the optimisers as implementation layer, and the controller flow (route, reject purges and answers empty, scoped cache, bounded re-ask chain) as a state machine; model-checked with TLC; every configuration rendered to dae configuration text and run through dns.New + RequestSelect/ResponseSelect, and every behaviour through DnsController.HandleWithResponseWriter_ with fake upstream servers",
   text="TLC checks exhaustively that both scans refine first-match and the optimisers preserve it over all single-rule programs of the full condition universe and all 1-2 rule programs of the reduced one, and that no rule set makes the controller ask more than MaxDnsLookupDepth times (rule sets that bounce between upstreams included), that reject answers empty without asking whatever the cache holds, and that replies are the last asked upstream's answer. Vectors: every configuration x every context (4 spellings of names x 3 qtypes x 8 answer record mixes x answering upstream incl. as-is and a second upstream declared with the same URL) against RequestSelect / ResponseSelect, comparing the decision and the identity of the returned upstream object. Behaviours: configurations + up to 4 client questions / carried-over cache entries against a real DnsController: which fake server is asked in which order, the reply's records, id and question, the depth error.",
   note="Upstream transports are fake forwarders behind the dnsForwarderFactory / bestDialerChooser seams (C09 covers the transports). geosite/geoip expansions are not exercised offline. Trusted: TLC.",
   design="§3 C07"),
 "C08": dict(
   technique="TLA+ spec DnsCache.tla (keys = name/type/scope, whole-second clock, configuration chosen in the initial state, janitor phase, reload clones) model-checked with TLC; simulated histories with per-step expected observations replayed on a real DnsController in virtual time (testing/synctest) through the production insert and lookup paths",
   text="TLC explores all histories of length 5 over 3 keys (two scopes of one name, another name/type), 2 record TTLs, fixed_domain_ttl on/off, optimistic caching on/off, stale window 0/20 s, size limit 0/2 and clock ticks that straddle deadlines, stale-window ends and janitor runs. Histories of length 16 are executed on a real controller inside a synctest bubble (Tick = time.Sleep, the real 30 s janitor fires in virtual time): answers enter through NormalizeAndCacheDnsResp_, lookups go through LookupDnsRespCache_ with differently-cased names, reloads through CloneCacheForReload/RestoreReloadCache; served-vs-miss, the served address, the question, the TTL slack, the refresh flag, the size bound and the survivors of LRU eviction are compared. This found and fixed two defects (stale window never honoured; LRU evicting just-inserted entries).",
   note="Janitor steps whose LRU victim is not determined (equally old entries) are not generated. Trusted: TLC, testing/synctest.",
   design="§3 C08"),
 "C19": dict(
   technique="TLA+ specs KeyEnc.tla (map-key functions) and AbiLayout.tla (C / Go layout rules evaluated by TLC over AbiDecls.tla, a constants module generated on every run from the compiled object's BTF, Go reflection in both build flavours, go/ast for the PARAM literal and the preprocessor's macro dump); keys compared with the Go constructors' bytes and with the keys the real kernel program uses; model layouts validated against both compilers",
   text="TLC enumerates boundary flows / outbound ids / addresses and emits the expected key bytes; the harness compares bpfTuplesKeyFromAddrPorts, outboundConnectivityMapKey and the domain-table key byte for byte, reads back the key the kernel stored for the same frame, and finds the connectivity slot the kernel reads by flipping slots and watching the verdict of the real tc program. For layouts TLC evaluates for every (C struct, Go counterpart, flavour) pair - 12 structs x real and stub builds plus the PARAM literal - that size, coverage and wide-field offsets agree and that 31 shared enum values / limits are equal; the layouts TLC computed are checked against BTF and reflect offsets first, so a rule error is an infrastructure failure and only a compiler-confirmed C/Go difference is a violation.",
   note="Byte order of individual fields is covered through the key and C02 conformance (ports, marks) rather than by declaration analysis. Trusted: TLC, BTF emitted by clang, Go reflect.",
   design="§3 C19"),
 "C17": dict(
   technique="Three TLA+ specs enumerated by TLC: ConfGrammar.tla (generative grammar: one constructor per production, near-miss mutations, expected AST), Include.tla (include graphs over a directory tree, expected depth-first merge order / error / read set), ConfBuild.tla (typed-layer rules over perturbations x key classes); every state rendered to text / files and run through config_parser.Parse, config.Merger (opens observed with inotify), config.New and the routing builders (real kernel maps for the size limit)",
   text="TLC enumerates every item the grammar can produce (all productions, quoting styles) and simulated multi-section configurations with token-level near-misses; the parse tree must equal the generated AST one-to-one and malformed text must yield an error or a tree without crashing or hanging (this found and fixed parser crashes). All 5460 include graphs over a 7-file tree (globs, .., absolute paths, cycles, outside paths, non-.dae files) are materialised and merged: order, rejection and the set of opened files are compared. Typed-layer rules (required/unknown sections and keys, defaults for every key of section global discovered by reflection, wrong types, programs of Limit-1..2*Limit match sets) are checked against config.New and the builders.",
   note="Option-value validation is out of scope; a diamond include (non-circular double include) carries no obligation. Trusted: TLC, inotify IN_OPEN.",
   design="§3 C17"),
 "C14": dict(
   technique="TLA+ spec GroupFilter.tla (three-valued reference evaluation of filter lines: member / not member / invalid element reached; first-line annotation) enumerated by TLC; every (pool, group) vector rendered to dae configuration text and run through config_parser, config.New, DialerSet.FilterAndAnnotate, NewDialerSelectionPolicyFromGroupParam and DialerGroup.Select",
   text="TLC enumerates 4 node pools (duplicates, empty names, empty pool) x every single filter line over the condition universe (name/subtag/unknown input, negation, exact/keyword/regex/bad-regex/unknown-key alternatives singly and in pairs, 7 annotation lists incl. malformed ones) and simulated groups of up to 3 lines, and emits members, order, annotations or the error obligation; the harness compares the real result member by member. The six policies, fixed(i) in/out of range and malformed policies are checked against construction and selection.",
   note="Error obligation read with left-to-right evaluation order (see DESIGN). Regex subset. Trusted: TLC.",
   design="§3 C14"),
 "C18": dict(
   technique="TLA+ spec DialTarget.tla (the dial-target decision table written from the property, TableSane invariant) enumerated exhaustively by TLC; every input combination concretised to several sniffed strings and run through ChooseDialTarget of a real ControlPlane with DNS knowledge / real-domain caches populated",
   text="TLC enumerates the full product of dial modes x outbound kinds x destinations x sniffed-value classes x knowledge states (648 states) and emits the required target shape, dialIp and reroute obligations; the harness builds the corresponding control plane state and compares ChooseDialTarget's result, plus an independent host:port well-formedness check of every target.",
   note="Knowledge states are injected into the controller's knowledge map / real-domain sets; TTL expiry of DNS knowledge is not driven. Trusted: TLC.",
   design="§3 C18"),
 "C16": dict(
   technique="TLA+ spec Health.tla (per node x health domain alive flag and failure counters, per-address death-transition counter with escalation, reload muting; Thresholds invariant and DeathRule / ReviveRule / MutedRule action properties) model-checked with TLC; simulated histories replayed through the production report/check entry points of real Dialers registered in real AliveDialerSets with an independent oracle of the documented thresholds",
   text="TLC checks over all histories of length 5 (2 nodes sharing a proxy address, 4 domains, real thresholds 1/3/10/50 reached through failure bursts of size 1 and threshold-1) that death happens exactly at a threshold, a forced report or the 3-death escalation, that revivals clear the counts and that muted failures change nothing. Histories of length 14 are replayed on real Dialers through check(), ReportUnavailable(+Transactional/Forced), ReportAvailableTraffic and Begin/EndReloadProxyFailureSuppression; after every step all six domains of both nodes, the transition-callback sequence, the per-domain group membership and the group's connectivity callback (kernel bit) are compared with the documented behaviour. This found the data-UDP connectivity bit never being set again (repaired by a fix: commit).",
   note="Reload snapshot/restore and EnsureReloadSelectionFloor are not yet driven; the connectivity bit is observed at the AliveDialerSet callback that control/connectivity.go turns into the map write. Trusted: TLC.",
   design="§3 C16"),
 "C15": dict(
   technique="TLA+ spec AliveSet.tla (property layer ChosenAlive / NobodyBeatsByTol / TolRule action property; NotifyLatencyChange, calcMinLatency, SetSelectionPolicy transcribed as implementation layer) model-checked exhaustively with TLC; simulated histories replayed on real AliveDialerSet/Dialer objects with an independent property-layer oracle and the model's per-step choice as drift oracle",
   text="TLC checks over all histories (3 nodes, 4 latency values, per-node offsets, tolerance 0/2/3, policy switches, depth 6) that the transcribed algorithm keeps the chosen node alive, that no alive measured node beats it by the tolerance, and that the choice only moves for the reasons the property lists. Histories of length 10 are replayed on the real set (latency samples appended to the real Dialer collections, NotifyLatencyChange / SetSelectionPolicy), and after every step GetMinLatency (with every exclusion), GetRand/GetRandExcluded and Len are judged against the property statement from the harness's own bookkeeping.",
   note="Set level (one group x network type); DialerGroup fallback chain and fixed(i) are not yet driven. Trusted: TLC. Latency unit 10ms.",
   design="§3 C15"),
 "C20": dict(
   technique="TLA+ spec Reload.tla (signal handler, reload worker, main-loop completion, retirement waiters; one action per protocol primitive) model-checked exhaustively with TLC incl. liveness under weak fairness; BFS and simulated behaviours replayed on the real primitives of cmd/ with function-variable gates, seeded random gated walks, and a static path extraction of the worker's exits in run.go",
   text="TLC checks AtMostOne, SuppressBalanced (every muting Begin has an End that finds the counter positive), NeverWedged, AnsweredAll, the action property RefusedChangesNothing and the liveness property that the system always returns to accepting requests, over all interleavings of 3-4 signals with every worker stage, a failure at each stage and retirement completions. Behaviours are executed on the real tryQueueReloadRequest / coalesceReloadRequest / clearReloadPending / finishReloadSuccess/Failure / releaseReloadPendingAfterRetirement with the real suppression counter, gated at the package's own function variables; random walks with long preemption windows explore schedules outside the model; go/ast ties every exit of the real worker iteration to the modelled failure or hand-off sequence.",
   note="The two goroutines of run.go are skeletons calling the real primitives (the closure inside Runner.Run needs real control planes); stage contents are abstracted. Trusted: TLC.",
   design="§3 C20"),
 "C10": dict(
   technique="TLA+ spec DomainTracker.tla (Mirror invariant over live cache entries; syncOwner write plan + tracker bookkeeping as implementation layer) model-checked exhaustively with TLC; TLC histories replayed through BatchUpdateDomainRouting/BatchRemoveDomainRouting with a real kernel domain_routing_map read back after every step",
   text="TLC checks Mirror (kernel table = OR of the bitmaps of the live entries listing each address; no entry otherwise; unspecified addresses never) in all 32768 reachable cache configurations and emits every history of length 4 over a reduced alphabet plus random histories of length 14; each history is executed on the real tracker writing a real kernel map, and the whole map is compared with the spec after every step.",
   note="Trusted: TLC, kernel hash map. Events enter at controlPlaneCore.BatchUpdate/RemoveDomainRouting (what the DNS controller callbacks invoke); 3 owners, 3 addresses (+0.0.0.0/::), 3 bits placed at indices 0/33/1023.",
   design="§3 C10"),
 "C13": dict(
   technique="TLA+ spec UdpTaskPool.tla (one action per atomic step between the verif yield points of udp_task_pool.go) model-checked exhaustively with TLC; TLC counterexamples and simulated behaviours forced on the real UdpTaskPool through blocking yield hooks (controlled scheduler), plus seeded random / directed gated walks with the property layer evaluated on the real execution log; UdpEndpointPool.tla (endpoint table, failure cache, dialer generation, retirement, janitor, kernel-entry ownership with adoption) model-checked and replayed call by call on the real UdpEndpointPool in virtual time",
   text="TLC explores every interleaving of producers (acquire fast path / create / LoadOrStore / enqueue / release) with the per-flow worker's pop, idle timer, emptiness check, claim, table removal and channel recycling, checking exactly-once, per-flow FIFO, one-at-a-time, no-foreign-queue and no-residue. The counterexample schedules TLC finds in the check-then-claim variant (the defect repaired by a fix: commit) and simulated behaviours of the repaired model are replayed step by step on the real pool with the yield hooks as scheduler gates; random gated walks explore schedules not taken from the model. Verdicts come only from the real execution log (lost, duplicated, foreign-queue, overlapping or out-of-order tasks, two queues sharing one channel). Endpoint half: 12-event histories of GetOrCreate (by two control-plane generations, dial ok / failing, two concurrent first packets behind a slow dial), writes, replies, write / read errors, kernel-entry registration, dialer health invalidation, clock steps across NAT timeout and failure-cache lifetime, pool reset, and an adoption parked inside the owner hand-over while the endpoint is closed; after every call the answer (same / new / failed-recently / dial error), the number of dials, the close count of every transport, what each owner holds in the kernel table and what the pool offers are compared.",
   note="Steps between two yield points are assumed atomic; GOMAXPROCS(1) during replay so that sync.Pool matches the modelled private slot + shared chain; 3 producers over 2 flows, <=2 tasks each, channel capacity 1 in the model.",
   design="§3 C13"),
 "C02": dict(
   technique="TLA+ spec RuleScan.tla: kernel route() automaton (KScan: route_state bits, DNS_QUERY hand-over, is_wan process-name gating) checked by TLC to equal the first-match semantics modulo IntendedDiff; generated programs installed by the production builders into real kernel maps and every packet executed by the real tc programs (BPF_PROG_TEST_RUN) on LAN ingress and WAN egress",
   text="TLC checks in every generated program state that the kernel scan automaton over the lowered match-set array decides as the reference semantics except for the intended DNS hand-over. A sample of the programs is compiled from config text, written into real kernel maps by BuildKernspace (LPM ring slots, routing_map, routing_meta_map, domain bitmaps), and each packet is run through the real tproxy_lan_ingress_l2 and tproxy_wan_egress_l2 programs in the kernel; the decision is read back with the production RetrieveRoutingResult and compared with the spec and with RoutingMatcher.Match.",
   note="Trusted: TLC, kernel BPF_PROG_TEST_RUN. Process identity on WAN egress is injected through cookie_pid_map for the cookies of the test-run dummy sockets (window + last_seen confirmation). Outbound ids {0,1,2,3,251}, marks {0,1,0xffffffff}. Sampled 1/9 (quick) or 1/2 (thorough) of the generated programs.",
   design="§3 C02"),
 "C01": dict(
   technique="TLA+ spec RuleScan.tla (first-match reference semantics Decide + lowered match-set array + userspace scan machine) model-checked with TLC; TLC-generated programs rendered to dae config text and replayed through parser, config.New, builder and ControlPlane.Route",
   text="TLC enumerates routing programs (every single-condition rule over the full value universe of the ten condition functions, every 2-rule and 2-condition program over a reduced universe, deeper programs by simulation) and checks in every state that the sentinel scan over the lowered match-set array refines the first-match semantics for every packet of the program's boundary packet set. Every generated program is compiled from configuration text by the production pipeline and ControlPlane.Route is compared, packet by packet, with the specification's decision (outbound, mark, must).",
   note="Trusted: TLC; the spec's reading of the documented condition meanings. Bounded: value universes listed in RuleScan.tla (boundary ports, prefix lengths, both families, 16-byte process names, empty domain / process name / zero MAC); geodata expansion not exercised.",
   design="§3 C01"),
 "C04": dict(
   technique="TLA+ spec RuleScan.tla: optimiser pipeline transcribed as operators (SortAnd, MergeAdjacent, Dedup) with invariant Decide(Optimize(p)) = Decide(p) checked by TLC; generated programs replayed through the production optimiser pipeline",
   text="TLC proves within bounds that each modelled rewrite preserves the first-match meaning (it found the negated-neighbour merge defect, repaired by a fix: commit) and every generated program is compiled with the production optimisers (Alias, DatReader, MergeAndSort, DeduplicateParams) and its decisions compared with the meaning of the rules as the user wrote them.",
   note="Trusted: TLC. Bounded as C01. Traffic routing pipeline; the DNS request/response pipelines share the optimisers and are exercised under C07.",
   design="§3 C04"),
 "C11": dict(
   technique="TLA+ spec DomainMatch.tla/DomainOps.tla (reference meaning of full/suffix/keyword/regex + reversed sentinel-trie encoding) model-checked with TLC; enumerated pattern sets x names replayed on AhocorasickSlimtrie with sets packed at many bit indices",
   text="TLC enumerates every singleton and ordered pair of patterns over a 53-pattern universe for each kind plus structured regexes and random label-sharing sets, checks that the trie/AC encoding refines the reference meaning for every name (all strings of length <=3 over {a,b,1,-,_,.} plus longer, upper-case and trailing-dot names), and emits the expected answer per (set, name). The harness packs 64 sets at a time into one real matcher at seed-chosen bit indices (incl. word boundaries) and compares MatchDomainBitmap bit by bit.",
   note="Trusted: TLC. Bounded alphabet/lengths; regex restricted to (^)?(lit|lit)($)?; geosite-scale sets are approximated by random sets of <=24 patterns (thorough).",
   design="§3 C11"),
 "C12": dict(
   technique="TLA+ spec Cidr.tla (reference CIDR semantics + trie-key / LPM-key implementation layer) model-checked with TLC; TLC-enumerated vectors replayed on trie, production LPM key encoder, real kernel LPM trie and dip()/sip() rule programs",
   text="TLC enumerates every address set (all subsets up to the bound of a boundary-prefix universe, plus Randomization-drawn sets over all prefix lengths) and checks that the bit-string trie model and the LPM key model refine CIDR containment for every spec-defined probe (first/last inside, neighbours outside). Every enumerated set is then executed on the real code (userspace trie, cidrToBpfLpmKey bytes vs spec LpmKey, a real kernel BPF LPM trie, and compiled dip()/sip() programs) with the spec's expected answer as oracle.",
   note="Trusted: TLC, the running kernel's LPM trie, netip text round trip. Bounded: universe of 19 boundary prefixes (subsets <=2 quick / <=3 thorough) + random sets over 5 bases per family x all lengths.",
   design="§3 C12"),
}

REASON_NOT_BUILT = "check not built yet (work in progress in this session; see DESIGN.md §3 for the planned spec and binding)"


def main():
    head = subprocess.run(["git", "-C", "/repo", "log", "--format=%h %s", "--grep=^verif:", "-n", "50"],
                          capture_output=True, text=True).stdout.strip().splitlines()
    checks = []
    for pid in ALL:
        if pid not in CLAIMED:
            continue
        c = CLAIMED[pid]
        checks.append({
            "property_id": pid,
            "quick_cmd": "python3 tools/check.py %s quick" % pid,
            "thorough_cmd": "python3 tools/check.py %s thorough" % pid,
            "evidence_file": "/verif/evidence/%s.json" % pid,
            "replay_cmd_template": "python3 tools/check.py %s quick --replay {path}" % pid,
            "engine": "tlc+goharness",
            "level_claimed": {"category": "model_checking", "text": c["text"], "design_ref": c["design"]},
            "level_note": c["note"],
            "technique": c["technique"],
        })
    m = {
        "version": 1,
        "setup_cmd": "bash tools/setup.sh",
        "hooks": {
            "guard": "verif",
            "enable": "go build/test -tags verif (harness files from /verif/harness are copied into a scratch copy of /repo; package control is built against eBPF bindings generated there by bpf2go from /repo's control/kern/tproxy.c)",
            "baseline_off_cmd": "cd /repo && GOFLAGS=-mod=mod GOPROXY=off GOSUMDB=off GOTOOLCHAIN=local go1.26 test -json -vet=off -count=1 -timeout 25m ./...",
            "source_commits": [l.split()[0] for l in head],
            "add_only": True,
        },
        "engines": [
            {"name": "tlc+goharness", "path": "tools/check.py",
             "serves_properties": sorted(CLAIMED),
             "kind_free_text": "explicit TLA+ specifications (spec/*.tla) checked by TLC; behaviours/vectors emitted by TLC are replayed on the real code in a scratch build (spec -> code), and recorded executions are validated against trace specifications (code -> spec)"},
        ],
        "checks": checks,
        "notes": "All checks rebuild from /repo's current working tree in a scratch copy under /var/tmp and remove it afterwards. Exit 2 = infrastructure failure (no verdict).",
        "not_applicable": [{"property_id": p, "reason": NOT_APPLICABLE.get(p, REASON_NOT_BUILT)} for p in ALL if p not in CLAIMED],
    }
    with open(os.path.join(VERIF, "MANIFEST.json"), "w") as f:
        json.dump(m, f, indent=1)
    print("MANIFEST.json: %d checks, %d not_applicable" % (len(checks), len(m["not_applicable"])))


NOT_APPLICABLE = {}

if __name__ == "__main__":
    main()
