#!/usr/bin/env python3
"""Regenerates /verif/MANIFEST.json from the table below (single source of truth)."""
import json, os, subprocess

VERIF = os.path.dirname(os.path.dirname(os.path.abspath(__file__)))
ALL = ["C%02d" % i for i in range(1, 21)]

CLAIMED = {
 "C12": dict(
   technique="TLA+ spec Cidr.tla (reference CIDR semantics + trie-key / LPM-key implementation layer) model-checked with TLC; TLC-enumerated vectors replayed on trie, production LPM key encoder, real kernel LPM trie and dip()/sip() rule programs",
   text="TLC enumerates every address set (all subsets up to the bound of a boundary-prefix universe, plus Randomization-drawn sets over all prefix lengths) and checks that the bit-string trie model and the LPM key model refine CIDR containment for every spec-defined probe (first/last inside, neighbours outside). Every enumerated set is then executed on the real code (userspace trie, cidrToBpfLpmKey bytes vs spec LpmKey, a real kernel BPF LPM trie, and compiled dip()/sip() programs) with the spec's expected answer as oracle.",
   note="Trusted: TLC, the running kernel's LPM trie, netip text round trip. Bounded: universe of 19 boundary prefixes (subsets <=2 quick / <=3 thorough) + random sets over 5 bases per family x all lengths.",
   design="§3 C12"),
}

REASON_NOT_BUILT = "check not built yet (work in progress in this session; see DESIGN.md §3 for the planned spec and binding)"


def main():
    head = subprocess.run(["git", "-C", "/repo", "log", "--format=%h %s", "--grep=^verif:", "-n", "50"],
                          capture_output=True, text=True).stdout.strip().splitlines()
    checks = []
    for pid in ALL:
        if pid not in CLAIMED:
            continue
        c = CLAIMED[pid]
        checks.append({
            "property_id": pid,
            "quick_cmd": "python3 tools/check.py %s quick" % pid,
            "thorough_cmd": "python3 tools/check.py %s thorough" % pid,
            "evidence_file": "/verif/evidence/%s.json" % pid,
            "replay_cmd_template": "python3 tools/check.py %s quick --replay {path}" % pid,
            "engine": "tlc+goharness",
            "level_claimed": {"category": "model_checking", "text": c["text"], "design_ref": c["design"]},
            "level_note": c["note"],
            "technique": c["technique"],
        })
    m = {
        "version": 1,
        "setup_cmd": "bash tools/setup.sh",
        "hooks": {
            "guard": "verif",
            "enable": "go build/test -tags verif (harness files from /verif/harness are copied into a scratch copy of /repo; package control is built against eBPF bindings generated there by bpf2go from /repo's control/kern/tproxy.c)",
            "baseline_off_cmd": "cd /repo && GOFLAGS=-mod=mod GOPROXY=off GOSUMDB=off GOTOOLCHAIN=local go1.26 test -json -vet=off -count=1 -timeout 25m ./...",
            "source_commits": [l.split()[0] for l in head],
            "add_only": True,
        },
        "engines": [
            {"name": "tlc+goharness", "path": "tools/check.py",
             "serves_properties": sorted(CLAIMED),
             "kind_free_text": "explicit TLA+ specifications (spec/*.tla) checked by TLC; behaviours/vectors emitted by TLC are replayed on the real code in a scratch build (spec -> code), and recorded executions are validated against trace specifications (code -> spec)"},
        ],
        "checks": checks,
        "notes": "All checks rebuild from /repo's current working tree in a scratch copy under /var/tmp and remove it afterwards. Exit 2 = infrastructure failure (no verdict).",
        "not_applicable": [{"property_id": p, "reason": NOT_APPLICABLE.get(p, REASON_NOT_BUILT)} for p in ALL if p not in CLAIMED],
    }
    with open(os.path.join(VERIF, "MANIFEST.json"), "w") as f:
        json.dump(m, f, indent=1)
    print("MANIFEST.json: %d checks, %d not_applicable" % (len(checks), len(m["not_applicable"])))


NOT_APPLICABLE = {}

if __name__ == "__main__":
    main()
