#!/bin/bash
# seed_run.sh <seed-dir-name> <property> [tier]
# Runs a check against a scratch worktree of /repo HEAD with the seeded change applied (the working tree of /repo is not
# touched); evidence goes to a scratch directory. The documented procedure (git -C /repo apply ... ; check ; git checkout)
# gives the same result; this variant lets the clean tree be checked at the same time.
set -uo pipefail
SEED="$1"; PROP="$2"; TIER="${3:-quick}"
WT=/var/tmp/seedrun-$SEED-$$
git -C /repo worktree add --detach "$WT" HEAD >/dev/null 2>&1 || { echo "worktree failed"; exit 2; }
trap 'git -C /repo worktree remove --force "$WT" >/dev/null 2>&1; rm -rf "$WT"' EXIT
git -C "$WT" apply "/verif/seeded/$SEED/patch.diff" 2>/dev/null || git -C "$WT" apply --3way "/verif/seeded/$SEED/patch.diff" >/dev/null 2>&1 || { echo "APPLY FAILED"; exit 2; }
cd /verif
VERIF_REPO="$WT" VERIF_EVIDENCE_DIR=/var/tmp/seed-evidence timeout 3000 python3 tools/check.py "$PROP" "$TIER" 2>&1 | grep -v "^\[tlc\]\|^\[scratch\]\|^\[go\]" | cut -c1-600 | tail -4
