#!/bin/bash
# Builds the verification framework from files on disk only (offline).
set -euo pipefail
cd "$(dirname "$0")/.."
export GOFLAGS=-mod=mod GOPROXY=off GOSUMDB=off GOTOOLCHAIN=local
mkdir -p bin evidence
(cd /repo && go1.26 build -o /verif/bin/bpf2go github.com/cilium/ebpf/cmd/bpf2go)
# syntax-check every specification
(cd spec && for f in *.tla; do
  java -cp /opt/veriftools/tla/tla2tools.jar:/opt/veriftools/tla/CommunityModules-deps.jar tla2sany.SANY "$f" >/dev/null 2>&1 || { echo "SANY failed on $f"; exit 1; }
done)
echo setup ok
