SPECIFICATION Spec
INVARIANTS TableSane Emit
