----------------------------- MODULE GroupSelect -----------------------------
(* C15 (group level) - a group's selection returns only nodes believed alive for the type asked or for the documented
   fallback types, never the excluded node (unless fixed / last resort), and says "no alive node" only when there is none
   (component/outbound/dialer_group.go: SelectWithExclusionResult, _select, selectionNetworkTypes, SetSelectionPolicy).

   State: alive[n][t] - what the nodes' health says per network type (the group's alive sets must mirror it after every
   event, whatever policy switches happened in between), policy.
   Events: Kill(n,t) / Revive(n,t) (health notifications), SetPolicy(p) at run time, Select(t, strict, excluded).

   The documented fallbacks:  data-UDP -> DNS-UDP -> TCP of the same IP family; then, when the caller allows it (not strict),
   the same chain in the other family; a group of one node hands that node out as a last resort.
   Expectation of a Select (property layer - the order inside the chain is not prescribed by the property):
       fixed(i)               -> node i
       otherwise              -> some node of Cands = union over the types tried of {n alive for it} \ {excluded}
                                 "none" iff Cands = {} (and the group has more than one node) *)
EXTENDS Integers, Sequences, FiniteSets, TLC, Json

CONSTANTS Nodes, MaxEvents,
          WithReload,      \* BOOLEAN: histories may end with a reload hand-over (C16)
          Stricts, Excl,   \* the shapes of Select calls in the history (subsets of BOOLEAN and of Nodes \cup {0})
          Fams, Doms       \* the network types that appear in the history (subsets of {"4","6"} and {"data","dns","tcp"})

AllFams == {"4", "6"}
AllDoms == {"data", "dns", "tcp"}
Types == {[dom |-> d, fam |-> f] : d \in AllDoms, f \in AllFams}          \* every type exists (and starts alive)
EvTypes == {[dom |-> d, fam |-> f] : d \in Doms, f \in Fams}           \* the ones the history touches
T(d, f) == [dom |-> d, fam |-> f]
Policies == {"min", "random"} \cup {"fixed1"} \cup (IF Cardinality(Nodes) > 1 THEN {"fixed2"} ELSE {})
FixedIndex(p) == IF p = "fixed1" THEN 1 ELSE 2
NoNode == 0

VARIABLES alive, policy, policy0, ended, hist
vars == <<alive, policy, policy0, ended, hist>>

Init == /\ alive = [n \in Nodes |-> [t \in Types |-> TRUE]]       \* nodes start alive
        /\ policy \in Policies /\ policy0 = policy /\ ended = FALSE
        /\ hist = <<>>

Chain(t) == IF t.dom = "data" THEN <<t, T("dns", t.fam), T("tcp", t.fam)>> ELSE <<t>>
OtherFam(t) == [t EXCEPT !.fam = IF t.fam = "4" THEN "6" ELSE "4"]
Tried(t, strict) == IF strict THEN Chain(t) ELSE Chain(t) \o Chain(OtherFam(t))
Cands(t, strict, ex) == {n \in Nodes : n # ex /\ \E i \in 1..Len(Tried(t, strict)) : alive[n][Tried(t, strict)[i]]}
\* first family first: when the requested family has a candidate the answer comes from it
CandsFirst(t, ex) == {n \in Nodes : n # ex /\ \E i \in 1..Len(Chain(t)) : alive[n][Chain(t)[i]]}

\* pref: where the answer is expected to come from when the documented order is followed (compared as drift only)
Expect(t, strict, ex) ==
  IF policy \in {"fixed1", "fixed2"} THEN [kind |-> "exact", nodes |-> {FixedIndex(policy)}, pref |-> {FixedIndex(policy)}]
  ELSE IF Cands(t, strict, ex) # {} THEN [kind |-> "oneof", nodes |-> Cands(t, strict, ex),
                                           pref |-> IF CandsFirst(t, ex) # {} THEN CandsFirst(t, ex) ELSE Cands(t, strict, ex)]
  ELSE IF Cardinality(Nodes) = 1 THEN [kind |-> "exact", nodes |-> Nodes, pref |-> Nodes]             \* last resort
  ELSE [kind |-> "none", nodes |-> {}, pref |-> {}]

Rec(ev, n, t, x) == [ev |-> ev, n |-> n, t |-> t, x |-> x]
NoT == T("tcp", "4")
Kill(n, t) == /\ alive[n][t] /\ alive' = [alive EXCEPT ![n][t] = FALSE] /\ UNCHANGED <<policy, policy0, ended>>
              /\ hist' = Append(hist, Rec("kill", n, t, [strict |-> FALSE, ex |-> NoNode, policy |-> policy, expect |-> [kind |-> "", nodes |-> {}, pref |-> {}]]))
Revive(n, t) == /\ ~alive[n][t] /\ alive' = [alive EXCEPT ![n][t] = TRUE] /\ UNCHANGED <<policy, policy0, ended>>
                /\ hist' = Append(hist, Rec("revive", n, t, [strict |-> FALSE, ex |-> NoNode, policy |-> policy, expect |-> [kind |-> "", nodes |-> {}, pref |-> {}]]))
SetPolicy(p) == /\ p # policy /\ policy' = p /\ UNCHANGED <<alive, policy0, ended>>
                /\ hist' = Append(hist, Rec("policy", NoNode, NoT, [strict |-> FALSE, ex |-> NoNode, policy |-> p, expect |-> [kind |-> "", nodes |-> {}, pref |-> {}]]))
Select(t, strict, ex) ==
  /\ UNCHANGED <<alive, policy, policy0, ended>>
  /\ hist' = Append(hist, Rec("select", NoNode, t, [strict |-> strict, ex |-> ex, policy |-> policy, expect |-> Expect(t, strict, ex)]))

\* C16 (reload hand-over): the new generation inherits the last known state of every node, and a type for which no node is
\* alive gets exactly one selectable node (ControlPlane.InheritDialerHealthFrom: CaptureReloadSelectionFallback on the new
\* group, RestoreHealthSnapshot per node, EnsureReloadSelectionFloor); the history ends with the reload.
\* The replay runs the hand-over with a second group made of two of the first group's nodes (shared node objects): no node that was
\* alive is lost, at most one node is revived per group that had no alive member, and EVERY group can select for every type
EmptyTypes == {t \in Types : \A n \in Nodes : ~alive[n][t]}
Reload == /\ WithReload /\ ~ended
          /\ IF policy \in {"fixed1", "fixed2"}
             THEN alive' = alive            \* a fixed policy selects its node whatever its health: nothing to keep alive
             ELSE \E f \in [EmptyTypes -> Nodes] :
                    alive' = [n \in Nodes |-> [t \in Types |-> IF t \in EmptyTypes THEN f[t] = n ELSE alive[n][t]]]
          /\ ended' = TRUE
          /\ hist' = Append(hist, Rec("reload", NoNode, NoT, [strict |-> FALSE, ex |-> NoNode, policy |-> policy, expect |-> [kind |-> "", nodes |-> {}, pref |-> {}]]))
          /\ UNCHANGED <<policy, policy0>>
\* after the hand-over every type has a selectable node, and what was known is kept
FloorHolds == ended => (policy \in {"fixed1", "fixed2"} \/ \A t \in Types : \E n \in Nodes : alive[n][t])      \* something is selectable for every type
KeepsKnown == [][ (~ended /\ ended') => \A t \in Types : (\E n \in Nodes : alive[n][t]) => \A n \in Nodes : alive'[n][t] = alive[n][t] ]_vars

Next == /\ Len(hist) < MaxEvents /\ ~ended
        /\ \/ \E n \in Nodes, t \in EvTypes : Kill(n, t) \/ Revive(n, t)
           \/ \E p \in Policies : SetPolicy(p)
           \/ \E t \in EvTypes, s \in Stricts, ex \in Excl : Select(t, s, ex)
           \/ Reload
Spec == Init /\ [][Next]_vars

(* ---------------------------------------------------------------- property layer *)
Selects == {i \in 1..Len(hist) : hist[i].ev = "select"}
\* "no alive node" only when none of the types tried has one
NoneOnlyWhenNone == \A i \in Selects : hist[i].x.expect.kind = "none" => Cardinality(Nodes) > 1
\* the excluded node is never offered unless the policy is fixed or it is the group's only node
ExcludedNeverOffered == \A i \in Selects : LET e == hist[i].x IN
     (e.ex \in e.expect.nodes) => (e.policy \in {"fixed1", "fixed2"} \/ Cardinality(Nodes) = 1)
\* a candidate exists  =>  something is offered
OfferWhenPossible == \A i \in Selects : hist[i].x.expect.kind # "none" => hist[i].x.expect.nodes # {}

Behaviour == [nodes |-> Cardinality(Nodes), init |-> policy0, hist |-> hist]
EmitReload == ended => PrintT(<<"BEHAVIOUR", ToJson(Behaviour)>>)
Emit == Len(hist) = MaxEvents => PrintT(<<"BEHAVIOUR", ToJson(Behaviour)>>)
\* exhaustive small configurations: only histories that end in a selection are worth replaying
EmitSel == (Len(hist) = MaxEvents /\ hist[Len(hist)].ev = "select") => PrintT(<<"BEHAVIOUR", ToJson(Behaviour)>>)
=============================================================================
