SPECIFICATION Spec
CONSTANTS
  EFlows = {"A"}
  NFlows = {"C"}
  MaxEvents = 4
  MaxConns = 4
  MaxT6 = 1
  MaxPk = 4
  RRs = {"cpr0", "cpr1", "g2"}
  SecondConn = FALSE
  ScopeSensitive = TRUE
  Faults = {"wfail"}
INVARIANTS NoDup Conservation HeldAreInitials BatchOrdered CompleteAtEnd NameRoutes OneTransport Emit
