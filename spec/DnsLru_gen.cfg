SPECIFICATION Spec
CONSTANTS
  Keys = {1, 2, 3, 4, 5, 6, 7, 8, 9, 10, 11, 12}
  Limit = 6
  MaxEvents = 22
INVARIANTS SweepKeepsNewest Emit
