SPECIFICATION Spec
CONSTANTS
  Clients <- HPClients
  Cid <- HPCid
  Size = "small"
  SharedPatch = FALSE
INVARIANTS OwnId CacheUntouched Emit
