---------------------------- MODULE TraceFwdIdle ----------------------------
(* Trace validation for the forwarder cache (C09, last clause): executions of the REAL DnsController recorded during random
   gated walks - schedules chosen by the harness, not taken from the model - must be behaviours of FwdIdle.tla, and
   ClosedOnce / NeverInUse / RetiredClosed are evaluated by TLC in every state of the matched behaviour.

   One trace line = one step of the walk: [ev, who, x, closed, inflight]
     ev / who / x      as in FwdIdle.tla's history records (x: the outcome the harness observed)
     closed, inflight  what the real (fake-transport) forwarders report after the step, in creation order
   "reset" starts the next walk. *)
EXTENDS FwdIdle

Trace == ndJsonDeserialize("fwdtrace.ndjson")
VARIABLE l
tvars == <<vars, l>>

Line == Trace[l]
Is(e) == l <= Len(Trace) /\ Line.ev = e
\* the real forwarders agree with the model's after the step (those that exist)
Agrees == /\ nfw' = Len(Line.closed)
          /\ \A f \in 1..Len(Line.closed) : closed'[f] = Line.closed[f] /\ inFlight'[f] = Line.inflight[f]
Last == hist'[Len(hist')]

TraceInit == Init /\ l = 1
Step ==
  /\ l <= Len(Trace) /\ Line.ev # "reset"
  /\ \/ /\ Is("acquire") /\ Acquire(Line.who)
     \/ /\ Is("begin") /\ Begin(Line.who) /\ Last.x = Line.x
     \/ /\ Is("answer") /\ Answer(Line.who, Line.x = "ok")
     \/ /\ Is("tick") /\ Tick
     \/ /\ Is("jcheck") /\ JCheck /\ Last.x = Line.x
     \/ /\ Is("jfinish") /\ JFinish
  /\ Agrees
  /\ l' = l + 1
Reset ==
  /\ Is("reset")
  /\ cache' = NoFw /\ nfw' = 0
  /\ inFlight' = [f \in Fws |-> 0] /\ retired' = [f \in Fws |-> FALSE] /\ closed' = [f \in Fws |-> 0] /\ stale' = [f \in Fws |-> FALSE]
  /\ pc' = [c \in Clients |-> "start"] /\ held' = [c \in Clients |-> NoFw] /\ tries' = [c \in Clients |-> 0]
  /\ jpc' = "idle" /\ jf' = NoFw /\ usedAfterClose' = FALSE /\ hist' = <<>>
  /\ l' = l + 1
TraceNext == Step \/ Reset
TraceSpec == TraceInit /\ [][TraceNext]_tvars
TraceAccepted == TLCGet("stats").diameter - 1 = Len(Trace)
TraceView == <<cache, nfw, inFlight, retired, closed, stale, pc, held, tries, jpc, jf, usedAfterClose, l>>
=============================================================================
