SPECIFICATION Spec
CONSTANTS
  Clients <- HPClients
  Cid <- HPCid
  Size = "big"
  SharedPatch = FALSE
INVARIANTS OwnId CacheUntouched Emit
