SPECIFICATION Spec
CONSTANTS
  NSignals = 3
  BeginBeforeSend = FALSE
VIEW View
INVARIANTS AtMostOne SuppressBalanced NeverWedged AnsweredAll
PROPERTIES RefusedChangesNothing
