SPECIFICATION Spec
CONSTANTS
  NSignals = 3
  RecheckAfterBusy = TRUE
  BeginBeforeSend = FALSE
VIEW View
INVARIANTS AtMostOne SuppressBalanced NeverWedged AnsweredAll
PROPERTIES RefusedChangesNothing
