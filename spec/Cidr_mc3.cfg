SPECIFICATION Spec
CONSTANTS
  MaxSet = 3
  Mode = "exhaustive"
  RandSets = 0
  RandSize = 0
INVARIANTS TrieRefines LpmRefines LpmLongest MappedAgree ShareSound Emit
