SPECIFICATION Spec
CONSTANTS
  MaxReqRules = 1
  MaxRespRules = 2
  MaxConds = 1
  MaxDepth = 3
  MaxQueries = 2
  Level = "deep"
INVARIANTS ScanRefines OptimizePreserves BoundedReask RejectBeatsCache RejectPurges ReplyIsLastAnswer ChainFollowsRules
