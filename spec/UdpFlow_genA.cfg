SPECIFICATION Spec
CONSTANTS
  EFlows = {"A"}
  NFlows = {"C"}
  MaxEvents = 5
  MaxConns = 4
  MaxT6 = 1
  MaxPk = 5
  RRs = {"cpr0"}
  SecondConn = FALSE
  ScopeSensitive = FALSE
  Faults = {"wfail", "rexit", "tick"}
INVARIANTS NoDup Conservation HeldAreInitials BatchOrdered CompleteAtEnd NameRoutes OneTransport Emit
