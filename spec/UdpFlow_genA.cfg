SPECIFICATION Spec
CONSTANTS
  EFlows = {"A"}
  NFlows = {"C"}
  MaxEvents = 5
  MaxConns = 4
  MaxT6 = 1
  MaxPk = 5
  Faults = {"wfail", "rexit", "tick"}
INVARIANTS NoDup Conservation HeldAreInitials BatchOrdered CompleteAtEnd NameRoutes OneTransport Emit
