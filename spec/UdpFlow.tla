------------------------------- MODULE UdpFlow -------------------------------
(* C06 / C13 / C18 - what ControlPlane.handlePkt (control/udp.go) does with the datagrams of one client source:
   classification (control/udp_flow.go ClassifyUdpFlow / EnsureSnifferSession, as the ingress loop of
   control_plane.go does before it queues the task), endpoint lookup under the destination-bound ("sym") and the
   source-only ("cone") key, QUIC sniffing sessions that hold Initial datagrams until the CRYPTO stream covers the
   ClientHello (control/packet_sniffer_pool.go), replay of the held datagrams in ingress order once sniffing concludes,
   the dial through the group the sniffed name routes to, the write loop with its retry after a failed write, and the
   ways an endpoint ends (write error, reply-loop exit, expiry).

   One client source; flows EFlows go to port 443 (sniffing allowed), NFlows to another port.  A flow of EFlows carries one
   QUIC connection whose ClientHello is cut into two CRYPTO pieces:
     "i1" / "i2"   an Initial datagram with piece 1 / piece 2     "if"  an Initial datagram with the whole ClientHello
     "s"           any other datagram (short header, 0-RTT, ordinary UDP)
     "jf"          an Initial datagram with the whole ClientHello of a SECOND connection (other connection ids, other name) on the
                   same addresses and ports: a name-less endpoint of the first connection is dropped with the flow's sessions, and the
                   flow is sniffed and dialled afresh under the name the second connection carries
   Events: Pkt(f, k) | WFail(c) (writes on transport c fail from now on) | RExit(c) (the reply loop of c ends with an error)
           | DialFail(b) (dials fail from now on / work again) | Tick6 (6 s: sniffing sessions and cached dial failures expire)
           | Tick121 (121 s: every endpoint expires as well).
   Transports are numbered in the order they were dialled successfully.
   Keys: "sym<flow>|<scope>" (source + destination) and "cone|<scope>" (source only); the scope is the kernel routing result
   (group, mark; DSCP / process / MAC as well when the flow is routed in userspace) when ScopeSensitive, and empty otherwise.

   Property layer (checked here on every state, and by the replay on what the real handlePkt wrote to the transports):
     NoDup           no datagram is written upstream twice
     Conservation    every datagram the client sent is exactly one of: written upstream once, still held by an open
                     sniffing session, or dropped for a stated reason (dial failed / session expired / retries exhausted)
     HeldAreInitials only Initial datagrams of a ClientHello that is not yet covered are ever held
     BatchOrdered    the datagrams written by one call are in ingress order and end with the datagram of the call
     CompleteAtEnd   when the call that completes the ClientHello returns, every datagram held for it has been written
     NameRoutes      an endpoint dialled for a flow routed in userspace after a name was found is dialled through the group
                     that name routes to; a flow the kernel already routed to a group is dialled through that group
     OneTransport    all datagrams written by one call that needed no retry went through one transport; a key whose endpoint
                     is alive is never dialled again
   The implementation layer (which key is looked up, when sniffing is skipped) is transcribed from the code; a
   disagreement of the real code with it that does not break the property layer is reported as model drift only. *)
EXTENDS Integers, Sequences, FiniteSets, TLC, Json

CONSTANTS EFlows, NFlows, MaxEvents, MaxConns, MaxT6, MaxPk, Faults,
          RRs,             \* kernel routing results a datagram may arrive with: "cpr0" / "cpr1" (routed in userspace, DSCP 0 / 1),
                           \* "g1" / "g2" (the kernel already chose that group)
          SecondConn,      \* flows of EFlows may also carry the Initial ("jf") of a second QUIC connection with another name
          ScopeSensitive   \* the routing program looks at packet metadata (ControlPlane.udpRouteScopeSensitive): endpoints are then
                           \* also keyed by the routing scope, and flows routed in userspace are bound to their destination

Flows == EFlows \cup NFlows
Scope(rr) == IF ScopeSensitive THEN rr ELSE ""
Force(rr) == ScopeSensitive /\ rr \in {"cpr0", "cpr1"}
Scopes == {Scope(rr) : rr \in RRs}
SymK(f, sc) == "sym" \o f \o "|" \o sc
ConeK(sc) == "cone|" \o sc
Keys == {ConeK(sc) : sc \in Scopes} \cup {SymK(f, sc) : f \in Flows, sc \in Scopes}
GroupFor(rr, dom) == IF rr \in {"g1", "g2"} THEN rr ELSE IF dom = "example.com" THEN "g2" ELSE "g1"
Name(f) == IF f = "A" THEN "example.com" ELSE "other.org"
Name2 == "second.net"                      \* the name carried by a second QUIC connection on the same addresses and ports ("jf")
Conn(k) == IF k = "jf" THEN 2 ELSE 1
NameOf(f, cn) == IF cn = 2 THEN Name2 ELSE Name(f)
\* userspace routing: routing { domain(full: example.com) -> g2, fallback: g1 }   (GroupFor below)
Pieces(k) == CASE k = "i1" -> {1} [] k = "i2" -> {2} [] k \in {"if", "jf"} -> {1, 2} [] OTHER -> {}
IsInit(k) == k \in {"i1", "i2", "if", "jf"}
MaxRetry == 2
NoSess == [st |-> "none", have |-> {}, buf |-> <<>>, sig |-> FALSE]
NoSess2 == [cn \in {1, 2} |-> NoSess]
NoEp == [st |-> "none", conn |-> 0, dom |-> "", tgt |-> "", until |-> 0]

VARIABLES S, hist
vars == <<S, hist>>

Init == /\ S = [now |-> 0, sess |-> [f \in EFlows |-> NoSess2], ep |-> [k \in Keys |-> NoEp], conns |-> <<>>, dialFail |-> FALSE,
                dials |-> 0, out |-> <<>>, dropped |-> {}, npk |-> 0, pk |-> <<>>, t6 |-> 0, calls |-> <<>>]
        /\ hist = <<>>

Live(s, k) == s.ep[k].st = "live"
RemoveEp(s, k) == LET c == s.ep[k].conn IN [s EXCEPT !.ep[k] = NoEp, !.conns[c].closed = @ + 1]
Drop(s, pl) == [s EXCEPT !.dropped = @ \cup {pl[i] : i \in 1..Len(pl)}]

\* UdpEndpointPool.GetOrCreate(key): the live endpoint, a cached failure, or a dial through the group the name routes to
GetOrCreate(s, key, dom, f, rr) ==
  LET e == s.ep[key] IN
  IF e.st = "live" THEN [s |-> s, ok |-> TRUE]
  ELSE IF e.st = "failed" /\ s.now < e.until THEN [s |-> s, ok |-> FALSE]
  ELSE IF s.dialFail THEN [s |-> [s EXCEPT !.ep[key] = [NoEp EXCEPT !.st = "failed", !.until = s.now + 2], !.dials = @ + 1], ok |-> FALSE]
  ELSE [s |-> [s EXCEPT !.conns = Append(@, [grp |-> GroupFor(rr, dom), closed |-> 0, wfail |-> FALSE, dom |-> dom, rr |-> rr]),
                        !.ep[key] = [st |-> "live", conn |-> Len(s.conns) + 1, dom |-> dom, tgt |-> f, until |-> 0],
                        !.dials = @ + 1], ok |-> TRUE]

\* the write loop of handlePkt: a failed write retires the endpoint, removes it and dials again (at most MaxRetry times)
RECURSIVE Deliver(_, _, _, _, _, _, _)
Deliver(s, key, dom, f, pl, retry, rr) ==
  IF pl = <<>> THEN s
  ELSE IF retry > MaxRetry THEN Drop(s, pl)
  ELSE LET g == GetOrCreate(s, key, dom, f, rr) IN
       IF ~g.ok THEN Drop(g.s, pl)
       ELSE LET c == g.s.ep[key].conn IN
            IF g.s.conns[c].wfail THEN Deliver(RemoveEp(g.s, key), key, dom, f, pl, retry + 1, rr)
            ELSE Deliver([g.s EXCEPT !.out = Append(@, [c |-> c, p |-> Head(pl)])], key, dom, f, Tail(pl), retry, rr)

\* one call of handlePkt for datagram pid of flow f, kind k, arriving with kernel routing result rr (classification included)
HandlePkt(s0, f, k, pid, rr) ==
  LET elig == f \in EFlows
      init == elig /\ IsInit(k)
      sc == Scope(rr)
      force == Force(rr)
      sym == SymK(f, sc)
      cone == ConeK(sc)
      cn == Conn(k)
      \* the ingress loop: an Initial creates (or refreshes) the sniffing session of its connection
      s1 == IF init /\ s0.sess[f][cn].st = "none" THEN [s0 EXCEPT !.sess[f][cn] = [st |-> "open", have |-> {}, buf |-> <<>>, sig |-> FALSE]] ELSE s0
      hasSess == elig /\ \E c \in {1, 2} : s1.sess[f][c].st # "none"
      confirmed == init \/ hasSess
      lookup == IF force \/ elig THEN sym ELSE cone
      found0 == IF Live(s1, lookup) THEN lookup
                ELSE IF ~force /\ lookup # cone /\ Live(s1, cone) /\ s1.ep[cone].tgt = f THEN cone
                ELSE IF ~force /\ lookup = cone /\ Live(s1, sym) /\ s1.ep[sym].tgt = f THEN sym
                ELSE IF ~force /\ elig /\ ~confirmed /\ Live(s1, cone) THEN cone
                ELSE "none"
      \* a name-less endpoint and an Initial: the flow's sessions are compared with the connection ids of this datagram; a session of
      \* another connection (and none of this one) means the addresses and ports are being reused: sessions and endpoint are dropped
      nameless == found0 # "none" /\ s1.ep[found0].dom = "" /\ init
      matched == nameless /\ s1.sess[f][cn].sig
      mismatched == nameless /\ \E c \in {1, 2} : c # cn /\ s1.sess[f][c].st # "none" /\ s1.sess[f][c].sig
      changed == mismatched /\ ~matched
      heldNow == UNION {{s1.sess[f][c].buf[i] : i \in 1..Len(s1.sess[f][c].buf)} : c \in {1, 2}}
      s2 == IF changed THEN [RemoveEp(s1, found0) EXCEPT !.sess[f] = [NoSess2 EXCEPT ![cn] = [st |-> "open", have |-> {}, buf |-> <<>>, sig |-> FALSE]],
                                                         !.dropped = @ \cup heldNow]
            ELSE IF nameless THEN [s1 EXCEPT !.sess[f][cn].sig = TRUE]       \* (the session of this connection learns its ids)
            ELSE s1
      found == IF changed THEN "none" ELSE found0
      dialKey(dom) == IF force \/ dom # "" \/ confirmed THEN sym ELSE cone
  IN
  IF found # "none" /\ s2.ep[found].dom # ""
  THEN \* an endpoint that already carries a name: written at once; a failed write removes it and the flow is dialled again
       LET c == s2.ep[found].conn dom == s2.ep[found].dom IN
       IF s2.conns[c].wfail THEN Deliver(RemoveEp(s2, found), sym, dom, f, <<pid>>, 0, rr)
       ELSE [s2 EXCEPT !.out = Append(@, [c |-> c, p |-> pid])]
  ELSE IF found # "none"
  THEN \* a live endpoint without a name: no sniffing, the datagram goes through it
       Deliver(s2, found, "", f, <<pid>>, 0, rr)
  ELSE IF ~init
  THEN Deliver(s2, dialKey(""), "", f, <<pid>>, 0, rr)
  ELSE \* sniffing (the session of this datagram's connection)
       LET ss == s2.sess[f][cn] IN
       IF ss.st = "done" THEN Deliver(s2, sym, NameOf(f, cn), f, <<pid>>, 0, rr)
       ELSE LET have == ss.have \cup Pieces(k) IN
            IF have = {1, 2}
            THEN Deliver([s2 EXCEPT !.sess[f][cn] = [st |-> "done", have |-> have, buf |-> <<>>, sig |-> TRUE]], sym, NameOf(f, cn), f, Append(ss.buf, pid), 0, rr)
            ELSE [s2 EXCEPT !.sess[f][cn] = [st |-> "open", have |-> have, buf |-> Append(ss.buf, pid), sig |-> TRUE]]

Held(s) == UNION {{s.sess[f][c].buf[i] : i \in 1..Len(s.sess[f][c].buf)} : f \in EFlows, c \in {1, 2}}
Closed(s) == {c \in 1..Len(s.conns) : s.conns[c].closed > 0}
Written(s) == {s.out[i].p : i \in 1..Len(s.out)}
Obs(s, s2) == [writes |-> SubSeq(s2.out, Len(s.out) + 1, Len(s2.out)), dials |-> s2.dials, closed |-> Closed(s2),
               held |-> Held(s2), dropped |-> s2.dropped,
               groups |-> [c \in 1..Len(s2.conns) |-> s2.conns[c].grp], names |-> [c \in 1..Len(s2.conns) |-> s2.conns[c].dom]]
Log(ev, f, k, c, s2) == hist' = Append(hist, [ev |-> ev, f |-> f, k |-> k, c |-> c, rr |-> "", obs |-> Obs(S, s2)])
LogP(f, k, rr, s2) == hist' = Append(hist, [ev |-> "pkt", f |-> f, k |-> k, c |-> 0, rr |-> rr, obs |-> Obs(S, s2)])

Kinds(f) == IF f \in EFlows THEN {"i1", "i2", "if", "s"} \cup (IF SecondConn THEN {"jf"} ELSE {}) ELSE {"s"}

Pkt(f, k, rr) ==
             /\ S.npk < MaxPk
             /\ LET pid == S.npk + 1
                    s2 == HandlePkt([S EXCEPT !.npk = pid, !.pk = Append(@, [f |-> f, k |-> k])], f, k, pid, rr)
                    s3 == [s2 EXCEPT !.calls = Append(@, [p |-> pid, from |-> Len(S.out) + 1, to |-> Len(s2.out), conns |-> Len(S.conns)])]
                IN /\ Len(s3.conns) <= MaxConns
                   /\ S' = s3 /\ LogP(f, k, rr, s3)
WFail(c) == /\ "wfail" \in Faults /\ c \in 1..Len(S.conns) /\ S.conns[c].closed = 0 /\ ~S.conns[c].wfail
            /\ S' = [S EXCEPT !.conns[c].wfail = TRUE] /\ Log("wfail", "", "", c, S')
RExit(c) == /\ "rexit" \in Faults /\ c \in 1..Len(S.conns) /\ S.conns[c].closed = 0
            /\ \E k \in Keys : /\ Live(S, k) /\ S.ep[k].conn = c
                               /\ S' = RemoveEp(S, k) /\ Log("rexit", "", "", c, S')
DialFail(b) == /\ "dialfail" \in Faults /\ S.dialFail # b /\ S' = [S EXCEPT !.dialFail = b] /\ Log("dialfail", "", IF b THEN "on" ELSE "off", 0, S')
Expire(s, all) ==
  LET s1 == [s EXCEPT !.dropped = @ \cup Held(s), !.sess = [f \in EFlows |-> NoSess2],
                      !.ep = [k \in Keys |-> IF s.ep[k].st = "failed" THEN NoEp ELSE s.ep[k]]]
      RECURSIVE RemAll(_, _)
      RemAll(x, ks) == IF ks = {} THEN x ELSE LET k == CHOOSE q \in ks : TRUE IN RemAll(IF Live(x, k) THEN RemoveEp(x, k) ELSE x, ks \ {k})
  IN IF all THEN RemAll(s1, Keys) ELSE s1
Tick6 == /\ "tick" \in Faults /\ S.t6 < MaxT6 /\ S' = [Expire(S, FALSE) EXCEPT !.now = @ + 6, !.t6 = @ + 1] /\ Log("tick6", "", "", 0, S')
Tick121 == /\ "tick" \in Faults /\ S' = [Expire(S, TRUE) EXCEPT !.now = @ + 121, !.t6 = 0] /\ Log("tick121", "", "", 0, S')

Next == /\ Len(hist) < MaxEvents
        /\ \/ \E f \in Flows : \E k \in Kinds(f) : \E rr \in RRs : Pkt(f, k, rr)
           \/ \E c \in 1..MaxConns : WFail(c) \/ RExit(c)
           \/ \E b \in BOOLEAN : DialFail(b)
           \/ Tick6 \/ Tick121
Spec == Init /\ [][Next]_vars

---------------------------------------------------------------------------------------------------------------
NoDup == \A i, j \in 1..Len(S.out) : i # j => S.out[i].p # S.out[j].p
Conservation == /\ Written(S) \cup Held(S) \cup S.dropped = 1..S.npk
                /\ Written(S) \cap Held(S) = {} /\ Written(S) \cap S.dropped = {} /\ Held(S) \cap S.dropped = {}
HeldAreInitials == \A p \in Held(S) : IsInit(S.pk[p].k) /\ S.pk[p].f \in EFlows /\ S.sess[S.pk[p].f][Conn(S.pk[p].k)].have # {1, 2}
BatchOrdered == \A i \in 1..Len(S.calls) : LET c == S.calls[i] IN
                  /\ \A a, b \in c.from..c.to : a < b => S.out[a].p < S.out[b].p
                  /\ c.to >= c.from => S.out[c.to].p = c.p
                  /\ \A a \in c.from..c.to : S.pk[S.out[a].p].f = S.pk[c.p].f
CompleteAtEnd == \A f \in EFlows, c \in {1, 2} : S.sess[f][c].st = "done" => S.sess[f][c].buf = <<>>
NameRoutes == \A c \in 1..Len(S.conns) : S.conns[c].grp = GroupFor(S.conns[c].rr, S.conns[c].dom)
OneTransport == \A i \in 1..Len(S.calls) : LET c == S.calls[i] IN
                  Len(S.conns) = c.conns => \A a, b \in c.from..c.to : S.out[a].c = S.out[b].c
TypeOK == S.npk <= MaxPk /\ Len(S.conns) <= MaxConns + 3

Done == Len(hist) = MaxEvents
Emit == Done => PrintT(<<"BEHAVIOUR", ToJson([hist |-> hist, pk |-> S.pk, scope |-> ScopeSensitive])>>)
View == <<S, Len(hist)>>
=============================================================================
