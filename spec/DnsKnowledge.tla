---------------------------- MODULE DnsKnowledge ----------------------------
(* C18 ("resolved through dae") - how long a sniffed name counts as resolved by dae itself:
   control/dns_control.go rememberDnsKnowledge (at cache insert) / forgetDnsKnowledge / syncDnsKnowledgeLocked (at removal) /
   HasDnsKnowledge (the answer's ORIGINAL TTL governs), ChooseDialTarget in dial_mode domain.

   One name.  The DNS cache may hold answers for it of several record types and, per type, from several upstream scopes:
     entry[t][s]   the time the original TTL of the cached answer of type t from scope s runs out, 0 when nothing is cached
   Record types: A (1) and AAAA (28) are what a connection's destination family asks about; the others (NS 2, PTR 12, MX 15,
   TXT 16, ...) have type numbers whose decimal spelling begins like A's or AAAA's.
   Events: Insert(t, s, ttl), Remove(t, s) (evicted / rejected / replaced), Tick(d), Conn(fam) - a connection to an address
   of family fam carrying the name is dialled (no verification probe is available: only dae's own resolution can vouch).
   Property layer (the statement says "only if"): the name may be sent to the proxy only while SOME answer of the destination
   family's address type that dae resolved is within its original TTL (ever[t]: whether or not the cache still holds it - the
   code keeps the knowledge of a replaced answer, and forgets on eviction; both are within the statement); and while such an
   answer is still cached and live the name IS known (must). *)
EXTENDS Integers, Sequences, FiniteSets, TLC, Json

CONSTANTS MaxEvents
Types == {"A", "AAAA", "NS", "PTR", "MX", "TXT"}
Scopes == {"u1", "u2"}
Ttls == {30, 300}
VARIABLES now, entry, ever, hist
vars == <<now, entry, ever, hist>>
Init == now = 0 /\ entry = [t \in Types |-> [s \in Scopes |-> 0]] /\ ever = [t \in Types |-> 0] /\ hist = <<>>

Known(t) == \E s \in Scopes : entry[t][s] > now
AddrType(fam) == IF fam = 4 THEN "A" ELSE "AAAA"
Rec(ev, t, s, n, may, must) == [ev |-> ev, t |-> t, s |-> s, n |-> n, may |-> may, must |-> must, at |-> now']
Max(a, b) == IF a > b THEN a ELSE b
Insert(t, s, ttl) == /\ entry' = [entry EXCEPT ![t][s] = now + ttl] /\ ever' = [ever EXCEPT ![t] = Max(@, now + ttl)]
                     /\ UNCHANGED now /\ hist' = Append(hist, Rec("insert", t, s, ttl, FALSE, FALSE))
Remove(t, s) == /\ entry[t][s] > 0 /\ entry' = [entry EXCEPT ![t][s] = 0] /\ UNCHANGED <<now, ever>> /\ hist' = Append(hist, Rec("remove", t, s, 0, FALSE, FALSE))
Tick(d) == /\ now' = now + d /\ UNCHANGED <<entry, ever>> /\ hist' = Append(hist, Rec("tick", "", "", d, FALSE, FALSE))
\* may: the name may be used;  must: it has to be
Conn(fam) == /\ UNCHANGED <<now, entry, ever>>
             /\ hist' = Append(hist, Rec("conn", "", "", fam, ever[AddrType(fam)] > now, Known(AddrType(fam))))
Next == /\ Len(hist) < MaxEvents
        /\ \/ \E t \in Types, s \in Scopes, ttl \in Ttls : Insert(t, s, ttl)
           \/ \E t \in Types, s \in Scopes : Remove(t, s)
           \/ \E d \in {31, 301} : Tick(d)
           \/ \E fam \in {4, 6} : Conn(fam)
Spec == Init /\ [][Next]_vars

\* what must be known may be known
MustImpliesMay == \A i \in DOMAIN hist : hist[i].must => hist[i].may
Emit == (Len(hist) = MaxEvents /\ hist[MaxEvents].ev = "conn") => PrintT(<<"BEHAVIOUR", ToJson([hist |-> hist])>>)
=============================================================================
