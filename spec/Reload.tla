------------------------------- MODULE Reload -------------------------------
(* C20 - reload requests are serialised, answered, and never leave dae wedged.

   Processes (cmd/run.go, cmd/reload_manager.go); one action per call of the protocol primitives:
     signal handler  tryQueueReloadRequest:  SigCas ; SigBegin ; SigSend | SigUndo ; (refused) SigBusy ; SigLoad ; SigClear
     worker          for req := range reloadReqs:  WDequeue ; WActive ; WCoalesce ; WProcessing ;
                         WFail(stage)  = setRunSignalProgress(Error) ; reloadActive.Store(false) ; clearReloadPending
                       | WHandoff      = beginHandoff (reloading := TRUE, notify main loop)  [+ optional retirement start]
     main loop       on runStateChanges while reloading:
                         MReadyFail    = progress Error ; finishReloadFailure
                       | MReadyOk      = [staged: start retirement] ; progress Done/Error ; finishReloadSuccess
     retirement      RetireDone       closes the retirement channel; the waiter then runs clearReloadPending
     clearReloadPending(flag) = flag := FALSE ; EndSuppression ; clearRejectedReloadProgress (Busy -> Done)

   Property layer:
     AtMostOne          at most one admitted, unfinished request; the channel never holds a second one
     RefusedChangesNothing  a refused request changes nothing but the progress report (Busy)
     SuppressBalanced   the failure-report muting counter equals the number of admitted, unsettled requests
     NeverWedged        at quiescence: not pending, not active, not reloading, muting lifted
     Answered           every admitted request is answered Done or Error after its own Processing *)
EXTENDS Integers, Sequences, FiniteSets, TLC, Json

CONSTANTS NSignals,        \* number of signals (reload / suspend) that will arrive
          BeginBeforeSend, \* TRUE: muting begins before the request is sent (the code); FALSE: a reordering variant
          RecheckAfterBusy \* TRUE: a refused request looks at the admission flag again after its busy report (the code since
                           \* the repair); FALSE: the report is left to whoever completes (violates ProgressSettles)

VARIABLES
  pending, active, reloading,      \* the three flags
  chan,                            \* 0 or 1 requests in reloadReqs (capacity 1)
  suppress,                        \* reloadProxyFailureSuppression counter
  progress,                        \* progress file code
  spc, sleft,                      \* signal handler pc / signals left (signals are handled one at a time by the main loop)
  wpc,                             \* worker pc
  mnotified,                       \* a run-state change is queued for the main loop
  mpc,                             \* main loop sub-pc while finishing a reload
  retire,                          \* "none" | "running" | "done"   (m.pendingRetirementDone, not yet taken)
  waiter,                          \* goroutines spawned by releaseReloadPendingAfterRetirement: Seq([ch, pc]),
                                   \*   ch \in {"running","done"} (its own retirement channel), pc \in {"waiting","cp1","cp2","cp3"}
  begun, ended,                    \* ghosts: Begin/End suppression calls
  admitted, settled, answered,     \* ghosts: counters
  hist
vars == <<pending, active, reloading, chan, suppress, progress, spc, sleft, wpc, mnotified, mpc, retire, waiter, begun, ended, admitted, settled, answered, hist>>

H(a) == hist' = Append(hist, a)

Init ==
  /\ pending = FALSE /\ active = FALSE /\ reloading = FALSE
  /\ chan = 0 /\ suppress = 0 /\ progress = "done"
  /\ spc = "idle" /\ sleft = NSignals
  /\ wpc = "idle" /\ mnotified = FALSE /\ mpc = "idle"
  /\ retire = "none" /\ waiter = <<>>
  /\ begun = 0 /\ ended = 0
  /\ admitted = 0 /\ settled = 0 /\ answered = 0
  /\ hist = <<>>

(* ---------------- EndSuppression as in sticky_cache.go: never below zero ---------------- *)
EndSup(s) == IF s <= 0 THEN s ELSE s - 1

(* ---------------- signal handler (runs on the main loop goroutine: only while the main loop is idle) ---------------- *)
MainIdle == mpc = "idle"
SigCas ==
  /\ spc = "idle" /\ sleft > 0 /\ MainIdle
  /\ sleft' = sleft - 1
  /\ IF pending
     THEN /\ spc' = "busy" /\ UNCHANGED <<pending, admitted>>
     ELSE /\ pending' = TRUE /\ admitted' = admitted + 1
          /\ spc' = IF BeginBeforeSend THEN "begin" ELSE "send"
  /\ H([a |-> "SigCas"])
  /\ UNCHANGED <<active, reloading, chan, suppress, progress, wpc, mnotified, mpc, retire, waiter, settled, answered, ended, begun>>
SigBegin ==
  /\ spc = "begin"
  /\ suppress' = suppress + 1 /\ begun' = begun + 1
  /\ spc' = IF BeginBeforeSend THEN "send" ELSE "idle"
  /\ H([a |-> "SigBegin"])
  /\ UNCHANGED <<pending, active, reloading, chan, progress, sleft, wpc, mnotified, mpc, retire, waiter, ended, admitted, settled, answered>>
SigSend ==
  /\ spc = "send"
  /\ IF chan = 0
     THEN /\ chan' = 1 /\ spc' = (IF BeginBeforeSend THEN "idle" ELSE "begin") /\ UNCHANGED <<pending, admitted>>
     ELSE /\ spc' = "undo" /\ UNCHANGED <<chan, pending, admitted>>
  /\ H([a |-> "SigSend"])
  /\ UNCHANGED <<active, reloading, suppress, progress, sleft, wpc, mnotified, mpc, retire, waiter, settled, answered, ended, begun>>
SigUndo ==      \* channel full: give the admission back
  /\ spc = "undo"
  /\ pending' = FALSE /\ admitted' = admitted - 1
  /\ suppress' = IF BeginBeforeSend THEN EndSup(suppress) ELSE suppress
  /\ progress' = "busyActive"
  /\ spc' = "idle"
  /\ H([a |-> "SigUndo"])
  /\ UNCHANGED <<active, reloading, chan, sleft, wpc, mnotified, mpc, retire, waiter, settled, answered, ended, begun>>
SigBusy ==      \* refused: only the busy report
  /\ spc = "busy"
  /\ progress' = IF active THEN "busyActive" ELSE "busyRetiring"
  /\ spc' = IF RecheckAfterBusy THEN "load" ELSE "idle"
  /\ H([a |-> "SigBusy"])
  /\ UNCHANGED <<pending, active, reloading, chan, suppress, sleft, wpc, mnotified, mpc, retire, waiter, begun, ended, admitted, settled, answered>>
\* ... and, the operation that caused the refusal may have completed meanwhile (nobody would clear the report any more):
\* look at the admission flag again; when it is clear, clear the report (the repair recorded under C20 in known_findings)
SigLoad ==
  /\ spc = "load"
  /\ spc' = IF pending THEN "idle" ELSE "clear"
  /\ H([a |-> "SigLoad"])
  /\ UNCHANGED <<pending, active, reloading, chan, suppress, progress, sleft, wpc, mnotified, mpc, retire, waiter, begun, ended, admitted, settled, answered>>
SigClear ==
  /\ spc = "clear"
  /\ progress' = IF progress \in {"busyActive", "busyRetiring"} THEN "done" ELSE progress
  /\ spc' = "idle"
  /\ H([a |-> "SigClear"])
  /\ UNCHANGED <<pending, active, reloading, chan, suppress, sleft, wpc, mnotified, mpc, retire, waiter, begun, ended, admitted, settled, answered>>

(* ---------------- clearReloadPending, inlined as three steps for whoever runs it ---------------- *)
\* who \in {"w", "m", "r"} with its own pc variable; steps: "cp1" flag := FALSE ; "cp2" EndSuppression ; "cp3" Busy -> Done
CP1 == pending' = FALSE
CP2 == suppress' = EndSup(suppress) /\ ended' = ended + 1
CP3 == progress' = IF progress \in {"busyActive", "busyRetiring"} THEN "done" ELSE progress

(* ---------------- worker ---------------- *)
WDequeue ==
  /\ wpc = "idle" /\ chan = 1
  /\ chan' = 0 /\ wpc' = "active"
  /\ H([a |-> "WDequeue"])
  /\ UNCHANGED <<pending, active, reloading, suppress, progress, spc, sleft, mnotified, mpc, retire, waiter, begun, ended, admitted, settled, answered>>
WActive ==
  /\ wpc = "active"
  /\ active' = TRUE /\ wpc' = "coalesce"
  /\ H([a |-> "WActive"])
  /\ UNCHANGED <<pending, reloading, chan, suppress, progress, spc, sleft, mnotified, mpc, retire, waiter, begun, ended, admitted, settled, answered>>
WCoalesce ==     \* drains the channel (nothing can be in it: see AtMostOne)
  /\ wpc = "coalesce"
  /\ chan' = 0 /\ wpc' = "processing"
  /\ H([a |-> "WCoalesce"])
  /\ UNCHANGED <<pending, active, reloading, suppress, progress, spc, sleft, mnotified, mpc, retire, waiter, begun, ended, admitted, settled, answered>>
WProcessing ==
  /\ wpc = "processing"
  /\ progress' = "processing" /\ wpc' = "work"
  /\ H([a |-> "WProcessing"])
  /\ UNCHANGED <<pending, active, reloading, chan, suppress, spc, sleft, mnotified, mpc, retire, waiter, begun, ended, admitted, settled, answered>>
\* any of the failure branches before hand-off (config load, prepare, clone listener, listen)
WFailError ==
  /\ wpc = "work"
  /\ progress' = "error" /\ answered' = answered + 1 /\ wpc' = "f_inactive"
  /\ H([a |-> "WFailError"])
  /\ UNCHANGED <<pending, active, reloading, chan, suppress, spc, sleft, mnotified, mpc, retire, waiter, begun, ended, admitted, settled>>
WFailInactive ==
  /\ wpc = "f_inactive"
  /\ active' = FALSE /\ wpc' = "f_cp1"
  /\ H([a |-> "WFailInactive"])
  /\ UNCHANGED <<pending, reloading, chan, suppress, progress, spc, sleft, mnotified, mpc, retire, waiter, begun, ended, admitted, settled, answered>>
WCp1 == /\ wpc = "f_cp1" /\ CP1 /\ wpc' = "f_cp2" /\ H([a |-> "WCp1"])      \* clearReloadPending up to EndSuppression
        /\ UNCHANGED <<active, reloading, chan, suppress, progress, spc, sleft, mnotified, mpc, retire, waiter, begun, ended, admitted, settled, answered>>
WCp2 == /\ wpc = "f_cp2" /\ CP2 /\ wpc' = "f_cp3" /\ H([a |-> "WCp2"])
        /\ UNCHANGED <<pending, active, reloading, chan, progress, spc, sleft, mnotified, mpc, retire, waiter, begun, admitted, settled, answered>>
WCp3 == /\ wpc = "f_cp3" /\ CP3 /\ wpc' = "idle" /\ settled' = settled + 1 /\ H([a |-> "WCp3"])
        /\ UNCHANGED <<pending, active, reloading, chan, suppress, spc, sleft, mnotified, mpc, retire, waiter, begun, ended, admitted, answered>>
\* hand-off: reloading := TRUE, the main loop is notified; a non-staged hand-off also starts the retirement now
WHandoff(startRetire) ==
  /\ wpc = "work"
  /\ reloading' = TRUE /\ mnotified' = TRUE
  /\ retire' = IF startRetire THEN "running" ELSE "none"
  /\ wpc' = "idle"                       \* `continue`: the worker waits for the next request
  /\ H([a |-> "WHandoff", retire |-> startRetire])
  /\ UNCHANGED <<pending, active, chan, suppress, progress, spc, sleft, mpc, waiter, begun, ended, admitted, settled, answered>>

(* ---------------- main loop finishing the reload ---------------- *)
MTake ==
  /\ mpc = "idle" /\ mnotified /\ spc = "idle" /\ reloading
  /\ mnotified' = FALSE /\ mpc' = "ready"
  /\ H([a |-> "MTake"])
  /\ UNCHANGED <<pending, active, reloading, chan, suppress, progress, spc, sleft, wpc, retire, waiter, begun, ended, admitted, settled, answered>>
\* readiness failed or timed out: progress Error, finishReloadFailure
MFailError ==
  /\ mpc = "ready"
  /\ progress' = "error" /\ answered' = answered + 1 /\ mpc' = "ff_flags"
  /\ H([a |-> "MFailError"])
  /\ UNCHANGED <<pending, active, reloading, chan, suppress, spc, sleft, wpc, mnotified, retire, waiter, begun, ended, admitted, settled>>
MFailFlags ==
  /\ mpc = "ff_flags"
  /\ reloading' = FALSE /\ active' = FALSE /\ CP1 /\ mpc' = "ff_cp2"      \* finishReloadFailure up to EndSuppression
  /\ H([a |-> "MFailFlags"])
  /\ UNCHANGED <<chan, suppress, progress, spc, sleft, wpc, mnotified, retire, waiter, begun, ended, admitted, settled, answered>>
MCp2 == /\ mpc = "ff_cp2" /\ CP2 /\ mpc' = "ff_cp3" /\ H([a |-> "MCp2"])
        /\ UNCHANGED <<pending, active, reloading, chan, progress, spc, sleft, wpc, mnotified, retire, waiter, begun, admitted, settled, answered>>
MCp3 == /\ mpc = "ff_cp3" /\ CP3 /\ mpc' = "idle" /\ settled' = settled + 1 /\ H([a |-> "MCp3"])
        /\ UNCHANGED <<pending, active, reloading, chan, suppress, spc, sleft, wpc, mnotified, retire, waiter, begun, ended, admitted, answered>>
\* readiness ok: (staged hand-off: the retirement starts here) ; progress Done ; finishReloadSuccess
MOkProgress(startRetire) ==
  /\ mpc = "ready"
  /\ retire' = IF startRetire /\ retire = "none" THEN "running" ELSE retire
  /\ progress' = "done" /\ answered' = answered + 1 /\ mpc' = "fs_flags"
  /\ H([a |-> "MOkProgress", retire |-> startRetire])
  /\ UNCHANGED <<pending, active, reloading, chan, suppress, spc, sleft, wpc, mnotified, waiter, begun, ended, admitted, settled>>
MOkFlags ==      \* finishReloadSuccess: flags, then either clearReloadPending (no retirement) or a goroutine waiting for it
  /\ mpc = "fs_flags"
  /\ reloading' = FALSE /\ active' = FALSE
  /\ IF retire = "none"
     THEN /\ CP1 /\ mpc' = "fs_cp2" /\ UNCHANGED <<waiter, retire>>
     ELSE /\ waiter' = Append(waiter, [ch |-> retire, pc |-> "waiting"])     \* takePendingRetirementDone
          /\ retire' = "none" /\ mpc' = "idle" /\ UNCHANGED pending
  /\ H([a |-> "MOkFlags"])
  /\ UNCHANGED <<chan, suppress, progress, spc, sleft, wpc, mnotified, begun, ended, admitted, settled, answered>>
MSCp2 == /\ mpc = "fs_cp2" /\ CP2 /\ mpc' = "fs_cp3" /\ H([a |-> "MSCp2"])
         /\ UNCHANGED <<pending, active, reloading, chan, progress, spc, sleft, wpc, mnotified, retire, waiter, begun, admitted, settled, answered>>
MSCp3 == /\ mpc = "fs_cp3" /\ CP3 /\ mpc' = "idle" /\ settled' = settled + 1 /\ H([a |-> "MSCp3"])
         /\ UNCHANGED <<pending, active, reloading, chan, suppress, spc, sleft, wpc, mnotified, retire, waiter, begun, ended, admitted, answered>>

(* ---------------- retirement of the previous generation ---------------- *)
\* the retirement goroutine finishes: its channel is closed, wherever the channel is held
RetirePendingDone ==
  /\ retire = "running"
  /\ retire' = "done"
  /\ H([a |-> "RetireDone", w |-> 0])
  /\ UNCHANGED <<pending, active, reloading, chan, suppress, progress, spc, sleft, wpc, mnotified, mpc, waiter, begun, ended, admitted, settled, answered>>
RetireHeldDone(i) ==
  /\ i \in DOMAIN waiter /\ waiter[i].ch = "running"
  /\ waiter' = [waiter EXCEPT ![i].ch = "done"]
  /\ H([a |-> "RetireDone", w |-> i])
  /\ UNCHANGED <<pending, active, reloading, chan, suppress, progress, spc, sleft, wpc, mnotified, mpc, retire, begun, ended, admitted, settled, answered>>
RWake(i) == /\ i \in DOMAIN waiter /\ waiter[i].pc = "waiting" /\ waiter[i].ch = "done"
            /\ CP1                                                     \* clearReloadPending up to EndSuppression
            /\ waiter' = [waiter EXCEPT ![i].pc = "cp2"] /\ H([a |-> "RWake", w |-> i])
            /\ UNCHANGED <<active, reloading, chan, suppress, progress, spc, sleft, wpc, mnotified, mpc, retire, begun, ended, admitted, settled, answered>>
RCp2(i) == /\ i \in DOMAIN waiter /\ waiter[i].pc = "cp2" /\ CP2
           /\ waiter' = [waiter EXCEPT ![i].pc = "cp3"] /\ H([a |-> "RCp2", w |-> i])
           /\ UNCHANGED <<pending, active, reloading, chan, progress, spc, sleft, wpc, mnotified, mpc, retire, begun, admitted, settled, answered>>
RCp3(i) == /\ i \in DOMAIN waiter /\ waiter[i].pc = "cp3" /\ CP3
           /\ waiter' = [waiter EXCEPT ![i].pc = "exited"] /\ settled' = settled + 1 /\ H([a |-> "RCp3", w |-> i])
           /\ UNCHANGED <<pending, active, reloading, chan, suppress, spc, sleft, wpc, mnotified, mpc, retire, begun, ended, admitted, answered>>

Next == \/ SigCas \/ SigBegin \/ SigSend \/ SigUndo \/ SigBusy \/ SigLoad \/ SigClear
        \/ WDequeue \/ WActive \/ WCoalesce \/ WProcessing \/ WFailError \/ WFailInactive \/ WCp1 \/ WCp2 \/ WCp3
        \/ WHandoff(TRUE) \/ WHandoff(FALSE)
        \/ MTake \/ MFailError \/ MFailFlags \/ MCp2 \/ MCp3
        \/ MOkProgress(TRUE) \/ MOkProgress(FALSE) \/ MOkFlags \/ MSCp2 \/ MSCp3
        \/ RetirePendingDone \/ \E i \in 1..NSignals : RetireHeldDone(i) \/ RWake(i) \/ RCp2(i) \/ RCp3(i)
Spec == Init /\ [][Next]_vars
FairSpec == Spec /\ WF_vars(Next)

(* ---------------- property layer ---------------- *)
WorkerBusy == wpc \notin {"idle"}
InFlight == (IF wpc \in {"active", "coalesce", "processing", "work", "f_inactive", "f_cp1"} THEN 1 ELSE 0)
            + (IF reloading \/ mpc # "idle" THEN 1 ELSE 0)
AtMostOne == chan + InFlight <= 1 /\ (chan = 1 => pending)
Unsettled == admitted - settled
\* every Begin is matched by exactly one End that finds the counter positive (EndSuppression silently ignores a zero counter)
SuppressBalanced == suppress = begun - ended /\ suppress >= 0
Quiescent == /\ spc = "idle" /\ sleft = 0 /\ wpc = "idle" /\ mpc = "idle" /\ chan = 0 /\ ~mnotified
             /\ retire \in {"none", "done"} /\ \A i \in DOMAIN waiter : waiter[i].pc = "exited"
NeverWedged == Quiescent => (~pending /\ ~active /\ ~reloading /\ suppress = 0)
AnsweredAll == Quiescent => (answered = admitted /\ settled = admitted)
\* once everything has settled the progress file says Done or Error: 'dae reload' / 'dae suspend' refuse to signal otherwise
ProgressSettles == Quiescent => progress \in {"done", "error"}
\* a refused request changes nothing except the busy report
RefusedChangesNothing ==
  [][(spc \in {"busy", "load", "clear"} /\ spc' # spc) =>
       /\ pending' = pending /\ active' = active /\ reloading' = reloading /\ chan' = chan /\ suppress' = suppress
       /\ (spc = "busy" => progress' \in {"busyActive", "busyRetiring"})
       /\ (spc = "clear" => progress' \in {progress, "done"})]_vars
\* liveness: under fairness the system always returns to a state accepting a new request
Progress == <>[](spc = "idle" /\ wpc = "idle" /\ mpc = "idle" /\ ~pending /\ ~active /\ ~reloading /\ suppress = 0)

Behaviour == [schedule |-> hist, pending |-> pending, active |-> active, reloading |-> reloading, suppress |-> suppress, progress |-> progress]
Emit == Quiescent => PrintT(<<"BEHAVIOUR", ToJson(Behaviour)>>)
View == <<pending, active, reloading, chan, suppress, progress, spc, sleft, wpc, mnotified, mpc, retire, waiter, begun, ended, admitted, settled, answered>>
=============================================================================
