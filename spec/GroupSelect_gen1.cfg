SPECIFICATION Spec
CONSTANTS
  Nodes = {1}
  MaxEvents = 14
INVARIANTS NoneOnlyWhenNone ExcludedNeverOffered OfferWhenPossible Emit
