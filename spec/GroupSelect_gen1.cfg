SPECIFICATION Spec
CONSTANTS
  Nodes = {1}
  MaxEvents = 14
  WithReload = FALSE
  Stricts = {TRUE, FALSE}
  Excl = {0, 1}
  Fams = {"4", "6"}
  Doms = {"data", "dns", "tcp"}
INVARIANTS NoneOnlyWhenNone ExcludedNeverOffered OfferWhenPossible Emit
