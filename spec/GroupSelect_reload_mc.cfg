SPECIFICATION Spec
CONSTANTS
  Nodes = {1, 2}
  MaxEvents = 4
  WithReload = TRUE
  Stricts = {FALSE}
  Excl = {0}
  Fams = {"4"}
  Doms = {"data", "tcp"}
INVARIANTS FloorHolds
PROPERTIES KeepsKnown
