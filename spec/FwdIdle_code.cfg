SPECIFICATION Spec
CONSTANTS
  Clients = {"c1", "c2"}
  MaxFw = 3
  MaxEvents = 10
  JanitorRetires = FALSE
VIEW View
INVARIANTS ClosedOnce NeverInUse RetiredClosed
