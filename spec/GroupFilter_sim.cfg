SPECIFICATION Spec
CONSTANTS MaxLines = 3
INVARIANTS MembersOnceInOrder NoLinesAll Emit
