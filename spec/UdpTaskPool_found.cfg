SPECIFICATION Spec
CONSTANTS
  Producers <- MC3Producers
  KeyOf <- MC3KeyOf
  NTasks = 1
  QIds = {1, 2, 3}
  ChanIds = {1, 2, 3}
  ChanCap = 1
  PopRecheck = TRUE
  ClaimRecheck = FALSE
  MaxTimer = 1
VIEW View
INVARIANTS RefsSane NoDuplicate PerKeyFifo OneAtATime NoForeignQueue NoResidue NoLostTask
