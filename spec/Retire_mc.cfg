SPECIFICATION Spec
INVARIANTS RetiresInTime Emit
