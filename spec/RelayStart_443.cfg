SPECIFICATION Spec
CONSTANTS
  Port = 443
  MaxEvents = 5
INVARIANTS ServerSpeaksWhenConnected Emit
