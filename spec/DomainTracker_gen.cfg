SPECIFICATION Spec
CONSTANTS
  Owners = {"k1", "k2"}
  Addrs = {1, 2}
  Unspec = 0
  Bits = {"b0", "b1"}
  MaxHist = 4
  GenBms = {{"b0"}, {"b1"}}
  GenIpsets = {{}, {1}, {1, 2}}
INVARIANTS Mirror TrackerConsistent Emit
