------------------------------ MODULE TcpRelay ------------------------------
(* C05 - the TCP relay delivers both byte streams intact and honours half-close
   (control/tcp.go handleConn: DNS-over-TCP detection on port 53, prefetch + sniffing, RelayTCPContextWithRecords;
    tcp_relay_core.go, tcp_copy_engine.go, tcp_copy_gather_linux.go; component/sniffing ConnSniffer).

   A timed model of ONE proxied connection at the level the property speaks about.  Time is in milliseconds.
     now        time since the connection was accepted
     up, down   what the client / the server has written so far (sequences of segment kinds; the harness knows their bytes)
     cEof, sEof time at which the client / server shut down its write side (-1: not yet)
   Events:  CW(k) client writes a segment   SW(k) server writes   CC / SC half-close   Wait(d) nothing happens for d ms

   dae may hold the client's bytes back while it probes: on port 53 up to the DNS first-read window, then (when sniffing
   applies) the prefetch window and the sniffing window.  WTotal bounds the sum.  After that nothing may be withheld:
     Obligation after every event (at a quiescent point):
       delivered is always a prefix of sent, both directions                                  (never altered / duplicated)
       if now >= WTotal and the direction has not been ended by the half-close grace:
           everything written so far has been delivered, and an end of stream has been passed on as a write shutdown
       a direction may be ended only Grace after the opposite direction's end of stream was passed on
       idle time alone never ends a connection                                                (no leaked probe deadline)
   The harness performs each event on the real handleConn with in-memory sockets in virtual time and compares. *)
EXTENDS Integers, Sequences, FiniteSets, TLC, Json

CONSTANTS Port,              \* 53 | 443
          SniffT, DnsT, Grace, Slack,
          MaxEvents

WTotal == (IF Port = 53 THEN DnsT ELSE 0) + 2 * SniffT + Slack

ClientKinds == {"tls5", "tlsrest", "tlsfull", "http", "httphalf", "bin1", "bin", "dnsjunk", "dnsresp", "big"}   \* dnsresp: a well-formed length-prefixed DNS *response* (not a query: to be relayed like any other bytes)
ServerKinds == {"s-small", "s-big"}
Waits == {10, SniffT + 50, DnsT + 1000, Grace + 1000}

VARIABLES now, up, down, cEof, sEof,
          upEnd, downEnd,    \* time from which the direction may have been ended by the relay (-1: never)
          hist
vars == <<now, up, down, cEof, sEof, upEnd, downEnd, hist>>

Init == now = 0 /\ up = <<>> /\ down = <<>> /\ cEof = -1 /\ sEof = -1 /\ upEnd = -1 /\ downEnd = -1 /\ hist = <<>>

Ready(t) == t >= WTotal
\* when the end of stream written at time e is passed on: at once if the relay runs, else when it starts
PassedOn(e) == IF e >= WTotal THEN e ELSE WTotal

\* obligations at time t
UpLive(t) == upEnd = -1 \/ t < upEnd
DownLive(t) == downEnd = -1 \/ t < downEnd
Obs(t) == [ upMust   |-> Ready(t) /\ UpLive(t),      \* every client byte written so far has reached the server
            downMust |-> Ready(t) /\ DownLive(t),
            upEofMust |-> Ready(t) /\ UpLive(t) /\ cEof # -1,      \* ... and the server has seen the end of stream
            downEofMust |-> Ready(t) /\ DownLive(t) /\ sEof # -1,
            upMayEnd |-> ~UpLive(t), downMayEnd |-> ~DownLive(t) ]
Log(ev, k, t) == hist' = Append(hist, [ev |-> ev, k |-> k, at |-> t, obs |-> Obs(t)])

CW(k) == /\ cEof = -1
         /\ up' = Append(up, k) /\ Log("cw", k, now)
         /\ UNCHANGED <<now, down, cEof, sEof, upEnd, downEnd>>
\* the server can speak only once it has been dialled
SW(k) == /\ sEof = -1 /\ Ready(now)
         /\ down' = Append(down, k) /\ Log("sw", k, now)
         /\ UNCHANGED <<now, up, cEof, sEof, upEnd, downEnd>>
\* client half-close: passed on to the server; the server->client direction keeps flowing for Grace
CC == /\ cEof = -1
      /\ cEof' = now
      /\ downEnd' = now + Grace          \* the earliest the grace can run out (the relay may already be running)
      /\ hist' = Append(hist, [ev |-> "cc", k |-> "", at |-> now, obs |-> [Obs(now) EXCEPT !.upEofMust = Ready(now) /\ UpLive(now)]])
      /\ UNCHANGED <<now, up, down, sEof, upEnd>>
SC == /\ sEof = -1 /\ Ready(now)
      /\ sEof' = now
      /\ upEnd' = now + Grace
      /\ hist' = Append(hist, [ev |-> "sc", k |-> "", at |-> now, obs |-> [Obs(now) EXCEPT !.downEofMust = Ready(now) /\ DownLive(now)]])
      /\ UNCHANGED <<now, up, down, cEof, downEnd>>
Wait(d) == /\ now' = now + d
           /\ Log("wait", "", now + d)
           /\ UNCHANGED <<up, down, cEof, sEof, upEnd, downEnd>>

Next == /\ Len(hist) < MaxEvents
        /\ \/ \E k \in ClientKinds : CW(k)
           \/ \E k \in ServerKinds : SW(k)
           \/ CC \/ SC
           \/ \E d \in Waits : Wait(d)
Spec == Init /\ [][Next]_vars

(* ---------------------------------------------------------------- sanity of the obligations themselves *)
\* an obligation, once due, stays due until the grace of the opposite half-close has run out
Monotone == \A i \in 1..Len(hist) : \A j \in i..Len(hist) :
               (hist[i].obs.upMust /\ ~hist[j].obs.upMust) => hist[j].obs.upMayEnd
\* the relay may end a direction only after the other side's end of stream
EndsOnlyAfterEof == (upEnd # -1 => sEof # -1) /\ (downEnd # -1 => cEof # -1)
\* idle time alone never creates a licence to cut
IdleNeverCuts == (cEof = -1 /\ sEof = -1) => (upEnd = -1 /\ downEnd = -1)
\* probing delays by no more than the windows
DelayBounded == \A i \in 1..Len(hist) : hist[i].at >= WTotal => (hist[i].obs.upMust \/ hist[i].obs.upMayEnd)

Behaviour == [port |-> Port, hist |-> hist]
Emit == Len(hist) = MaxEvents => PrintT(<<"BEHAVIOUR", ToJson(Behaviour)>>)
=============================================================================
