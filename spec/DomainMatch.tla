---------------------------- MODULE DomainMatch ----------------------------
(* C11 - domain patterns match exactly the names their kind describes.

   Names and patterns are sequences of one-character strings.  Reference semantics, written from the
   property statement:
     Norm(n)          lower-case, strip one trailing dot
     full    p ~ n    Norm(n) = p
     suffix  p ~ n    p without leading dot:  Norm(n) = p  or  Norm(n) ends with "." \o p
                      p with leading dot   :  Norm(n) ends with p   (proper sub-names only)
     keyword p ~ n    p occurs in Norm(n)
     regex   r ~ n    Go regexp on Norm(n), for the structured subset [pre, post, alts] =
                      (^)?(alt1|alt2|..)($)?  of literal alternatives
     a set matches iff one of its patterns does; a pattern containing a character outside the
     matcher alphabet (for full/suffix) is skipped and contributes nothing.

   Implementation layer (component/routing/domain_matcher/ahocorasick_slimtrie.go): full and suffix
   patterns become keys of a reversed-string trie with "^" / "." sentinels:
        full p          ->  "^" p            reversed
        suffix p        ->  "." p  and "^" p reversed      (no leading dot)
        suffix .p       ->  "." p            reversed
   and the query is  Reverse("^" \o Norm(n)); a set hits iff some key is a prefix of the query.
   TLC checks that this encoding refines the reference semantics for every enumerated set and name,
   and emits one VECTOR per set with the expected answer for every name of the name universe. *)
EXTENDS DomainOps, TLC, Json, Randomization

CONSTANTS Mode,        \* "pairs" | "random"
          RandSets, RandSize

(* ---------------- universes ---------------- *)
Strs(A, n) == UNION {[1..k -> A] : k \in 1..n}
Pats2 == Strs(Sigma, 2)                                   \* all patterns of length 1..2: 42
LongPats == { <<"a",".","b">>, <<"b",".","a",".","b">>, <<".","a",".","b">>, <<"a","-","b">>, <<"a","_","b">>,
              <<"1","a">>, <<"a","1",".","b">>, <<"b","a",".","b">>, <<"a","b","a">>, <<"-","a">>,
              <<"a","!">>, <<"!">>, <<"a","^">> }
PatUniverse == Pats2 \cup LongPats
Names3 == Strs(Sigma, 3)                                  \* all names of length 1..3: 258
LongNames == { <<"a",".","b">>, <<"x",".","a",".","b">>, <<"a",".","b",".">>, <<"A",".","B">>, <<"b","a",".","b">>,
               <<"a",".","b","a",".","b">>, <<"b",".","a",".","b">>, <<"a","-","b">>, <<"a","_","b">>, <<"a","b","a","b">>,
               <<"1","a",".","b">>, <<"a","1",".","b">>, <<"a",".","b",".","a">>, <<"B","A">>, <<"a","B",".">>,
               <<"a",".",".">>, <<"-","a",".","b">>, <<"1","-","a">>,
               \* upper case next to every other character class (a lower-casing shortcut must leave them alone)
               <<"A","_","b">>, <<"a","_","B">>, <<"B","_">>, <<"A",".","a","_","b">>, <<"A","-","b">>, <<"A","1",".","b">>,
               <<"B","1">>, <<"A","_","1">> }
NameUniverse == Names3 \cup LongNames \cup { <<>> }
NameSeq == SetToSeq(NameUniverse)

Kinds == {"full", "suffix", "keyword"}
RegexUniverse ==
    { [pre |-> pr, post |-> po, alts |-> al] :
        pr \in BOOLEAN, po \in BOOLEAN,
        al \in { <<<<"a">>>>, <<<<"a",".","b">>>>, <<<<"a">>, <<"b","1">>>>, <<<<".">>>>, <<<<"a","-">>, <<"_">>>> } }

(* random mode: patterns built from labels joined by dots, so that many share labels / are suffixes of one another *)
Labels == { <<"a">>, <<"b">>, <<"a","b">>, <<"1">>, <<"a","-","b">>, <<"a","_","1">>, <<"b","a">>, <<"1","a">> }
Dot(x, y) == x \o <<".">> \o y
Pats3L == Labels \cup {Dot(x, y) : x \in Labels, y \in Labels}
             \cup {Dot(x, Dot(y, z)) : x \in Labels, y \in {<<"a">>, <<"b">>, <<"a","b">>}, z \in {<<"a">>, <<"1">>}}
             \cup {<<".">> \o x : x \in Labels}

(* ---------------- state machine: one state per pattern set ---------------- *)
VARIABLES set, idx          \* idx only distinguishes the random draws
vars == <<set, idx>>

Init ==
    IF Mode = "pairs"
    THEN /\ idx = 0
         /\ \/ \E k \in Kinds, p \in PatUniverse : set = [kind |-> k, pats |-> <<p>>]
            \/ \E r \in RegexUniverse : set = [kind |-> "regex", pats |-> <<r>>]
    ELSE /\ idx \in 1..RandSets
         /\ \E k \in Kinds : set = [kind |-> k, pats |-> <<>>]
\* grow a singleton into every ordered pair (order matters to the implementation: insertion order)
Grow == /\ Mode = "pairs"
        /\ Len(set.pats) = 1
        /\ set.kind # "regex"
        /\ \E p \in PatUniverse \ {set.pats[1]} : set' = [set EXCEPT !.pats = Append(@, p)]
        /\ UNCHANGED idx
\* random mode: the draw happens in a step so that TLC's workers share the work
Draw == /\ Mode = "random"
        /\ set.pats = <<>>
        /\ set' = [set EXCEPT !.pats = SetToSeq(RandomSubset(RandSize, Pats3L))]
        /\ UNCHANGED idx
Next == Grow \/ Draw
Spec == Init /\ [][Next]_vars

UpFirst(s) == [i \in 1..Len(s) |-> IF i = 1 /\ s[i] = "a" THEN "A" ELSE IF i = 1 /\ s[i] = "b" THEN "B" ELSE s[i]]
NamesFor == IF Mode = "pairs" THEN NameSeq
            ELSE SetToSeq(LongNames \cup Names3
                   \cup UNION { {set.pats[i], <<"a",".">> \o set.pats[i], <<"a">> \o set.pats[i], set.pats[i] \o <<".","a">>,
                                 set.pats[i] \o <<".">>, Tail(set.pats[i]), UpFirst(set.pats[i]),
                                 <<"B",".">> \o set.pats[i]} : i \in 1..Len(set.pats) })

(* ---------------- properties ---------------- *)
ImplRefines == \A i \in 1..Len(NamesFor) : ImplM(set, NamesFor[i]) = SetM(set, NamesFor[i])
CaseInsens == \A i \in 1..Len(NamesFor) : SetM(set, NamesFor[i]) = SetM(set, LowerSeq(NamesFor[i]))
TrailingDot == \A i \in 1..Len(NamesFor) :
                  LET n == NamesFor[i] IN (Len(n) > 0 /\ n[Len(n)] # ".") => SetM(set, n) = SetM(set, n \o <<".">>)

Vector == [ kind |-> set.kind, pats |-> set.pats,
            names |-> IF Mode = "pairs" /\ Len(set.pats) > 1 THEN <<>> ELSE NamesFor,   \* pairs share the singleton's name list
            exp |-> [i \in 1..Len(NamesFor) |-> SetM(set, NamesFor[i])] ]
Emit == set.pats # <<>> => PrintT(<<"VECTOR", ToJson(Vector)>>)
=============================================================================
