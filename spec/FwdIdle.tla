------------------------------- MODULE FwdIdle -------------------------------
(* C09 (last clause) - "a retired upstream connection is closed exactly once, after its last in-flight query":
   the cache of upstream forwarders of control/dns_control.go
     getOrCreateDnsForwarder / cachedDnsForwarder.beginUse / endUse / retire / closeNow,
     retireCachedDnsForwarder (after a failed exchange) and the janitor's evictIdleDnsForwarders.

   One upstream (one cache key).  Forwarder objects are numbered in creation order.
     cache                 the forwarder the cache holds (0: none)
     inFlight, retired, closed (how often Close was called), stale (not used for longer than the idle time)  per forwarder
     clients  pc: "start" -> "acquired" (holds a forwarder, has not begun) -> "inflight" -> "start";  held forwarder
     janitor  jpc: "idle" -> "chosen" (the idle test passed for jf; about to remove and close it) -> "idle"
   Steps = the code between two verif yield points ("dnsfwd.acquired", "dnsfwd.evict.idle") or blocking exchanges:
     Acquire(c), Begin(c), Answer(c, ok), Tick, JCheck, JFinish.

   Property layer:
     ClosedOnce      Close is called at most once per forwarder
     NeverInUse      no forwarder is closed while an exchange uses it, and none is used after it was closed
     RetiredClosed   a retired forwarder nobody uses has been closed *)
EXTENDS Integers, Sequences, FiniteSets, TLC, Json

CONSTANTS Clients, MaxFw, MaxEvents,
          JanitorRetires     \* TRUE = the janitor retires the entry (closed by its last user); FALSE = it closes the forwarder itself

NoFw == 0
VARIABLES cache, nfw, inFlight, retired, closed, stale, pc, held, tries, jpc, jf, usedAfterClose, hist
vars == <<cache, nfw, inFlight, retired, closed, stale, pc, held, tries, jpc, jf, usedAfterClose, hist>>

Fws == 1..MaxFw
Init == /\ cache = NoFw /\ nfw = 0
        /\ inFlight = [f \in Fws |-> 0] /\ retired = [f \in Fws |-> FALSE] /\ closed = [f \in Fws |-> 0] /\ stale = [f \in Fws |-> FALSE]
        /\ pc = [c \in Clients |-> "start"] /\ held = [c \in Clients |-> NoFw] /\ tries = [c \in Clients |-> 0]
        /\ jpc = "idle" /\ jf = NoFw /\ usedAfterClose = FALSE /\ hist = <<>>

H(ev, who, x) == hist' = Append(hist, [ev |-> ev, who |-> who, x |-> x])
\* closeNow (closeOnce)
CloseNow(cl, f) == IF cl[f] = 0 THEN [cl EXCEPT ![f] = 1] ELSE cl

\* getOrCreateDnsForwarder: the cached forwarder (touched) or a new one
GetOrCreate(c) ==
  IF cache # NoFw
  THEN /\ held' = [held EXCEPT ![c] = cache] /\ stale' = [stale EXCEPT ![cache] = FALSE] /\ UNCHANGED <<cache, nfw>>
  ELSE /\ nfw < MaxFw
       /\ nfw' = nfw + 1 /\ cache' = nfw + 1 /\ held' = [held EXCEPT ![c] = nfw + 1] /\ stale' = [stale EXCEPT ![nfw + 1] = FALSE]
Acquire(c) ==
  /\ pc[c] = "start"
  /\ GetOrCreate(c)
  /\ pc' = [pc EXCEPT ![c] = "acquired"] /\ tries' = [tries EXCEPT ![c] = 1]
  /\ H("acquire", c, "")
  /\ UNCHANGED <<inFlight, retired, closed, jpc, jf, usedAfterClose>>
\* beginUse, and the exchange starts (blocks at the upstream); a retired forwarder makes the caller ask the cache once more
Begin(c) ==
  /\ pc[c] = "acquired"
  /\ LET f == held[c] IN
     IF retired[f]
     THEN IF tries[c] < 2
          THEN /\ GetOrCreate(c) /\ tries' = [tries EXCEPT ![c] = 2] /\ UNCHANGED pc
               /\ H("begin", c, "retired-again") /\ UNCHANGED <<inFlight, usedAfterClose>>
          ELSE /\ pc' = [pc EXCEPT ![c] = "start"] /\ held' = [held EXCEPT ![c] = NoFw] /\ tries' = [tries EXCEPT ![c] = 0]
               /\ H("begin", c, "retired-giveup") /\ UNCHANGED <<cache, nfw, inFlight, stale, usedAfterClose>>
     ELSE /\ inFlight' = [inFlight EXCEPT ![f] = @ + 1] /\ stale' = [stale EXCEPT ![f] = FALSE]
          /\ pc' = [pc EXCEPT ![c] = "inflight"] /\ UNCHANGED <<held, tries, cache, nfw>>
          /\ usedAfterClose' = (usedAfterClose \/ closed[f] > 0)
          /\ H("begin", c, "ok")
  /\ UNCHANGED <<retired, closed, jpc, jf>>
\* the exchange ends: endUse; after a failed exchange the forwarder is retired when it is still the cache's
Answer(c, ok) ==
  /\ pc[c] = "inflight"
  /\ LET f == held[c]
         n == inFlight[f] - 1
         closed1 == IF n = 0 /\ retired[f] THEN CloseNow(closed, f) ELSE closed      \* endUse
         doRetire == ~ok /\ cache = f            \* retireCachedDnsForwarder: only the forwarder the cache still holds
     IN /\ inFlight' = [inFlight EXCEPT ![f] = n]
        /\ retired' = [retired EXCEPT ![f] = @ \/ doRetire]
        /\ closed' = IF doRetire /\ n = 0 THEN CloseNow(closed1, f) ELSE closed1
        /\ cache' = IF doRetire THEN NoFw ELSE cache
        /\ stale' = [stale EXCEPT ![f] = FALSE]
  /\ pc' = [pc EXCEPT ![c] = "start"] /\ held' = [held EXCEPT ![c] = NoFw] /\ tries' = [tries EXCEPT ![c] = 0]
  /\ H("answer", c, IF ok THEN "ok" ELSE "error")
  /\ UNCHANGED <<nfw, jpc, jf, usedAfterClose>>
\* more than the idle time passes
Tick == /\ stale' = [f \in Fws |-> TRUE] /\ H("tick", "", "")
        /\ UNCHANGED <<cache, nfw, inFlight, retired, closed, pc, held, tries, jpc, jf, usedAfterClose>>
\* the janitor looks at the cached forwarder: in use or recently used -> nothing; otherwise it is chosen
JCheck ==
  /\ jpc = "idle" /\ cache # NoFw
  /\ IF inFlight[cache] = 0 /\ stale[cache]
     THEN jpc' = "chosen" /\ jf' = cache /\ H("jcheck", "j", "chosen")
     ELSE UNCHANGED <<jpc, jf>> /\ H("jcheck", "j", "kept")
  /\ UNCHANGED <<cache, nfw, inFlight, retired, closed, stale, pc, held, tries, usedAfterClose>>
\* ... removes it from the cache (when it is still there) and ends its life
JFinish ==
  /\ jpc = "chosen"
  /\ IF cache = jf
     THEN /\ cache' = NoFw
          /\ IF JanitorRetires
             THEN /\ retired' = [retired EXCEPT ![jf] = TRUE]
                  /\ closed' = IF inFlight[jf] = 0 THEN CloseNow(closed, jf) ELSE closed
             ELSE /\ closed' = [closed EXCEPT ![jf] = @ + 1]            \* forwarder.Close(), not through closeOnce
                  /\ UNCHANGED retired
     ELSE UNCHANGED <<cache, retired, closed>>
  /\ jpc' = "idle" /\ jf' = NoFw /\ H("jfinish", "j", "")
  /\ UNCHANGED <<nfw, inFlight, stale, pc, held, tries, usedAfterClose>>

Next == /\ Len(hist) < MaxEvents
        /\ \/ \E c \in Clients : Acquire(c) \/ Begin(c) \/ Answer(c, TRUE) \/ Answer(c, FALSE)
           \/ Tick \/ JCheck \/ JFinish
Spec == Init /\ [][Next]_vars

ClosedOnce == \A f \in Fws : closed[f] <= 1
NeverInUse == /\ \A f \in Fws : ~(closed[f] > 0 /\ inFlight[f] > 0)
              /\ ~usedAfterClose
RetiredClosed == \A f \in Fws : (retired[f] /\ inFlight[f] = 0) => closed[f] = 1
View == <<cache, nfw, inFlight, retired, closed, stale, pc, held, tries, jpc, jf, usedAfterClose>>
Emit == Len(hist) = MaxEvents => PrintT(<<"BEHAVIOUR", ToJson([hist |-> hist])>>)
=============================================================================
