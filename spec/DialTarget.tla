----------------------------- MODULE DialTarget -----------------------------
(* C18 - the dial target follows dial_mode: IPs by default, names only when allowed.

   One state per input combination; the expected output is a function of the inputs, written from the property:
     IP:port  when dial_mode is ip, no name was sniffed, or the outbound is a built-in one (direct / block / ...)
     domain   the sniffed name only if it is known to be genuine (resolved through dae, or verified), otherwise the IP
     domain+  the sniffed name unconditionally
     domain++ the sniffed name, and the flow is routed again
   A sniffed IP literal (bare or bracketed) or a value that already carries a port is normalised:
     literal      -> literal:dstPort (brackets for IPv6), dialled as an IP
     host:port    -> kept as is
   and the target always parses as host:port with a numeric port. *)
EXTENDS Integers, Sequences, FiniteSets, TLC, Json

Modes == {"ip", "domain", "domain+", "domain++"}
OutKinds == {"direct", "block", "user"}
Dsts == {[fam |-> 4, port |-> 443], [fam |-> 6, port |-> 53], [fam |-> 4, port |-> 65535]}
\* sniffed value classes: kind of string, and what dae knows about the name
SniffKinds == {"empty", "name", "NAME.", "name:port", "v4", "v6", "[v6]", "v4:port", "[v6]:port"}
Knowledge == {"resolved", "verified", "negative", "unknown"}

VARIABLES mode, out, dst, sniff, known
vars == <<mode, out, dst, sniff, known>>

Init == /\ mode \in Modes /\ out \in OutKinds /\ dst \in Dsts /\ sniff \in SniffKinds
        /\ known \in (IF sniff \in {"name", "NAME.", "name:port"} THEN Knowledge ELSE {"unknown"})
Next == UNCHANGED vars
Spec == Init /\ [][Next]_vars

IsLiteral == sniff \in {"v4", "v6", "[v6]", "v4:port", "[v6]:port"}
HasPort == sniff \in {"name:port", "v4:port", "[v6]:port"}
Genuine == known \in {"resolved", "verified"}

\* does the name get used?
UseName ==
  /\ out = "user" /\ sniff # "empty"
  /\ \/ mode \in {"domain+", "domain++"}
     \/ (mode = "domain" /\ ~IsLiteral /\ Genuine)
\* what the target is made of
TargetShape == IF ~UseName THEN "dstip:dstport"
               ELSE IF sniff \in {"v4", "v6", "[v6]"} THEN "literal:dstport"
               ELSE IF HasPort THEN "asis"
               ELSE "name:dstport"
DialIp == ~UseName \/ sniff \in {"v4", "v6", "[v6]"}
\* rerouting is required in domain++, and forbidden whenever the name is not used
MustReroute == UseName /\ mode = "domain++"
MustNotReroute == ~UseName \/ mode = "domain+"

\* sanity of the table itself
TableSane == /\ (mode = "ip" => TargetShape = "dstip:dstport")
             /\ (out # "user" => TargetShape = "dstip:dstport")
             /\ (sniff = "empty" => TargetShape = "dstip:dstport")
             /\ ~(MustReroute /\ MustNotReroute)

Vector == [mode |-> mode, out |-> out, dst |-> dst, sniff |-> sniff, known |-> known,
           shape |-> TargetShape, dialIp |-> DialIp, mustReroute |-> MustReroute, mustNotReroute |-> MustNotReroute]
Emit == PrintT(<<"VECTOR", ToJson(Vector)>>)
=============================================================================
