SPECIFICATION Spec
CONSTANTS
  Nodes = {1, 2, 3}
  MaxEvents = 14
INVARIANTS NoneOnlyWhenNone ExcludedNeverOffered OfferWhenPossible Emit
