SPECIFICATION Spec
INVARIANTS LayoutIrrelevant TruncatedNeverRouted Emit
