SPECIFICATION Spec
CONSTANTS
  L4 = "tcp"
  Side = "wan"
  MaxEvents = 8
INVARIANTS DirectPasses BlockDrops DeadGroupDrops RedirectCarriesDecision StickyWhileTracked SynRoutesAfresh DnsStateless OwnTrafficNeverCaptured WanOriginatedRepliesPass Emit
