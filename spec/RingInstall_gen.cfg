SPECIFICATION Spec
CONSTANTS
  Ring = 5
  MaxSets = 2
  MaxGens = 2
  MaxOps = 8
  UserReleases = FALSE
  FitTogether = TRUE
INVARIANTS RingRight LiveRight Emit
