------------------------------ MODULE AliveSet ------------------------------
(* C15 - a group picks only nodes it believes alive, by the set policy and tolerance
   (component/outbound/dialer/alive_dialer_set.go; one AliveDialerSet = one group x network type).

   Property layer (observable through GetMinLatency / GetRand / Len and the alive-change callback):
     ChosenAlive      the min-policy choice is a node currently recorded alive; there is a choice whenever a node is alive
     NobodyBeatsByTol no other alive node with a measurement is better than the chosen (measured) node by the tolerance or more
     TolRule          the choice changes only when the new node is better by at least the tolerance (or merely better once the
                      current latency is itself below the tolerance), when the current choice has no measurement,
                      when it stops being alive, or on a policy switch
     RandomAlive      random policy: only alive nodes, never the excluded one
     CallbackEdges    the group-level alive callback fires exactly on empty <-> non-empty transitions of the choice

   Implementation layer: NotifyLatencyChange / calcMinLatency / SetSelectionPolicy transcribed branch by branch:
   dense slice of alive entries with cached sorting latency (swap-remove), index map, minLatency record. *)
EXTENDS Integers, Sequences, FiniteSets, TLC, Json

CONSTANTS Nodes, Lats, Offset, Tol, MaxHist

None == 0                \* "no node" / "no measurement" (latencies are >= 1)
Hour == 1000             \* time.Hour: larger than every latency
Policies == {"min", "random"}

VARIABLES
  alive,      \* [Nodes -> BOOLEAN]        what the group was told
  lat,        \* [Nodes -> Lats \cup {None}]   last latency sample of the node for this network type
  policy,
  entries,    \* Seq(Nodes)                aliveEntries (order matters: swap-remove, first-minimum scan)
  esort,      \* [Nodes -> Nat]            cached sorting latency of the node's entry
  dlat,       \* [Nodes -> Nat \cup {None}] dialerToLatency
  best, bestLat,   \* minLatency.dialer / minLatency.sortingLatency
  cbs,        \* Seq(BOOLEAN)              alive-change callbacks fired so far
  hist
vars == <<alive, lat, policy, entries, esort, dlat, best, bestLat, cbs, hist>>

Range(s) == {s[i] : i \in DOMAIN s}
IndexOf(s, x) == CHOOSE i \in DOMAIN s : s[i] = x

Init ==
  /\ alive = [n \in Nodes |-> FALSE]
  /\ lat = [n \in Nodes |-> None]
  /\ policy = "min"
  /\ entries = <<>>
  /\ esort = [n \in Nodes |-> 0]
  /\ dlat = [n \in Nodes |-> None]
  /\ best = None /\ bestLat = Hour
  /\ cbs = <<>>
  /\ hist = <<>>

(* ---------------- calcMinLatency over a given entry slice ---------------- *)
\* first entry with the strictly smallest sorting latency below Hour
MinEntry(es, srt) ==
  LET cand == {i \in DOMAIN es : srt[es[i]] < Hour /\ \A j \in DOMAIN es : srt[es[j]] >= srt[es[i]]}
  IN IF cand = {} THEN None ELSE es[CHOOSE i \in cand : \A j \in cand : i <= j]
MinLat(es, srt) == IF MinEntry(es, srt) = None THEN Hour ELSE srt[MinEntry(es, srt)]
Switches(candLat, curLat) == candLat <= curLat /\ (curLat < Tol \/ candLat <= curLat - Tol)
\* returns <<best, bestLat>>
Calc(es, srt, b, bl) ==
  LET md == MinEntry(es, srt)  ml == MinLat(es, srt) IN
  IF b = None THEN <<md, ml>>
  ELSE IF md # None /\ Switches(ml, bl) THEN <<md, ml>>
  ELSE <<b, bl>>

SwapRemove(es, n) ==
  LET i == IndexOf(es, n)  last == Len(es) IN
  IF i < last THEN [j \in 1..(last - 1) |-> IF j = i THEN es[last] ELSE es[j]]
  ELSE SubSeq(es, 1, last - 1)

\* GetMinLatency(nil) for given internal state
ChosenOf(b, es, srt) == IF b # None THEN b ELSE MinEntry(es, srt)

(* ---------------- NotifyLatencyChange(n, al) after an optional new sample ---------------- *)
Notify(n, al, sample) ==
  LET lat1 == IF sample = None THEN lat ELSE [lat EXCEPT ![n] = sample]
      minPolicy == policy = "min"
      hasLat == minPolicy /\ lat1[n] # None
      wasIn == n \in Range(entries)
      \* step 1: membership
      es1 == IF al THEN (IF wasIn THEN entries ELSE Append(entries, n))
             ELSE (IF wasIn THEN SwapRemove(entries, n) ELSE entries)
      srt1 == IF al /\ ~wasIn THEN [esort EXCEPT ![n] = 0] ELSE esort
      rbwl == ~al /\ wasIn /\ minPolicy /\ ~hasLat /\ best = n
      c1 == IF rbwl THEN Calc(es1, srt1, None, Hour) ELSE <<best, bestLat>>
      cb1 == IF rbwl /\ c1[1] = None THEN <<FALSE>> ELSE <<>>
      \* step 2: latency bookkeeping
      sorting == lat1[n] + Offset[n]
      srt2 == IF hasLat /\ n \in Range(es1) THEN [srt1 EXCEPT ![n] = sorting] ELSE srt1
      bak == c1
      c2 == IF hasLat
            THEN IF al /\ Switches(sorting, c1[2]) THEN <<n, sorting>>
                 ELSE IF c1[1] = n
                      THEN IF ~al \/ sorting > c1[2]
                           THEN Calc(es1, srt2, IF ~al THEN None ELSE n, sorting)
                           ELSE <<n, sorting>>
                      ELSE c1
            ELSE IF al /\ minPolicy /\ c1[1] = None THEN <<n, c1[2]>> ELSE c1
      cb2 == IF hasLat /\ c2[1] # bak[1]
             THEN (IF c2[1] # None THEN (IF bak[1] = None THEN <<TRUE>> ELSE <<>>) ELSE <<FALSE>>)
             ELSE IF ~hasLat /\ al /\ minPolicy /\ c1[1] = None THEN <<TRUE>>   \* first selectable node without a measurement
             ELSE <<>>
  IN /\ alive' = [alive EXCEPT ![n] = al]
     /\ lat' = lat1
     /\ entries' = es1
     /\ esort' = srt2
     /\ dlat' = IF hasLat THEN [dlat EXCEPT ![n] = lat1[n]] ELSE dlat
     /\ best' = c2[1] /\ bestLat' = c2[2]
     /\ cbs' = cbs \o cb1 \o cb2
     /\ policy' = policy
     /\ hist' = Append(hist, [a |-> "notify", n |-> n, alive |-> al, sample |-> sample, p |-> policy,
                               chosen |-> ChosenOf(c2[1], es1, srt2), len |-> Len(es1), ncb |-> Len(cbs \o cb1 \o cb2)])

(* ---------------- SetSelectionPolicy ---------------- *)
SetPolicy(p) ==
  /\ p # policy
  /\ policy' = p
  /\ IF p = "min"
     THEN LET srt == [n \in Nodes |-> IF n \in Range(entries) THEN (IF lat[n] # None THEN lat[n] + Offset[n] ELSE 0) ELSE esort[n]]
              c == Calc(entries, srt, None, Hour)
          IN /\ esort' = srt
             /\ dlat' = [n \in Nodes |-> IF n \in Range(entries) /\ lat[n] # None THEN lat[n] ELSE None]
             /\ best' = c[1] /\ bestLat' = c[2]
     ELSE /\ dlat' = [n \in Nodes |-> None] /\ best' = None /\ bestLat' = Hour /\ UNCHANGED esort
  /\ hist' = Append(hist, [a |-> "policy", n |-> 0, alive |-> FALSE, sample |-> None, p |-> p,
                            chosen |-> ChosenOf(best', entries, esort'), len |-> Len(entries), ncb |-> Len(cbs)])
  /\ UNCHANGED <<alive, lat, entries, cbs>>

Next == /\ Len(hist) < MaxHist
        /\ \/ \E n \in Nodes, al \in BOOLEAN, s \in Lats \cup {None} : Notify(n, al, s)
           \/ \E p \in Policies : SetPolicy(p)
Spec == Init /\ [][Next]_vars

(* ---------------- observables (what the harness reads from the real set) ---------------- *)
Alive == {n \in Nodes : alive[n]}
Measured(n) == lat[n] # None
Sort(n) == lat[n] + Offset[n]
\* GetMinLatency(nil)
Chosen == IF best # None THEN best ELSE MinEntry(entries, esort)

(* ---------------- property layer ---------------- *)
IndexConsistent == Range(entries) = Alive /\ Len(entries) = Cardinality(Alive)
ChosenAlive == policy = "min" => ((Chosen # None => Chosen \in Alive) /\ (Alive # {} => Chosen # None))
Beats(n, c) == Sort(n) < Sort(c) /\ Sort(n) + Tol <= Sort(c)
NobodyBeatsByTol == (policy = "min" /\ Chosen # None /\ Measured(Chosen)) =>
                       \A n \in Alive \ {Chosen} : Measured(n) => ~Beats(n, Chosen)
\* action property: why the choice may change
TolRule == [][ LET old == Chosen  new == ChosenOf(best', entries', esort') IN
               (policy = "min" /\ policy' = "min" /\ old # None /\ new # None /\ new # old) =>
                  \/ ~alive'[old]
                  \/ lat'[old] = None
                  \/ lat'[new] = None        \* (an alive node without any measurement is treated optimistically: unspecified by the property)
                  \/ (lat'[new] # None /\ (lat'[new] + Offset[new]) <= (lat'[old] + Offset[old]) /\
                        ((lat[old] + Offset[old]) < Tol \/ (lat'[old] + Offset[old]) < Tol \/ (lat'[new] + Offset[new]) + Tol <= (lat'[old] + Offset[old])
                           \/ (lat'[new] + Offset[new]) + Tol <= (lat[old] + Offset[old])))
            ]_vars
View == <<alive, lat, policy, entries, esort, dlat, best, bestLat>>

Obs == [chosen |-> Chosen, len |-> Len(entries), alive |-> Alive]
Behaviour == [hist |-> hist, cbs |-> cbs, tol |-> Tol, offset |-> [n \in Nodes |-> Offset[n]]]
Emit == Len(hist) = MaxHist => PrintT(<<"BEHAVIOUR", ToJson(Behaviour)>>)
MCOffset == [n \in {1, 2, 3} |-> IF n = 3 THEN 1 ELSE 0]
=============================================================================
