------------------------------- MODULE DnsLru -------------------------------
(* C08 (size limit) - "when a size limit is set the least recently used entries are the ones evicted"
   control/dns_control.go evictExpiredDnsCache -> evictLRUIfFull (heap selection of the k oldest), LookupDnsRespCache_
   (a lookup refreshes an entry's recency), the janitor's 30 s ticker.

   Time is in half seconds.  Every insert / lookup happens one second after the previous event and at an odd half
   second, the janitor ticks at whole multiples of 30 s: no two events coincide and no two entries have the same recency.
   Entries live for an hour (nothing expires here; expiry is DnsCache.tla's subject).
     acc[k]   time of the last insert / lookup of key k, -1 when k is not cached
   Events:  Insert(k), Lookup(k), Wait (until just after the next janitor tick).
   A janitor tick removes the (n - Limit) entries with the smallest acc when n > Limit entries are cached.
   Property layer: after every event the cached keys are exactly `present`; a lookup of a present key is served. *)
EXTENDS Integers, Sequences, FiniteSets, TLC, Json

CONSTANTS Keys, Limit, MaxEvents
TickEvery == 60            \* half seconds

VARIABLES now, acc, hist
vars == <<now, acc, hist>>
Init == now = 1 /\ acc = [k \in Keys |-> -1] /\ hist = <<>>

Present(a) == {k \in Keys : a[k] >= 0}
\* the n oldest keys of a
RECURSIVE Oldest(_, _)
Oldest(a, n) == IF n <= 0 \/ Present(a) = {} THEN {}
                ELSE LET m == CHOOSE k \in Present(a) : \A j \in Present(a) : a[k] <= a[j]
                     IN {m} \cup Oldest([a EXCEPT ![m] = -1], n - 1)
Sweep(a) == LET n == Cardinality(Present(a)) IN
            IF n <= Limit THEN a ELSE [k \in Keys |-> IF k \in Oldest(a, n - Limit) THEN -1 ELSE a[k]]
\* time passes from t0 to t1: every janitor tick in between sweeps
Ticks(t0, t1) == (t1 \div TickEvery) - (t0 \div TickEvery)
Pass(a, t0, t1) == IF Ticks(t0, t1) > 0 THEN Sweep(a) ELSE a       \* (a second tick finds nothing more to do)

Rec(ev, k, obs, a, t) == [ev |-> ev, k |-> k, obs |-> obs, at |-> t, present |-> Present(a)]
Insert(k) == LET t == now + 2  a0 == Pass(acc, now, t)  a1 == [a0 EXCEPT ![k] = t] IN
             /\ now' = t /\ acc' = a1 /\ hist' = Append(hist, Rec("insert", k, "", a1, t))
Lookup(k) == LET t == now + 2  a0 == Pass(acc, now, t)
                 a1 == IF a0[k] >= 0 THEN [a0 EXCEPT ![k] = t] ELSE a0 IN
             /\ now' = t /\ acc' = a1 /\ hist' = Append(hist, Rec("lookup", k, IF a0[k] >= 0 THEN "served" ELSE "miss", a1, t))
Wait == LET t == ((now \div TickEvery) + 1) * TickEvery + 1  a1 == Pass(acc, now, t) IN
        /\ now' = t /\ acc' = a1 /\ hist' = Append(hist, Rec("wait", 0, "", a1, t))

Next == /\ Len(hist) < MaxEvents
        /\ \/ \E k \in Keys : Insert(k) \/ Lookup(k)
           \/ Wait
Spec == Init /\ [][Next]_vars

\* the model's own sanity: a sweep leaves the most recently used entries
SweepKeepsNewest == \A a \in {acc} : \A k \in Present(Sweep(a)), j \in Present(a) \ Present(Sweep(a)) : a[k] > a[j]
\* histories worth replaying: a tick that had to evict at least three entries at once
Bulk == \E i \in 2..Len(hist) : Cardinality(hist[i - 1].present) - Cardinality(hist[i].present) >= 3
Emit == (Len(hist) = MaxEvents /\ Bulk) => PrintT(<<"BEHAVIOUR", ToJson([limit |-> Limit, hist |-> hist])>>)
=============================================================================
