SPECIFICATION Spec
CONSTANTS
  MaxItems = 1
  MaxSections = 1
  WithMutations = FALSE
INVARIANTS WellFormed Emit
