SPECIFICATION Spec
CONSTANTS
  Owners = {"k1", "k2", "k3"}
  Addrs = {1, 2, 3}
  Unspec = 0
  Cap = 2
  BookkeepFirst = FALSE
  Bits = {"b0", "b1"}
  MaxHist = 5
  GenBms = {{"b0"}, {"b1"}}
  GenIpsets = {{}, {1}, {2}, {3}, {1, 2}}
VIEW View
INVARIANTS MirrorWhenSynced TrackerConsistent
