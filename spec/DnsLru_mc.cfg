SPECIFICATION Spec
CONSTANTS
  Keys = {1, 2, 3, 4}
  Limit = 2
  MaxEvents = 6
INVARIANTS SweepKeepsNewest
