SPECIFICATION Spec
CONSTANTS
  MaxExts = 3
  MaxCuts = 2
  MaxFrames = 3
  Depth = "full"
  Kinds = {"tls", "http", "junk"}
INVARIANTS ExpectWF Emit
