------------------------------ MODULE DialFlow ------------------------------
(* C18 (flow level) - what control/dial.go:chooseProxyDialer hands to the proxy node, as a small state machine:

     start --Choose1--> chosen --(re-route wanted, or the kernel deferred the decision)--> Route --> Choose2 --> done
                               \--(otherwise)---------------------------------------------------------------> done

   Choose1/Choose2 are the decision table of DialTarget.tla (ChooseDialTarget) applied to the outbound current at that
   point; Route is userspace routing with the sniffed name (rule "domain(full: name) -> byName", fallback byIp).
   Property layer (from the property text, a function of the inputs only):
     final outbound  F = the routing decision when the kernel left it to the control plane or when domain++ asks for
                         re-routing, the kernel's outbound otherwise;
     target            = original IP:port when F is built-in, dial_mode is ip or nothing was sniffed; otherwise by mode. *)
EXTENDS Integers, Sequences, FiniteSets, TLC, Json

CONSTANT RecomputeAfterReroute   \* TRUE = the code as it is; FALSE = keep the first target after a re-route (must violate)

Modes == {"ip", "domain", "domain+", "domain++"}
Outs == {"direct", "block", "g1", "g2"}
KernOuts == {"direct", "block", "g1", "cpr"}         \* cpr: the kernel left routing to the control plane
BuiltIn(o) == o \in {"direct", "block"}
Dsts == {[fam |-> 4, port |-> 443], [fam |-> 6, port |-> 53]}
SniffKinds == {"empty", "name", "NAME.", "name:port", "v4", "v6", "[v6]", "v4:port", "[v6]:port"}
Knowledge == {"resolved", "verified", "negative", "unknown"}

VARIABLES mode, kern, byName, byIp, dst, sniff, known,    \* inputs
          pc, cur, shape, dialIp, rerouted                  \* the flow
vars == <<mode, kern, byName, byIp, dst, sniff, known, pc, cur, shape, dialIp, rerouted>>

IsLiteral == sniff \in {"v4", "v6", "[v6]", "v4:port", "[v6]:port"}
HasPort == sniff \in {"name:port", "v4:port", "[v6]:port"}
Genuine == known \in {"resolved", "verified"}

\* ---- the decision table (DialTarget.tla), for an outbound o
UseName(o) == /\ ~BuiltIn(o) /\ o # "cpr" /\ sniff # "empty"
              /\ \/ mode \in {"domain+", "domain++"}
                 \/ (mode = "domain" /\ ~IsLiteral /\ Genuine)
Shape(o) == IF ~UseName(o) THEN "dstip:dstport"
            ELSE IF sniff \in {"v4", "v6", "[v6]"} THEN "literal:dstport"
            ELSE IF HasPort THEN "asis" ELSE "name:dstport"
DialIpOf(o) == ~UseName(o) \/ sniff \in {"v4", "v6", "[v6]"}
WantsReroute(o) == UseName(o) /\ mode = "domain++"
\* plain domain mode: the property is silent on re-routing (the code re-routes genuine names, the user guide says it does
\* not); either is accepted, the target must fit the outbound that ends up being used
MayReroute(o) == UseName(o) /\ mode = "domain"

\* userspace routing with what was sniffed: only the plain name is mentioned by a rule
RouteOut == IF sniff = "name" THEN byName ELSE byIp

Init == /\ mode \in Modes /\ kern \in KernOuts /\ byName \in Outs /\ byIp \in Outs /\ dst \in Dsts /\ sniff \in SniffKinds
        /\ known \in (IF sniff \in {"name", "NAME.", "name:port"} THEN Knowledge ELSE {"unknown"})
        /\ (sniff # "name" => byName = byIp)
        /\ pc = "start" /\ cur = kern /\ shape = "" /\ dialIp = FALSE /\ rerouted = FALSE

Inputs == <<mode, kern, byName, byIp, dst, sniff, known>>
\* ---- implementation layer: chooseProxyDialer
Choose1 == /\ pc = "start"
           /\ shape' = Shape(cur) /\ dialIp' = DialIpOf(cur)
           /\ rerouted' \in (IF MayReroute(cur) THEN BOOLEAN ELSE {WantsReroute(cur)})
           /\ IF rerouted' \/ cur = "cpr" THEN pc' = "route" /\ cur' = "cpr" ELSE pc' = "done" /\ cur' = cur
           /\ UNCHANGED Inputs
Route == /\ pc = "route" /\ cur' = RouteOut /\ pc' = "choose2" /\ UNCHANGED <<shape, dialIp, rerouted>> /\ UNCHANGED Inputs
Choose2 == /\ pc = "choose2" /\ pc' = "done" /\ UNCHANGED <<cur, rerouted>> /\ UNCHANGED Inputs
           /\ IF RecomputeAfterReroute \/ ~rerouted THEN shape' = Shape(cur) /\ dialIp' = DialIpOf(cur)
              ELSE UNCHANGED <<shape, dialIp>>
Next == Choose1 \/ Route \/ Choose2
Spec == Init /\ [][Next]_vars

\* ---- property layer
FinalOuts == IF kern = "cpr" \/ WantsReroute(kern) THEN {RouteOut} ELSE IF MayReroute(kern) THEN {kern, RouteOut} ELSE {kern}
ExpShape(o) == IF mode = "ip" \/ sniff = "empty" \/ BuiltIn(o) THEN "dstip:dstport" ELSE Shape(o)
TargetFollowsMode == pc = "done" => /\ cur \in FinalOuts /\ shape = ExpShape(cur)
                                    /\ (BuiltIn(cur) => dialIp)
\* routed again at most once, and only in domain++ or when the kernel asked for it
RouteOnce == [][Route => (kern = "cpr" \/ mode \in {"domain", "domain++"})]_vars

Vector == [mode |-> mode, kern |-> kern, byName |-> byName, byIp |-> byIp, dst |-> dst, sniff |-> sniff, known |-> known,
           alts |-> {[out |-> o, shape |-> ExpShape(o), dialIp |-> DialIpOf(o)] : o \in FinalOuts}]
Emit == pc = "done" => PrintT(<<"VECTOR", ToJson(Vector)>>)
=============================================================================
