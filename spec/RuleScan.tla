------------------------------ MODULE RuleScan ------------------------------
(* C01 / C02 / C04 - routing programs: first-match semantics, the match-set scan of userspace and kernel,
   and the rule optimisers.

   PROPERTY LAYER (written from the property statements)
     Decide(prog, fb, pkt)   the decision of the first rule, top to bottom, whose &&-joined conditions all
                             hold; values inside a condition are alternatives; '!' negates the whole
                             condition; must_rules only sets the sticky must flag; fallback otherwise.
     AtomHolds(fn, v, pkt)   documented meaning of each of the ten condition functions.

   IMPLEMENTATION LAYER (shaped like the code)
     LowerProg(prog, fb)         the match-set array with LogicalOr / LogicalAnd / outbound sentinels exactly as
                             routing.RulesBuilder.Apply + RoutingMatcherBuilder.add* emit it
     UScan(entries, pkt)     RoutingMatcher.Match   (goodSubrule / badRule / must, skip-when-decided)
     KScan(entries, pkt)     kern/tproxy.c route()  (route_state bits incl. DNS_QUERY, is_wan gating of pname)
     Optimize(prog)          AliasOptimizer ; MergeAndSortRulesOptimizer ; DeduplicateParamsOptimizer

   TLC checks, for every generated program and every packet of the program's packet set:
     ScanRefines      UScan(LowerProg(prog)) = Decide(prog)
     KernRefines      KScan(LowerProg(prog)) = IntendedDiff(Decide(prog))      (DNS port 53 hand-over)
     OptimizePreserves Decide(Optimize(prog)) = Decide(prog)
   and emits one VECTOR per program: the program (as the user would write it), the packets and the expected
   decision of the property layer for the user-written program. *)
EXTENDS CidrOps, DomainOps, TLC, Json

CONSTANTS MaxRules, MaxConds,
          Level,          \* "single": every single-condition rule, full field domains
                          \* "deep":   multi-rule / multi-condition programs over the reduced universe
          MergeNegated    \* TRUE: model MergeAndSort as the code had it (merges negated neighbours too)

(* ------------------------------------------------------------------ value universes *)
A4(a, b, c, d) == Adr(4, <<a, b, c, d>>)
V6(last) == Adr(6, <<253,0,0,0,0,0,0,0,0,0,0,0,0,0,0,last>>)
Addrs4 == {A4(10,1,2,3), A4(10,1,2,2), A4(10,1,2,4), A4(10,0,0,0), A4(10,255,255,255), A4(11,0,0,0), A4(9,255,255,255)}
Addrs6 == {V6(1), V6(0), V6(2), Adr(6, <<32,1,13,184,0,0,0,0,0,0,0,0,0,0,0,1>>)}
Ports == {0, 52, 53, 54, 1023, 1024, 65534, 65535}
MacNone == <<0,0,0,0,0,0>>
Mac1 == <<2,0,0,0,0,1>>
Mac2 == <<2,0,0,0,0,2>>
Macs == {MacNone, Mac1, Mac2}
Dscps == {0, 1, 63}
Chars(s) == s     \* names are sequences of one-character strings
PnNone == <<>>
PnCurl == <<"c","u","r","l">>
PnCURL == <<"C","U","R","L">>          \* process names are compared byte for byte: "CURL" is another process than "curl"
Pn15 == <<"0","1","2","3","4","5","6","7","8","9","a","b","c","d","e">>
Pn16 == Pn15 \o <<"f">>
Pn16b == Pn15 \o <<"g">>
Pn17 == Pn16 \o <<"X">>
PktPnames == {PnNone, PnCurl, PnCURL, Pn15, Pn16, Pn16b}
DomNone == <<>>
DomAB == <<"a",".","b">>
DomXAB == <<"x",".","a",".","b">>
DomBAB == <<"b","a",".","b">>
DomUp == <<"A",".","B",".">>
DomB == <<"b">>
PktDomains == {DomNone, DomAB, DomXAB, DomBAB, DomUp, DomB}

Pkt(s, d, sp, dp, l4, mac, dscp, pn, dom) ==
    [sip |-> s, dip |-> d, sport |-> sp, dport |-> dp, l4 |-> l4, mac |-> mac, dscp |-> dscp, pname |-> pn, domain |-> dom]
DefaultPkt4 == Pkt(A4(10,1,2,4), A4(10,1,2,3), 1024, 54, "tcp", Mac1, 0, PnNone, DomNone)
DefaultPkt6 == Pkt(V6(2), V6(1), 1024, 54, "tcp", Mac1, 0, PnNone, DomNone)

(* rule values *)
P4(a, b, c, d, n) == Pfx(4, <<a, b, c, d>>, n)
IpVals == { <<P4(10,0,0,0,8)>>, <<P4(10,1,2,3,32)>>, <<P4(10,1,2,2,31)>>, <<P4(0,0,0,0,0)>>,
            <<Pfx(6, V6(1).b, 128)>>, <<Pfx(6, V6(0).b, 127)>>, <<Pfx(6, V6(0).b, 8)>>,
            <<Pfx(6, V4Pad \o <<10,1,2,3>>, 128)>>,
            <<P4(10,1,2,3,32), Pfx(6, V6(1).b, 128)>>, <<P4(10,1,2,3,8), P4(10,1,0,0,16)>> }
PortVals == { <<<<53,53>>>>, <<<<52,54>>>>, <<<<0,1023>>>>, <<<<1024,65535>>>>, <<<<0,65535>>>>, <<<<65535,65535>>>>,
              <<<<53,53>>, <<1024,65535>>>>, <<<<0,0>>, <<54,1023>>>>,
              <<<<1024,53>>>>, <<<<65535,0>>>> }          \* descending ranges are accepted by the parser: they contain no port
L4Vals == { <<"tcp">>, <<"udp">>, <<"tcp","udp">> }
IpvVals == { <<4>>, <<6>>, <<4,6>> }
MacVals == { <<Mac1>>, <<Mac2>>, <<Mac1, Mac2>> }
DscpVals == { <<0>>, <<63>>, <<1, 63>> }
PnameVals == { <<PnCurl>>, <<Pn16>>, <<Pn17>>, <<Pn15>>, <<PnCurl, Pn16b>>, <<PnCURL, PnCurl>> }
\* geodata (geosite.dat written by the harness): SHOP = suffix a.b ; full ba.b @ads ; keyword x. @ads      OTHER = suffix b
\* a value geosite:code expands to all entries of the code, geosite:code@attr to the entries carrying the attribute
GsShop == <<"s","h","o","p">>
GsShopAds == <<"s","h","o","p","@","a","d","s">>
GsOther == <<"o","t","h","e","r">>
GeoEntry(k, p) == [key |-> k, pat |-> p]
GeoSite(v) == CASE v = GsShop -> <<GeoEntry("suffix", DomAB), GeoEntry("full", DomBAB), GeoEntry("keyword", <<"x",".">>)>>
                [] v = GsShopAds -> <<GeoEntry("full", DomBAB), GeoEntry("keyword", <<"x",".">>)>>
                [] OTHER -> <<GeoEntry("suffix", DomB)>>
DomGroupVals == { <<[key |-> "geosite", vals |-> <<GsShop>>]>>, <<[key |-> "geosite", vals |-> <<GsShopAds>>]>>,
                  <<[key |-> "geosite", vals |-> <<GsOther, GsShopAds>>]>>,
                   <<[key |-> "suffix", vals |-> <<DomAB>>]>>, <<[key |-> "full", vals |-> <<DomAB>>]>>,
                  <<[key |-> "keyword", vals |-> <<DomB>>]>>,
                  <<[key |-> "regex", vals |-> <<[pre |-> TRUE, post |-> FALSE, alts |-> <<<<"x",".">>>>]>>]>>,
                  <<[key |-> "full", vals |-> <<DomB>>], [key |-> "suffix", vals |-> <<<<".","a",".","b">>>>]>>,
                  <<[key |-> "suffix", vals |-> <<DomB, DomAB>>]>> }

G(vals) == <<[key |-> "", vals |-> vals]>>
Cond(fn, not, groups) == [fn |-> fn, not |-> not, groups |-> groups]
CondsOf(fn) == CASE fn = "ip" -> {G(v) : v \in IpVals}
                 [] fn = "sip" -> {G(v) : v \in IpVals}
                 [] fn = "port" -> {G(v) : v \in PortVals}
                 [] fn = "sport" -> {G(v) : v \in PortVals}
                 [] fn = "l4proto" -> {G(v) : v \in L4Vals}
                 [] fn = "ipversion" -> {G(v) : v \in IpvVals}
                 [] fn = "mac" -> {G(v) : v \in MacVals}
                 [] fn = "dscp" -> {G(v) : v \in DscpVals}
                 [] fn = "pname" -> {G(v) : v \in PnameVals}
                 [] fn = "domain" -> DomGroupVals
Fns == {"ip", "sip", "port", "sport", "l4proto", "ipversion", "mac", "dscp", "pname", "domain"}
FullCondUniverse == UNION {{Cond(fn, n, g) : n \in BOOLEAN, g \in CondsOf(fn)} : fn \in Fns}

\* reduced universe for deep programs: two value choices per function
Reduced(fn) == CASE fn = "ip" -> {G(<<P4(10,0,0,0,8)>>), G(<<P4(10,1,2,3,32), Pfx(6, V6(1).b, 128)>>)}
                 [] fn = "sip" -> {G(<<P4(10,1,2,2,31)>>), G(<<P4(10,0,0,0,8)>>)}     \* shares a set with ip(): storage sharing
                 [] fn = "port" -> {G(<<<<53,53>>>>), G(<<<<53,53>>, <<1024,65535>>>>)}
                 [] fn = "sport" -> {G(<<<<53,53>>>>), G(<<<<1024,65535>>>>)}
                 [] fn = "l4proto" -> {G(<<"udp">>)}
                 [] fn = "ipversion" -> {G(<<6>>)}
                 [] fn = "mac" -> {G(<<Mac1>>)}
                 [] fn = "dscp" -> {G(<<1, 63>>)}
                 [] fn = "pname" -> {G(<<PnCurl>>)}
                 [] fn = "domain" -> {<<[key |-> "geosite", vals |-> <<GsShop>>]>>, <<[key |-> "geosite", vals |-> <<GsShopAds>>]>>,
                                      <<[key |-> "suffix", vals |-> <<DomAB>>]>>,
                                      <<[key |-> "full", vals |-> <<DomB>>], [key |-> "suffix", vals |-> <<<<".","a",".","b">>>>]>>}
ReducedCondUniverse == UNION {{Cond(fn, n, g) : n \in BOOLEAN, g \in Reduced(fn)} : fn \in Fns}
CondUniverse == IF Level = "single" THEN FullCondUniverse ELSE ReducedCondUniverse

\* outbounds: name, symbolic mark, must flag, and how the must flag is spelled ("param": a(must), "prefix": must_a)
Out(n, m, mu, st) == [name |-> n, mark |-> m, must |-> mu, style |-> st]
MustRules == Out("must_rules", "m0", FALSE, "none")
Outs == { Out("a", "m0", FALSE, "none"), Out("b", "m1", FALSE, "none"), Out("a", "mMax", TRUE, "param"),
          Out("b", "m0", TRUE, "prefix"), Out("direct", "m1", FALSE, "none"), Out("block", "m0", FALSE, "none"), MustRules }
\* ("a", m0) with and without must: two outbounds that differ in nothing but the must flag (merging them is a change of meaning)
OutsDeep == { Out("a", "m0", FALSE, "none"), Out("a", "m0", TRUE, "param"), Out("b", "m1", FALSE, "none"), Out("b", "m0", TRUE, "prefix"), MustRules }
Fallbacks == { Out("c", "m0", FALSE, "none"), Out("direct", "m1", TRUE, "prefix") }

(* ------------------------------------------------------------------ property layer *)
IpvOf(pkt) == IF pkt.dip.fam = 4 THEN 4 ELSE 6
Trunc16(s) == IF Len(s) > 16 THEN SubSeq(s, 1, 16) ELSE s

AtomHolds(fn, key, v, pkt) ==
    CASE fn = "ip"        -> PfxContains(v, pkt.dip)
      [] fn = "sip"       -> PfxContains(v, pkt.sip)
      [] fn = "port"      -> v[1] <= pkt.dport /\ pkt.dport <= v[2]
      [] fn = "sport"     -> v[1] <= pkt.sport /\ pkt.sport <= v[2]
      [] fn = "l4proto"   -> v = pkt.l4
      [] fn = "ipversion" -> v = IpvOf(pkt)
      [] fn = "mac"       -> v = pkt.mac
      [] fn = "dscp"      -> v = pkt.dscp
      [] fn = "pname"     -> pkt.pname # PnNone /\ Trunc16(v) = pkt.pname
      [] fn = "domain"    -> pkt.domain # DomNone /\
                               (IF key = "geosite" THEN \E i \in 1..Len(GeoSite(v)) : PatM(GeoSite(v)[i].key, GeoSite(v)[i].pat, pkt.domain)
                                ELSE PatM(key, v, pkt.domain))

AnyHolds(c, pkt) == \E gi \in 1..Len(c.groups) : \E vi \in 1..Len(c.groups[gi].vals) :
                        AtomHolds(c.fn, c.groups[gi].key, c.groups[gi].vals[vi], pkt)
CondHolds(c, pkt) ==
    IF c.fn = "mac" /\ c.not /\ pkt.mac = MacNone
    THEN FALSE                       \* a negated MAC condition never matches a frame without a MAC
    ELSE AnyHolds(c, pkt) # c.not
RuleHolds(r, pkt) == \A i \in 1..Len(r.conds) : CondHolds(r.conds[i], pkt)

Decision(out, must) == [out |-> out.name, mark |-> out.mark, must |-> (out.must \/ must)]
RECURSIVE DecideFrom(_, _, _, _, _)
DecideFrom(prog, fb, pkt, i, must) ==
    IF i > Len(prog) THEN Decision(fb, must)
    ELSE IF RuleHolds(prog[i], pkt)
         THEN IF prog[i].out.name = "must_rules" THEN DecideFrom(prog, fb, pkt, i + 1, TRUE)
              ELSE Decision(prog[i].out, must)
         ELSE DecideFrom(prog, fb, pkt, i + 1, must)
Decide(prog, fb, pkt) == DecideFrom(prog, fb, pkt, 1, FALSE)

(* ------------------------------------------------------------------ implementation layer: lowering *)
\* One match-set entry. ob is "OR", "AND" or "OUT" (then out holds the real outbound).
Entry(type, not, ob, out, atom) == [type |-> type, not |-> not, ob |-> ob, out |-> out, atom |-> atom]

\* entries of one (function, key-group); last gets `tailOb`
GroupEntries(c, g, tailOb, out) ==
    IF c.fn \in {"port", "sport", "pname", "dscp"}
    THEN [vi \in 1..Len(g.vals) |->
            Entry(c.fn, c.not, IF vi = Len(g.vals) THEN tailOb ELSE "OR", out, [key |-> g.key, vals |-> <<g.vals[vi]>>])]
    ELSE IF c.fn = "mac" /\ c.not
    THEN <<Entry(c.fn, c.not, tailOb, out, [key |-> g.key, vals |-> Append(g.vals, MacNone)])>>   \* zero MAC appended
    ELSE <<Entry(c.fn, c.not, tailOb, out, [key |-> g.key, vals |-> g.vals])>>

RECURSIVE CondEntries(_, _, _, _)
CondEntries(c, gi, lastOb, out) ==          \* key groups are OR-joined; the last one carries AND / the outbound
    IF gi > Len(c.groups) THEN <<>>
    ELSE GroupEntries(c, c.groups[gi], IF gi = Len(c.groups) THEN lastOb ELSE "OR", out)
         \o CondEntries(c, gi + 1, lastOb, out)
RECURSIVE RuleEntries(_, _)
RuleEntries(r, ci) ==
    IF ci > Len(r.conds) THEN <<>>
    ELSE CondEntries(r.conds[ci], 1, IF ci = Len(r.conds) THEN "OUT" ELSE "AND", r.out) \o RuleEntries(r, ci + 1)
RECURSIVE ProgEntries(_, _)
ProgEntries(prog, i) == IF i > Len(prog) THEN <<>> ELSE RuleEntries(prog[i], 1) \o ProgEntries(prog, i + 1)
LowerProg(prog, fb) == ProgEntries(prog, 1) \o <<Entry("fallback", FALSE, "OUT", fb, [key |-> "", vals |-> <<>>])>>

\* an entry's own test (what route_eval_match / the switch in Match computes)
EntryGood(e, pkt, kern) ==
    IF e.type = "fallback" THEN TRUE
    ELSE IF e.type = "pname" /\ kern
    THEN pkt.pname # PnNone /\ \E vi \in 1..Len(e.atom.vals) : Trunc16(e.atom.vals[vi]) = pkt.pname
    ELSE \E vi \in 1..Len(e.atom.vals) : AtomHolds(e.type, e.atom.key, e.atom.vals[vi], pkt)

(* ------------------------------------------------------------------ implementation layer: the two scans *)
\* RoutingMatcher.Match
RECURSIVE UScanFrom(_, _, _, _, _, _)
UScanFrom(es, pkt, i, good, bad, must) ==
    IF i > Len(es) THEN [out |-> "ERR", mark |-> "m0", must |-> FALSE]
    ELSE LET e == es[i]
             good1 == IF bad \/ good THEN good ELSE EntryGood(e, pkt, FALSE)
             endSub == e.ob # "OR"
             bad1 == IF endSub /\ (good1 = e.not) THEN TRUE ELSE bad
             good2 == IF endSub THEN FALSE ELSE good1
         IN IF e.ob = "OUT"
            THEN IF ~bad1
                 THEN IF e.out.name = "must_rules" THEN UScanFrom(es, pkt, i + 1, good2, bad1, TRUE)
                      ELSE [out |-> e.out.name, mark |-> e.out.mark, must |-> (e.out.must \/ must)]
                 ELSE UScanFrom(es, pkt, i + 1, good2, FALSE, must)
            ELSE UScanFrom(es, pkt, i + 1, good2, bad1, must)
UScan(es, pkt) == UScanFrom(es, pkt, 1, FALSE, FALSE, FALSE)

\* kern/tproxy.c route(): same automaton over route_state bits, plus the DNS hand-over
IsDnsQuery(pkt) == pkt.dport = 53
RECURSIVE KScanFrom(_, _, _, _, _, _)
KScanFrom(es, pkt, i, good, bad, must) ==
    IF i > Len(es) THEN [out |-> "EPERM", mark |-> "m0", must |-> FALSE]
    ELSE LET e == es[i]
             good1 == IF bad \/ good THEN good ELSE EntryGood(e, pkt, TRUE)
             endSub == e.ob # "OR"
             bad1 == IF endSub /\ (good1 = e.not) THEN TRUE ELSE bad
             good2 == IF endSub THEN FALSE ELSE good1
         IN IF e.ob = "OUT"
            THEN IF ~bad1
                 THEN IF e.out.name = "must_rules" THEN KScanFrom(es, pkt, i + 1, good2, bad1, TRUE)
                      ELSE LET m == e.out.must \/ must IN
                           IF ~m /\ IsDnsQuery(pkt)
                           THEN [out |-> "CONTROL_PLANE_ROUTING", mark |-> e.out.mark, must |-> FALSE]
                           ELSE [out |-> e.out.name, mark |-> e.out.mark, must |-> m]
                 ELSE KScanFrom(es, pkt, i + 1, good2, FALSE, must)
            ELSE KScanFrom(es, pkt, i + 1, good2, bad1, must)
KScan(es, pkt) == KScanFrom(es, pkt, 1, FALSE, FALSE, FALSE)

\* the only intended difference between kernel and control plane
IntendedDiff(d, pkt) == IF IsDnsQuery(pkt) /\ ~d.must THEN [d EXCEPT !.out = "CONTROL_PLANE_ROUTING"] ELSE d

(* ------------------------------------------------------------------ implementation layer: optimisers *)
FnRank(fn) == CASE fn = "domain" -> 1 [] fn = "dscp" -> 2 [] fn = "ip" -> 3 [] fn = "ipversion" -> 4 [] fn = "l4proto" -> 5
                [] fn = "mac" -> 6 [] fn = "pname" -> 7 [] fn = "port" -> 8 [] fn = "sip" -> 9 [] fn = "sport" -> 10
\* stable sort of the conditions of a rule by function name (insertion sort)
RECURSIVE InsertCond(_, _)
InsertCond(sorted, c) ==
    IF sorted = <<>> THEN <<c>>
    ELSE IF FnRank(c.fn) < FnRank(Head(sorted).fn) THEN <<c>> \o sorted
    ELSE <<Head(sorted)>> \o InsertCond(Tail(sorted), c)
RECURSIVE SortConds(_)
SortConds(cs) == IF cs = <<>> THEN <<>> ELSE InsertCond(SortConds(SubSeq(cs, 1, Len(cs) - 1)), cs[Len(cs)])
SortAnd(prog) == [i \in 1..Len(prog) |-> [prog[i] EXCEPT !.conds = SortConds(@)]]

\* neighbouring single-condition rules with the same function, negation and outbound are merged: their
\* parameters are concatenated.  Concatenating alternatives is sound for un-negated conditions only
\* ( !f(a) -> X ; !f(b) -> X  means  ~a \/ ~b, whereas !f(a,b) -> X means ~a /\ ~b ).
SameOut(o1, o2) == o1.name = o2.name /\ o1.mark = o2.mark /\ o1.must = o2.must
Mergeable(r1, r2) == /\ Len(r1.conds) = 1 /\ Len(r2.conds) = 1
                     /\ r1.conds[1].fn = r2.conds[1].fn
                     /\ r1.conds[1].not = r2.conds[1].not
                     /\ (MergeNegated \/ ~r1.conds[1].not)
                     /\ SameOut(r1.out, r2.out)
\* parameters are regrouped by key in first-appearance order (routing.groupParamValuesByKey)
RECURSIVE AddGroup(_, _)
AddGroup(gs, g) == IF gs = <<>> THEN <<g>>
                   ELSE IF Head(gs).key = g.key THEN <<[Head(gs) EXCEPT !.vals = @ \o g.vals]>> \o Tail(gs)
                   ELSE <<Head(gs)>> \o AddGroup(Tail(gs), g)
RECURSIVE AddGroups(_, _)
AddGroups(gs, more) == IF more = <<>> THEN gs ELSE AddGroups(AddGroup(gs, Head(more)), Tail(more))
MergeTwo(r1, r2) == [r1 EXCEPT !.conds = <<[r1.conds[1] EXCEPT !.groups = AddGroups(@, r2.conds[1].groups)]>>]
RECURSIVE MergeFrom(_, _, _)
MergeFrom(acc, cur, rest) ==
    IF rest = <<>> THEN Append(acc, cur)
    ELSE IF Mergeable(cur, Head(rest)) THEN MergeFrom(acc, MergeTwo(cur, Head(rest)), Tail(rest))
    ELSE MergeFrom(Append(acc, cur), Head(rest), Tail(rest))
MergeAdjacent(prog) == IF prog = <<>> THEN <<>> ELSE MergeFrom(<<>>, prog[1], Tail(prog))

\* duplicate parameters of one function are dropped (first occurrence kept)
RECURSIVE DedupSeq(_, _)
DedupSeq(s, seen) == IF s = <<>> THEN <<>>
                     ELSE IF Head(s) \in seen THEN DedupSeq(Tail(s), seen)
                     ELSE <<Head(s)>> \o DedupSeq(Tail(s), seen \cup {Head(s)})
DedupCond(c) == [c EXCEPT !.groups = [gi \in 1..Len(c.groups) |-> [c.groups[gi] EXCEPT !.vals = DedupSeq(@, {})]]]
Dedup(prog) == [i \in 1..Len(prog) |-> [prog[i] EXCEPT !.conds = [ci \in 1..Len(prog[i].conds) |-> DedupCond(prog[i].conds[ci])]]]

\* DatReaderOptimizer: geosite values are replaced by the entries of the data file, regrouped by pattern kind
RECURSIVE EntryGroups(_, _, _)
EntryGroups(acc, es, i) == IF i > Len(es) THEN acc ELSE EntryGroups(AddGroup(acc, [key |-> es[i].key, vals |-> <<es[i].pat>>]), es, i + 1)
RECURSIVE GeoVals(_, _, _)
GeoVals(acc, vals, i) == IF i > Len(vals) THEN acc ELSE GeoVals(EntryGroups(acc, GeoSite(vals[i]), 1), vals, i + 1)
RECURSIVE ExpandGroups(_, _, _)
ExpandGroups(acc, gs, i) == IF i > Len(gs) THEN acc
                            ELSE IF gs[i].key = "geosite" THEN ExpandGroups(GeoVals(acc, gs[i].vals, 1), gs, i + 1)
                            ELSE ExpandGroups(AddGroup(acc, gs[i]), gs, i + 1)
DatExpandCond(c) == IF c.fn = "domain" THEN [c EXCEPT !.groups = ExpandGroups(<<>>, c.groups, 1)] ELSE c
DatExpand(prog) == [i \in 1..Len(prog) |-> [prog[i] EXCEPT !.conds = [ci \in 1..Len(prog[i].conds) |-> DatExpandCond(prog[i].conds[ci])]]]

Optimize(prog) == Dedup(MergeAdjacent(SortAnd(DatExpand(prog))))

(* ------------------------------------------------------------------ packet sets *)
FieldsOf(fn) == CASE fn = "ip" -> {"dip"} [] fn = "sip" -> {"sip"} [] fn = "port" -> {"dport"} [] fn = "sport" -> {"sport"}
                  [] fn = "l4proto" -> {"l4"} [] fn = "ipversion" -> {"dip"} [] fn = "mac" -> {"mac"} [] fn = "dscp" -> {"dscp"}
                  [] fn = "pname" -> {"pname"} [] fn = "domain" -> {"domain"}
ProgFields(prog) == UNION {UNION {FieldsOf(prog[i].conds[ci].fn) : ci \in 1..Len(prog[i].conds)} : i \in 1..Len(prog)}
\* port 53 is always probed because of the kernel's DNS hand-over
Dom(field, fam) == CASE field = "dip" -> IF fam = 4 THEN Addrs4 ELSE Addrs6
                     [] field = "sip" -> IF fam = 4 THEN Addrs4 ELSE Addrs6
                     [] field = "dport" -> Ports [] field = "sport" -> Ports
                     [] field = "l4" -> {"tcp", "udp"} [] field = "mac" -> Macs [] field = "dscp" -> Dscps
                     [] field = "pname" -> PktPnames [] field = "domain" -> PktDomains
AllFields == {"sip", "dip", "sport", "dport", "l4", "mac", "dscp", "pname", "domain"}
PktsFam(F, fam) ==
    LET def == IF fam = 4 THEN DefaultPkt4 ELSE DefaultPkt6
        D(f) == IF f \in F THEN Dom(f, fam)
                ELSE IF f = "dport" THEN {def.dport, 53} ELSE {def[f]}
    IN {Pkt(s, d, sp, dp, l4, mac, ds, pn, dm) : s \in D("sip"), d \in D("dip"), sp \in D("sport"), dp \in D("dport"),
                                                  l4 \in D("l4"), mac \in D("mac"), ds \in D("dscp"), pn \in D("pname"), dm \in D("domain")}
\* deep programs: per mentioned field a small set of representatives (boundaries are covered by Level "single")
RepDom(field, fam) == CASE field = "dip" -> IF fam = 4 THEN {A4(10,1,2,3), A4(10,0,0,0), A4(11,0,0,0)} ELSE {V6(1), V6(2)}
                        [] field = "sip" -> IF fam = 4 THEN {A4(10,1,2,2), A4(10,1,2,4), A4(11,0,0,0)} ELSE {V6(2)}
                        [] field = "dport" -> {53, 54, 1024} [] field = "sport" -> {53, 1024, 1023}
                        [] field = "l4" -> {"tcp", "udp"} [] field = "mac" -> Macs [] field = "dscp" -> {0, 63}
                        [] field = "pname" -> {PnNone, PnCurl, Pn15} [] field = "domain" -> {DomNone, DomAB, DomXAB, DomB}
RepPktsFam(F, fam) ==
    LET def == IF fam = 4 THEN DefaultPkt4 ELSE DefaultPkt6
        D(f) == IF f \in F THEN RepDom(f, fam)
                ELSE IF f = "dport" THEN {def.dport, 53} ELSE {def[f]}
    IN {Pkt(s, d, sp, dp, l4, mac, ds, pn, dm) : s \in D("sip"), d \in D("dip"), sp \in D("sport"), dp \in D("dport"),
                                                  l4 \in D("l4"), mac \in D("mac"), ds \in D("dscp"), pn \in D("pname"), dm \in D("domain")}
PktsFor(prog) == LET F == ProgFields(prog) IN
                 IF Level = "single" THEN PktsFam(F, 4) \cup PktsFam(F, 6)
                 ELSE RepPktsFam(F, 4) \cup RepPktsFam(F, 6)

(* ------------------------------------------------------------------ state machine: program generation *)
VARIABLES prog,    \* closed rules
          cur,     \* conditions of the rule being written
          fb       \* fallback outbound
vars == <<prog, cur, fb>>

Init == prog = <<>> /\ cur = <<>> /\ fb \in Fallbacks
AddCond == /\ Len(prog) < MaxRules
           /\ Len(cur) < MaxConds
           /\ \E c \in CondUniverse : cur' = Append(cur, c)
           /\ UNCHANGED <<prog, fb>>
CloseRule == /\ cur # <<>>
             /\ \E o \in (IF Level = "single" THEN Outs ELSE OutsDeep) :
                    prog' = Append(prog, [conds |-> cur, out |-> o])
             /\ cur' = <<>>
             /\ UNCHANGED fb
Next == AddCond \/ CloseRule
Spec == Init /\ [][Next]_vars

Closed == cur = <<>> /\ prog # <<>>

(* ------------------------------------------------------------------ properties checked by TLC *)
ScanRefines == Closed => \A pkt \in PktsFor(prog) : UScan(LowerProg(DatExpand(prog), fb), pkt) = Decide(prog, fb, pkt)
KernRefines == Closed => \A pkt \in PktsFor(prog) : KScan(LowerProg(DatExpand(prog), fb), pkt) = IntendedDiff(Decide(prog, fb, pkt), pkt)
OptimizePreserves == Closed => \A pkt \in PktsFor(prog) : Decide(Optimize(prog), fb, pkt) = Decide(prog, fb, pkt)
\* well-formedness of the lowered array
LowerWF == Closed => LET es == LowerProg(DatExpand(prog), fb) IN
              /\ es[Len(es)].type = "fallback" /\ es[Len(es)].ob = "OUT"
              /\ \A i \in 1..(Len(es) - 1) : es[i].ob = "OR" => (es[i + 1].type = es[i].type /\ es[i + 1].not = es[i].not)

(* ------------------------------------------------------------------ vector emission *)
Vector == LET ps == SetToSeq(PktsFor(prog)) IN
          [ prog |-> prog, fallback |-> fb,
            cases |-> [i \in 1..Len(ps) |-> [pkt |-> ps[i], exp |-> Decide(prog, fb, ps[i]),
                                              kexp |-> IntendedDiff(Decide(prog, fb, ps[i]), ps[i])]] ]
Emit == Closed => PrintT(<<"VECTOR", ToJson(Vector)>>)
=============================================================================
