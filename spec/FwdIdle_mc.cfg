SPECIFICATION Spec
CONSTANTS
  Clients = {"c1", "c2"}
  MaxFw = 3
  MaxEvents = 10
  JanitorRetires = TRUE
VIEW View
INVARIANTS ClosedOnce NeverInUse RetiredClosed
