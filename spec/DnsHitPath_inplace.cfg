SPECIFICATION Spec
CONSTANTS
  Clients <- HPClients
  Cid <- HPCid
  Size = "big"
  SharedPatch = TRUE
INVARIANTS OwnId
