SPECIFICATION Spec
CONSTANTS
  Nodes <- MCNodes
  Domains <- MCDomainsSmall
  AddrOf <- MCAddrOfSmall
  ThrProbe <- MCThrProbeSmall
  ThrTraffic <- MCThrTrafficSmall
  EscalateAt = 3
  Bursts <- MCBurstsSmall
  Revivable <- MCRevivableSmall
  MaxHist = 4
INVARIANTS Thresholds DeathsBounded EdgeOnly EmitBfs
