-------------------------------- MODULE Sniff --------------------------------
(* C06 - sniffing finds the name that is there and never alters or withholds payload
   (component/sniffing: sniffer.go, tls.go, http.go, quic.go, conn_sniffer.go, internal/quicutils).

   A generative specification: the state is one case - what the client emits (an abstract TLS ClientHello, HTTP/1 request
   head or QUIC Initial flight carrying a ClientHello), how it is delivered (cut into reads with gaps / into CRYPTO frames,
   packets and datagrams), and how the relay takes the bytes afterwards.  The expectation is computed from the structure as
   the RFCs define it (RFC 8446 s4.1.2, RFC 6066 s3, RFC 9110 Host, RFC 9000 s17.2.2 / s19.6, RFC 9369), never from the
   parser.  The harness renders the structure to bytes (QUIC packets are protected with an independent implementation of
   RFC 9001 s5) and feeds them to the real sniffer.

   Stream sniffer as a machine (sniffer.go SniffTcp): one read per round; NeedMore loops; the deadline bounds the wait.
     Expectation for a stream case:
       first read < 5 bytes                      -> the name or "not applicable" (no obligation before the record header)
       all of the record within the timeout      -> the name (Found) / NotFound / NotApplicable as the structure says
       a gap longer than the timeout             -> not applicable (timeout), no later than the timeout
     and ALWAYS: bytes handed on afterwards = bytes sent, in order, whatever the drain method.
   Packet sniffer (SniffUdp / AppendData): after datagram k the name is found iff the CRYPTO ranges received so far cover
     the ClientHello; before that "need more"; every datagram is left byte-for-byte unchanged and Data() keeps them in order. *)
EXTENDS Integers, Sequences, FiniteSets, TLC, Json

CONSTANTS MaxExts, MaxCuts, MaxFrames, Depth,     \* Depth: "quick" | "full" | "flights" (QUIC only: every placement of the
                                                 \* CRYPTO pieces in up to three plain packets, exhaustively)
          Kinds                                  \* which kinds of case this configuration generates

(* ---------------------------------------------------------------- names *)
NameIds == {"plain", "mixed", "dot", "long", "idn"}         \* example.com / ExAmple.COM / example.com. / 200 bytes / xn--
Lower(n) == IF n = "mixed" THEN "plain" ELSE IF n = "dot" THEN "plain" ELSE n     \* what must be reported (case folded, no trailing dot)

(* ---------------------------------------------------------------- TLS ClientHello structure *)
Entry(t, n) == [typ |-> t, name |-> n]                      \* typ 0 = host_name
Ext(k, es) == [kind |-> k, entries |-> es]
SniExts == {Ext("sni", <<Entry(0, n)>>) : n \in NameIds}
           \cup {Ext("sni", <<Entry(1, "plain"), Entry(0, "idn")>>), Ext("sni", <<Entry(0, "plain"), Entry(0, "idn")>>),
                 Ext("sni", <<Entry(1, "plain")>>), Ext("sni", <<>>)}
OtherExts == {Ext("grease", <<>>), Ext("pad", <<>>), Ext("alpn", <<>>), Ext("versions", <<>>), Ext("keyshare", <<>>)}
ExtChoices == IF Depth = "flights" THEN {Ext("sni", <<Entry(0, "plain")>>)}
              ELSE IF Depth = "quick" THEN {Ext("sni", <<Entry(0, "mixed")>>), Ext("sni", <<Entry(1, "plain"), Entry(0, "idn")>>), Ext("grease", <<>>), Ext("pad", <<>>)}
              ELSE SniExts \cup OtherExts
Hello(rm, ht, vm, sid, exts) == [recMinor |-> rm, hsType |-> ht, vMinor |-> vm, sid |-> sid, exts |-> exts]

HasSni(e) == e.kind = "sni" /\ \E i \in 1..Len(e.entries) : e.entries[i].typ = 0
FirstHost(e) == LET i == CHOOSE j \in 1..Len(e.entries) : e.entries[j].typ = 0 /\ \A k \in 1..(j - 1) : e.entries[k].typ # 0
                IN e.entries[i].name
\* RFC 6066: the host_name entry of the server_name extension (at most one extension of a type: the first is taken)
ExpectedTls(h) ==
  IF h.hsType # 1 THEN [r |-> "notapplicable", name |-> ""]
  ELSE IF \E i \in 1..Len(h.exts) : HasSni(h.exts[i])
       THEN LET i == CHOOSE j \in 1..Len(h.exts) : HasSni(h.exts[j]) /\ \A k \in 1..(j - 1) : ~HasSni(h.exts[k])
            IN [r |-> "found", name |-> Lower(FirstHost(h.exts[i]))]
       ELSE [r |-> "notfound", name |-> ""]

(* ---------------------------------------------------------------- HTTP/1 request head *)
Hdr(n, v) == [name |-> n, value |-> v]
HttpHdrs == {Hdr("Host", "plain"), Hdr("host", "mixed"), Hdr("HOST", "port"), Hdr("X-Host", "idn"), Hdr("Accept", "any"), Hdr("Host", "spaces")}
Methods == {"GET", "POST", "CONNECT", "BREW"}
ValidMethod(m) == m # "BREW"
HostValue(v) == IF v \in {"mixed", "port", "spaces"} THEN "plain" ELSE v        \* lower-cased, port and blanks removed
ExpectedHttp(m, hs) ==
  IF ~ValidMethod(m) THEN [r |-> "notapplicable", name |-> ""]
  ELSE IF \E i \in 1..Len(hs) : hs[i].name \in {"Host", "host", "HOST"}
       THEN LET i == CHOOSE j \in 1..Len(hs) : hs[j].name \in {"Host", "host", "HOST"} /\ \A k \in 1..(j - 1) : hs[k].name \notin {"Host", "host", "HOST"}
            IN [r |-> "found", name |-> HostValue(hs[i].value)]
       ELSE [r |-> "notfound", name |-> ""]

(* ---------------------------------------------------------------- delivery of a stream *)
\* cut positions are named relative to the rendered bytes: the harness resolves them
CutNames == <<"h-1", "h", "h+1", "hs", "mid", "end-1">>     \* 4, 5, 6, 9, len/2, len-1 (in this order)
Gaps == {"now", "soon", "late"}                              \* next read at once / inside the timeout / after it
Drains == {"read", "writeto", "prefix"}
\* a delivery: ordered cuts with the gap before the following chunk
StreamExpect(exp, cuts, isTls) ==
  LET firstShort == isTls /\ cuts # <<>> /\ cuts[1].at = "h-1"
      lateBeforeEnd == \E i \in 1..Len(cuts) : cuts[i].gap = "late"
  IN IF firstShort THEN [allowed |-> {exp.r, "notapplicable"}, name |-> exp.name, timeout |-> FALSE]
     ELSE IF ~isTls /\ cuts # <<>> THEN [allowed |-> {"found", "notfound", "notapplicable"}, name |-> exp.name, timeout |-> FALSE]   \* a request head cut into reads: no obligation
     ELSE IF isTls /\ lateBeforeEnd /\ exp.r # "notapplicable" THEN [allowed |-> {"notapplicable"}, name |-> "", timeout |-> TRUE]
     ELSE [allowed |-> {exp.r}, name |-> exp.name, timeout |-> FALSE]

(* ---------------------------------------------------------------- QUIC Initial flight *)
\* the ClientHello is cut at named positions into pieces 1..n; a frame carries one piece (or a duplicate of one);
\* frames are placed, in any order, into packets; packets into datagrams
Pieces(n) == 1..n
Frame(p) == [piece |-> p]
Covered(frames, n) == \A p \in Pieces(n) : \E i \in 1..Len(frames) : frames[i].piece = p
\* datagrams : Seq(Seq(packet)), packet = [frames, pad : "none" | "front" | "between" | "ping", pnLen, other : BOOLEAN (a coalesced non-Initial packet follows), bad]
FramesUpTo(dgs, k) == LET RECURSIVE Flat(_, _)
                          Flat(i, acc) == IF i > k THEN acc
                                          ELSE LET RECURSIVE P(_, _)
                                                   P(j, a) == IF j > Len(dgs[i]) THEN a
                                                              ELSE P(j + 1, IF dgs[i][j].bad THEN a ELSE a \o dgs[i][j].frames)   \* a packet that does not authenticate carries nothing
                                               IN Flat(i + 1, P(1, acc))
                      IN Flat(1, <<>>)
\* before the ranges cover the hello there is no obligation to find the name - but if one is reported it must be the right one
QuicExpect(exp, dgs, n, k) == IF Covered(FramesUpTo(dgs, k), n) THEN exp ELSE [r |-> "needmore", name |-> exp.name]

(* ---------------------------------------------------------------- the case generator *)
VARIABLES kind,      \* "start" | "tls" | "http" | "quic" | "junk"
          hello, http, cuts, drain, quic, stage
vars == <<kind, hello, http, cuts, drain, quic, stage>>

NoHello == Hello(3, 1, 3, 0, <<>>)
NoHttp == [method |-> "GET", hdrs |-> <<>>]
NoQuic == [version |-> 1, npieces |-> 1, dgs |-> <<>>, dcid |-> 8]
Init == kind = "start" /\ hello = NoHello /\ http = NoHttp /\ cuts = <<>> /\ drain = "read" /\ quic = NoQuic /\ stage = 0

Choose == /\ kind = "start"
          /\ \/ /\ "tls" \in Kinds /\ kind' = "tls" /\ \E rm \in {1, 3}, ht \in {1, 2}, vm \in {1, 3}, sid \in {0, 32} : hello' = Hello(rm, ht, vm, sid, <<>>)
                /\ UNCHANGED <<http, quic>>
             \/ /\ "http" \in Kinds /\ kind' = "http" /\ \E m \in Methods : http' = [method |-> m, hdrs |-> <<>>] /\ UNCHANGED <<hello, quic>>
             \/ /\ "quic" \in Kinds /\ kind' = "quic"
                /\ \E v \in (IF Depth = "flights" THEN {1} ELSE {1, 2}), d \in (IF Depth = "flights" THEN {8} ELSE {0, 8, 20}),
                      np \in (IF Depth = "flights" THEN {MaxFrames} ELSE 1..MaxFrames) : quic' = [version |-> v, npieces |-> np, dgs |-> <<>>, dcid |-> d]
                /\ \E sid \in (IF Depth = "flights" THEN {0} ELSE {0, 32}) : hello' = Hello(3, 1, 3, sid, <<>>) /\ UNCHANGED http
             \/ /\ "junk" \in Kinds /\ kind' = "junk" /\ UNCHANGED <<hello, http, quic>>
          /\ stage' = 1 /\ UNCHANGED <<cuts, drain>>

AddExt == /\ kind \in {"tls", "quic"} /\ stage = 1 /\ Len(hello.exts) < MaxExts
          /\ \E e \in ExtChoices : hello' = [hello EXCEPT !.exts = Append(@, e)]
          /\ UNCHANGED <<kind, http, cuts, drain, quic, stage>>
AddHdr == /\ kind = "http" /\ stage = 1 /\ Len(http.hdrs) < MaxExts
          /\ \E h \in HttpHdrs : http' = [http EXCEPT !.hdrs = Append(@, h)]
          /\ UNCHANGED <<kind, hello, cuts, drain, quic, stage>>
Deliver == /\ stage = 1 /\ kind # "start" /\ stage' = 2 /\ UNCHANGED <<kind, hello, http, cuts, drain, quic>>

\* stream: cuts in increasing position order
CutIndex(c) == CHOOSE i \in 1..Len(CutNames) : CutNames[i] = c
AddCut == /\ kind \in {"tls", "http", "junk"} /\ stage = 2 /\ Len(cuts) < MaxCuts
          /\ \E c \in {CutNames[i] : i \in 1..Len(CutNames)}, g \in Gaps :
                /\ (IF cuts = <<>> THEN TRUE ELSE CutIndex(cuts[Len(cuts)].at) < CutIndex(c))
                /\ (kind # "tls" => g # "late")
                /\ cuts' = Append(cuts, [at |-> c, gap |-> g])
          /\ UNCHANGED <<kind, hello, http, drain, quic, stage>>
\* quic: append a packet to the last datagram or start a new datagram
\* bad: the packet is a well-formed Initial whose protected payload was corrupted on the way (it does not authenticate)
Packets == {[frames |-> fs, pad |-> pd, pnLen |-> pl, other |-> o, bad |-> b] :
               fs \in {<<Frame(p)>> : p \in 1..MaxFrames} \cup {<<Frame(p), Frame(q)>> : p \in 1..MaxFrames, q \in 1..MaxFrames}
                      \cup {<<Frame(1), Frame(2), Frame(3)>>, <<Frame(3), Frame(2), Frame(1)>>, <<>>},
               pd \in (IF Depth = "flights" THEN {"none"} ELSE IF Depth = "quick" THEN {"none", "between"} ELSE {"none", "front", "between", "ping"}),
               pl \in (IF Depth = "flights" THEN {2} ELSE IF Depth = "quick" THEN {1, 4} ELSE 1..4),
               o \in (IF Depth = "flights" THEN {FALSE} ELSE BOOLEAN), b \in (IF Depth = "flights" THEN {FALSE} ELSE BOOLEAN)}
PacketOk(p) == \A i \in 1..Len(p.frames) : p.frames[i].piece <= quic.npieces
NPackets == LET RECURSIVE C(_) C(i) == IF i > Len(quic.dgs) THEN 0 ELSE Len(quic.dgs[i]) + C(i + 1) IN C(1)
AddPacket == /\ kind = "quic" /\ stage = 2 /\ NPackets < 3
             /\ \E p \in Packets, newDg \in BOOLEAN :
                  /\ PacketOk(p)
                  /\ (IF quic.dgs = <<>> THEN newDg ELSE (IF newDg THEN TRUE ELSE ~quic.dgs[Len(quic.dgs)][Len(quic.dgs[Len(quic.dgs)])].other))     \* nothing can follow a coalesced foreign packet here
                  /\ quic' = [quic EXCEPT !.dgs = IF newDg THEN Append(@, <<p>>) ELSE [@ EXCEPT ![Len(@)] = Append(@, p)]]
             /\ UNCHANGED <<kind, hello, http, cuts, drain, stage>>
Finish == /\ stage = 2 /\ (kind = "quic" => quic.dgs # <<>>)
          /\ stage' = 3
          /\ \E d \in (IF Depth = "flights" THEN {"read"} ELSE Drains) : drain' = d
          /\ UNCHANGED <<kind, hello, http, cuts, quic>>

Next == Choose \/ AddExt \/ AddHdr \/ Deliver \/ AddCut \/ AddPacket \/ Finish
Spec == Init /\ [][Next]_vars

(* ---------------------------------------------------------------- what is emitted *)
Exp == CASE kind = "tls" -> ExpectedTls(hello)
         [] kind = "http" -> ExpectedHttp(http.method, http.hdrs)
         [] kind = "quic" -> ExpectedTls(hello)
         [] OTHER -> [r |-> "notapplicable", name |-> ""]
StreamVector == [kind |-> kind, hello |-> hello, http |-> http, cuts |-> cuts, drain |-> drain,
                 expect |-> LET e == StreamExpect(Exp, cuts, kind = "tls") IN
                            IF kind = "junk" THEN [allowed |-> {"found", "notfound", "notapplicable"}, name |-> "?", timeout |-> FALSE] ELSE e]
QuicVector == [kind |-> kind, hello |-> hello, quic |-> quic,
               expect |-> [k \in 1..Len(quic.dgs) |-> QuicExpect(Exp, quic.dgs, quic.npieces, k)]]
Emit == stage = 3 => PrintT(<<"VECTOR", IF kind = "quic" THEN ToJson(QuicVector) ELSE ToJson(StreamVector)>>)

\* sanity of the reference semantics itself
ExpectWF == stage = 3 =>
   /\ (Exp.r = "found" <=> Exp.name # "")
   /\ (kind = "tls" /\ hello.hsType = 1 /\ \E i \in 1..Len(hello.exts) : HasSni(hello.exts[i])) => Exp.r = "found"
   /\ (kind = "quic" => \A k \in 1..Len(quic.dgs) : (QuicExpect(Exp, quic.dgs, quic.npieces, k).r # "needmore" =>
                                                       \A j \in k..Len(quic.dgs) : QuicExpect(Exp, quic.dgs, quic.npieces, j).r # "needmore"))
=============================================================================
