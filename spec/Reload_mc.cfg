SPECIFICATION Spec
CONSTANTS
  NSignals = 3
  BeginBeforeSend = TRUE
VIEW View
INVARIANTS AtMostOne SuppressBalanced NeverWedged AnsweredAll
PROPERTIES RefusedChangesNothing
