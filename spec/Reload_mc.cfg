SPECIFICATION Spec
CONSTANTS
  NSignals = 3
  RecheckAfterBusy = TRUE
  BeginBeforeSend = TRUE
VIEW View
INVARIANTS AtMostOne SuppressBalanced NeverWedged AnsweredAll
PROPERTIES RefusedChangesNothing
