------------------------------ MODULE Datapath ------------------------------
(* C03 - datapath verdicts: direct passes, block drops, proxied flows hand over the route
   (control/kern/tproxy.c: do_tproxy_lan_ingress, do_tproxy_wan_egress_{tcp,udp}, do_tproxy_wan_ingress,
    __mark_tcp_seen / __mark_udp_seen, wan_outbound_is_alive, pid_is_control_plane;
    control/utils.go RetrieveRoutingResult).

   ONE flow under test (its attributes are constants of the configuration): L4 in {"tcp","udp","dns"}, Side in
   {"lan","wan"} (forwarded LAN traffic seen by the LAN-ingress hook / locally originated traffic seen by WAN egress).
   Time is in seconds; packets take no time.

   State (the abstract content of the kernel maps for this flow):
     conn     conn_state_map entry: present, st (ACTIVE / CLOSING), last (last_seen), has (routing cached), dec, wanDir
     handoff  routing_handoff_map entry: present, dec, last
     rules    what route() answers for this flow NOW (RulesChange stands for rules / learned domains changing)
     alive    the group health bits that apply to this flow's protocol and family
   Events:
     Pkt(kind, proc)   a packet of the flow at its hook; kind: SYN / EST / FIN (tcp), DGRAM (udp, dns);
                       proc (wan only): user / daepid / daemark (sent by dae itself)
     Rev(kind)         a packet of the reverse direction at the WAN-ingress hook (refreshes / closes / creates reverse state)
     Tick(d), RulesChange(dec), AliveFlip(g)
     Janitor(lead)     the control plane's conn-state janitor scans the table (control_plane.go cleanupConnStateMap): it samples
                       the clock, then reads the entries.  lead = a packet refreshed the flow's entry after the clock sample
                       and before the entry was read (the entry is then NEWER than the janitor's "now").  The janitor ends
                       tracking exactly when the kernel would: after the idle timeouts, never before.
   Every Pkt yields the observation the real hook must produce: verdict (OK / SHOT / REDIRECT), skb mark, and for a
   REDIRECT the decision the control plane must recover with RetrieveRoutingResult.

   Property layer:
     DirectPasses, BlockDrops, DeadGroupDrops, MarkRules, RedirectCarriesDecision, StickyWhileTracked, TrackingEnds,
     OwnTrafficNeverCaptured, WanOriginatedRepliesPass   (see the definitions at the end) *)
EXTENDS Integers, Sequences, FiniteSets, TLC, Json

CONSTANTS L4, Side, MaxEvents

Dec(o, m, mu) == [out |-> o, mark |-> m, must |-> mu]
Direct0 == Dec("direct", 0, FALSE)
DirectM == Dec("direct", 5, FALSE)
Block == Dec("block", 0, FALSE)
PA == Dec("pa", 0, FALSE)
PBM == Dec("pb", 7, TRUE)
Decisions == {Direct0, DirectM, Block, PA, PBM}
NoDec == Dec("none", 0, FALSE)
Groups == {"pa", "pb"}

ActiveTimeout == 120
ClosingTimeout == 10
UdpTimeout == 120
UpdateInterval == 1

Kinds == IF L4 = "tcp" THEN {"SYN", "EST", "FIN"} ELSE {"DGRAM"}
Procs == IF Side = "wan" THEN {"user", "daepid", "daemark"} ELSE {"user"}
Ticks == {2, 11, 121}

NoConn == [present |-> FALSE, st |-> "A", last |-> 0, has |-> FALSE, dec |-> NoDec, wanDir |-> FALSE, proc |-> ""]
NoHandoff == [present |-> FALSE, dec |-> NoDec, last |-> 0]

VARIABLES now, conn, handoff, rules, rules0, alive, hist
vars == <<now, conn, handoff, rules, rules0, alive, hist>>

Init == /\ now = 0 /\ conn = NoConn /\ handoff = NoHandoff
        /\ rules \in Decisions /\ rules0 = rules
        /\ alive = [g \in Groups |-> TRUE]
        /\ hist = <<>>

(* ---------------------------------------------------------------- conn-state helpers *)
Expired(c) == c.present /\ (IF L4 = "tcp" THEN now - c.last > (IF c.st = "C" THEN ClosingTimeout ELSE ActiveTimeout)
                                          ELSE now - c.last > UdpTimeout)
Touch(c) == IF now - c.last > UpdateInterval THEN [c EXCEPT !.last = now] ELSE c
\* __mark_tcp_seen without routing arguments
TcpSeen(c, kind, dir) ==
  LET c1 == IF c.present /\ kind = "SYN" THEN NoConn ELSE IF Expired(c) THEN NoConn ELSE c IN
  IF c1.present THEN (IF kind = "FIN" THEN [Touch(c1) EXCEPT !.st = "C"] ELSE Touch(c1))
  ELSE IF kind = "SYN" THEN [NoConn EXCEPT !.present = TRUE, !.last = now, !.wanDir = dir]
  ELSE NoConn
\* __mark_udp_seen without routing arguments
UdpSeen(c, dir) ==
  LET c1 == IF Expired(c) THEN NoConn ELSE c IN
  IF c1.present THEN Touch(c1) ELSE [NoConn EXCEPT !.present = TRUE, !.last = now, !.wanDir = dir]

IsAlive(d) == L4 = "dns" \/ d.out \notin Groups \/ alive[d.out]          \* DNS always reaches the control plane
\* a DNS question is handed to the control plane's own DNS routing unless a must rule decided it (C02)
KernDec(d) == IF L4 = "dns" /\ ~d.must THEN [out |-> "cp", mark |-> d.mark, must |-> FALSE] ELSE d
Rec(ev, k, p, o) == [ev |-> ev, k |-> k, p |-> p, obs |-> o, at |-> now, rules |-> rules, gov |-> NoDec, tracked |-> FALSE]
PRec(k, p, o, g, tr) == [Rec("pkt", k, p, o) EXCEPT !.gov = g, !.tracked = tr]    \* g: the decision that governed the packet; tr: taken from the tracked flow
ObsOf(verdict, mark, rec) == [verdict |-> verdict, mark |-> mark, rec |-> rec]
\* the verdict for decision d at the LAN hook
LanVerdict(d) == IF d.out = "direct" THEN ObsOf("OK", d.mark, NoDec)
                 ELSE IF d.out = "block" THEN ObsOf("SHOT", 0, NoDec)
                 ELSE IF IsAlive(d) THEN ObsOf("REDIRECT", 0, d) ELSE ObsOf("SHOT", 0, NoDec)
\* ... at the WAN-egress hook: direct without a mark passes; anything else that is not block goes to dae
WanVerdict(d) == IF d.out = "direct" /\ d.mark = 0 THEN ObsOf("OK", 0, NoDec)
                 ELSE IF d.out = "block" THEN ObsOf("SHOT", 0, NoDec)
                 ELSE IF IsAlive(d) THEN ObsOf("REDIRECT", 0, d) ELSE ObsOf("SHOT", 0, NoDec)
Handoff(d) == [present |-> TRUE, dec |-> d, last |-> now]

(* ---------------------------------------------------------------- the LAN-ingress hook *)
LanTcp(kind) ==
  IF kind # "SYN"
  THEN LET c == TcpSeen(conn, kind, FALSE) IN
       IF ~c.present \/ ~c.has
       THEN /\ conn' = c /\ UNCHANGED handoff /\ hist' = Append(hist, PRec(kind, "user", ObsOf("OK", 0, NoDec), NoDec, FALSE))
       ELSE LET o == LanVerdict(c.dec) IN
            /\ conn' = c
            /\ handoff' = IF o.verdict = "REDIRECT" THEN Handoff(c.dec) ELSE handoff
            /\ hist' = Append(hist, PRec(kind, "user", o, c.dec, TRUE))
  ELSE LET c == [TcpSeen(conn, "SYN", FALSE) EXCEPT !.has = TRUE, !.dec = rules]
           o == LanVerdict(rules)
       IN /\ conn' = c
          /\ handoff' = IF o.verdict = "REDIRECT" THEN Handoff(rules) ELSE handoff
          /\ hist' = Append(hist, PRec(kind, "user", o, rules, FALSE))
LanUdp ==
  LET c == UdpSeen(conn, FALSE) IN
  IF c.wanDir
  THEN /\ conn' = c /\ UNCHANGED handoff /\ hist' = Append(hist, PRec("DGRAM", "user", ObsOf("OK", 0, NoDec), NoDec, FALSE))
  ELSE LET d == IF c.has THEN c.dec ELSE rules
           o == LanVerdict(d)
           c2 == [c EXCEPT !.has = TRUE, !.dec = d, !.last = IF o.verdict = "REDIRECT" /\ c.has THEN now ELSE @]
       IN /\ conn' = c2
          /\ handoff' = IF o.verdict = "REDIRECT" THEN Handoff(d) ELSE handoff
          /\ hist' = Append(hist, PRec("DGRAM", "user", o, d, c.has))
LanDns ==
  LET o == LanVerdict(KernDec(rules)) IN
  /\ UNCHANGED conn
  /\ handoff' = IF o.verdict = "REDIRECT" THEN Handoff(KernDec(rules)) ELSE handoff
  /\ hist' = Append(hist, PRec("DGRAM", "user", o, KernDec(rules), FALSE))

(* ---------------------------------------------------------------- the WAN-egress hook *)
Plain(d) == d.out = "direct" /\ d.mark = 0 /\ ~d.must
WanTcp(kind, proc) ==
  IF kind = "SYN"
  THEN IF proc # "user"
       THEN /\ UNCHANGED <<conn, handoff>> /\ hist' = Append(hist, PRec(kind, proc, ObsOf("OK", 0, NoDec), NoDec, FALSE))
       ELSE LET c0 == TcpSeen(conn, "SYN", FALSE)
                c == IF Plain(rules) THEN c0 ELSE [c0 EXCEPT !.has = TRUE, !.dec = rules, !.proc = proc]
                o == WanVerdict(rules)
            IN /\ conn' = c
               /\ handoff' = IF o.verdict = "REDIRECT" THEN Handoff(rules) ELSE handoff
               /\ hist' = Append(hist, PRec(kind, proc, o, rules, FALSE))
  ELSE LET c == TcpSeen(conn, kind, FALSE) IN
       IF ~c.present \/ ~c.has
       THEN /\ conn' = c /\ UNCHANGED handoff /\ hist' = Append(hist, PRec(kind, proc, ObsOf("OK", 0, NoDec), NoDec, FALSE))
       ELSE LET o == WanVerdict(c.dec) IN
            /\ conn' = c
            /\ handoff' = IF o.verdict = "REDIRECT" THEN Handoff(c.dec) ELSE handoff
            /\ hist' = Append(hist, PRec(kind, proc, o, c.dec, TRUE))
WanUdp(proc) ==
  IF proc # "user"
  THEN /\ UNCHANGED <<conn, handoff>> /\ hist' = Append(hist, PRec("DGRAM", proc, ObsOf("OK", 0, NoDec), NoDec, FALSE))
  ELSE IF L4 = "dns"
  THEN LET o == WanVerdict(KernDec(rules)) IN
       /\ UNCHANGED conn
       /\ handoff' = IF o.verdict = "REDIRECT" THEN Handoff(KernDec(rules)) ELSE handoff
       /\ hist' = Append(hist, PRec("DGRAM", proc, o, KernDec(rules), FALSE))
  ELSE LET c == UdpSeen(conn, FALSE) IN
       IF c.wanDir
       THEN /\ conn' = c /\ UNCHANGED handoff /\ hist' = Append(hist, PRec("DGRAM", proc, ObsOf("OK", 0, NoDec), NoDec, FALSE))
       ELSE LET d == IF c.has THEN c.dec ELSE rules
                c2 == IF Plain(d) THEN [c EXCEPT !.last = now] ELSE [c EXCEPT !.has = TRUE, !.dec = d, !.last = now, !.proc = proc]
                o == WanVerdict(d)
            IN /\ conn' = c2
               /\ handoff' = IF o.verdict = "REDIRECT" THEN Handoff(d) ELSE handoff
               /\ hist' = Append(hist, PRec("DGRAM", proc, o, d, c.has))

Pkt(kind, proc) ==
  /\ (IF Side = "lan"
      THEN (IF L4 = "tcp" THEN LanTcp(kind) ELSE IF L4 = "udp" THEN LanUdp ELSE LanDns)
      ELSE (IF L4 = "tcp" THEN WanTcp(kind, proc) ELSE WanUdp(proc)))
  /\ UNCHANGED <<now, rules, rules0, alive>>

\* a packet of the reverse direction at the WAN-ingress hook
Rev(kind) ==
  /\ L4 # "dns"
  /\ conn' = IF L4 = "tcp" THEN TcpSeen(conn, kind, TRUE) ELSE UdpSeen(conn, TRUE)
  /\ hist' = Append(hist, Rec("rev", kind, "", ObsOf("PIPE", 0, NoDec)))
  /\ UNCHANGED <<now, handoff, rules, rules0, alive>>

Tick(d) == /\ now' = now + d /\ hist' = Append(hist, Rec("tick", "", "", ObsOf("", d, NoDec))) /\ UNCHANGED <<conn, handoff, rules, rules0, alive>>
RulesChange(d) == /\ d # rules /\ rules' = d /\ hist' = Append(hist, [Rec("rules", "", "", ObsOf("", 0, d)) EXCEPT !.rules = d])
                  /\ UNCHANGED <<now, conn, handoff, rules0, alive>>
AliveFlip(g) == /\ alive' = [alive EXCEPT ![g] = ~@] /\ hist' = Append(hist, Rec("alive", g, "", ObsOf(IF alive[g] THEN "down" ELSE "up", 0, NoDec)))
                /\ UNCHANGED <<now, conn, handoff, rules, rules0>>

Janitor(lead) ==
  /\ L4 # "dns" /\ conn.present
  /\ (lead => conn.last = now)
  /\ conn' = IF ~lead /\ Expired(conn) THEN NoConn ELSE conn
  /\ hist' = Append(hist, Rec("janitor", IF lead THEN "lead" ELSE "plain", "", ObsOf(IF ~lead /\ Expired(conn) THEN "gone" ELSE "kept", 0, NoDec)))
  /\ UNCHANGED <<now, handoff, rules, rules0, alive>>

Next == /\ Len(hist) < MaxEvents
        /\ \/ \E k \in Kinds, p \in Procs : Pkt(k, p)
           \/ \E lead \in BOOLEAN : Janitor(lead)
           \/ \E k \in Kinds : Rev(k)
           \/ \E d \in Ticks : Tick(d)
           \/ \E d \in Decisions : RulesChange(d)
           \/ \E g \in Groups : AliveFlip(g)
Spec == Init /\ [][Next]_vars

(* ---------------------------------------------------------------- property layer (over the observations) *)
Pkts == {i \in 1..Len(hist) : hist[i].ev = "pkt" /\ hist[i].gov # NoDec}
\* was group g alive when event i happened (replayed from the flips recorded before it)
AliveAt(g, i) == (Cardinality({j \in 1..(i - 1) : hist[j].ev = "alive" /\ hist[j].k = g}) % 2) = 0
DirectPasses == \A i \in Pkts : LET e == hist[i] IN
   e.gov.out = "direct" => (IF Side = "lan" THEN e.obs.verdict = "OK" /\ e.obs.mark = e.gov.mark         \* forwarded: the mark is set
                            ELSE IF e.gov.mark = 0 THEN e.obs.verdict = "OK" ELSE e.obs.verdict = "REDIRECT")   \* local: dae applies the mark
BlockDrops == \A i \in Pkts : hist[i].gov.out = "block" => hist[i].obs.verdict = "SHOT"
DeadGroupDrops == \A i \in Pkts : LET e == hist[i] IN
   e.gov.out \in Groups \cup {"cp"} => (IF L4 = "dns" \/ AliveAt(e.gov.out, i) THEN e.obs.verdict = "REDIRECT" /\ e.obs.rec = e.gov ELSE e.obs.verdict = "SHOT")
\* the control plane recovers exactly the kernel's decision
RedirectCarriesDecision == \A i \in 1..Len(hist) : hist[i].ev = "pkt" /\ hist[i].obs.verdict = "REDIRECT" => hist[i].obs.rec = hist[i].gov /\ hist[i].gov # NoDec
\* packets of a tracked flow follow the decision of its first packet whatever the rules say meanwhile; untracked packets follow the rules of the moment
StickyWhileTracked == \A i \in Pkts : (~hist[i].tracked) => hist[i].gov = KernDec(hist[i].rules)
Sticky2 == [][ (conn.present /\ conn.has /\ conn'.present /\ conn'.has /\ Len(hist') > Len(hist) /\ hist'[Len(hist')].ev = "pkt" /\ hist'[Len(hist')].tracked) => conn'.dec = conn.dec ]_vars
\* a pure SYN always routes afresh
SynRoutesAfresh == \A i \in Pkts : hist[i].k = "SYN" => ~hist[i].tracked
\* stateless DNS: never tracked
DnsStateless == L4 = "dns" => (~conn.present /\ \A i \in Pkts : ~hist[i].tracked)
\* dae's own traffic is never captured and leaves no state
OwnTrafficNeverCaptured == \A i \in 1..Len(hist) : (hist[i].ev = "pkt" /\ hist[i].p \in {"daepid", "daemark"} /\ (L4 # "tcp" \/ hist[i].k = "SYN")) => hist[i].obs.verdict = "OK"
\* replies of flows first seen from the WAN side pass untouched
WanOriginatedRepliesPass == \A i \in 1..Len(hist) : (hist[i].ev = "pkt" /\ hist[i].gov = NoDec) => hist[i].obs = ObsOf("OK", 0, NoDec)
\* tracking is ended by the janitor only after the idle timeouts
JanitorOnlyExpired == [][ (Len(hist') > Len(hist) /\ hist'[Len(hist')].ev = "janitor" /\ conn.present /\ ~conn'.present) => Expired(conn) ]_vars
View == <<now, conn, handoff, rules, rules0, alive>>

Behaviour == [l4 |-> L4, side |-> Side, init |-> rules0, hist |-> hist]
Emit == Len(hist) = MaxEvents => PrintT(<<"BEHAVIOUR", ToJson(Behaviour)>>)
=============================================================================
