------------------------------- MODULE Retire -------------------------------
(* C20 ("... once the previous generation has retired") - the retirement of the old generation always ends, within the
   switch budget:  cmd/run.go retireControlPlaneConnections / waitForControlPlaneDrain / remainingReloadRetirementBudget,
   cmd/reload_manager.go startControlPlaneRetirement.

   Inputs of one retirement (time in seconds):
     elapsed    time since the request was admitted when the retirement starts (prepare / hand-over may have used the
                whole switch budget of 10 s, or more)
     abort      the user asked to abort connections        overlap   old and new generation share dialers
     sessions   the old generation still has live sessions
     drainAt    when those sessions end by themselves ("never" possible)
     cancelAt   when the next retirement cancels this one ("never" possible)
   Outcome, from the property: the retirement ends at
     0                          when abort, or no overlap, or no sessions (nothing to wait for)
     min(drainAt, cancelAt, max(0, Budget - elapsed))   otherwise
   and the left-over sessions are aborted unless they ended by themselves first.
   RetiresInTime: the end is never later than the remaining budget - in particular it exists. *)
EXTENDS Integers, Sequences, FiniteSets, TLC, Json

Budget == 10
Never == 1000000
Elapsed == {0, 4, 10, 11, 45}
Times == {1, 3, 8, 20, Never}

VARIABLE r
vars == <<r>>
Runs == [elapsed : Elapsed, abort : BOOLEAN, overlap : BOOLEAN, sessions : BOOLEAN, drainAt : Times, cancelAt : Times]
Init == r \in {x \in Runs : x.drainAt # x.cancelAt \/ x.drainAt = Never}          \* (no simultaneous drain and cancel)
Next == UNCHANGED vars
Spec == Init /\ [][Next]_vars

Min(a, b) == IF a < b THEN a ELSE b
Remaining(x) == IF Budget - x.elapsed > 0 THEN Budget - x.elapsed ELSE 0
Waits(x) == ~x.abort /\ x.overlap /\ x.sessions
EndsAt(x) == IF ~Waits(x) THEN 0 ELSE Min(Min(x.drainAt, x.cancelAt), Remaining(x))
\* left-over sessions are aborted: always when not waiting (abort / no overlap), otherwise unless the drain won
Aborts(x) == IF ~Waits(x) THEN (x.abort \/ ~x.overlap)
             ELSE ~(x.drainAt < x.cancelAt /\ x.drainAt < Remaining(x))
RetiresInTime == EndsAt(r) <= Remaining(r) /\ EndsAt(r) < Never
Vector == [r |-> r, endsAt |-> EndsAt(r), aborts |-> Aborts(r), remaining |-> Remaining(r)]
Emit == PrintT(<<"VECTOR", ToJson(Vector)>>)
=============================================================================
