SPECIFICATION Spec
CONSTANTS
  MaxRules = 2
  MaxConds = 1
  Level = "deep"
  MergeNegated = FALSE
INVARIANTS ScanRefines KernRefines OptimizePreserves LowerWF Emit
