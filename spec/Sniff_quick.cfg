SPECIFICATION Spec
CONSTANTS
  MaxExts = 2
  MaxCuts = 2
  MaxFrames = 3
  Depth = "quick"
  Kinds = {"tls", "http", "junk"}
INVARIANTS ExpectWF Emit
