SPECIFICATION Spec
CONSTANTS
  Nodes = {1, 2}
  MaxEvents = 5
  WithReload = FALSE
  Stricts = {FALSE}
  Excl = {0}
  Fams = {"4", "6"}
  Doms = {"dns"}
INVARIANTS NoneOnlyWhenNone ExcludedNeverOffered OfferWhenPossible EmitSel
