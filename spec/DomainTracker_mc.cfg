SPECIFICATION Spec
CONSTANTS
  Owners = {"k1", "k2", "k3"}
  Addrs = {1, 2}
  Unspec = 0
  Cap = 0
  BookkeepFirst = FALSE
  Bits = {"b0", "b1"}
  MaxHist = 6
  GenBms = {{}, {"b0"}, {"b1"}, {"b0", "b1"}}
  GenIpsets = {{}, {0}, {1}, {2}, {0, 1}, {0, 2}, {1, 2}, {0, 1, 2}}
VIEW View
INVARIANTS Mirror TrackerConsistent
