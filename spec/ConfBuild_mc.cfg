SPECIFICATION Spec
CONSTANTS Limit = 1024
INVARIANTS NeverCrash Emit
