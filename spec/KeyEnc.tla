------------------------------- MODULE KeyEnc -------------------------------
(* C19 (keys) - every map key the control plane computes is byte-identical to the key the kernel program computes
   for the same logical entity, padding included.

   The key functions, stated once:
     ConnectivitySlot(out, dom, ipv) = out*6 + dom*2 + ipv          dom: 0 tcp, 1 dns-udp, 2 data-udp; ipv: 0 v4, 1 v6
     TupleKey(flow)  = sip(16, v4-mapped) dip(16) sport(2, network order) dport(2) l4proto(1) zero padding(3)   = 40 bytes
     DomainKey(addr) = the 16 address bytes (v4-mapped)
     PortRange(a,b)  = port_start(2, host order) port_end(2) zero padding(12): the match-set value of a port()/sport() rule
     LpmKey(prefix)  = prefixlen(4, host order; +96 for IPv4) data(16)                  (see Cidr.tla)
   TLC enumerates the boundary inputs and emits the expected key of each; the harness compares the bytes produced by
   the Go constructors and the keys the kernel program actually used (which connectivity slot makes the verdict flip,
   which conn_state_map entry a frame creates). *)
EXTENDS Integers, Sequences, FiniteSets, TLC, Json

VARIABLES kind, inp
vars == <<kind, inp>>

Outs == {0, 1, 2, 41, 42, 43, 85, 86, 127, 128, 200, 251, 252}
Doms == {0, 1, 2}
Ipvs == {0, 1}
Ports == {0, 1, 53, 255, 256, 443, 65535}
V4Pad == <<0,0,0,0,0,0,0,0,0,0,255,255>>
Addr4s == {<<10,1,2,3>>, <<0,0,0,1>>, <<255,255,255,255>>}
Addr6s == {<<253,0,0,0,0,0,0,0,0,0,0,0,0,0,0,1>>, <<32,1,13,184,255,0,0,0,0,0,0,0,0,0,1,2>>}
Mapped(a) == IF Len(a) = 4 THEN V4Pad \o a ELSE a

Init == \/ /\ kind = "connectivity" /\ inp \in {[out |-> o, dom |-> d, ipv |-> v] : o \in Outs, d \in Doms, v \in Ipvs}
        \/ /\ kind = "tuple" /\ inp \in {[sip |-> s, dip |-> d, sport |-> sp, dport |-> dp, l4 |-> l] :
                                            s \in Addr4s, d \in Addr4s, sp \in {1, 256, 65535}, dp \in {53, 443}, l \in {6, 17}}
                                     \cup {[sip |-> s, dip |-> d, sport |-> sp, dport |-> dp, l4 |-> l] :
                                            s \in Addr6s, d \in Addr6s, sp \in {1, 256, 65535}, dp \in {53, 443}, l \in {6, 17}}
        \/ /\ kind = "domain" /\ inp \in {[addr |-> a] : a \in Addr4s \cup Addr6s}
        \/ /\ kind = "portrange" /\ inp \in {[sport |-> a, dport |-> b] : a \in {1, 255, 256, 8000}, b \in {256, 9000, 65535}}   \* start, end
Next == UNCHANGED vars
Spec == Init /\ [][Next]_vars

ConnectivitySlot(o, d, v) == o * 6 + d * 2 + v
BE16(p) == <<p \div 256, p % 256>>
TupleKey(f) == Mapped(f.sip) \o Mapped(f.dip) \o BE16(f.sport) \o BE16(f.dport) \o <<f.l4>> \o <<0, 0, 0>>
DomainKey(a) == Mapped(a)
\* struct port_range { __u16 port_start; __u16 port_end; } inside the 16-byte match-set value, fields in host (little-endian) order
LE16(p) == <<p % 256, p \div 256>>
PortRangeVal(a, b) == LE16(a) \o LE16(b) \o <<0,0,0,0,0,0,0,0,0,0,0,0>>

Expected == CASE kind = "connectivity" -> [slot |-> ConnectivitySlot(inp.out, inp.dom, inp.ipv), bytes |-> <<>>]
              [] kind = "tuple" -> [slot |-> 0, bytes |-> TupleKey(inp)]
              [] kind = "domain" -> [slot |-> 0, bytes |-> DomainKey(inp.addr)]
              [] kind = "portrange" -> [slot |-> 0, bytes |-> PortRangeVal(inp.sport, inp.dport)]
\* slots are within the map and never alias
SlotsSane == kind = "connectivity" => (Expected.slot >= 0 /\ Expected.slot < 256 * 6)
TupleLen == kind = "tuple" => Len(Expected.bytes) = 40
Vector == [kind |-> kind, inp |-> inp, exp |-> Expected]
Emit == PrintT(<<"VECTOR", ToJson(Vector)>>)
=============================================================================
