SPECIFICATION Spec
CONSTANTS
  Clients <- MCClients
  Cid <- MCCid
  Qof <- MCQof
  Transport = "udp"
  AnswerRcode = "nx"
  CheckQuestion = TRUE
  MaxSends = 4
  MaxSocks = 3
  MaxWid = 2
  MaxGen = 3
INVARIANTS ReplyMatches CacheTruthful OneResolution ClosedOnce RetiredGetsClosed EmitAny
