SPECIFICATION Spec
CONSTANTS
  Nodes = {1, 2, 3}
  MaxEvents = 4
  WithReload = TRUE
  Stricts = {FALSE}
  Excl = {0}
  Fams = {"4"}
  Doms = {"tcp", "data"}
INVARIANTS NoneOnlyWhenNone ExcludedNeverOffered OfferWhenPossible FloorHolds EmitReload
