SPECIFICATION Spec
CONSTANTS
  Nodes = {1, 2}
  MaxEvents = 6
  WithReload = FALSE
  Stricts = {TRUE}
  Excl = {0}
  Fams = {"4"}
  Doms = {"tcp"}
INVARIANTS NoneOnlyWhenNone ExcludedNeverOffered OfferWhenPossible EmitSel
