SPECIFICATION Spec
CONSTANTS
  Jobs = {1, 2, 3}
  MaxEvents = 6
  MaxChunks = 3
  PutDirty = TRUE
INVARIANTS OwnBytes
VIEW View
