SPECIFICATION Spec
CONSTANTS
  Keys = {"k1", "k2", "k3"}
  FixedKeys = {"k1", "k2"}
  Ttls = {10, 40}
  Ticks = {1, 9, 20}
  StaleChoices = {0, 20}
  SizeChoices = {0, 2}
  FixedChoices = {0, 5}
  JanitorEvery = 30
  MaxHist = 5
VIEW View
INVARIANTS NeverServedDead SizeBound
