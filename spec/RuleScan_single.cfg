SPECIFICATION Spec
CONSTANTS
  MaxRules = 1
  MaxConds = 1
  Level = "single"
  MergeNegated = FALSE
INVARIANTS ScanRefines KernRefines OptimizePreserves LowerWF Emit
