SPECIFICATION Spec
CONSTANTS
  Nodes = {1, 2, 3}
  Lats = {1, 2, 4, 7}
  Offset <- MCOffset
  Tol = 2
  MaxHist = 6
VIEW View
INVARIANTS IndexConsistent ChosenAlive NobodyBeatsByTol
PROPERTIES TolRule
