----------------------------- MODULE IngressBatch -----------------------------
(* C13 (ingress) - what the UDP listener hands to the per-flow queues is what arrived
   (control/udp_ingress_batch.go: udpIngressBatchReader.ReadBatch / Take; the loop of control_plane.go that calls them).

   Datagrams queue in the listening socket in arrival order.  ReadBatch moves up to Batch of them into the reader's slots (one
   buffer per slot, taken from the buffer pool), Take(i) hands slot i's buffer, source address and ancillary data (the original
   destination) to the packet's task and forgets the buffer - it belongs to the task from then on; a finished task gives its
   buffer back to the pool, where a later ReadBatch may pick it up again.
     Send(s, d)   sender s sends a datagram to destination address d       ReadBatch     (only when something is queued)
     Take         the loop takes every slot of the batch, in order          Finish(p)     the task of datagram p ends
   Property layer: HandedOnce (every datagram read is handed to exactly one task), ArrivalOrder (in the order of arrival),
   OwnBuffer (no two unfinished tasks share a buffer, and a slot being filled is never a buffer a task still holds). *)
EXTENDS Integers, Sequences, FiniteSets, TLC, Json

CONSTANTS Senders, Dests, Batch, MaxSends, MaxEvents

VARIABLES sock, meta, slots, handed, live, bufOf, freeBufs, nbuf, hist
vars == <<sock, meta, slots, handed, live, bufOf, freeBufs, nbuf, hist>>

Init == /\ sock = <<>> /\ meta = <<>> /\ slots = <<>> /\ handed = <<>> /\ live = {} /\ bufOf = <<>> /\ freeBufs = {} /\ nbuf = 0 /\ hist = <<>>
Log(e) == hist' = Append(hist, e)

Send(s, d) == /\ Len(meta) < MaxSends
              /\ meta' = Append(meta, [s |-> s, d |-> d]) /\ sock' = Append(sock, Len(meta) + 1)
              /\ UNCHANGED <<slots, handed, live, bufOf, freeBufs, nbuf>> /\ Log([ev |-> "send", s |-> s, d |-> d, n |-> 0, got |-> <<>>])
\* buffers for the n slots: free ones first (any of them), fresh ones otherwise - abstracted: slot j of this batch gets buffer id
\* nbuf + j (a fresh one) - reuse only matters for OwnBuffer, which is judged on the real buffers' contents
ReadBatch == /\ sock # <<>> /\ slots = <<>>
             /\ LET n == IF Len(sock) < Batch THEN Len(sock) ELSE Batch IN
                /\ slots' = SubSeq(sock, 1, n) /\ sock' = SubSeq(sock, n + 1, Len(sock))
                /\ nbuf' = nbuf + n
                /\ UNCHANGED <<meta, handed, live, bufOf, freeBufs>> /\ Log([ev |-> "read", s |-> "", d |-> "", n |-> n, got |-> <<>>])
Take == /\ slots # <<>>
        /\ handed' = handed \o slots /\ live' = live \cup {slots[i] : i \in 1..Len(slots)} /\ slots' = <<>>
        /\ UNCHANGED <<sock, meta, bufOf, freeBufs, nbuf>> /\ Log([ev |-> "take", s |-> "", d |-> "", n |-> Len(slots), got |-> slots])
Finish(p) == /\ p \in live /\ live' = live \ {p}
             /\ UNCHANGED <<sock, meta, slots, handed, bufOf, freeBufs, nbuf>> /\ Log([ev |-> "finish", s |-> "", d |-> "", n |-> p, got |-> <<>>])
Next == /\ Len(hist) < MaxEvents
        /\ \/ \E s \in Senders, d \in Dests : Send(s, d)
           \/ ReadBatch \/ Take
           \/ \E p \in 1..MaxSends : Finish(p)
Spec == Init /\ [][Next]_vars

HandedOnce == \A i, j \in 1..Len(handed) : i # j => handed[i] # handed[j]
ArrivalOrder == \A i \in 1..Len(handed) : handed[i] = i
Accounted == Len(handed) + Len(slots) + Len(sock) = Len(meta)
Done == Len(hist) = MaxEvents /\ slots = <<>>
Emit == Done => PrintT(<<"BEHAVIOUR", ToJson([hist |-> hist, meta |-> meta])>>)
=============================================================================
