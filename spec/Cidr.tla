------------------------------- MODULE Cidr -------------------------------
(* C12 - address sets match by CIDR containment, in userspace and in kernel key form.

   Reference semantics (from the property statement, not from the code):
     an address set S matches an address a  iff  some prefix p in S contains a, where an IPv4
     address/prefix is the IPv4-mapped IPv6 one (::ffff:a.b.c.d, prefix length + 96) and every
     prefix length 0..32 / 0..128 is honoured.

   Implementation layer (shaped like the code):
     * Bin128(p)   - the '0'/'1' key string pkg/trie builds for a prefix (trie.Prefix2bin128),
                     TrieHas(S,a) - "some key is a prefix of the 128-bit word of a" (Trie.HasPrefix)
     * LpmKey(p)   - the BPF_MAP_TYPE_LPM_TRIE key control/bpf_utils.go writes
                     (prefixlen = len (+96 for v4), data = 16 address bytes),
                     LpmLookup(K,a) - kernel longest-prefix-match semantics over such keys
     * Canon(S) / ShareOk - storage sharing between rule sets only when truly identical.

   TLC checks  TrieHas = SetHas = LpmLookup  for every enumerated set and every probe, and emits
   one VECTOR per set: the set, the spec-defined probes (first/last address inside and both
   neighbours outside every prefix of the universe) and the expected answers.  The Go harness runs
   the vectors through trie.NewTrieFromPrefixes/HasPrefix, cidrToBpfLpmKey + a real kernel LPM
   trie, and dip()/sip() rule programs. *)
EXTENDS CidrOps, TLC, Json, Randomization, SequencesExt

CONSTANTS MaxSet,        \* exhaustive: all subsets of the universe up to this size
          Mode,          \* "exhaustive" | "random"
          RandSets,      \* random mode: number of random sets
          RandSize       \* random mode: size of each random set (drawn from BigUniverse)

(* ---------------- storage sharing ---------------- *)
\* Two rule sets may share one stored trie only when they are identical as sets of (family, bytes, len).
ShareOk(S1, S2) == S1 = S2

(* ---------------- address arithmetic for spec-defined probes ---------------- *)
NB(fam) == IF fam = 4 THEN 4 ELSE 16
FirstB(b, n) == [i \in 1..Len(b) |->
                   LET k == n - 8 * (i - 1) IN
                   IF k >= 8 THEN b[i] ELSE IF k <= 0 THEN 0
                   ELSE (b[i] \div Pow2(8 - k)) * Pow2(8 - k)]
LastB(b, n) == [i \in 1..Len(b) |->
                   LET k == n - 8 * (i - 1) IN
                   IF k >= 8 THEN b[i] ELSE IF k <= 0 THEN 255
                   ELSE (b[i] \div Pow2(8 - k)) * Pow2(8 - k) + Pow2(8 - k) - 1]
AllEq(b, v) == \A i \in 1..Len(b) : b[i] = v
RECURSIVE IncB(_, _)
IncB(b, i) == IF i = 0 THEN b ELSE IF b[i] < 255 THEN [b EXCEPT ![i] = @ + 1]
              ELSE IncB([b EXCEPT ![i] = 0], i - 1)
RECURSIVE DecB(_, _)
DecB(b, i) == IF i = 0 THEN b ELSE IF b[i] > 0 THEN [b EXCEPT ![i] = @ - 1]
              ELSE DecB([b EXCEPT ![i] = 255], i - 1)

ProbesOf(p) ==
    LET f == FirstB(p.b, p.len)
        l == LastB(p.b, p.len)
    IN  {Adr(p.fam, f), Adr(p.fam, l)}
        \cup (IF AllEq(f, 0) THEN {} ELSE {Adr(p.fam, DecB(f, Len(f)))})
        \cup (IF AllEq(l, 255) THEN {} ELSE {Adr(p.fam, IncB(l, Len(l)))})
\* a v4 probe is also asked in its v4-mapped v6 spelling (the matcher only ever sees 16 bytes)
MappedTwin(a) == IF a.fam = 4 THEN {Adr(6, V4Pad \o a.b)} ELSE {}

(* ---------------- universes ---------------- *)
Z12 == <<0,0,0,0,0,0,0,0,0,0,0,0>>
V6a == <<253,0,0,0,0,0,0,0,0,0,0,0,0,0,0,1>>           \* fd00::1
V6b == <<32,1,13,184,255,255,255,255,255,255,255,255,255,255,255,255>>   \* 2001:db8:ffff:...:ffff
Universe ==
  { Pfx(4, <<0,0,0,0>>, 0), Pfx(4, <<128,0,0,0>>, 1), Pfx(4, <<10,0,0,0>>, 8), Pfx(4, <<10,1,2,3>>, 8),
    Pfx(4, <<10,1,0,0>>, 16), Pfx(4, <<10,1,2,2>>, 31), Pfx(4, <<10,1,2,3>>, 32),
    Pfx(4, <<255,255,255,255>>, 32), Pfx(4, <<10,1,2,0>>, 23),
    Pfx(6, Z12 \o <<0,0,0,0>>, 0), Pfx(6, <<128>> \o Z12 \o <<0,0,0>>, 1), Pfx(6, V6a, 8), Pfx(6, V6a, 64),
    Pfx(6, V6a, 127), Pfx(6, V6a, 128), Pfx(6, V6b, 33),
    Pfx(6, V4Pad \o <<10,1,2,3>>, 128),               \* IPv4-mapped literal host route
    Pfx(6, V4Pad \o <<10,0,0,0>>, 104),               \* IPv4-mapped literal == 10.0.0.0/8
    Pfx(6, V4Pad \o <<0,0,0,0>>, 96) }                \* ::ffff:0:0/96 == all of IPv4

Bases4 == {<<10,1,2,3>>, <<192,168,255,255>>, <<0,0,0,0>>, <<255,255,255,255>>, <<127,255,255,254>>}
Bases6 == {V6a, V6b, Z12 \o <<0,0,0,0>>, V4Pad \o <<192,168,255,255>>,
           <<255,255,255,255,255,255,255,255,255,255,255,255,255,255,255,255>>}
BigUniverse == {Pfx(4, b, n) : b \in Bases4, n \in 0..32}
         \cup {Pfx(6, b, n) : b \in Bases6, n \in 0..128}

AllProbes(U) == UNION {ProbesOf(p) \cup UNION {MappedTwin(a) : a \in ProbesOf(p)} : p \in U}

(* ---------------- state machine: one state per address set ---------------- *)
VARIABLES S, S2, probes      \* probes is a sequence (fixed order for emission)
vars == <<S, S2, probes>>

SetSeq(T) == SetToSeq(T)
UProbeSeq == SetSeq(AllProbes(Universe))       \* constant: evaluated once by TLC

\* Sets are grown one prefix at a time so that TLC's workers share the enumeration:
\* every reachable state is one address set of size 1..MaxSet.
Init ==
    IF Mode = "exhaustive"
    THEN /\ S \in {{p} : p \in Universe}
         /\ S2 = {}
         /\ probes = <<>>
    ELSE /\ S = {}
         /\ S2 \in {{i} : i \in 1..RandSets}     \* placeholder distinguishing the random draws
         /\ probes = <<>>
Grow == /\ Mode = "exhaustive"
        /\ Cardinality(S) < MaxSet
        /\ \E p \in Universe \ S : S' = S \cup {p}
        /\ UNCHANGED <<S2, probes>>
\* random mode: the draw happens in a step so that TLC's workers share the work
Draw == /\ Mode = "random"
        /\ S = {}
        /\ S' = RandomSubset(RandSize, BigUniverse)
        /\ S2' = RandomSubset(RandSize, BigUniverse)
        /\ probes' = SetSeq(AllProbes(S' \cup S2'))
Next == Grow \/ Draw
Spec == Init /\ [][Next]_vars

(* ---------------- properties checked by TLC ---------------- *)
PSeq == IF Mode = "exhaustive" THEN UProbeSeq ELSE probes
PR == Range(PSeq)
\* memoised bit strings of the fixed universe (TLC evaluates constant definitions once)
UWord == [a \in Range(UProbeSeq) |-> Bits(Mapped(a.fam, a.b), 128)]
UKey  == [p \in Universe |-> Bin128(p)]
TrieHas(T, a) == IF Mode = "exhaustive"
                 THEN \E p \in T : IsPrefixOf(UKey[p], UWord[a])
                 ELSE TrieHasRaw(T, a)
TrieRefines == \A a \in PR : TrieHas(S, a) = SetHas(S, a)
LpmRefines  == \A a \in PR : LpmLookup(LpmKeys(S), a) = SetHas(S, a)
LpmLongest  == \A a \in PR : LpmCandidates(LpmKeys(S), a) # {} =>
                   \A k \in LpmCandidates(LpmKeys(S), a) : k.prefixlen <= LpmBest(LpmKeys(S), a).prefixlen
MappedAgree == \A a \in PR : a.fam = 4 => SetHas(S, a) = SetHas(S, Adr(6, V4Pad \o a.b))
ShareSound  == (S # {} /\ S2 # {} /\ ShareOk(S, S2)) => \A a \in PR : SetHas(S, a) = SetHas(S2, a)

(* ---------------- vector emission ---------------- *)
Vector == LET ss == SetSeq(S) IN
          [ set   |-> ss,
            set2  |-> SetSeq(S2),
            keys  |-> [i \in 1..Len(ss) |-> LpmKey(ss[i])],
            cases |-> [i \in 1..Len(PSeq) |->
                          [addr |-> PSeq[i], exp |-> SetHas(S, PSeq[i]), exp2 |-> SetHas(S2, PSeq[i])]] ]
Emit == S # {} => PrintT(<<"VECTOR", ToJson(Vector)>>)
=============================================================================
