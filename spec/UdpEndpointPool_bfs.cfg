SPECIFICATION Spec
CONSTANTS
  Keys = {"k1"}
  Owners = {"o1"}
  Tuples = {"t1"}
  MaxEp = 4
  NatT = 30
  FailT = 2
  MaxEvents = 4
INVARIANTS NeverHandOutBad ClosedOnce NoLeak KernelEntries OnePerKey Emit
