----------------------------- MODULE FrameShape -----------------------------
(* C03 (frame shapes) - no verdict depends on how a frame is laid out, nor on which of the two header parsers read it
   (control/kern/tproxy.c parse_transport_fast: direct packet access after pulling 128 bytes; parse_transport_slow:
    bpf_skb_load_bytes, taken when the frame is shorter than 128 bytes or a header crosses the pulled area).

   A frame of the flow under test is described by
     fam      4 | 6
     opts     IPv4: bytes of IP options;  IPv6: the chain of extension headers before the payload
     frag     "none" | "first" (offset 0, more fragments follow: the transport header is there) | "later" (offset > 0)
     l4       "syn" | "est" (TCP)  | "udp" | "icmp" | "other" (a protocol dae does not handle)
     cut      "none" | "ip" | "ext" | "l4": the frame ends inside the IP header / the extension chain / the transport header
     long     FALSE: shorter than 128 bytes (byte-load parser) | TRUE: padded to >= 128 bytes (direct packet access)
   Class(f) - what the standard headers say the frame is:
     "routed"     a complete TCP / UDP packet (whatever options, extension headers or first-fragment marking it carries):
                  the verdict is the one the plain frame of the same kind gets
     "foreign"    complete, but not TCP / UDP, or a later fragment without a transport header
     "malformed"  truncated
   Obligations (the harness compares real runs): Twin(f) - the same frame in the other length class - gets the same verdict,
   mark and hand-over tag; a routed frame gets the reference verdict of Plain(f). *)
EXTENDS Integers, Sequences, FiniteSets, TLC, Json

Fams == {4, 6}
Opts4 == {0, 4, 40}
Chains6 == {<<>>, <<0>>, <<60>>, <<0, 60>>, <<0, 43, 60>>}
Frags == {"none", "first", "later"}
L4s == {"syn", "est", "udp", "icmp", "other"}
Cuts == {"none", "ip", "ext", "l4"}
Hooks == {"lan", "wan"}

VARIABLES f
vars == <<f>>
Frames == [fam : Fams, opts4 : Opts4, chain : Chains6, frag : Frags, l4 : L4s, cut : Cuts, hook : Hooks]
Sane(x) == /\ (x.fam = 4 => x.chain = <<>>) /\ (x.fam = 6 => x.opts4 = 0)
           /\ (x.cut = "ext" => (x.fam = 6 /\ (x.chain # <<>> \/ x.frag # "none")) \/ (x.fam = 4 /\ x.opts4 > 0))
           /\ (x.cut = "l4" => x.frag # "later")          \* a later fragment has no transport header to cut
Init == f \in {x \in Frames : Sane(x)}
Next == UNCHANGED vars
Spec == Init /\ [][Next]_vars

Class(x) == IF x.cut # "none" THEN "malformed"
            ELSE IF x.frag = "later" \/ x.l4 \in {"icmp", "other"} THEN "foreign"
            ELSE "routed"
Plain(x) == [x EXCEPT !.opts4 = 0, !.chain = <<>>, !.frag = "none"]

\* the classification itself: layout never changes the class of a complete transport packet
LayoutIrrelevant == Class(f) = "routed" => Class(Plain(f)) = "routed"
TruncatedNeverRouted == f.cut # "none" => Class(f) # "routed"

Vector == [f |-> f, class |-> Class(f)]
Emit == PrintT(<<"VECTOR", ToJson(Vector)>>)
=============================================================================
