SPECIFICATION Spec
CONSTANTS
  L4 = "tcp"
  Side = "lan"
  MaxEvents = 4
INVARIANTS DirectPasses BlockDrops DeadGroupDrops RedirectCarriesDecision StickyWhileTracked SynRoutesAfresh DnsStateless OwnTrafficNeverCaptured WanOriginatedRepliesPass
PROPERTIES Sticky2 JanitorOnlyExpired
