----------------------------- MODULE RingInstall -----------------------------
(* C02 - the kernel always decides with the prefix tries of the program whose rules it is scanning
   (control/routing_matcher_builder.go: KernspaceSnapshot, buildRoutingKernspace - reserveLpmRingSlots, lpm_array_map
    updates, rewriteKernRulesWithRingLpmIndex, routing_map / routing_meta_map; control/control_plane.go: the three install
    orders - plain start (snapshot, kernel, userspace matcher), staged reload (snapshot, userspace matcher, kernel at the
    listener cut-over: CommitPreparedDatapath) and the roll-back after a failed hand-over (RebuildReloadDatapath installs the
    previous generation's snapshot once more)).

   The kernel holds a ring of Ring trie slots (lpm_array_map) and one rule array (routing_map).  A generation g has n[g]
   prefix sets; its rules refer to them as 0..n-1 and are rewritten to ring positions when they are installed.
     New(n)        a builder for a program with n prefix sets; its kernel snapshot is taken at once
     User(g)       BuildUserspace for g (no kernel effect; UserReleases = TRUE models a builder that drops its prefix lists
                   once the userspace tries exist - the snapshot shares them)
     Tries(g)      first half of BuildKernspace: n ring slots reserved from the cursor and filled with g's sets
     Rules(g)      second half: g's rules, rewritten to those slots, replace the rule array
   Property layer
     RingRight     whenever the rule array belongs to g, every set its rules name is in the slot they name, in full
     LiveRight     the same while another generation's tries are being written (holds when two consecutive generations fit
                   in the ring together; otherwise the hot-reload window the code comments mention opens) *)
EXTENDS Integers, Sequences, FiniteSets, TLC, Json

CONSTANTS Ring, MaxSets, MaxGens, MaxOps, UserReleases, FitTogether

VARIABLES cursor, slots, active, gens, pending, hist
vars == <<cursor, slots, active, gens, pending, hist>>
Empty == [g |-> 0, i |-> 0, full |-> FALSE]
NoActive == [g |-> 0, start |-> 0, n |-> 0]

Init == /\ cursor = 0 /\ slots = [s \in 0..Ring-1 |-> Empty] /\ active = NoActive /\ gens = <<>> /\ pending = NoActive /\ hist = <<>>

Log(op, g) == hist' = Append(hist, [op |-> op, g |-> g])
New(n) == /\ Len(gens) < MaxGens /\ pending.g = 0
          /\ gens' = Append(gens, [n |-> n, user |-> FALSE, released |-> FALSE])
          /\ UNCHANGED <<cursor, slots, active, pending>> /\ Log("new", Len(gens) + 1)
User(g) == /\ g \in 1..Len(gens) /\ ~gens[g].user /\ pending.g = 0
           /\ gens' = [gens EXCEPT ![g].user = TRUE, ![g].released = UserReleases]
           /\ UNCHANGED <<cursor, slots, active, pending>> /\ Log("user", g)
Tries(g) == /\ g \in 1..Len(gens) /\ pending.g = 0
            /\ (FitTogether => active.n + gens[g].n <= Ring)
            /\ LET n == gens[g].n IN
               /\ slots' = [s \in 0..Ring-1 |-> IF \E i \in 0..n-1 : s = (cursor + i) % Ring
                                                THEN [g |-> g, i |-> (s - cursor + Ring) % Ring, full |-> ~gens[g].released]
                                                ELSE slots[s]]
               /\ pending' = [g |-> g, start |-> cursor, n |-> n]
               /\ cursor' = (cursor + n) % Ring
            /\ UNCHANGED <<active, gens>> /\ Log("tries", g)
Rules(g) == /\ pending.g = g /\ g # 0
            /\ active' = pending /\ pending' = NoActive
            /\ UNCHANGED <<cursor, slots, gens>> /\ Log("rules", g)
Next == /\ Len(hist) < MaxOps
        /\ \/ \E n \in 0..MaxSets : New(n)
           \/ \E g \in 1..MaxGens : User(g) \/ Tries(g) \/ Rules(g)
Spec == Init /\ [][Next]_vars

Right(a) == \A i \in 0..a.n-1 : LET s == slots[(a.start + i) % Ring] IN s.g = a.g /\ s.i = i /\ s.full
RingRight == (active.g # 0 /\ pending.g = 0) => Right(active)
LiveRight == active.g # 0 => Right(active)

\* the install orders a generation goes through, for the replay: after "rules" of g the kernel must decide as g's userspace matcher
Done == Len(hist) = MaxOps /\ pending.g = 0
Emit == Done => PrintT(<<"BEHAVIOUR", ToJson([hist |-> hist, n |-> [g \in 1..Len(gens) |-> gens[g].n]])>>)
=============================================================================
