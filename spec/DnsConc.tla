------------------------------- MODULE DnsConc -------------------------------
(* C09 - every DNS client gets an answer to its own question under its own ID
   (control/dns_control.go: HandleWithResponseWriter_ / singleflight / cachedDnsForwarder / forwardWithDialArg;
    control/dns.go: DoUDP + udpConnPool, DoTCP + pipelinedConn).

   One upstream, reached over Transport ("udp": pooled sockets, one exchange per socket, the client's transaction id
   on the wire; "tcp": one pipelined connection, pipeline ids allocated lowest-free).  Each client asks once.

   Controller:  Arrive(c)   cache hit -> reply;  identical question in flight -> wait for its result (singleflight);
                            otherwise lead: take the cached forwarder (beginUse) and start an exchange
   Upstream:    Send(k, q)  the server answers request number k (any request it has ever seen on a channel that is
                            still open: late, twice) with an answer for question q (its own or a different one)
   Faults:      Timeout(c)  the oldest leader's deadline passes
   What the code does with arriving data is not a separate step: a waiting reader consumes it at once (UDP: a datagram
   with another id is dropped as stale; TCP: a frame whose id has no pending slot is dropped), an idle pooled socket
   keeps it buffered for whoever borrows the socket next.

   AnswerRcode = "nx": every answer is a name error: it reaches the leader and every waiter (each under its own id) but is not
   cached, so that a later identical question is resolved again and the waiters are served from the shared result itself.

   CheckQuestion = FALSE is the code as found (an answer is accepted on its id alone); TRUE adds the validation of the
   answer's question against the query in forwardWithDialArg.

   Property layer:
     ReplyMatches      every reply carries the client's own id and question
     CacheTruthful     an answer is cached only under the name/type it answers
     OneResolution     identical concurrent questions: one leader (checked against the requests the server sees)
     ClosedOnce        a retired forwarder is closed exactly once and not while an exchange uses it *)
EXTENDS Integers, Sequences, FiniteSets, TLC, Json

CONSTANTS Clients, Cid, Qof,        \* Cid, Qof : functions on Clients (transaction id, question)
          Transport, CheckQuestion,
          AnswerRcode,              \* "ok": the server's answers carry records (cached); "nx": NXDOMAIN - relayed, never cached
          MaxSends, MaxSocks, MaxWid, MaxGen

Questions == {Qof[c] : c \in Clients}
NoC == "none"

VARIABLES cst,      \* [Clients -> "new" | "leader" | "waiter" | "done"]
          reply,    \* [Clients -> [kind : "none" | "msg" | "err", id, q]]
          flight,   \* [Questions -> leader or NoC]
          waiters,  \* [Questions -> SUBSET Clients]
          cache,    \* [Questions -> question of the answer stored under the key, "" = nothing]
          gen,      \* current forwarder generation, 0 = none
          ngen,     \* generations created so far
          fw,       \* [1..MaxGen -> [inFlight, retired, closed, closedBusy]]
          socks,    \* udp: [1..MaxSocks -> [st : "unused" | "idle" | "busy" | "closed", buf, gen, user]]
          idle,     \* udp: per forwarder generation, FIFO of idle socket numbers (the pool's channel)
          conn,     \* tcp: [n, open, pending : [0..MaxWid -> client or NoC], gen]
          reqs,     \* Seq([ch, id, q]) : requests in the order the server received them (ch = socket number / connection number)
          order,    \* Seq(Clients) : leaders in starting order (deadlines pass in this order)
          nsends, hist
vars == <<cst, reply, flight, waiters, cache, gen, ngen, fw, socks, idle, conn, reqs, order, nsends, hist>>

NoReply == [kind |-> "none", id |-> 0, q |-> ""]
Init ==
  /\ cst = [c \in Clients |-> "new"]
  /\ reply = [c \in Clients |-> NoReply]
  /\ flight = [q \in Questions |-> NoC] /\ waiters = [q \in Questions |-> {}]
  /\ cache = [q \in Questions |-> ""]
  /\ gen = 0 /\ ngen = 0
  /\ fw = [g \in 1..MaxGen |-> [inFlight |-> 0, retired |-> FALSE, closed |-> 0, closedBusy |-> FALSE]]
  /\ socks = [s \in 1..MaxSocks |-> [st |-> "unused", buf |-> <<>>, gen |-> 0, user |-> NoC]]
  /\ idle = [g \in 1..MaxGen |-> <<>>]
  /\ conn = [n |-> 0, open |-> FALSE, pending |-> [w \in 0..MaxWid |-> NoC], gen |-> 0]
  /\ reqs = <<>> /\ order = <<>> /\ nsends = 0 /\ hist = <<>>

(* ---------------------------------------------------------------- forwarder life cycle (cachedDnsForwarder) *)
\* closing a generation closes its transport: every socket / the connection of that generation
CloseSocks(sk, g) == [s \in 1..MaxSocks |-> IF sk[s].gen = g /\ sk[s].st \in {"idle", "busy"} THEN [sk[s] EXCEPT !.st = "closed", !.buf = <<>>] ELSE sk[s]]
CloseIdle(il, sk, g) == [il EXCEPT ![g] = <<>>]
EndUse(f, g) ==    \* endUse: last user of a retired forwarder closes it
  LET n == f[g].inFlight - 1 IN
  IF n = 0 /\ f[g].retired THEN [f EXCEPT ![g].inFlight = 0, ![g].closed = @ + 1] ELSE [f EXCEPT ![g].inFlight = n]
Retire(f, g) ==    \* retire: closes at once when nobody uses it
  IF f[g].retired THEN f
  ELSE IF f[g].inFlight = 0 THEN [f EXCEPT ![g].retired = TRUE, ![g].closed = @ + 1] ELSE [f EXCEPT ![g].retired = TRUE]

(* ---------------------------------------------------------------- results *)
Waiting(q) == {flight[q]} \cup waiters[q]
\* the leader of question q got message m from the transport
Accepts(c, m) == ~CheckQuestion \/ m.q = Qof[c]
\* state after leader c finishes with a message (ok) or an error; g = its forwarder generation, retire = whether the error retires it
Finish(c, ok, m, g, retire, sk1, il1, cn1) ==
  LET q == Qof[c]
      f1 == EndUse(IF retire THEN [fw EXCEPT ![g].retired = TRUE] ELSE fw, g)
      closedNow == f1[g].closed > fw[g].closed
  IN /\ cst' = [x \in Clients |-> IF x \in Waiting(q) THEN "done" ELSE cst[x]]
     /\ reply' = [x \in Clients |-> IF x \in Waiting(q)
                                    THEN (IF ok THEN [kind |-> "msg", id |-> Cid[x], q |-> m.q] ELSE [kind |-> "err", id |-> 0, q |-> ""])
                                    ELSE reply[x]]
     /\ flight' = [flight EXCEPT ![q] = NoC] /\ waiters' = [waiters EXCEPT ![q] = {}]
     /\ cache' = IF ok /\ AnswerRcode = "ok" THEN [cache EXCEPT ![q] = m.q] ELSE cache
     /\ fw' = f1
     /\ ngen' = ngen
     /\ gen' = IF retire /\ gen = g THEN 0 ELSE gen           \* a retired forwarder leaves the cache: the next query builds a new one
     /\ socks' = IF closedNow THEN CloseSocks(sk1, g) ELSE sk1
     /\ idle' = IF closedNow THEN CloseIdle(il1, sk1, g) ELSE il1
     /\ conn' = IF closedNow /\ cn1.gen = g THEN [cn1 EXCEPT !.open = FALSE, !.pending = [w \in 0..MaxWid |-> NoC]] ELSE cn1
     /\ order' = SelectSeq(order, LAMBDA x : x # c)

(* ---------------------------------------------------------------- udp: one exchange per pooled socket *)
\* what reader c makes of the datagrams buffered in its socket: <<"got", m, rest>> or <<"wait", rest>>
RECURSIVE UdpDrain(_, _)
UdpDrain(c, buf) ==
  IF buf = <<>> THEN [r |-> "wait", m |-> [id |-> 0, q |-> ""], rest |-> <<>>]
  ELSE IF Head(buf).id # Cid[c] THEN UdpDrain(c, Tail(buf))        \* stale: another id
  ELSE [r |-> "got", m |-> Head(buf), rest |-> Tail(buf)]

\* leader c completes on socket s with message m; the socket goes back to the pool with what is left in its buffer
UdpComplete(c, s, m, rest, sk) ==
  LET g == sk[s].gen
      sk1 == [sk EXCEPT ![s].st = "idle", ![s].buf = rest, ![s].user = NoC]
      il1 == [idle EXCEPT ![g] = Append(@, s)]
  IN IF Accepts(c, m) THEN Finish(c, TRUE, m, g, FALSE, sk1, il1, conn)
     ELSE Finish(c, FALSE, m, g, TRUE, sk1, il1, conn)               \* rejected answer: an error like any other, udp forwarders are retired on errors

(* ---------------------------------------------------------------- tcp: one pipelined connection *)
FreeWid(cn) == CHOOSE w \in 0..MaxWid : cn.pending[w] = NoC /\ \A v \in 0..MaxWid : cn.pending[v] = NoC => w <= v
WidOf(c) == CHOOSE w \in 0..MaxWid : conn.pending[w] = c

(* ---------------------------------------------------------------- actions *)
Rec(ev, c, k, q) == [ev |-> ev, c |-> c, k |-> k, q |-> q]
Obs == [replies |-> reply', nreqs |-> Len(reqs'), closed |-> [g \in 1..MaxGen |-> fw'[g].closed]]
Log(r) == hist' = Append(hist, [e |-> r, obs |-> Obs])

ArriveHit(c) ==
  /\ cst[c] = "new" /\ cache[Qof[c]] # ""
  /\ cst' = [cst EXCEPT ![c] = "done"]
  /\ reply' = [reply EXCEPT ![c] = [kind |-> "msg", id |-> Cid[c], q |-> cache[Qof[c]]]]
  /\ UNCHANGED <<flight, waiters, cache, gen, ngen, fw, socks, idle, conn, reqs, order, nsends>>
  /\ Log(Rec("arrive", c, 0, ""))
ArriveJoin(c) ==
  /\ cst[c] = "new" /\ cache[Qof[c]] = "" /\ flight[Qof[c]] # NoC
  /\ cst' = [cst EXCEPT ![c] = "waiter"]
  /\ waiters' = [waiters EXCEPT ![Qof[c]] = @ \cup {c}]
  /\ UNCHANGED <<reply, flight, cache, gen, ngen, fw, socks, idle, conn, reqs, order, nsends>>
  /\ Log(Rec("arrive", c, 0, ""))
HasFreshGen == ngen < MaxGen
FreshGen == ngen + 1

ArriveLeadUdp(c) ==
  /\ Transport = "udp" /\ cst[c] = "new" /\ cache[Qof[c]] = "" /\ flight[Qof[c]] = NoC
  /\ gen # 0 \/ HasFreshGen
  /\ LET g == IF gen = 0 THEN FreshGen ELSE gen
         useIdle == idle[g] # <<>>
         fresh == CHOOSE s \in 1..MaxSocks : socks[s].st = "unused" /\ \A t \in 1..MaxSocks : socks[t].st = "unused" => s <= t
         s == IF useIdle THEN Head(idle[g]) ELSE fresh
         il1 == IF useIdle THEN [idle EXCEPT ![g] = Tail(@)] ELSE idle
         d == UdpDrain(c, socks[s].buf)
         rq == Append(reqs, [ch |-> s, id |-> Cid[c], q |-> Qof[c]])
     IN /\ useIdle \/ \E t \in 1..MaxSocks : socks[t].st = "unused"
        /\ reqs' = rq
        /\ IF d.r = "wait"
           THEN /\ cst' = [cst EXCEPT ![c] = "leader"]
                /\ flight' = [flight EXCEPT ![Qof[c]] = c]
                /\ socks' = [socks EXCEPT ![s] = [st |-> "busy", buf |-> <<>>, gen |-> g, user |-> c]]
                /\ idle' = il1
                /\ gen' = g /\ ngen' = IF gen = 0 THEN ngen + 1 ELSE ngen
                /\ fw' = [fw EXCEPT ![g].inFlight = @ + 1]
                /\ order' = Append(order, c)
                /\ UNCHANGED <<reply, waiters, cache, conn>>
           ELSE \* an answer with this id was already waiting in the borrowed socket
                LET sk0 == [socks EXCEPT ![s] = [st |-> "busy", buf |-> <<>>, gen |-> g, user |-> c]]
                    sk1 == [sk0 EXCEPT ![s].st = "idle", ![s].buf = d.rest, ![s].user = NoC]
                    f0 == [fw EXCEPT ![g].inFlight = @ + 1]
                    ok == Accepts(c, d.m)
                    f1 == EndUse(IF ok THEN f0 ELSE [f0 EXCEPT ![g].retired = TRUE], g)
                    closedNow == f1[g].closed > fw[g].closed
                IN /\ cst' = [cst EXCEPT ![c] = "done"]
                   /\ reply' = [reply EXCEPT ![c] = IF ok THEN [kind |-> "msg", id |-> Cid[c], q |-> d.m.q] ELSE [kind |-> "err", id |-> 0, q |-> ""]]
                   /\ cache' = IF ok /\ AnswerRcode = "ok" THEN [cache EXCEPT ![Qof[c]] = d.m.q] ELSE cache
                   /\ fw' = f1
                   /\ gen' = IF ok THEN g ELSE 0
                   /\ ngen' = IF gen = 0 THEN ngen + 1 ELSE ngen
                   /\ socks' = IF closedNow THEN CloseSocks(sk1, g) ELSE sk1
                   /\ idle' = IF closedNow THEN CloseIdle(il1, sk1, g) ELSE [il1 EXCEPT ![g] = Append(@, s)]
                   /\ UNCHANGED <<flight, waiters, conn, order>>
  /\ UNCHANGED nsends
  /\ Log(Rec("arrive", c, 0, ""))

ArriveLeadTcp(c) ==
  /\ Transport = "tcp" /\ cst[c] = "new" /\ cache[Qof[c]] = "" /\ flight[Qof[c]] = NoC
  /\ gen # 0 \/ HasFreshGen
  /\ LET g == IF gen = 0 THEN FreshGen ELSE gen
         cn0 == IF conn.open /\ conn.gen = g THEN conn ELSE [n |-> conn.n + 1, open |-> TRUE, pending |-> [w \in 0..MaxWid |-> NoC], gen |-> g]
         w == FreeWid(cn0)
     IN /\ \E v \in 0..MaxWid : cn0.pending[v] = NoC
        /\ conn' = [cn0 EXCEPT !.pending[w] = c]
        /\ reqs' = Append(reqs, [ch |-> cn0.n, id |-> w, q |-> Qof[c]])
        /\ cst' = [cst EXCEPT ![c] = "leader"]
        /\ flight' = [flight EXCEPT ![Qof[c]] = c]
        /\ gen' = g /\ ngen' = IF gen = 0 THEN ngen + 1 ELSE ngen
        /\ fw' = [fw EXCEPT ![g].inFlight = @ + 1]
        /\ order' = Append(order, c)
  /\ UNCHANGED <<reply, waiters, cache, socks, idle, nsends>>
  /\ Log(Rec("arrive", c, 0, ""))

\* the server answers request number k with an answer for question q
SendUdp(k, q) ==
  /\ Transport = "udp" /\ nsends < MaxSends /\ k \in 1..Len(reqs)
  /\ LET s == reqs[k].ch
         m == [id |-> reqs[k].id, q |-> q]
     IN /\ socks[s].st \in {"idle", "busy"}
        /\ nsends' = nsends + 1
        /\ IF socks[s].st = "busy" /\ m.id = Cid[socks[s].user]
           THEN UdpComplete(socks[s].user, s, m, <<>>, socks) /\ UNCHANGED reqs
           ELSE IF socks[s].st = "busy"
           THEN UNCHANGED <<cst, reply, flight, waiters, cache, gen, ngen, fw, socks, idle, conn, reqs, order>>     \* stale for the current reader: dropped
           ELSE /\ socks' = [socks EXCEPT ![s].buf = Append(@, m)]                                          \* nobody reads: it waits in the socket
                /\ UNCHANGED <<cst, reply, flight, waiters, cache, gen, ngen, fw, idle, conn, reqs, order>>
  /\ Log(Rec("send", NoC, k, q))

SendTcp(k, q) ==
  /\ Transport = "tcp" /\ nsends < MaxSends /\ k \in 1..Len(reqs)
  /\ conn.open /\ reqs[k].ch = conn.n
  /\ nsends' = nsends + 1
  /\ LET w == reqs[k].id
         c == conn.pending[w]
         m == [id |-> w, q |-> q]
     IN IF c = NoC
        THEN UNCHANGED <<cst, reply, flight, waiters, cache, gen, ngen, fw, socks, idle, conn, reqs, order>>        \* no pending slot: dropped by the read loop
        ELSE LET cn1 == [conn EXCEPT !.pending[w] = NoC] IN
             /\ (IF Accepts(c, m) THEN Finish(c, TRUE, m, conn.gen, FALSE, socks, idle, cn1)
                 ELSE Finish(c, FALSE, m, conn.gen, FALSE, socks, idle, cn1))       \* stream forwarders are not retired on an error
             /\ UNCHANGED reqs
  /\ Log(Rec("send", NoC, k, q))

\* the deadline of the oldest leader passes
Timeout(c) ==
  /\ order # <<>> /\ Head(order) = c /\ cst[c] = "leader"
  /\ IF Transport = "udp"
     THEN LET s == CHOOSE t \in 1..MaxSocks : socks[t].st = "busy" /\ socks[t].user = c
              sk1 == [socks EXCEPT ![s].st = "idle", ![s].user = NoC]          \* direct sockets survive a timeout and go back to the pool ...
          IN Finish(c, FALSE, [id |-> 0, q |-> ""], socks[s].gen, TRUE, sk1, [idle EXCEPT ![socks[s].gen] = Append(@, s)], conn)   \* ... but the forwarder is retired
     ELSE /\ \A w \in 0..MaxWid : conn.pending[w] \in {NoC, c}                   \* (others on the connection would re-send in an order the model does not fix)
          /\ Finish(c, FALSE, [id |-> 0, q |-> ""], conn.gen, FALSE, socks, idle,
                    [conn EXCEPT !.open = FALSE, !.pending = [w \in 0..MaxWid |-> NoC]])   \* the pipelined connection is recycled
  /\ UNCHANGED <<reqs, nsends>>
  /\ Log(Rec("timeout", c, 0, ""))

Next == \/ \E c \in Clients : ArriveHit(c) \/ ArriveJoin(c) \/ ArriveLeadUdp(c) \/ ArriveLeadTcp(c) \/ Timeout(c)
        \/ \E k \in 1..Len(reqs), q \in Questions : SendUdp(k, q) \/ SendTcp(k, q)
Spec == Init /\ [][Next]_vars

(* ---------------------------------------------------------------- property layer *)
ReplyMatches == \A c \in Clients : reply[c].kind = "msg" => (reply[c].id = Cid[c] /\ reply[c].q = Qof[c])
CacheTruthful == \A q \in Questions : cache[q] \in {"", q}
OneResolution == \A q \in Questions : flight[q] # NoC => (cst[flight[q]] = "leader" /\ \A w \in waiters[q] : cst[w] = "waiter")
ClosedOnce == \A g \in 1..MaxGen : fw[g].closed <= 1 /\ (fw[g].closed = 1 => (fw[g].retired /\ fw[g].inFlight = 0))
RetiredGetsClosed == \A g \in 1..MaxGen : (fw[g].retired /\ fw[g].inFlight = 0) => fw[g].closed = 1
Done == \A c \in Clients : cst[c] = "done"
View == <<cst, reply, flight, waiters, cache, gen, ngen, fw, socks, idle, conn, reqs, order, nsends>>

Behaviour == [transport |-> Transport, hist |-> hist, cid |-> Cid, qof |-> Qof, rcode |-> AnswerRcode]
Emit == (Done /\ nsends = MaxSends) => PrintT(<<"BEHAVIOUR", ToJson(Behaviour)>>)
EmitAny == (Done) => PrintT(<<"BEHAVIOUR", ToJson(Behaviour)>>)

MCClients == {"c1", "c2", "c3"}
MCCid == [c \in MCClients |-> IF c = "c3" THEN 9 ELSE 7]            \* c1 and c2 collide
MCQof == [c \in MCClients |-> IF c = "c2" THEN "qb" ELSE "qa"]       \* c1 and c3 ask the same
MC4Clients == {"c1", "c2", "c3", "c4"}
MC4Cid == [c \in MC4Clients |-> IF c \in {"c3", "c4"} THEN 9 ELSE 7]
MC4Qof == [c \in MC4Clients |-> IF c \in {"c2", "c4"} THEN "qb" ELSE "qa"]
=============================================================================
