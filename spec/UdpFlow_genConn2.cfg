SPECIFICATION Spec
CONSTANTS
  EFlows = {"A"}
  NFlows = {}
  MaxEvents = 5
  MaxConns = 5
  MaxT6 = 1
  MaxPk = 5
  RRs = {"cpr0"}
  SecondConn = TRUE
  ScopeSensitive = FALSE
  Faults = {"rexit", "tick"}
INVARIANTS NoDup Conservation HeldAreInitials BatchOrdered CompleteAtEnd NameRoutes OneTransport Emit
