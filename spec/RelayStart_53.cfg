SPECIFICATION Spec
CONSTANTS
  Port = 53
  MaxEvents = 5
INVARIANTS ServerSpeaksWhenConnected Emit
