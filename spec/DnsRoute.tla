------------------------------ MODULE DnsRoute ------------------------------
(* C07 - DNS questions and answers are routed by the first matching DNS rule; re-asks are bounded
   (component/dns: request_routing.go, response_routing.go, dns.go; control/dns_control.go: HandleWithResponseWriter_,
    handleWithResponseWriter_, dialSend).

   PROPERTY LAYER
     Decide(rules, fb, ctx)   outcome of the first rule, top to bottom, whose &&-joined conditions all hold (values inside
                              a condition are alternatives, '!' negates the condition), the fallback otherwise.
                              request conditions : qname (full / suffix / keyword / regex), qtype
                              response conditions: qname, qtype, ip (any address record of the answer), upstream (the
                                                   configured upstream the answer came from - by declaration, not by URL)
     Handle(q)                the controller: route the question; reject => empty reply and the cache family is purged;
                              otherwise cache (scoped by the routed upstream), otherwise ask; every answer goes through the
                              response rules: accept / reject (emptied) / ask another upstream, at most MaxDepth asks.
   IMPLEMENTATION LAYER
     Lower + DScan            the match-set arrays and sentinel scans of RequestMatcher.Match / ResponseMatcher.Match
     Optimize                 MergeAndSortRulesOptimizer ; DeduplicateParamsOptimizer as run by dns.New

   TLC checks ScanRefines, OptimizePreserves, BoundedReask, RejectBeatsCache, RejectPurges and emits
     VECTOR     per configuration: every context with the expected decisions (matcher level)
     BEHAVIOUR  configuration + client questions, each with the expected upstream conversation and reply. *)
EXTENDS CidrOps, DomainOps, TLC, Json

CONSTANTS MaxReqRules, MaxRespRules, MaxConds,
          MaxDepth,       \* control.MaxDnsLookupDepth
          MaxQueries,
          Level           \* "single": full condition universe; "deep": reduced universe

(* ------------------------------------------------------------------ universe *)
Ups == <<"u1", "u2", "u3">>                     \* declaration order in dns.upstream
SrvOf(u) == IF u = "u2" THEN "s2" ELSE "s1"     \* u3 is declared with the same URL as u1; "asis" is that server too
UpSet == {"u1", "u2", "u3"}

A4(a, b, c, d) == Adr(4, <<a, b, c, d>>)
V6(last) == Adr(6, <<253,0,0,0,0,0,0,0,0,0,0,0,0,0,0,last>>)
Doc6 == Adr(6, <<32,1,13,184,0,0,0,0,0,0,0,0,0,0,0,1>>)
NoAdr == Adr(0, <<>>)
P4(a, b, c, d, n) == Pfx(4, <<a, b, c, d>>, n)

DomAB == <<"a",".","b">>
DomXAB == <<"x",".","a",".","b">>
DomB == <<"b">>
DomUp == <<"A",".","B",".">>
Names == {DomAB, DomXAB, DomB, DomUp}
QTypes == {"A", "AAAA", "TXT"}

Rec(t, ip) == [t |-> t, ip |-> ip]
AnswerSeqs == { <<>>, <<Rec("A", A4(10,1,2,3))>>, <<Rec("A", A4(11,0,0,0))>>, <<Rec("AAAA", V6(1))>>, <<Rec("AAAA", Doc6)>>,
                <<Rec("CNAME", NoAdr), Rec("A", A4(11,0,0,0)), Rec("A", A4(10,0,0,0))>>, <<Rec("TXT", NoAdr)>>,
                <<Rec("AAAA", V6(1)), Rec("A", A4(11,0,0,0))>>,
                <<Rec("A", A4(0,0,0,0))>>, <<Rec("AAAA", Adr(6, <<0,0,0,0,0,0,0,0,0,0,0,0,0,0,0,0>>))>>,      \* sinkholed answers
                <<Rec("A", A4(0,0,0,0)), Rec("A", A4(11,0,0,0))>> }
\* what each server answers (independent of the name): two profiles
AnsOf(p, srv, qt) ==
  IF p = 1 THEN
     CASE srv = "s1" /\ qt = "A" -> <<Rec("A", A4(10,1,2,3))>>
       [] srv = "s1" /\ qt = "AAAA" -> <<Rec("AAAA", V6(1))>>
       [] srv = "s2" /\ qt = "A" -> <<Rec("A", A4(11,0,0,0))>>
       [] srv = "s2" /\ qt = "AAAA" -> <<>>
       [] OTHER -> <<Rec("TXT", NoAdr)>>
  ELSE
     CASE srv = "s1" /\ qt = "A" -> <<Rec("CNAME", NoAdr), Rec("A", A4(11,0,0,0)), Rec("A", A4(10,0,0,0))>>
       [] srv = "s1" /\ qt = "AAAA" -> <<Rec("AAAA", Doc6)>>
       [] srv = "s2" /\ qt = "A" -> <<Rec("A", A4(10,1,2,3))>>
       [] srv = "s2" /\ qt = "AAAA" -> <<Rec("AAAA", V6(1)), Rec("A", A4(11,0,0,0))>>
       [] OTHER -> <<>>
Profiles == {1, 2}

(* condition values *)
QNameVals == { <<[key |-> "suffix", vals |-> <<DomAB>>]>>, <<[key |-> "full", vals |-> <<DomAB>>]>>,
               <<[key |-> "keyword", vals |-> <<DomB>>]>>,
               <<[key |-> "regex", vals |-> <<[pre |-> TRUE, post |-> FALSE, alts |-> <<<<"x",".">>>>]>>]>>,
               <<[key |-> "full", vals |-> <<DomB>>], [key |-> "suffix", vals |-> <<<<".","a",".","b">>>>]>>,
               <<[key |-> "suffix", vals |-> <<DomB, DomAB>>]>> }
\* (defined after QNameVals on purpose: TLC orders record fields by first appearance of the field name, and the
\*  comparison of two domain groups must meet `key` before `vals`)
G(vs) == <<[key |-> "", vals |-> vs]>>
QTypeVals == { <<"a">>, <<"aaaa">>, <<"a", "AAAA">>, <<"16">>, <<"0x1c">>, <<"txt", "28">> }
TypeOfVal(v) == CASE v \in {"a", "A", "1"} -> "A" [] v \in {"aaaa", "AAAA", "28", "0x1c"} -> "AAAA" [] OTHER -> "TXT"
IpVals == { <<P4(10,0,0,0,8)>>, <<P4(10,1,2,3,32)>>, <<P4(0,0,0,0,0)>>, <<Pfx(6, V6(0).b, 8)>>, <<Pfx(6, V6(0).b, 0)>>,
            <<Pfx(6, V6(1).b, 128), P4(11,0,0,0,8)>>,
            <<P4(0,0,0,0,32)>>, <<Pfx(6, <<0,0,0,0,0,0,0,0,0,0,0,0,0,0,0,0>>, 128), P4(0,0,0,0,8)>> }
UpVals == { <<"u1">>, <<"u2">>, <<"u3">>, <<"u1", "u2">> }

Cond(fn, not, groups) == [fn |-> fn, not |-> not, groups |-> groups]
CondsOf(fn) == CASE fn = "qname" -> QNameVals
                 [] fn = "qtype" -> {G(v) : v \in QTypeVals}
                 [] fn = "ip" -> {G(v) : v \in IpVals}
                 [] fn = "upstream" -> {G(v) : v \in UpVals}
Reduced(fn) == CASE fn = "qname" -> {<<[key |-> "suffix", vals |-> <<DomAB>>]>>}
                 [] fn = "qtype" -> {G(<<"aaaa">>)}
                 [] fn = "ip" -> {G(<<P4(10,0,0,0,8)>>)}
                 [] fn = "upstream" -> {G(<<"u1">>), G(<<"u2">>), G(<<"u3">>)}
ReqFns == {"qname", "qtype"}
RespFns == {"qname", "qtype", "ip", "upstream"}
Universe(fns) == UNION {{Cond(fn, n, g) : n \in BOOLEAN, g \in (IF Level = "single" THEN CondsOf(fn) ELSE Reduced(fn))} : fn \in fns}
ReqOuts == IF Level = "single" THEN {"u1", "u2", "u3", "asis", "reject"} ELSE {"u1", "u2", "asis", "reject"}
RespOuts == IF Level = "single" THEN {"accept", "reject", "u1", "u2", "u3"} ELSE {"accept", "reject", "u1", "u2"}
ReqFallbacks == {"asis", "u1"}
RespFallbacks == {"accept", "u1"}

(* ------------------------------------------------------------------ property layer *)
Ctx(name, qt, ans, from) == [name |-> name, qtype |-> qt, ans |-> ans, from |-> from]
IpsOf(ans) == {ans[i].ip : i \in {j \in 1..Len(ans) : ans[j].t \in {"A", "AAAA"}}}

AtomHolds(fn, key, v, c) ==
    CASE fn = "qname"    -> PatM(key, v, c.name)
      [] fn = "qtype"    -> TypeOfVal(v) = c.qtype
      [] fn = "ip"       -> \E a \in IpsOf(c.ans) : PfxContains(v, a)
      [] fn = "upstream" -> v = c.from
AnyHolds(cd, c) == \E gi \in 1..Len(cd.groups) : \E vi \in 1..Len(cd.groups[gi].vals) :
                        AtomHolds(cd.fn, cd.groups[gi].key, cd.groups[gi].vals[vi], c)
CondHolds(cd, c) == AnyHolds(cd, c) # cd.not
RuleHolds(r, c) == \A i \in 1..Len(r.conds) : CondHolds(r.conds[i], c)
RECURSIVE DecideFrom(_, _, _, _)
DecideFrom(rules, fb, c, i) ==
    IF i > Len(rules) THEN fb
    ELSE IF RuleHolds(rules[i], c) THEN rules[i].out ELSE DecideFrom(rules, fb, c, i + 1)
Decide(rules, fb, c) == DecideFrom(rules, fb, c, 1)

(* ------------------------------------------------------------------ implementation layer: lowering and scan *)
Entry(type, not, ob, out, atom) == [type |-> type, not |-> not, ob |-> ob, out |-> out, atom |-> atom]
GroupEntries(cd, g, tailOb, out) ==
    IF cd.fn \in {"qtype", "upstream"}                                 \* one match-set per value, OR-joined
    THEN [vi \in 1..Len(g.vals) |->
            Entry(cd.fn, cd.not, IF vi = Len(g.vals) THEN tailOb ELSE "OR", out, [key |-> g.key, vals |-> <<g.vals[vi]>>])]
    ELSE <<Entry(cd.fn, cd.not, tailOb, out, [key |-> g.key, vals |-> g.vals])>>   \* a domain set / an address trie
RECURSIVE CondEntries(_, _, _, _)
CondEntries(cd, gi, lastOb, out) ==
    IF gi > Len(cd.groups) THEN <<>>
    ELSE GroupEntries(cd, cd.groups[gi], IF gi = Len(cd.groups) THEN lastOb ELSE "OR", out) \o CondEntries(cd, gi + 1, lastOb, out)
RECURSIVE RuleEntries(_, _)
RuleEntries(r, ci) ==
    IF ci > Len(r.conds) THEN <<>>
    ELSE CondEntries(r.conds[ci], 1, IF ci = Len(r.conds) THEN "OUT" ELSE "AND", r.out) \o RuleEntries(r, ci + 1)
RECURSIVE ProgEntries(_, _)
ProgEntries(rules, i) == IF i > Len(rules) THEN <<>> ELSE RuleEntries(rules[i], 1) \o ProgEntries(rules, i + 1)
Lower(rules, fb) == ProgEntries(rules, 1) \o <<Entry("fallback", FALSE, "OUT", fb, [key |-> "", vals |-> <<>>])>>

EntryGood(e, c) == IF e.type = "fallback" THEN TRUE
                   ELSE \E vi \in 1..Len(e.atom.vals) : AtomHolds(e.type, e.atom.key, e.atom.vals[vi], c)
RECURSIVE DScanFrom(_, _, _, _, _)
DScanFrom(es, c, i, good, bad) ==
    IF i > Len(es) THEN "ERR"
    ELSE LET e == es[i]
             good1 == IF bad \/ good THEN good ELSE EntryGood(e, c)
             endSub == e.ob # "OR"
             bad1 == IF endSub /\ (good1 = e.not) THEN TRUE ELSE bad
             good2 == IF endSub THEN FALSE ELSE good1
         IN IF e.ob = "OUT"
            THEN IF ~bad1 THEN e.out ELSE DScanFrom(es, c, i + 1, good2, FALSE)
            ELSE DScanFrom(es, c, i + 1, good2, bad1)
DScan(es, c) == DScanFrom(es, c, 1, FALSE, FALSE)

(* optimisers (as in RuleScan.tla, for the DNS function names; negated neighbours are not merged) *)
FnRank(fn) == CASE fn = "ip" -> 1 [] fn = "qname" -> 2 [] fn = "qtype" -> 3 [] fn = "upstream" -> 4
RECURSIVE InsertCond(_, _)
InsertCond(sorted, cd) ==
    IF sorted = <<>> THEN <<cd>>
    ELSE IF FnRank(cd.fn) < FnRank(Head(sorted).fn) THEN <<cd>> \o sorted
    ELSE <<Head(sorted)>> \o InsertCond(Tail(sorted), cd)
RECURSIVE SortConds(_)
SortConds(cs) == IF cs = <<>> THEN <<>> ELSE InsertCond(SortConds(SubSeq(cs, 1, Len(cs) - 1)), cs[Len(cs)])
SortAnd(rules) == [i \in 1..Len(rules) |-> [rules[i] EXCEPT !.conds = SortConds(@)]]
Mergeable(r1, r2) == /\ Len(r1.conds) = 1 /\ Len(r2.conds) = 1
                     /\ r1.conds[1].fn = r2.conds[1].fn
                     /\ ~r1.conds[1].not /\ ~r2.conds[1].not
                     /\ r1.out = r2.out
RECURSIVE AddGroup(_, _)
AddGroup(gs, g) == IF gs = <<>> THEN <<g>>
                   ELSE IF Head(gs).key = g.key THEN <<[Head(gs) EXCEPT !.vals = @ \o g.vals]>> \o Tail(gs)
                   ELSE <<Head(gs)>> \o AddGroup(Tail(gs), g)
RECURSIVE AddGroups(_, _)
AddGroups(gs, more) == IF more = <<>> THEN gs ELSE AddGroups(AddGroup(gs, Head(more)), Tail(more))
MergeTwo(r1, r2) == [r1 EXCEPT !.conds = <<[r1.conds[1] EXCEPT !.groups = AddGroups(@, r2.conds[1].groups)]>>]
RECURSIVE MergeFrom(_, _, _)
MergeFrom(acc, curr, rest) ==
    IF rest = <<>> THEN Append(acc, curr)
    ELSE IF Mergeable(curr, Head(rest)) THEN MergeFrom(acc, MergeTwo(curr, Head(rest)), Tail(rest))
    ELSE MergeFrom(Append(acc, curr), Head(rest), Tail(rest))
MergeAdjacent(rules) == IF rules = <<>> THEN <<>> ELSE MergeFrom(<<>>, rules[1], Tail(rules))
Optimize(rules) == MergeAdjacent(SortAnd(rules))

(* ------------------------------------------------------------------ the controller *)
VARIABLES req, resp,        \* request / response rule lists
          cur, phase,       \* rule being written; "req" | "resp" | "run"
          reqFb, respFb, profile,
          cache,            \* set of [name, qtype, scope, ans]: answers kept, scoped by the upstream the question was routed to
          swapped,          \* a reload exchanged the URLs of u1 (and u3) and u2: the declarations keep their names and positions
          hist
vars == <<req, resp, cur, phase, reqFb, respFb, profile, cache, swapped, hist>>

Init == /\ req = <<>> /\ resp = <<>> /\ cur = <<>> /\ phase = "req"
        /\ reqFb \in (IF MaxReqRules = 0 /\ MaxQueries = 0 THEN {"asis"} ELSE ReqFallbacks)        \* (vector-only configurations
        /\ respFb \in (IF MaxRespRules = 0 /\ MaxQueries = 0 THEN {"accept"} ELSE RespFallbacks)   \*  do not multiply by the unused side)
        /\ profile \in (IF MaxQueries = 0 THEN {1} ELSE Profiles)
        /\ cache = {} /\ swapped = FALSE /\ hist = <<>>

AddCond == /\ phase \in {"req", "resp"} /\ Len(cur) < MaxConds
           /\ IF phase = "req" THEN Len(req) < MaxReqRules ELSE Len(resp) < MaxRespRules
           /\ \E cd \in Universe(IF phase = "req" THEN ReqFns ELSE RespFns) : cur' = Append(cur, cd)
           /\ UNCHANGED <<req, resp, phase, reqFb, respFb, profile, cache, swapped, hist>>
CloseRule == /\ cur # <<>>
             /\ \/ /\ phase = "req" /\ \E o \in ReqOuts : req' = Append(req, [conds |-> cur, out |-> o]) /\ UNCHANGED resp
                \/ /\ phase = "resp" /\ \E o \in RespOuts : resp' = Append(resp, [conds |-> cur, out |-> o]) /\ UNCHANGED req
             /\ cur' = <<>>
             /\ UNCHANGED <<phase, reqFb, respFb, profile, cache, swapped, hist>>
NextPhase == /\ cur = <<>> /\ phase \in {"req", "resp"}
             /\ phase' = IF phase = "req" THEN "resp" ELSE "run"
             /\ UNCHANGED <<req, resp, cur, reqFb, respFb, profile, cache, swapped, hist>>

Other(sv) == IF sv = "s1" THEN "s2" ELSE "s1"
SrvNow(u) == IF swapped THEN Other(SrvOf(u)) ELSE SrvOf(u)          \* which server the declaration points at in this generation
ScopeOf(o) == IF o = "asis" THEN "asis" ELSE SrvNow(o)              \* an answer is reusable only for questions sent to the same resolver
ServerOf(o) == IF o = "asis" THEN "s1" ELSE SrvNow(o)
\* the upstream conversation of one cache miss: steps = <<[srv, from, ans, dec]>>
RECURSIVE Resolve(_, _, _, _)
Resolve(q, up, depth, steps) ==
    IF depth >= MaxDepth THEN [steps |-> steps, kind |-> "error", ans |-> <<>>]
    ELSE LET srv == ServerOf(up)
             ans == AnsOf(profile, srv, q.qtype)
             d == Decide(resp, respFb, Ctx(q.name, q.qtype, ans, up))
             st == Append(steps, [srv |-> srv, from |-> up, ans |-> ans, dec |-> d])
         IN IF d = "accept" THEN [steps |-> st, kind |-> "reply", ans |-> ans]
            ELSE IF d = "reject" THEN [steps |-> st, kind |-> "reply", ans |-> <<>>]
            ELSE Resolve(q, d, depth + 1, st)

Family(q) == {e \in cache : e.name = Norm(q.name) /\ e.qtype = q.qtype}
Handle(q) ==
    LET o == Decide(req, reqFb, Ctx(q.name, q.qtype, <<>>, ""))
        hits == {e \in Family(q) : e.scope = ScopeOf(o)}
    IN IF o = "reject"
       THEN /\ cache' = cache \ Family(q)
            /\ hist' = Append(hist, [q |-> q, route |-> o, src |-> "reject", steps |-> <<>>, kind |-> "reply", ans |-> <<>>])
       ELSE IF hits # {}
       THEN /\ UNCHANGED cache
            /\ hist' = Append(hist, [q |-> q, route |-> o, src |-> "cache", steps |-> <<>>, kind |-> "reply", ans |-> (CHOOSE e \in hits : TRUE).ans])
       ELSE LET r == Resolve(q, o, 0, <<>>) IN
            /\ cache' = IF r.kind = "reply" THEN cache \cup {[name |-> Norm(q.name), qtype |-> q.qtype, scope |-> ScopeOf(o), ans |-> r.ans]} ELSE cache
            /\ hist' = Append(hist, [q |-> q, route |-> o, src |-> "upstream", steps |-> r.steps, kind |-> r.kind, ans |-> r.ans])
\* an answer carried over from before (a previous configuration generation, CloneCacheForReload / RestoreReloadCache):
\* this is how a cached answer can exist for a question the current rules reject
OldAnswer == <<Rec("A", A4(9,9,9,9))>>
Preload(q, scope) ==
    /\ ~\E e \in Family(q) : e.scope = scope
    /\ cache' = cache \cup {[name |-> Norm(q.name), qtype |-> q.qtype, scope |-> scope, ans |-> OldAnswer]}
    /\ hist' = Append(hist, [q |-> q, route |-> scope, src |-> "preload", steps |-> <<>>, kind |-> "reply", ans |-> OldAnswer])
Questions == IF Level = "single" THEN {[name |-> n, qtype |-> t] : n \in Names, t \in QTypes}
             ELSE {[name |-> n, qtype |-> t] : n \in {DomAB, DomB, DomUp}, t \in {"A", "AAAA"}}
Ask == /\ phase = "run" /\ Len(hist) < MaxQueries
       /\ \/ /\ \E q \in Questions : Handle(q) \/ \E sc \in {"asis", "s1", "s2"} : Preload(q, sc)
             /\ UNCHANGED swapped
          \/ /\ swapped' = ~swapped        \* reload with the upstream URLs exchanged; the cache is carried over
             /\ UNCHANGED cache
             /\ hist' = Append(hist, [q |-> [name |-> <<>>, qtype |-> "A"], route |-> "", src |-> "reload", steps |-> <<>>, kind |-> "reply", ans |-> <<>>])
       /\ UNCHANGED <<req, resp, cur, phase, reqFb, respFb, profile>>

Next == AddCond \/ CloseRule \/ NextPhase \/ Ask
Spec == Init /\ [][Next]_vars

(* ------------------------------------------------------------------ properties *)
ReqCtxs == {Ctx(n, t, <<>>, "") : n \in Names, t \in QTypes}
RespCtxs == {Ctx(n, t, a, f) : n \in (IF Level = "single" THEN Names ELSE {DomAB, DomB}), t \in QTypes,
                               a \in AnswerSeqs, f \in UpSet \cup {"asis"}}
Ready == phase = "run" /\ hist = <<>>
ScanRefines == Ready => /\ \A c \in ReqCtxs : DScan(Lower(req, reqFb), c) = Decide(req, reqFb, c)
                        /\ \A c \in RespCtxs : DScan(Lower(resp, respFb), c) = Decide(resp, respFb, c)
OptimizePreserves == Ready => /\ \A c \in ReqCtxs : Decide(Optimize(req), reqFb, c) = Decide(req, reqFb, c)
                              /\ \A c \in RespCtxs : Decide(Optimize(resp), respFb, c) = Decide(resp, respFb, c)
\* no rule set makes the controller ask more than MaxDepth times for one client question
BoundedReask == \A i \in 1..Len(hist) : Len(hist[i].steps) <= MaxDepth /\ (hist[i].kind = "error" => Len(hist[i].steps) = MaxDepth)
\* a rejected question is answered empty, without asking anybody, whatever the cache holds
RejectBeatsCache == \A i \in 1..Len(hist) : hist[i].src = "reject" => (hist[i].ans = <<>> /\ hist[i].steps = <<>> /\ hist[i].kind = "reply")
\* ... and nothing of that name and type stays cached
RejectPurges == (hist # <<>> /\ hist[Len(hist)].src = "reject") => Family(hist[Len(hist)].q) = {}
\* a reply is what the last asked upstream said, or empty
ReplyIsLastAnswer == \A i \in 1..Len(hist) : (hist[i].src = "upstream" /\ hist[i].kind = "reply") =>
                        LET s == hist[i].steps[Len(hist[i].steps)] IN
                        (s.dec = "accept" /\ hist[i].ans = s.ans) \/ (s.dec = "reject" /\ hist[i].ans = <<>>)
\* every step but the last was sent on by a response rule naming the next upstream
ChainFollowsRules == \A i \in 1..Len(hist) : \A k \in 1..(Len(hist[i].steps) - 1) : hist[i].steps[k].dec = hist[i].steps[k + 1].from
View == <<req, resp, cur, phase, reqFb, respFb, profile, cache, swapped, Len(hist)>>

(* ------------------------------------------------------------------ emission *)
Config == [req |-> req, resp |-> resp, reqFb |-> reqFb, respFb |-> respFb, profile |-> profile]
Vector == LET rq == SetToSeq(ReqCtxs)  rs == SetToSeq(RespCtxs) IN
          [cfg |-> Config,
           reqCases |-> [i \in 1..Len(rq) |-> [ctx |-> rq[i], exp |-> Decide(req, reqFb, rq[i])]],
           respCases |-> [i \in 1..Len(rs) |-> [ctx |-> rs[i], exp |-> Decide(resp, respFb, rs[i])]]]
EmitVector == Ready => PrintT(<<"VECTOR", ToJson(Vector)>>)
Behaviour == [cfg |-> Config, hist |-> hist]
EmitBehaviour == (phase = "run" /\ Len(hist) = MaxQueries /\ MaxQueries > 0) => PrintT(<<"BEHAVIOUR", ToJson(Behaviour)>>)
=============================================================================
