SPECIFICATION Spec
CONSTANTS
  Nodes <- MCNodes
  Domains <- MCDomains
  AddrOf <- MCAddrOf
  ThrProbe <- MCThrProbe
  ThrTraffic <- MCThrTraffic
  EscalateAt = 3
  Bursts <- MCBursts
  Revivable <- MCRevivable
  MaxHist = 5
VIEW View
INVARIANTS Thresholds DeathsBounded
PROPERTIES DeathRule ReviveRule MutedRule
