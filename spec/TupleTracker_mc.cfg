SPECIFICATION Spec
CONSTANTS
  Keys = {"k1", "k2"}
  Procs = {"p1", "p2", "p3"}
  MaxEvents = 7
  MaxRefs = 2
  KernAuto = FALSE
VIEW View
INVARIANTS RefsMatch NoLeak NoStuckWaiter
PROPERTIES NoEarlyDelete Returns
