----------------------------- MODULE DomainOps -----------------------------
(* Pure operators of the domain-pattern specification (see DomainMatch.tla): reference meaning of the pattern
   kinds and the reversed-sentinel-trie / Aho-Corasick encodings. No variables: reused by RuleScan. *)
EXTENDS Integers, Sequences, FiniteSets, SequencesExt

LowerCh == [c \in {"A", "B"} |-> IF c = "A" THEN "a" ELSE "b"]
Sigma == {"a", "b", "1", "-", "_", "."}           \* matcher alphabet (subset used by the model)
Upper == {"A", "B"}
Bad == {"!"}                                       \* outside the alphabet: pattern must be skipped

LowerSeq(s) == [i \in 1..Len(s) |-> IF s[i] \in Upper THEN LowerCh[s[i]] ELSE s[i]]
StripDot(s) == IF Len(s) > 0 /\ s[Len(s)] = "." THEN SubSeq(s, 1, Len(s) - 1) ELSE s
Norm(n) == LowerSeq(StripDot(n))

EndsWith(n, p) == Len(p) <= Len(n) /\ SubSeq(n, Len(n) - Len(p) + 1, Len(n)) = p
StartsWith(n, p) == Len(p) <= Len(n) /\ SubSeq(n, 1, Len(p)) = p
Infix(p, n) == \E i \in 0..(Len(n) - Len(p)) : SubSeq(n, i + 1, i + Len(p)) = p

ValidPat(p) == \A i \in 1..Len(p) : p[i] \in Sigma \cup {"^"}

(* ---------------- reference semantics ---------------- *)
FullM(p, n) == Norm(n) = p
SuffixM(p, n) == IF Len(p) > 0 /\ p[1] = "."
                 THEN EndsWith(Norm(n), p)
                 ELSE Norm(n) = p \/ EndsWith(Norm(n), <<".">> \o p)
KeywordM(p, n) == Infix(p, Norm(n))
RegexAltM(r, a, n) == CASE r.pre /\ r.post -> n = a
                        [] r.pre /\ ~r.post -> StartsWith(n, a)
                        [] ~r.pre /\ r.post -> EndsWith(n, a)
                        [] OTHER -> Infix(a, n)
RegexM(r, n) == \E i \in 1..Len(r.alts) : RegexAltM(r, r.alts[i], Norm(n))

PatM(kind, p, n) == CASE kind = "full"    -> ValidPat(p) /\ FullM(p, n)
                      [] kind = "suffix"  -> ValidPat(p) /\ SuffixM(p, n)
                      [] kind = "keyword" -> KeywordM(p, n)
                      [] kind = "regex"   -> RegexM(p, n)
SetM(set, n) == \E i \in 1..Len(set.pats) : PatM(set.kind, set.pats[i], n)

(* ---------------- implementation layer: reversed sentinel trie ---------------- *)
TrieKeys(kind, p) ==
    IF ~ValidPat(p) THEN {}
    ELSE IF kind = "full" THEN {Reverse(<<"^">> \o p)}
    ELSE IF Len(p) > 0 /\ p[1] = "." THEN {Reverse(p)}
    ELSE {Reverse(<<".">> \o p), Reverse(<<"^">> \o p)}
TrieQuery(n) == Reverse(<<"^">> \o Norm(n))
TrieSetM(set, n) == \E i \in 1..Len(set.pats) : \E k \in TrieKeys(set.kind, set.pats[i]) : StartsWith(TrieQuery(n), k)
\* keyword: Aho-Corasick over "^" name "$"
AcSetM(set, n) == \E i \in 1..Len(set.pats) : Infix(set.pats[i], <<"^">> \o Norm(n) \o <<"$">>)
ImplM(set, n) == CASE set.kind \in {"full", "suffix"} -> TrieSetM(set, n)
                   [] set.kind = "keyword" -> AcSetM(set, n)
                   [] OTHER -> SetM(set, n)

=============================================================================
