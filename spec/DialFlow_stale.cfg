SPECIFICATION Spec
CONSTANTS RecomputeAfterReroute = FALSE
INVARIANTS TargetFollowsMode
