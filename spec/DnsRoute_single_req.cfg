SPECIFICATION Spec
CONSTANTS
  MaxReqRules = 1
  MaxRespRules = 0
  MaxConds = 1
  MaxDepth = 3
  MaxQueries = 0
  Level = "single"
INVARIANTS ScanRefines OptimizePreserves EmitVector
