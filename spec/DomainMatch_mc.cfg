SPECIFICATION Spec
CONSTANTS
  Mode = "pairs"
  RandSets = 0
  RandSize = 0
INVARIANTS ImplRefines CaseInsens TrailingDot Emit
