SPECIFICATION Spec
CONSTANTS
  Keys = {"k1", "k2"}
  Owners = {"o1", "o2"}
  Tuples = {"t1"}
  MaxEp = 3
  NatT = 30
  FailT = 2
  MaxEvents = 4
INVARIANTS NeverHandOutBad ClosedOnce NoLeak KernelEntries OnePerKey
PROPERTIES Stable
