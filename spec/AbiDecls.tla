------------------------------ MODULE AbiDecls ------------------------------
(* Placeholder so that the specification parses stand-alone; tools/props/C19.py regenerates this module from the
   sources of /repo on every run (C declarations from BTF, Go declarations by reflection in both build flavours). *)
F(n, k, s, st, c, nm) == [name |-> n, kind |-> k, size |-> s, struct |-> st, count |-> c, norm |-> nm]
PadNames == {"padding"}
CDecls == [x \in {"t"} |-> [union |-> FALSE, fields |-> <<F("a", "scalar", 4, "", 0, "a")>>]]
GoDeclsReal == [x \in {"t"} |-> [union |-> FALSE, fields |-> <<F("A", "scalar", 4, "", 0, "a")>>]]
GoDeclsStub == GoDeclsReal
Pairs == {[c |-> "t", go |-> "t", flavour |-> "real"]}
CEnums == [k \in {"X"} |-> 1]
GoEnums == [k \in {"X"} |-> 1]
=============================================================================
