SPECIFICATION Spec
CONSTANTS
  NQueries = 2
  MaxDatagrams = 2
  ServeTruncated = TRUE
INVARIANTS ReplyOwn
