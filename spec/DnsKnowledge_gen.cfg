SPECIFICATION Spec
CONSTANTS
  MaxEvents = 9
INVARIANTS MustImpliesMay Emit
