SPECIFICATION Spec
CONSTANTS RecomputeAfterReroute = TRUE
INVARIANTS TargetFollowsMode Emit
PROPERTIES RouteOnce
