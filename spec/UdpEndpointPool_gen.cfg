SPECIFICATION Spec
CONSTANTS
  Keys = {"k1", "k2"}
  Owners = {"o1", "o2"}
  Tuples = {"t1", "t2"}
  MaxEp = 5
  NatT = 30
  FailT = 2
  MaxEvents = 12
INVARIANTS NeverHandOutBad ClosedOnce NoLeak KernelEntries OnePerKey Emit
