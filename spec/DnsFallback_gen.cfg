SPECIFICATION Spec
CONSTANTS
  NQueries = 2
  MaxDatagrams = 2
  ServeTruncated = FALSE
INVARIANTS ReplyOwn Emit
