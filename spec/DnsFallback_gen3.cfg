SPECIFICATION Spec
CONSTANTS
  NQueries = 3
  MaxDatagrams = 2
  ServeTruncated = FALSE
INVARIANTS ReplyOwn Emit
