SPECIFICATION Spec
INVARIANTS ConstsAgree Emit
