----------------------------- MODULE GroupFilter -----------------------------
(* C14 - a group contains exactly the nodes its filters select, each with its annotation.

   Reference semantics (from the property):
     a line is an &&-conjunction of possibly negated name()/subtag() conditions whose values (exact, keyword,
     regex) are alternatives; a node is a member iff it satisfies at least one line; each member once, in pool
     order, with the latency-offset annotation of the FIRST line it satisfies; no lines => every node.
   Invalid elements (unknown input, unknown key, bad regex, unknown / malformed annotation, bad policy) must be
   reported as an error.  The obligation is stated with the evaluation order a reader of the configuration
   expects: conditions left to right, alternatives left to right, lines top to bottom; an invalid element that
   is reached while deciding some node makes the whole group definition an error. *)
EXTENDS DomainOps, Integers, TLC, Json

CONSTANTS MaxLines

(* ---------------- universes ---------------- *)
S(x) == x       \* names are sequences of one-character strings
N_hk1 == <<"h","k","1">>
N_hk2 == <<"h","k","2">>
N_sg == <<"s","g">>
N_empty == <<>>
T_a == <<"a">>
T_ab == <<"a","b">>
Node(n, t) == [name |-> n, tag |-> t]
T_none == <<>>         \* a node listed in node{} itself: it came without a subscription and has no tag
Pools == { <<Node(N_hk1, T_a), Node(N_hk2, T_ab), Node(N_sg, T_a)>>,
           <<Node(N_hk1, T_none), Node(N_sg, T_a)>>,                          \* one node without a subscription
           <<Node(N_hk2, T_none)>>,                                           \* only such nodes
           <<Node(N_hk1, T_a), Node(N_hk1, T_ab), Node(N_empty, T_a)>>,       \* duplicate names, empty name
           <<Node(N_sg, T_ab)>>,
           <<>> }

\* values are uniform records (TLC cannot compare sequences with records): k = "str" | "re" | "badre"
Str(x) == [k |-> "str", s |-> x, pre |-> FALSE, post |-> FALSE, alts |-> <<>>]
RE(pre, post, alts) == [k |-> "re", s |-> <<>>, pre |-> pre, post |-> post, alts |-> alts]
BadRe == [k |-> "badre", s |-> <<>>, pre |-> FALSE, post |-> FALSE, alts |-> <<>>]
Alt(key, val) == [key |-> key, val |-> val]
NameAlts == { Alt("", Str(N_hk1)), Alt("", Str(N_sg)), Alt("", Str(N_empty)), Alt("keyword", Str(<<"h","k">>)), Alt("keyword", Str(<<"1">>)),
              Alt("regex", RE(TRUE, FALSE, <<<<"h","k">>>>)), Alt("regex", RE(FALSE, TRUE, <<<<"1">>, <<"g">>>>)),
              Alt("regex", BadRe), Alt("badkey", Str(N_hk1)) }
TagAlts == { Alt("", Str(T_a)), Alt("", Str(T_ab)), Alt("", Str(T_none)), Alt("regex", RE(TRUE, TRUE, <<T_a>>)), Alt("regex", RE(FALSE, FALSE, <<<<"b">>>>)),
             Alt("keyword", Str(T_a)) }      \* keyword is not a key of subtag(): invalid
AltSeqs(A) == {<<a>> : a \in A} \cup {<<a, b>> : a \in A, b \in A}
Cond(input, not, alts) == [input |-> input, not |-> not, alts |-> alts]
Conds == {Cond("name", n, al) : n \in BOOLEAN, al \in AltSeqs(NameAlts)}
    \cup {Cond("subtag", n, al) : n \in BOOLEAN, al \in AltSeqs(TagAlts)}
    \cup {Cond("link", FALSE, <<Alt("", Str(N_hk1))>>)}                          \* unknown input
SmallConds == {Cond("name", n, <<a>>) : n \in BOOLEAN, a \in NameAlts}
    \cup {Cond("subtag", n, <<a>>) : n \in BOOLEAN, a \in TagAlts}
Anno(key, val) == [key |-> key, val |-> val]
AnnoSeqs == { <<>>, <<Anno("add_latency", "100ms")>>, <<Anno("add_latency", "-500ms")>>, <<Anno("add_latency", "oops")>>,
              <<Anno("bad_anno", "1")>>, <<Anno("add_latency", "100ms"), Anno("add_latency", "oops")>>,
              <<Anno("add_latency", "0ms"), Anno("add_latency", "200ms")>> }
Line(conds, annos) == [conds |-> conds, annos |-> annos]
Lines1 == {Line(<<c>>, a) : c \in Conds, a \in AnnoSeqs}
Lines2 == {Line(<<c1, c2>>, a) : c1 \in SmallConds, c2 \in SmallConds, a \in {<<>>, <<Anno("add_latency", "100ms")>>}}

(* ---------------- three-valued evaluation ---------------- *)
ReM(r, n) == \E i \in 1..Len(r.alts) : RegexAltM(r, r.alts[i], n)
\* result of one alternative on a string: "T", "F" or "E" (invalid element)
AltEval(input, a, str) ==
  IF a.key = "" THEN (IF str = a.val.s THEN "T" ELSE "F")
  ELSE IF a.key = "keyword" /\ input = "name" THEN (IF Infix(a.val.s, str) THEN "T" ELSE "F")
  ELSE IF a.key = "regex" THEN (IF a.val.k = "badre" THEN "E" ELSE IF ReM(a.val, str) THEN "T" ELSE "F")
  ELSE "E"
RECURSIVE AltsEval(_, _, _, _)
AltsEval(input, alts, i, str) ==       \* alternatives left to right, first hit wins
  IF i > Len(alts) THEN "F"
  ELSE LET r == AltEval(input, alts[i], str) IN
       IF r = "F" THEN AltsEval(input, alts, i + 1, str) ELSE r
CondEval(c, node) ==
  IF c.input \notin {"name", "subtag"} THEN "E"
  ELSE LET r == AltsEval(c.input, c.alts, 1, IF c.input = "name" THEN node.name ELSE node.tag) IN
       IF r = "E" THEN "E" ELSE IF (r = "T") # c.not THEN "T" ELSE "F"
RECURSIVE CondsEval(_, _, _)
CondsEval(conds, i, node) ==            \* && left to right, first failing condition decides
  IF i > Len(conds) THEN "T"
  ELSE LET r == CondEval(conds[i], node) IN
       IF r = "T" THEN CondsEval(conds, i + 1, node) ELSE r
\* annotation of a line: latency offset of the first non-zero add_latency; every entry must be well formed
AnnoValid(a) == a.key = "add_latency" /\ a.val # "oops"
AnnosOk(annos) == \A i \in 1..Len(annos) : AnnoValid(annos[i])
RECURSIVE FirstNonZero(_, _)
FirstNonZero(annos, i) == IF i > Len(annos) THEN "0" ELSE IF annos[i].val # "0ms" THEN annos[i].val ELSE FirstNonZero(annos, i + 1)
\* per node: <<"member", offset>>, <<"no">> or <<"E">>
RECURSIVE NodeEval(_, _, _)
NodeEval(lines, j, node) ==
  IF j > Len(lines) THEN <<"no">>
  ELSE LET r == CondsEval(lines[j].conds, 1, node) IN
       IF r = "E" THEN <<"E">>
       ELSE IF r = "T" THEN (IF AnnosOk(lines[j].annos) THEN <<"member", FirstNonZero(lines[j].annos, 1)>> ELSE <<"E">>)
       ELSE NodeEval(lines, j + 1, node)
Expected(pool, lines) ==
  IF lines = <<>> THEN [err |-> FALSE, members |-> [i \in 1..Len(pool) |-> [idx |-> i, offset |-> "0"]]]
  ELSE LET rs == [i \in 1..Len(pool) |-> NodeEval(lines, 1, pool[i])] IN
       IF \E i \in 1..Len(pool) : rs[i][1] = "E" THEN [err |-> TRUE, members |-> <<>>]
       ELSE [err |-> FALSE,
             members |-> LET idxs == SelectSeq([i \in 1..Len(pool) |-> i], LAMBDA i : rs[i][1] = "member")
                         IN [k \in 1..Len(idxs) |-> [idx |-> idxs[k], offset |-> rs[idxs[k]][2]]]]

(* ---------------- state machine ---------------- *)
VARIABLES pool, lines
vars == <<pool, lines>>
Init == pool \in Pools /\ lines = <<>>
AddLine == /\ Len(lines) < MaxLines
           /\ \E l \in (IF Len(lines) = 0 THEN Lines1 \cup Lines2 ELSE Lines1) : lines' = Append(lines, l)
           /\ UNCHANGED pool
Next == AddLine
Spec == Init /\ [][Next]_vars

\* properties of the reference semantics itself
MembersOnceInOrder == LET e == Expected(pool, lines) IN
    ~e.err => \A i, j \in 1..Len(e.members) : i < j => e.members[i].idx < e.members[j].idx
NoLinesAll == lines = <<>> => Len(Expected(pool, lines).members) = Len(pool)

Vector == [pool |-> pool, lines |-> lines, exp |-> Expected(pool, lines)]
Emit == PrintT(<<"VECTOR", ToJson(Vector)>>)
=============================================================================
