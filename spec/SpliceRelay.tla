---------------------------- MODULE SpliceRelay ----------------------------
(* C05 (real-socket data plane) - concurrent relayed connections keep their byte streams apart
   (control/tcp_copy_engine.go defaultRelayCopyEngine.Copy, tcp_copy_linux.go relayFastCopy / relaySpliceCopyExact and the
    pooled splice pipes, tcp_copy_gather_linux.go tryRelayGatherWrite, tcp_sniff_policy.go prefixedConn).

   A job is one directional copy of one relayed connection (what relayCore.runDirection runs), on its own pair of TCP
   sockets.  Modes: "exact"    both ends plain TCP, traffic accounting on: explicit splice loop through a POOLED pipe
                    "plain"    both ends plain TCP, no accounting: io.Copy (the runtime's own splice)
                    "prefixed" the source carries prefetched bytes (sniffing): gather write, then a buffered copy
   Bytes are abstracted to chunks <<job, k>>.  A pipe is a FIFO of chunks; the pool is a FIFO of pipes (a channel).

   Actions = what the environment does, each followed by the engine's reaction until it blocks again:
     Begin(j, m, z)  the copy starts (takes a pipe in exact mode) and the first chunk (size class z) goes through
     Xfer(j, z)      the source sends the next chunk
     KillDst(j)      the destination resets the connection (the engine does not notice before its next write)
     Xfer after KillDst = the chunk is moved into the pipe, the write fails, the copy ends with an error
     End(j)          end of stream at the source: the copy ends, the pipe goes back to the pool if it is empty

   Property layer:  OwnBytes  what a destination received is a prefix of what ITS source sent
                    Complete  a copy that ended normally delivered everything
   Implementation-level:  PoolClean  a pooled pipe holds no bytes                                                   *)
EXTENDS Integers, Sequences, FiniteSets, TLC, Json, SequencesExt

CONSTANTS Jobs, MaxEvents, MaxChunks,
          PutDirty        \* FALSE = the code as it is; TRUE = a pipe with residue goes back to the pool (must violate)

Modes == {"exact", "plain", "prefixed"}
Sizes == {"s", "m", "l"}        \* 1 B, 4 KiB, 300 000 B (more than one splice step of 256 KiB)
NoPipe == <<<<0, 0>>>>          \* "holds no pipe" (chunk-shaped so that TLC can compare it with pipe contents)

VARIABLES pool, st, mode, pipe, sent, got, dead, hist
vars == <<pool, st, mode, pipe, sent, got, dead, hist>>

Init == /\ pool = <<>>
        /\ st = [j \in Jobs |-> "idle"] /\ mode = [j \in Jobs |-> "none"] /\ pipe = [j \in Jobs |-> NoPipe]
        /\ sent = [j \in Jobs |-> <<>>] /\ got = [j \in Jobs |-> <<>>] /\ dead = [j \in Jobs |-> FALSE]
        /\ hist = <<>>

H(ev, j, m, z) == hist' = Append(hist, [ev |-> ev, j |-> j, mode |-> m, size |-> z,
                                        pooled |-> (ev = "begin" /\ m = "exact" /\ pool # <<>>)])   \* the copy re-uses a pooled pipe
\* the size class is a function of the position in the history (it does not influence the abstract state; this keeps the
\* number of successors per action small so that simulation does not start every connection at once)
SizeAt == CASE (Len(hist) % 3) = 0 -> "m" [] (Len(hist) % 3) = 1 -> "l" [] OTHER -> "s"
Chunk(j) == <<j, Len(sent[j]) + 1>>

\* one chunk through the engine towards a live destination
Deliver(j, m, p) ==
  IF m = "exact"
  THEN LET content == p \o <<Chunk(j)>> IN
       /\ got' = [got EXCEPT ![j] = Append(@, Head(content))]     \* as many bytes as came in leave the pipe - its oldest
       /\ pipe' = [pipe EXCEPT ![j] = Tail(content)]
  ELSE /\ got' = [got EXCEPT ![j] = Append(@, Chunk(j))]
       /\ pipe' = [pipe EXCEPT ![j] = p]

Put(p) == IF p = NoPipe THEN pool
          ELSE IF p = <<>> \/ PutDirty THEN Append(pool, p)
          ELSE pool                                                 \* closed, not pooled

Begin(j, m, z) ==
  /\ st[j] = "idle" /\ \A i \in Jobs : i < j => st[i] # "idle"        \* connections are numbered in the order they start
  /\ LET p == IF m # "exact" THEN NoPipe ELSE IF pool # <<>> THEN Head(pool) ELSE <<>> IN
     /\ pool' = IF m = "exact" /\ pool # <<>> THEN Tail(pool) ELSE pool
     /\ Deliver(j, m, p)
  /\ st' = [st EXCEPT ![j] = "run"] /\ mode' = [mode EXCEPT ![j] = m]
  /\ sent' = [sent EXCEPT ![j] = Append(@, Chunk(j))]
  /\ UNCHANGED dead /\ H("begin", j, m, z)

Xfer(j, z) ==
  /\ st[j] = "run" /\ Len(sent[j]) < MaxChunks
  /\ sent' = [sent EXCEPT ![j] = Append(@, Chunk(j))]
  /\ IF ~dead[j]
     THEN /\ Deliver(j, mode[j], pipe[j]) /\ UNCHANGED <<pool, st>> /\ H("xfer", j, mode[j], z)
     ELSE \* the write fails: the chunk stays in the pipe, the copy ends with an error
          /\ pool' = Put(IF mode[j] = "exact" THEN pipe[j] \o <<Chunk(j)>> ELSE NoPipe)
          /\ pipe' = [pipe EXCEPT ![j] = NoPipe] /\ st' = [st EXCEPT ![j] = "failed"] /\ UNCHANGED got
          /\ H("break", j, mode[j], z)
  /\ UNCHANGED <<mode, dead>>

KillDst(j) == /\ st[j] = "run" /\ ~dead[j] /\ dead' = [dead EXCEPT ![j] = TRUE]
              /\ UNCHANGED <<pool, st, mode, pipe, sent, got>> /\ H("kill", j, mode[j], "s")

End(j) == /\ st[j] = "run"
          /\ pool' = Put(pipe[j]) /\ pipe' = [pipe EXCEPT ![j] = NoPipe] /\ st' = [st EXCEPT ![j] = "done"]
          /\ UNCHANGED <<mode, sent, got, dead>> /\ H("end", j, mode[j], "s")

Next == /\ Len(hist) < MaxEvents
        /\ \E j \in Jobs : \/ \E m \in Modes : Begin(j, m, SizeAt)
                           \/ Xfer(j, SizeAt)
                           \/ KillDst(j) \/ End(j)
Spec == Init /\ [][Next]_vars

OwnBytes == \A j \in Jobs : IsPrefix(got[j], sent[j])
Complete == \A j \in Jobs : (st[j] = "done" /\ ~dead[j]) => got[j] = sent[j]
PoolClean == \A i \in DOMAIN pool : pool[i] = <<>>
\* jobs are started in numeric order (symmetry by construction)
Ordered == \A j \in Jobs : st[j] # "idle" => \A i \in Jobs : i < j => st[i] # "idle"

Emit == (Len(hist) = MaxEvents /\ Ordered) => PrintT(<<"BEHAVIOUR", ToJson([hist |-> hist])>>)
\* exhaustive emission: the histories in which a connection re-uses a pipe that another one gave back
Reuses == \/ \E i \in DOMAIN hist : hist[i].pooled
          \/ \E i, k \in DOMAIN hist : i < k /\ hist[i].ev = "break" /\ hist[i].mode = "exact" /\ hist[k].ev = "begin" /\ hist[k].mode = "exact"
EmitReuse == (Len(hist) = MaxEvents /\ Ordered /\ Reuses) => PrintT(<<"BEHAVIOUR", ToJson([hist |-> hist])>>)
\* exhaustive configuration: the history is output only
View == <<pool, st, mode, pipe, sent, got, dead, Len(hist)>>
=============================================================================
