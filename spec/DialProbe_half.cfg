SPECIFICATION Spec
CONSTANTS
  MaxEvents = 6
  HalfFailVerifies = TRUE
VIEW View
INVARIANTS GenuineOnly
