---- MODULE DnsFallback_TTrace_1790215749 ----
EXTENDS Sequences, TLCExt, Toolbox, Naturals, TLC, DnsFallback

_expression ==
    LET DnsFallback_TEExpression == INSTANCE DnsFallback_TEExpression
    IN DnsFallback_TEExpression!expression
----

_trace ==
    LET DnsFallback_TETrace == INSTANCE DnsFallback_TETrace
    IN DnsFallback_TETrace!trace
----

_inv ==
    ~(
        TLCGet("level") = Len(_TETrace)
        /\
        buf = (<<>>)
        /\
        hist = (<<[udp |-> <<[tc |-> FALSE, q |-> "zz"]>>, tcp |-> "ok", name |-> "q1", usedTcp |-> FALSE, expect |-> [q |-> "", kind |-> "err"]], [udp |-> <<[tc |-> TRUE, q |-> "zz"]>>, tcp |-> "fail", name |-> "q2", usedTcp |-> TRUE, expect |-> [q |-> "zz", kind |-> "msg"]]>>)
        /\
        n = (2)
    )
----

_init ==
    /\ n = _TETrace[1].n
    /\ buf = _TETrace[1].buf
    /\ hist = _TETrace[1].hist
----

_next ==
    /\ \E i,j \in DOMAIN _TETrace:
        /\ \/ /\ j = i + 1
              /\ i = TLCGet("level")
        /\ n  = _TETrace[i].n
        /\ n' = _TETrace[j].n
        /\ buf  = _TETrace[i].buf
        /\ buf' = _TETrace[j].buf
        /\ hist  = _TETrace[i].hist
        /\ hist' = _TETrace[j].hist

\* Uncomment the ASSUME below to write the states of the error trace
\* to the given file in Json format. Note that you can pass any tuple
\* to `JsonSerialize`. For example, a sub-sequence of _TETrace.
    \* ASSUME
    \*     LET J == INSTANCE Json
    \*         IN J!JsonSerialize("DnsFallback_TTrace_1790215749.json", _TETrace)

=============================================================================

 Note that you can extract this module `DnsFallback_TEExpression`
  to a dedicated file to reuse `expression` (the module in the 
  dedicated `DnsFallback_TEExpression.tla` file takes precedence 
  over the module `DnsFallback_TEExpression` below).

---- MODULE DnsFallback_TEExpression ----
EXTENDS Sequences, TLCExt, Toolbox, Naturals, TLC, DnsFallback

expression == 
    [
        \* To hide variables of the `DnsFallback` spec from the error trace,
        \* remove the variables below.  The trace will be written in the order
        \* of the fields of this record.
        n |-> n
        ,buf |-> buf
        ,hist |-> hist
        
        \* Put additional constant-, state-, and action-level expressions here:
        \* ,_stateNumber |-> _TEPosition
        \* ,_nUnchanged |-> n = n'
        
        \* Format the `n` variable as Json value.
        \* ,_nJson |->
        \*     LET J == INSTANCE Json
        \*     IN J!ToJson(n)
        
        \* Lastly, you may build expressions over arbitrary sets of states by
        \* leveraging the _TETrace operator.  For example, this is how to
        \* count the number of times a spec variable changed up to the current
        \* state in the trace.
        \* ,_nModCount |->
        \*     LET F[s \in DOMAIN _TETrace] ==
        \*         IF s = 1 THEN 0
        \*         ELSE IF _TETrace[s].n # _TETrace[s-1].n
        \*             THEN 1 + F[s-1] ELSE F[s-1]
        \*     IN F[_TEPosition - 1]
    ]

=============================================================================



Parsing and semantic processing can take forever if the trace below is long.
 In this case, it is advised to uncomment the module below to deserialize the
 trace from a generated binary file.

\*
\*---- MODULE DnsFallback_TETrace ----
\*EXTENDS IOUtils, TLC, DnsFallback
\*
\*trace == IODeserialize("DnsFallback_TTrace_1790215749.bin", TRUE)
\*
\*=============================================================================
\*

---- MODULE DnsFallback_TETrace ----
EXTENDS TLC, DnsFallback

trace == 
    <<
    ([buf |-> <<>>,hist |-> <<>>,n |-> 0]),
    ([buf |-> <<>>,hist |-> <<[udp |-> <<[tc |-> FALSE, q |-> "zz"]>>, tcp |-> "ok", name |-> "q1", usedTcp |-> FALSE, expect |-> [q |-> "", kind |-> "err"]]>>,n |-> 1]),
    ([buf |-> <<>>,hist |-> <<[udp |-> <<[tc |-> FALSE, q |-> "zz"]>>, tcp |-> "ok", name |-> "q1", usedTcp |-> FALSE, expect |-> [q |-> "", kind |-> "err"]], [udp |-> <<[tc |-> TRUE, q |-> "zz"]>>, tcp |-> "fail", name |-> "q2", usedTcp |-> TRUE, expect |-> [q |-> "zz", kind |-> "msg"]]>>,n |-> 2])
    >>
----


=============================================================================

---- CONFIG DnsFallback_TTrace_1790215749 ----
CONSTANTS
    NQueries = 2
    MaxDatagrams = 2
    ServeTruncated = TRUE

INVARIANT
    _inv

CHECK_DEADLOCK
    \* CHECK_DEADLOCK off because of PROPERTY or INVARIANT above.
    FALSE

INIT
    _init

NEXT
    _next

CONSTANT
    _TETrace <- _trace

ALIAS
    _expression
=============================================================================
\* Generated on Thu Sep 24 02:09:24 UTC 2026