SPECIFICATION Spec
CONSTANTS
  Nodes <- MCNodes
  Domains <- MCDomains
  AddrOf <- MCAddrOf
  ThrProbe <- MCThrProbe
  ThrTraffic <- MCThrTraffic
  EscalateAt = 3
  Bursts <- MCBursts
  Revivable <- MCRevivable
  MaxHist = 14
INVARIANTS Thresholds DeathsBounded EdgeOnly Emit
