SPECIFICATION Spec
CONSTANTS
  MaxItems = 4
  MaxSections = 3
  WithMutations = TRUE
INVARIANTS WellFormed Emit
