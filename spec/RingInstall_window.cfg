SPECIFICATION Spec
CONSTANTS
  Ring = 5
  MaxSets = 3
  MaxGens = 3
  MaxOps = 9
  UserReleases = FALSE
  FitTogether = FALSE
INVARIANTS LiveRight
