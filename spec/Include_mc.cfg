SPECIFICATION Spec
INVARIANTS ReadsInScope OrderNoDup Emit
