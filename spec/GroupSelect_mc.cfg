SPECIFICATION Spec
CONSTANTS
  Nodes = {1, 2}
  MaxEvents = 3
INVARIANTS NoneOnlyWhenNone ExcludedNeverOffered OfferWhenPossible
