SPECIFICATION Spec
CONSTANTS
  Nodes = {1, 2}
  MaxEvents = 3
  WithReload = FALSE
  Stricts = {TRUE, FALSE}
  Excl = {0, 1, 2}
  Fams = {"4", "6"}
  Doms = {"data", "dns", "tcp"}
INVARIANTS NoneOnlyWhenNone ExcludedNeverOffered OfferWhenPossible
