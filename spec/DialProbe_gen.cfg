SPECIFICATION Spec
CONSTANTS
  MaxEvents = 4
  HalfFailVerifies = FALSE
INVARIANTS GenuineOnly Emit
