SPECIFICATION Spec
CONSTANTS
  Owners = {"k1", "k2", "k3"}
  Addrs = {1, 2, 3}
  Unspec = 0
  Cap = 0
  BookkeepFirst = FALSE
  Bits = {"b0", "b1", "b2"}
  MaxHist = 14
  GenBms = {{}, {"b0"}, {"b1"}, {"b0", "b1"}, {"b2"}, {"b0", "b2"}}
  GenIpsets = {{}, {0}, {1}, {2}, {0, 1}, {1, 2}, {1, 3}, {1, 2, 3}, {3}}
INVARIANTS Mirror TrackerConsistent Emit
