SPECIFICATION Spec
CONSTANTS
  Jobs = {1, 2, 3}
  MaxEvents = 6
  MaxChunks = 3
  PutDirty = FALSE
INVARIANTS OwnBytes Complete PoolClean
VIEW View
