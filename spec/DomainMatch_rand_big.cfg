SPECIFICATION Spec
CONSTANTS
  Mode = "random"
  RandSets = 300
  RandSize = 24
INVARIANTS ImplRefines CaseInsens TrailingDot Emit
