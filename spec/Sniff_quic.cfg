SPECIFICATION Spec
CONSTANTS
  MaxExts = 2
  MaxCuts = 2
  MaxFrames = 3
  Depth = "full"
  Kinds = {"quic"}
INVARIANTS ExpectWF Emit
