SPECIFICATION Spec
CONSTANTS
  L4 = "udp"
  Side = "lan"
  MaxEvents = 4
INVARIANTS DirectPasses BlockDrops DeadGroupDrops RedirectCarriesDecision StickyWhileTracked SynRoutesAfresh DnsStateless OwnTrafficNeverCaptured WanOriginatedRepliesPass
PROPERTIES Sticky2 JanitorOnlyExpired
