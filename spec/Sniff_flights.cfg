SPECIFICATION Spec
CONSTANTS
  MaxExts = 1
  MaxCuts = 0
  MaxFrames = 3
  Depth = "flights"
  Kinds = {"quic"}
INVARIANTS ExpectWF Emit
