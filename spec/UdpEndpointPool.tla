--------------------------- MODULE UdpEndpointPool ---------------------------
(* C13 (second half) - UDP flows keep one stable, leak-free endpoint
   (control/udp_endpoint_pool.go: UdpEndpointPool.GetOrCreate / Remove / Reset / InvalidateDialerNetworkType / janitor,
    UdpEndpoint.WriteTo / start (read loop) / retire / Close / TrackUdpConnStateTuplePair / adoptGeneration).

   Time in seconds.  Endpoints are numbered in creation order (1..MaxEp); an endpoint is
     live     dialled, in the pool or not, not yet closed
     failed   a cached dial failure (no transport) that blocks the key for FailT seconds
   State: pool (key -> endpoint), per endpoint: key, dead, expires, gen (dialer generation at creation), used (has
   forwarded or received traffic), closed (times its transport was closed), owner (control-plane generation that owns its
   kernel flow entries), tuples (kernel flow entries it registered); epoch (the dialer's generation: bumped by a health
   invalidation); retain[o][t] (what each owner currently holds in the kernel table on behalf of endpoints).

   Events (one call of the real API each):
     Get(k, o, dial)   GetOrCreate for key k by control-plane generation o; dial is what the dial attempts would do:
                       "ok" | "fail" (an ordinary error) | "unreach-ok" / "unreach-fail" (the first attempt finds the network
                       unreachable, a node is selected again and the second attempt succeeds / fails with an ordinary error)
     Get2(k)           two concurrent GetOrCreate for k with a slow dial
     Write(e) / WriteErr(e) / ReadErr(e) / Reply(e)      traffic and hard errors on a handed-out endpoint
     Track(e, t)       the endpoint registers kernel flow entry t (TrackLate: after the endpoint was closed - nothing is kept)
     Invalidate        the dialer's health changed (generation bump)
     Tick(d)           time passes; the janitor removes what expired
     Reset             pool reset (reload / close)

   Property layer:
     Stable            while the key's endpoint is usable every Get returns that same endpoint and dials nothing
     SingleDial        concurrent first packets: one dial, one endpoint
     NeverHandOutBad   what Get returns is not dead, not a cached failure, and not invalidated before carrying traffic
     ClosedOnce        every transport is closed at most once; after Reset every dialled endpoint is closed exactly once
     KernelEntries     retain[o][t] = 1 iff a live endpoint currently owned by o registered t (also across adoption)
     DrainTickets      (on the real tracker) a generation's drain count = the live endpoints it owns, Tickets(ep) *)
EXTENDS Integers, Sequences, FiniteSets, TLC, Json

CONSTANTS Keys, Owners, Tuples, MaxEp, NatT, FailT, MaxEvents

NoEp == 0
Unused == [st |-> "unused", key |-> "", dead |-> FALSE, expires |-> 0, gen |-> 0, used |-> FALSE, closed |-> 0, owner |-> "", tuples |-> {}]

VARIABLES now, pool, ep, nep, epoch, dials, retain, hist
vars == <<now, pool, ep, nep, epoch, dials, retain, hist>>

Init == /\ now = 0 /\ pool = [k \in Keys |-> NoEp] /\ ep = [i \in 1..MaxEp |-> Unused] /\ nep = 0 /\ epoch = 0 /\ dials = 0
        /\ retain = [o \in Owners |-> [t \in Tuples |-> 0]]
        /\ hist = <<>>

Live(i) == ep[i].st = "live" /\ ep[i].closed = 0
\* usable for reuse by GetOrCreate
Usable(i) == ep[i].st = "live" /\ ~ep[i].dead /\ (ep[i].gen = epoch \/ ep[i].used)
FailBlocks(i) == ep[i].st = "failed" /\ now < ep[i].expires

\* closing endpoint i: transport closed once, kernel entries released from the owner of the moment
CloseEp(e, r, i) ==
  IF e[i].st # "live" \/ e[i].closed > 0 THEN <<e, r>>
  ELSE <<[e EXCEPT ![i].closed = 1, ![i].tuples = {}],
         [r EXCEPT ![e[i].owner] = [t \in Tuples |-> IF t \in e[i].tuples THEN @[t] - 1 ELSE @[t]]]>>
Retire(e, r, p, i) ==        \* dead, out of the pool (if it is still the pool's entry), closed
  LET c == CloseEp([e EXCEPT ![i].dead = TRUE], r, i)
  IN <<c[1], c[2], [k \in Keys |-> IF p[k] = i THEN NoEp ELSE p[k]]>>

\* drain tickets: every control-plane generation counts the live endpoints it owns (one ticket taken at the dial, handed over
\* on adoption, given back when the endpoint is closed); a reload waits for the retiring generation's count to reach zero
Tickets(e) == [o \in Owners |-> Cardinality({i \in 1..MaxEp : e[i].st = "live" /\ e[i].closed = 0 /\ e[i].owner = o})]
Obs == [dials |-> dials', closed |-> [i \in 1..MaxEp |-> ep'[i].closed], retain |-> retain',
        pool |-> pool', tickets |-> Tickets(ep')]
Log(ev, k, e, x, res) == hist' = Append(hist, [ev |-> ev, k |-> k, e |-> e, x |-> x, res |-> res, obs |-> Obs])

\* adoption of endpoint i by owner o: its kernel entries move to the new owner
Adopt(r, e, i, o) == IF e[i].owner = o THEN r
                     ELSE [r EXCEPT ![e[i].owner] = [t \in Tuples |-> IF t \in e[i].tuples THEN @[t] - 1 ELSE @[t]],
                                    ![o] = [t \in Tuples |-> IF t \in e[i].tuples THEN @[t] + 1 ELSE @[t]]]

Get(k, o, dial) ==
  LET cur == pool[k] IN
  IF cur # NoEp /\ FailBlocks(cur)
  THEN /\ UNCHANGED <<now, pool, ep, nep, epoch, dials, retain>> /\ Log("get", k, NoEp, o, "failed-recently")
  ELSE IF cur # NoEp /\ Usable(cur)
  THEN /\ ep' = [ep EXCEPT ![cur].expires = now + NatT, ![cur].owner = o]
       /\ retain' = Adopt(retain, ep, cur, o)
       /\ UNCHANGED <<now, pool, nep, epoch, dials>>
       /\ Log("get", k, cur, o, "same")
  ELSE \* replace whatever is there (stale entries are closed), then dial
       /\ nep < MaxEp
       /\ LET c == IF cur # NoEp THEN CloseEp(ep, retain, cur) ELSE <<ep, retain>>
              n == nep + 1
          IN /\ dials' = dials + (IF dial \in {"ok", "fail"} THEN 1 ELSE 2)
             /\ nep' = n
             /\ retain' = c[2]
             /\ IF dial \in {"ok", "unreach-ok"}
                THEN /\ ep' = [c[1] EXCEPT ![n] = [st |-> "live", key |-> k, dead |-> FALSE, expires |-> now + NatT, gen |-> epoch, used |-> FALSE,
                                                   closed |-> 0, owner |-> o, tuples |-> {}]]
                     /\ pool' = [pool EXCEPT ![k] = n]
                     /\ UNCHANGED <<now, epoch>> /\ Log("get", k, n, o, IF dial = "ok" THEN "new" ELSE "new-after-retry")
                ELSE /\ ep' = [c[1] EXCEPT ![n] = [Unused EXCEPT !.st = "failed", !.key = k, !.expires = now + FailT]]
                     /\ pool' = [pool EXCEPT ![k] = n]
                     /\ UNCHANGED <<now, epoch>> /\ Log("get", k, NoEp, o, IF dial = "fail" THEN "dial-error" ELSE "dial-error-after-retry")

\* two concurrent first packets with a slow dial: creation is serialised, the second caller finds the first one's endpoint
Get2(k) ==
  /\ pool[k] = NoEp /\ nep < MaxEp
  /\ \E o \in Owners :
       LET n == nep + 1 IN
       /\ dials' = dials + 1 /\ nep' = n
       /\ ep' = [ep EXCEPT ![n] = [st |-> "live", key |-> k, dead |-> FALSE, expires |-> now + NatT, gen |-> epoch, used |-> FALSE,
                                   closed |-> 0, owner |-> o, tuples |-> {}]]
       /\ pool' = [pool EXCEPT ![k] = n]
       /\ UNCHANGED <<now, epoch, retain>> /\ Log("get2", k, n, o, "both-same")

Write(i) == /\ Live(i) /\ ~ep[i].dead
            /\ ep' = [ep EXCEPT ![i].used = TRUE, ![i].expires = now + NatT]
            /\ UNCHANGED <<now, pool, nep, epoch, dials, retain>> /\ Log("write", "", i, "", "ok")
Reply(i) == /\ Live(i) /\ ~ep[i].dead
            /\ ep' = [ep EXCEPT ![i].used = TRUE, ![i].expires = now + NatT]
            /\ UNCHANGED <<now, pool, nep, epoch, dials, retain>> /\ Log("reply", "", i, "", "ok")
HardErr(i, ev) == /\ Live(i) /\ ~ep[i].dead
                  /\ LET r == Retire(ep, retain, pool, i) IN ep' = r[1] /\ retain' = r[2] /\ pool' = r[3]
                  /\ UNCHANGED <<now, nep, epoch, dials>> /\ Log(ev, "", i, "", "retired")
Track(i, t) == /\ Live(i) /\ ~ep[i].dead /\ t \notin ep[i].tuples
               /\ ep' = [ep EXCEPT ![i].tuples = @ \cup {t}]
               /\ retain' = [retain EXCEPT ![ep[i].owner][t] = @ + 1]
               /\ UNCHANGED <<now, pool, nep, epoch, dials>> /\ Log("track", "", i, t, "ok")
\* a packet handler that obtained endpoint i just before it was closed (retired, invalidated, expired, reset) registers a kernel
\* entry afterwards: nothing may be retained on behalf of an endpoint that is gone - nobody would ever release it
TrackLate(i, t) == /\ ep[i].st = "live" /\ ep[i].closed > 0
                   /\ UNCHANGED <<now, pool, ep, nep, epoch, dials, retain>> /\ Log("track", "", i, t, "late")
\* a reload hand-over (adoption by owner o through GetOrCreate) racing with the endpoint being closed and removed: in
\* whichever order the two take effect, the endpoint ends closed once and nobody holds its kernel entries any more
AdoptClose(i, o) ==
  /\ Live(i) /\ ~ep[i].dead /\ Usable(i) /\ pool[ep[i].key] = i /\ ep[i].tuples # {} /\ ep[i].owner # o
  /\ LET c == CloseEp(ep, retain, i) IN ep' = [c[1] EXCEPT ![i].dead = TRUE] /\ retain' = c[2]
  /\ pool' = [pool EXCEPT ![ep[i].key] = NoEp]
  /\ UNCHANGED <<now, nep, epoch, dials>> /\ Log("adoptclose", ep[i].key, i, o, "closed")
\* a health change: endpoints that never carried traffic are retired at once, the others stay
Invalidate ==
  /\ epoch' = epoch + 1
  /\ LET victims == {i \in 1..MaxEp : Live(i) /\ ~ep[i].dead /\ ~ep[i].used}
         RECURSIVE Fold(_, _, _, _)
         Fold(S, e, r, p) == IF S = {} THEN <<e, r, p>>
                             ELSE LET i == CHOOSE x \in S : TRUE  q == Retire(e, r, p, i) IN Fold(S \ {i}, q[1], q[2], q[3])
         f == Fold(victims, ep, retain, pool)
     IN ep' = f[1] /\ retain' = f[2] /\ pool' = f[3]
  /\ UNCHANGED <<now, nep, dials>> /\ Log("invalidate", "", NoEp, "", "ok")
\* time passes; the janitor (every 250 ms, never at the very instant of an event) removes and closes what HAD expired before
\* the new instant, also invalidated idle endpoints.  An entry that expires exactly at the new instant is still in the pool:
\* an expired failure entry no longer blocks its key and must not be handed out, an expired live endpoint is still alive.
Tick(d) ==
  /\ now' = now + d
  /\ LET gone == {k \in Keys : pool[k] # NoEp /\ (now + d > ep[pool[k]].expires \/ (ep[pool[k]].st = "live" /\ ep[pool[k]].gen # epoch /\ ~ep[pool[k]].used))}
         RECURSIVE Fold(_, _, _)
         Fold(S, e, r) == IF S = {} THEN <<e, r>>
                          ELSE LET k == CHOOSE x \in S : TRUE  c == CloseEp(e, r, pool[k]) IN Fold(S \ {k}, c[1], c[2])
         f == Fold(gone, ep, retain)
     IN /\ ep' = f[1] /\ retain' = f[2]
        /\ pool' = [k \in Keys |-> IF k \in gone THEN NoEp ELSE pool[k]]
  /\ UNCHANGED <<nep, epoch, dials>> /\ Log("tick", ToString(d), NoEp, "", "ok")
Reset ==
  /\ LET inpool == {pool[k] : k \in Keys} \ {NoEp}
         RECURSIVE Fold(_, _, _)
         Fold(S, e, r) == IF S = {} THEN <<e, r>>
                          ELSE LET i == CHOOSE x \in S : TRUE  c == CloseEp(e, r, i) IN Fold(S \ {i}, c[1], c[2])
         f == Fold(inpool, ep, retain)
     IN ep' = f[1] /\ retain' = f[2]
  /\ pool' = [k \in Keys |-> NoEp]
  /\ UNCHANGED <<now, nep, epoch, dials>> /\ Log("reset", "", NoEp, "", "ok")

Next == /\ Len(hist) < MaxEvents
        /\ \/ \E k \in Keys, o \in Owners, d \in {"ok", "fail", "unreach-ok", "unreach-fail"} : Get(k, o, d)
           \/ \E k \in Keys : Get2(k)
           \/ \E i \in 1..MaxEp : Write(i) \/ Reply(i) \/ HardErr(i, "writeerr") \/ HardErr(i, "readerr")
           \/ \E i \in 1..MaxEp, t \in Tuples : Track(i, t) \/ TrackLate(i, t)
           \/ \E i \in 1..MaxEp, o \in Owners : AdoptClose(i, o)
           \/ Invalidate \/ Reset
           \/ \E d \in {1, FailT, NatT, NatT + 10} : Tick(d)        \* FailT / NatT: to the very instant an entry expires
Spec == Init /\ [][Next]_vars

(* ---------------------------------------------------------------- property layer *)
Gets == {i \in 1..Len(hist) : hist[i].ev = "get"}
\* what Get hands out is fit for use
NeverHandOutBad == \A i \in 1..MaxEp : (ep[i].st = "live" /\ pool[ep[i].key] = i) => ep[i].closed = 0
ClosedOnce == \A i \in 1..MaxEp : ep[i].closed <= 1 /\ (ep[i].st # "live" => ep[i].closed = 0)
\* an endpoint that left the pool is closed (nothing leaks)
NoLeak == \A i \in 1..MaxEp : (ep[i].st = "live" /\ ep[i].closed = 0) => pool[ep[i].key] = i
\* the kernel table holds an entry exactly for the live endpoints that registered it, under their current owner
KernelEntries == \A o \in Owners, t \in Tuples :
                   retain[o][t] = Cardinality({i \in 1..MaxEp : Live(i) /\ ep[i].owner = o /\ t \in ep[i].tuples})
\* one endpoint per key at a time
OnePerKey == \A i, j \in 1..MaxEp : (Live(i) /\ Live(j) /\ ep[i].key = ep[j].key) => i = j
\* Stable / SingleDial as action properties
Stable == [][ \A k \in Keys : (pool[k] # NoEp /\ Usable(pool[k]) /\ ~FailBlocks(pool[k]) /\ Len(hist') > Len(hist) /\ hist'[Len(hist')].ev = "get" /\ hist'[Len(hist')].k = k)
                 => (hist'[Len(hist')].e = pool[k] /\ dials' = dials) ]_vars

Behaviour == [hist |-> hist]
Emit == Len(hist) = MaxEvents => PrintT(<<"BEHAVIOUR", ToJson(Behaviour)>>)
=============================================================================
