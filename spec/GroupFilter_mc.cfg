SPECIFICATION Spec
CONSTANTS MaxLines = 1
INVARIANTS MembersOnceInOrder NoLinesAll Emit
