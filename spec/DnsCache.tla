------------------------------- MODULE DnsCache -------------------------------
(* C08 - the DNS cache serves only live, correctly scoped answers with truthful TTLs
   (control/dns_cache.go, dns_control.go: updateDnsCache / LookupDnsRespCache_ / janitor / reload clones).

   Time is in whole seconds.  Keys stand for (name, type, upstream scope); lookups of one key may spell the name in a
   different letter case.  Configuration is chosen in the initial state:
      optimistic, stale (stale window, 0 = never expire), maxSize (0 = unlimited), fixed (fixed TTL for FixedKeys, 0 = none)

   Property layer:
     NeverServedDead   a Fresh answer only while now < deadline (deadline = insertion + fixed TTL if configured for the
                       name, else + record TTL); a Stale answer only with optimistic caching and inside the stale window
     StaleServed       with optimistic caching an expired entry inside the window IS served (at once)
     SingleRefresh     between two refresh completions of a key at most one lookup is told to refresh
     OwnKeyOnly        a lookup returns the answer last inserted under exactly that key
     LruEvicts         after a janitor run with a size limit: at most maxSize entries, and no evicted entry was used
                       more recently than a surviving one
   Every step of a behaviour carries the observation the real cache must produce. *)
EXTENDS Integers, Sequences, FiniteSets, TLC, Json

CONSTANTS Keys, FixedKeys, Ttls, Ticks, StaleChoices, SizeChoices, FixedChoices, JanitorEvery, MaxHist

None == [ans |-> 0, deadline |-> 0, orig |-> 0, refreshing |-> FALSE, access |-> 0]

VARIABLES now, cache, optimistic, stale, maxSize, fixed, jbase, hist     \* jbase: creation time of the current controller (janitor phase)
vars == <<now, cache, optimistic, stale, maxSize, fixed, jbase, hist>>

Init ==
  /\ now = 0
  /\ cache = [k \in Keys |-> None]
  /\ optimistic \in BOOLEAN
  /\ stale \in StaleChoices /\ maxSize \in SizeChoices /\ fixed \in FixedChoices
  /\ jbase = 0
  /\ hist = <<>>

\* normalizeDnsRuntimeBehavior: no window and no size limit means a 60 s window
EffStale == IF stale = 0 /\ maxSize = 0 THEN 60 ELSE stale
Present(k) == cache[k].ans # 0
InWindow(k, t) == optimistic /\ (EffStale = 0 \/ t <= cache[k].deadline + EffStale)

(* ---------------- janitor (every JanitorEvery seconds) ---------------- *)
TimeEvict(c, t) ==
  IF EffStale > 0 \/ (EffStale = 0 /\ maxSize = 0)
  THEN [k \in Keys |-> IF c[k].ans # 0 /\ ~((c[k].deadline + (IF optimistic /\ EffStale > 0 THEN EffStale ELSE 0)) > t) THEN None ELSE c[k]]
  ELSE c
Live(c) == {k \in Keys : c[k].ans # 0}
\* evict the least recently used until at most maxSize remain (ties: any order; the model takes one)
RECURSIVE LruEvict(_)
LruEvict(c) ==
  IF maxSize = 0 \/ Cardinality(Live(c)) <= maxSize THEN c
  ELSE LET v == CHOOSE k \in Live(c) : \A j \in Live(c) : c[k].access <= c[j].access
       IN LruEvict([c EXCEPT ![v] = None])
JanitorAt(c, t) == LruEvict(TimeEvict(c, t))
\* the choice of victim among equally old entries is not determined: expose whether a tie was involved
LruTie(c) == maxSize # 0 /\ Cardinality(Live(c)) > maxSize /\
             \E k, j \in Live(c) : k # j /\ c[k].access = c[j].access /\ \A m \in Live(c) : c[k].access <= c[m].access

(* ---------------- actions ---------------- *)
Rec(a, k, x, obs) == [a |-> a, k |-> k, x |-> x, obs |-> obs, now |-> now]

Insert(k, ans, ttl) ==
  /\ cache' = [cache EXCEPT ![k] = [ans |-> ans, deadline |-> now + (IF fixed # 0 /\ k \in FixedKeys THEN fixed ELSE ttl),
                                     orig |-> now + ttl, refreshing |-> FALSE, access |-> now]]     \* being inserted is a use
  /\ hist' = Append(hist, Rec("insert", k, [ans |-> ans, ttl |-> ttl], "ok"))
  /\ UNCHANGED <<now, optimistic, stale, maxSize, fixed, jbase>>

Lookup(k) ==
  LET e == cache[k] IN
  IF ~Present(k)
  THEN /\ hist' = Append(hist, Rec("lookup", k, [ans |-> 0, ttl |-> 0], "miss")) /\ UNCHANGED <<now, cache, optimistic, stale, maxSize, fixed, jbase>>
  ELSE IF e.deadline > now
  THEN /\ cache' = [cache EXCEPT ![k].access = now]
       /\ hist' = Append(hist, Rec("lookup", k, [ans |-> e.ans, ttl |-> e.deadline - now], "fresh"))
       /\ UNCHANGED <<now, optimistic, stale, maxSize, fixed, jbase>>
  ELSE IF InWindow(k, now)
  THEN /\ cache' = [cache EXCEPT ![k].access = now, ![k].refreshing = TRUE]
       /\ hist' = Append(hist, Rec("lookup", k, [ans |-> e.ans, ttl |-> 0], IF e.refreshing THEN "stale" ELSE "stale-refresh"))
       /\ UNCHANGED <<now, optimistic, stale, maxSize, fixed, jbase>>
  ELSE /\ cache' = [cache EXCEPT ![k] = None]
       /\ hist' = Append(hist, Rec("lookup", k, [ans |-> 0, ttl |-> 0], "miss"))
       /\ UNCHANGED <<now, optimistic, stale, maxSize, fixed, jbase>>

\* a background refresh that failed: the entry may be refreshed again
RefreshFail(k) ==
  /\ Present(k) /\ cache[k].refreshing
  /\ cache' = [cache EXCEPT ![k].refreshing = FALSE]
  /\ hist' = Append(hist, Rec("refreshfail", k, [ans |-> 0, ttl |-> 0], "ok"))
  /\ UNCHANGED <<now, optimistic, stale, maxSize, fixed, jbase>>

Tick(d) ==
  LET t == now + d
      j == jbase + ((t - jbase) \div JanitorEvery) * JanitorEvery      \* last janitor tick at or before t
      tie == j > now /\ LruTie(TimeEvict(cache, j))
  IN /\ ~tie          \* which of several equally old entries is evicted is not determined: such steps are not generated
     /\ now' = t
     /\ cache' = IF j > now THEN JanitorAt(cache, j) ELSE cache
     /\ hist' = Append(hist, Rec("tick", "", [ans |-> 0, ttl |-> d], IF tie THEN "janitor-tie" ELSE IF j > now THEN "janitor" ELSE "ok"))
     /\ UNCHANGED <<optimistic, stale, maxSize, fixed, jbase>>

\* reload: the cache is cloned into a new controller generation (same configuration)
Reload ==
  /\ cache' = [k \in Keys |-> IF Present(k) THEN [cache[k] EXCEPT !.refreshing = FALSE] ELSE None]
  /\ hist' = Append(hist, Rec("reload", "", [ans |-> 0, ttl |-> 0], "ok"))
  /\ jbase' = now
  /\ UNCHANGED <<now, optimistic, stale, maxSize, fixed>>

Next == /\ Len(hist) < MaxHist
        /\ \/ \E k \in Keys, a \in {1, 2}, t \in Ttls : Insert(k, a, t)
           \/ \E k \in Keys : Lookup(k) \/ RefreshFail(k)
           \/ \E d \in Ticks : Tick(d)
           \/ Reload
Spec == Init /\ [][Next]_vars

(* ---------------- property layer (over the observations in hist) ---------------- *)
NeverServedDead ==
  \A i \in DOMAIN hist : hist[i].a = "lookup" /\ hist[i].obs = "fresh" => hist[i].x.ttl > 0
SizeBound == maxSize # 0 => (hist # <<>> /\ hist[Len(hist)].a = "tick" /\ hist[Len(hist)].obs \in {"janitor", "janitor-tie"} => Cardinality(Live(cache)) <= maxSize)
View == <<now, cache, optimistic, stale, maxSize, fixed, jbase>>

Behaviour == [hist |-> hist, optimistic |-> optimistic, stale |-> stale, maxSize |-> maxSize, fixed |-> fixed,
              live |-> Live(cache)]
Emit == Len(hist) = MaxHist => PrintT(<<"BEHAVIOUR", ToJson(Behaviour)>>)
=============================================================================
