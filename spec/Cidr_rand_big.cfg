SPECIFICATION Spec
CONSTANTS
  MaxSet = 0
  Mode = "random"
  RandSets = 400
  RandSize = 8
INVARIANTS TrieRefines LpmRefines LpmLongest MappedAgree ShareSound Emit
