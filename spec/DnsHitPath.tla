------------------------------ MODULE DnsHitPath ------------------------------
(* C09 (cache-hit replies on the packet path) - concurrent clients asking a cached question each receive the cached
   answer under their OWN transaction id (control/dns_control.go writeCachedResponse: the pre-packed cached bytes are
   copied, the id is patched into the copy, the copy is sent; control/udp.go sendPkt).

   Per client two steps: Patch(c) (copy + patch) and Send(c).  All interleavings are explored.  SharedPatch = TRUE models
   the tempting shortcut of patching the shared cached bytes in place for large answers; the property then fails, which
   shows that the interleavings generated here can tell the difference (non-vacuity).

   Each behaviour is replayed on the real DnsController.Handle_ with real loopback sockets; the point between the two
   steps is the trace message sendPkt logs before it writes (a logging hook parks the goroutine there). *)
EXTENDS Integers, Sequences, FiniteSets, TLC, Json

CONSTANTS Clients, Cid, Size, SharedPatch       \* Size: "small" | "big" (above the pooled-buffer limit of 1024 bytes)

VARIABLES st,      \* [Clients -> "new" | "patched" | "sent"]
          priv,    \* [Clients -> id in the client's private copy]
          shared,  \* id bytes of the shared cached packet (0 = as stored)
          out,     \* [Clients -> id of the datagram that was sent]
          hist
vars == <<st, priv, shared, out, hist>>

Init == st = [c \in Clients |-> "new"] /\ priv = [c \in Clients |-> 0] /\ shared = 0 /\ out = [c \in Clients |-> 0] /\ hist = <<>>
InPlace == SharedPatch /\ Size = "big"
Patch(c) == /\ st[c] = "new" /\ st' = [st EXCEPT ![c] = "patched"]
            /\ IF InPlace THEN shared' = Cid[c] /\ UNCHANGED priv ELSE priv' = [priv EXCEPT ![c] = Cid[c]] /\ UNCHANGED shared
            /\ hist' = Append(hist, [ev |-> "patch", c |-> c]) /\ UNCHANGED out
Send(c) == /\ st[c] = "patched" /\ st' = [st EXCEPT ![c] = "sent"]
           /\ out' = [out EXCEPT ![c] = IF InPlace THEN shared ELSE priv[c]]
           /\ hist' = Append(hist, [ev |-> "send", c |-> c]) /\ UNCHANGED <<priv, shared>>
Next == \E c \in Clients : Patch(c) \/ Send(c)
Spec == Init /\ [][Next]_vars

OwnId == \A c \in Clients : st[c] = "sent" => out[c] = Cid[c]
CacheUntouched == ~InPlace => shared = 0
Done == \A c \in Clients : st[c] = "sent"
Behaviour == [size |-> Size, cid |-> Cid, hist |-> hist]
Emit == Done => PrintT(<<"BEHAVIOUR", ToJson(Behaviour)>>)

HPClients == {"c1", "c2", "c3"}
HPCid == [c \in HPClients |-> IF c = "c1" THEN 4369 ELSE IF c = "c2" THEN 8738 ELSE 4369]      \* c3 collides with c1
=============================================================================
