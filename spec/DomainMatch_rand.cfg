SPECIFICATION Spec
CONSTANTS
  Mode = "random"
  RandSets = 40
  RandSize = 12
INVARIANTS ImplRefines CaseInsens TrailingDot Emit
