SPECIFICATION Spec
CONSTANTS
  MaxReqRules = 3
  MaxRespRules = 3
  MaxConds = 2
  MaxDepth = 3
  MaxQueries = 0
  Level = "single"
INVARIANTS ScanRefines OptimizePreserves EmitVector
