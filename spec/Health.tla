------------------------------- MODULE Health -------------------------------
(* C16 - node health follows the documented thresholds and is reported on edges only
   (component/outbound/dialer: connectivity_check.go, dialer.go, sticky_cache.go; dialer_group.go).

   State per node and health domain (tcp4/6, dns-udp4/6, data-udp4/6):
     alive, failCount (consecutive failed probes), trafficFail (consecutive traffic failures)
   per proxy address (shared by every node with that address, process-global tracker):
     deaths   death transitions reported since the last success (escalation at EscalateAt)
   reload muting:  suppressed  (non-forced failure reports are ignored completely)

   Events (production entry points):
     ProbeOk(n,d)          check() success      -> markAvailable
     ProbeFail(n,d)        check() failure      -> markUnavailable            (threshold ThrProbe[d])
     TrafficFail(n,d,k)    k x ReportUnavailable                             (threshold ThrTraffic[d])
     TrafficOk(n,d)        ReportAvailableTraffic (revives data-udp only)
     Forced(n,d)           ReportUnavailableForced
     Ignorable(n,d)        ReportUnavailable with a cancellation / teardown error: no effect
     Suppress(b)           Begin/EndReloadProxyFailureSuppression
     Reload                a new generation of dialers takes over: RestoreHealthSnapshot(old.ReloadHealthSnapshot()) - the last
                           known alive state of every domain is handed over, the failure counters start from zero
   The escalation (EscalateAt death transitions of one address without a success in between) forces all
   domains of the reporting node down.

   Property layer:
     Thresholds    a node/domain is not alive iff the last thing that happened to it was reaching a threshold,
                   a forced report or an escalation - never because of fewer failures, an ignorable error or a
                   failure reported while muted; any successful probe (data-udp: successful traffic) revives it
                   and clears the counts
     EdgeOnly      exactly one transition callback per actual alive<->dead transition
     GroupsAgree   every group containing the node sees the node's state after each event
     KernBit       a group's alive bit is cleared exactly when its last alive node of that type dies and set
                   again when one revives *)
EXTENDS Integers, Sequences, FiniteSets, TLC, Json

CONSTANTS Nodes, Domains, AddrOf,          \* AddrOf : [Nodes -> addresses]
          ThrProbe, ThrTraffic,            \* [Domains -> Nat]
          EscalateAt, Bursts,              \* Bursts: sizes of traffic-failure bursts the model may inject
          Revivable,                       \* domains revived by successful traffic (data-udp)
          MaxHist

Addrs == {AddrOf[n] : n \in Nodes}

VARIABLES alive, failCount, trafficFail, deaths, suppressed,
          cbs,          \* ghost: Seq([n, d, alive]) transition callbacks of the current generation
          gen0,         \* ghost: the alive state the current generation started with
          hist
vars == <<alive, failCount, trafficFail, deaths, suppressed, cbs, gen0, hist>>

Init ==
  /\ alive = [n \in Nodes |-> [d \in Domains |-> TRUE]]        \* NewDialer starts every collection alive
  /\ failCount = [n \in Nodes |-> [d \in Domains |-> 0]]
  /\ trafficFail = [n \in Nodes |-> [d \in Domains |-> 0]]
  /\ deaths = [a \in Addrs |-> 0]
  /\ suppressed = FALSE
  /\ cbs = <<>>
  /\ gen0 = [n \in Nodes |-> [d \in Domains |-> TRUE]]
  /\ hist = <<>>

(* ------------- helpers: a set of (node,domain) forced down; callbacks for those that were alive ------------- *)
RECURSIVE SeqOfSet(_)
SeqOfSet(S) == IF S = {} THEN <<>> ELSE LET x == CHOOSE y \in S : TRUE IN <<x>> \o SeqOfSet(S \ {x})

\* result of one non-forced failure report on (n,d): the new alive flag
AfterFail(n, d, isTraffic, k) ==
  IF isTraffic THEN (IF trafficFail[n][d] + k < ThrTraffic[d] THEN alive[n][d] ELSE FALSE)
  ELSE (IF failCount[n][d] + 1 < ThrProbe[d] THEN alive[n][d] ELSE FALSE)

\* escalation: all domains of node n forced down (counters set to the traffic threshold, callbacks for those alive)
EscAlive(al, n) == [al EXCEPT ![n] = [d \in Domains |-> FALSE]]
EscFail(fc, n) == [fc EXCEPT ![n] = [d \in Domains |-> ThrTraffic[d]]]
EscCbs(al, n) == LET ds == {d \in Domains : al[n][d]} IN [i \in 1..Cardinality(ds) |-> [n |-> n, d |-> SeqOfSet(ds)[i], alive |-> FALSE]]

Rec(a, n, d, k) == [a |-> a, n |-> n, d |-> d, k |-> k]

Fail(n, d, isTraffic, k) ==
  IF suppressed THEN UNCHANGED <<alive, failCount, trafficFail, deaths, cbs>>
  ELSE
  LET newAlive == AfterFail(n, d, isTraffic, k)
      died == alive[n][d] /\ ~newAlive
      fc1 == IF isTraffic THEN failCount ELSE [failCount EXCEPT ![n][d] = @ + 1]
      tf1 == IF isTraffic THEN [trafficFail EXCEPT ![n][d] = @ + k] ELSE trafficFail
      al1 == [alive EXCEPT ![n][d] = newAlive]
      cb1 == IF died THEN <<[n |-> n, d |-> d, alive |-> FALSE]>> ELSE <<>>
      a == AddrOf[n]
      esc == died /\ deaths[a] + 1 >= EscalateAt
  IN /\ deaths' = IF died THEN (IF esc THEN [deaths EXCEPT ![a] = 0] ELSE [deaths EXCEPT ![a] = @ + 1]) ELSE deaths
     /\ alive' = IF esc THEN EscAlive(al1, n) ELSE al1
     /\ failCount' = IF esc THEN EscFail(fc1, n) ELSE fc1
     /\ trafficFail' = IF esc THEN EscFail(tf1, n) ELSE tf1
     /\ cbs' = cbs \o cb1 \o (IF esc THEN EscCbs(al1, n) ELSE <<>>)

ProbeFail(n, d) == /\ Fail(n, d, FALSE, 1) /\ UNCHANGED <<suppressed, gen0>> /\ hist' = Append(hist, Rec("ProbeFail", n, d, 1))
TrafficFail(n, d, k) == /\ Fail(n, d, TRUE, k) /\ UNCHANGED <<suppressed, gen0>> /\ hist' = Append(hist, Rec("TrafficFail", n, d, k))

ProbeOk(n, d) ==
  /\ alive' = [alive EXCEPT ![n][d] = TRUE]
  /\ failCount' = [failCount EXCEPT ![n][d] = 0]
  /\ trafficFail' = [trafficFail EXCEPT ![n][d] = 0]
  /\ deaths' = [deaths EXCEPT ![AddrOf[n]] = 0]
  /\ cbs' = IF alive[n][d] THEN cbs ELSE Append(cbs, [n |-> n, d |-> d, alive |-> TRUE])
  /\ UNCHANGED <<suppressed, gen0>> /\ hist' = Append(hist, Rec("ProbeOk", n, d, 0))

TrafficOk(n, d) ==
  /\ IF d \in Revivable /\ ~alive[n][d]
     THEN /\ alive' = [alive EXCEPT ![n][d] = TRUE]
          /\ failCount' = [failCount EXCEPT ![n][d] = 0]
          /\ deaths' = [deaths EXCEPT ![AddrOf[n]] = 0]
          /\ cbs' = Append(cbs, [n |-> n, d |-> d, alive |-> TRUE])
     ELSE UNCHANGED <<alive, failCount, deaths, cbs>>
  /\ trafficFail' = [trafficFail EXCEPT ![n][d] = 0]
  /\ UNCHANGED <<suppressed, gen0>> /\ hist' = Append(hist, Rec("TrafficOk", n, d, 0))

Forced(n, d) ==
  /\ alive' = [alive EXCEPT ![n][d] = FALSE]
  /\ failCount' = [failCount EXCEPT ![n][d] = ThrTraffic[d]]
  /\ trafficFail' = [trafficFail EXCEPT ![n][d] = ThrTraffic[d]]
  /\ cbs' = IF alive[n][d] THEN Append(cbs, [n |-> n, d |-> d, alive |-> FALSE]) ELSE cbs
  /\ UNCHANGED <<deaths, suppressed, gen0>> /\ hist' = Append(hist, Rec("Forced", n, d, 0))

Ignorable(n, d) == /\ UNCHANGED <<alive, failCount, trafficFail, deaths, suppressed, cbs, gen0>> /\ hist' = Append(hist, Rec("Ignorable", n, d, 0))
Suppress(b) == /\ suppressed # b /\ suppressed' = b /\ UNCHANGED <<alive, failCount, trafficFail, deaths, cbs, gen0>>
               /\ hist' = Append(hist, Rec((IF b THEN "SuppressOn" ELSE "SuppressOff"), 0, "", 0))

\* the hand-over to a new generation: states kept, counters from zero, a fresh callback history
Reload == /\ failCount' = [n \in Nodes |-> [d \in Domains |-> 0]]
          /\ trafficFail' = [n \in Nodes |-> [d \in Domains |-> 0]]
          /\ gen0' = alive /\ cbs' = <<>>
          /\ UNCHANGED <<alive, deaths, suppressed>>
          /\ hist' = Append(hist, Rec("Reload", 0, "", 0))

Next == /\ Len(hist) < MaxHist
        /\ \/ \E n \in Nodes, d \in Domains : ProbeOk(n, d) \/ ProbeFail(n, d) \/ TrafficOk(n, d) \/ Forced(n, d) \/ Ignorable(n, d)
           \/ \E n \in Nodes, d \in Domains : \E k \in Bursts[d] : TrafficFail(n, d, k)
           \/ \E b \in BOOLEAN : Suppress(b)
           \/ Reload
Spec == Init /\ [][Next]_vars

(* ---------------- property layer ---------------- *)
\* reaching a threshold means death: an alive node is below both thresholds
Thresholds == \A n \in Nodes, d \in Domains :
                 alive[n][d] => (failCount[n][d] < ThrProbe[d] /\ trafficFail[n][d] < ThrTraffic[d])
\* a node dies only in a step in which a threshold is reached (or it is forced: counters are set to the threshold)
DeathRule == [][\A n \in Nodes, d \in Domains :
                   (alive[n][d] /\ ~alive'[n][d]) => (failCount'[n][d] >= ThrProbe[d] \/ trafficFail'[n][d] >= ThrTraffic[d])]_vars
\* a revival clears the counts
ReviveRule == [][\A n \in Nodes, d \in Domains :
                   (~alive[n][d] /\ alive'[n][d]) => (failCount'[n][d] = 0 /\ trafficFail'[n][d] = 0)]_vars
\* nothing changes while muted, except through successes and forced reports
MutedRule == [][(suppressed /\ suppressed') =>
                   \A n \in Nodes, d \in Domains : (alive[n][d] /\ ~alive'[n][d]) => failCount'[n][d] = ThrTraffic[d]]_vars
\* transition callbacks alternate per (node, domain), starting from the state the generation began with
CbsOf(n, d) == SelectSeq(cbs, LAMBDA c : c.n = n /\ c.d = d)
EdgeOnly == \A n \in Nodes, d \in Domains :
               LET s == CbsOf(n, d) IN
               /\ \A i \in DOMAIN s : s[i].alive = (IF i % 2 = 0 THEN gen0[n][d] ELSE ~gen0[n][d])
               /\ alive[n][d] = (IF Len(s) % 2 = 0 THEN gen0[n][d] ELSE ~gen0[n][d])
DeathsBounded == \A a \in Addrs : deaths[a] < EscalateAt
\* a dead node whose counters were zeroed by the hand-over still comes back by the documented means
HandedOverRevives == [][\A n \in Nodes, d \in Domains :
                         (Len(hist') > Len(hist) /\ hist'[Len(hist')].a \in {"ProbeOk"} /\ hist'[Len(hist')].n = n /\ hist'[Len(hist')].d = d) => alive'[n][d]]_vars
View == <<alive, failCount, trafficFail, deaths, suppressed, gen0>>

Behaviour == [hist |-> hist, alive |-> alive, cbs |-> cbs]
Emit == Len(hist) = MaxHist => PrintT(<<"BEHAVIOUR", ToJson(Behaviour)>>)

(* ---------------- model constants ---------------- *)
MCNodes == {1, 2}
MCDomains == {"tcp4", "dns4", "data4", "data6"}
MCAddrOf == [n \in MCNodes |-> "proxy.example:443"]
MCThrProbe == [d \in MCDomains |-> IF d = "tcp4" THEN 1 ELSE 3]
MCThrTraffic == [d \in MCDomains |-> IF d = "tcp4" THEN 10 ELSE 50]
MCBursts == [d \in MCDomains |-> IF d = "tcp4" THEN {1, 9} ELSE {1, 49}]
MCRevivable == {"data4", "data6"}
\* exhaustive small configuration: one TCP and one data-UDP domain, every history of 6 events
MCDomainsSmall == {"tcp4", "data4"}
MCAddrOfSmall == [n \in MCNodes |-> "proxy.example:443"]
MCThrProbeSmall == [d \in MCDomainsSmall |-> IF d = "tcp4" THEN 1 ELSE 3]
MCThrTrafficSmall == [d \in MCDomainsSmall |-> IF d = "tcp4" THEN 10 ELSE 50]
MCBurstsSmall == [d \in MCDomainsSmall |-> IF d = "tcp4" THEN {9} ELSE {49}]
MCRevivableSmall == {"data4"}
\* ... of which those are replayed that end with a node coming back into a domain no other node is alive in
LastRec == hist[Len(hist)]
EndsWithLoneRevival == /\ Len(hist) = MaxHist /\ LastRec.a \in {"ProbeOk", "TrafficOk"}
                       /\ cbs # <<>> /\ cbs[Len(cbs)] = [n |-> LastRec.n, d |-> LastRec.d, alive |-> TRUE]
                       /\ \A m \in Nodes \ {LastRec.n} : ~alive[m][LastRec.d]
EmitBfs == EndsWithLoneRevival => PrintT(<<"BEHAVIOUR", ToJson(Behaviour)>>)
=============================================================================
