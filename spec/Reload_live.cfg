SPECIFICATION FairSpec
CONSTANTS
  NSignals = 2
  RecheckAfterBusy = TRUE
  BeginBeforeSend = TRUE
VIEW View
PROPERTIES Progress
