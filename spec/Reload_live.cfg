SPECIFICATION FairSpec
CONSTANTS
  NSignals = 2
  BeginBeforeSend = TRUE
VIEW View
PROPERTIES Progress
