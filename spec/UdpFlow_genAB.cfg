SPECIFICATION Spec
CONSTANTS
  EFlows = {"A", "B"}
  NFlows = {}
  MaxEvents = 4
  MaxConns = 4
  MaxT6 = 1
  MaxPk = 4
  RRs = {"cpr0"}
  SecondConn = FALSE
  ScopeSensitive = FALSE
  Faults = {"wfail", "dialfail"}
INVARIANTS NoDup Conservation HeldAreInitials BatchOrdered CompleteAtEnd NameRoutes OneTransport Emit
