SPECIFICATION Spec
CONSTANTS
  Clients <- MC4Clients
  Cid <- MC4Cid
  Qof <- MC4Qof
  Transport = "udp"
  AnswerRcode = "ok"
  CheckQuestion = TRUE
  MaxSends = 4
  MaxSocks = 4
  MaxWid = 3
  MaxGen = 4
INVARIANTS ReplyMatches CacheTruthful OneResolution ClosedOnce RetiredGetsClosed EmitAny
