------------------------------- MODULE Include -------------------------------
(* C17 (include half) - included files are merged deterministically (the including file first, then each
   included file in listed order), circular includes are rejected, and no file is read that is not a .dae file
   or that lies outside the entry configuration directory.

   A fixed directory tree
        P/                 parent of the entry directory         p.dae
        P/other/           a sibling directory                    o.dae
        P/E/               the entry configuration directory      main.dae (entry) a.dae z.dae c.conf
        P/E/sub/                                                  b.dae
   and include lists for main, a and b.  An include is a path specification (relative to the entry directory,
   absolute, with .. components, or a glob); Resolve gives the files it names, in glob order.
   Expected(includes) is either an error or the depth-first pre-order of the files, which is the order in which
   their items appear in every merged section.
   One file (odd) may additionally carry a section with a name dae does not know: merging must not lose it (it is
   config.New that rejects it afterwards - ConfBuild.tla), wherever in the include graph the file sits.
   One file (twice) may spell its routing section in two blocks: the typed configuration holds the rules of both, in order.
   Every file gives the repeatable key lan_interface once in its global section: the typed configuration lists the values of all
   merged files, in merge order (Expected.order). *)
EXTENDS Integers, Sequences, FiniteSets, TLC, Json

Files == {"main", "a", "z", "c", "b", "p", "o"}
Loc == [f \in Files |-> CASE f \in {"main", "a", "z", "c"} -> "E" [] f = "b" -> "E/sub" [] f = "p" -> "P" [] f = "o" -> "P/other"]
IsDae(f) == f # "c"
InScope(f) == Loc[f] \in {"E", "E/sub"}

\* include specifications and the files they resolve to (non-.dae matches are skipped by the resolver)
Specs == {"a.dae", "z.dae", "sub/b.dae", "c.conf", "../p.dae", "../other/o.dae", "sub/../a.dae", "ABS:a", "ABS:p", "ABS:b",
          "*.dae", "sub/*.dae", "../*.dae", "*", "missing.dae", "../E/z.dae"}
Resolve(s) == CASE s = "a.dae" -> <<"a">> [] s = "z.dae" -> <<"z">> [] s = "sub/b.dae" -> <<"b">> [] s = "c.conf" -> <<>>
                [] s = "../p.dae" -> <<"p">> [] s = "../other/o.dae" -> <<"o">> [] s = "sub/../a.dae" -> <<"a">>
                [] s = "ABS:a" -> <<"a">> [] s = "ABS:p" -> <<"p">> [] s = "ABS:b" -> <<"b">>
                [] s = "*.dae" -> <<"a", "main", "z">> [] s = "sub/*.dae" -> <<"b">> [] s = "../*.dae" -> <<"p">>
                [] s = "*" -> <<"a", "main", "z">> [] s = "missing.dae" -> <<>> [] s = "../E/z.dae" -> <<"z">>

VARIABLES inc,     \* [{"main","a","b"} -> Seq(Specs)]
          odd,     \* the file that carries a section of unknown name ("none": no file does)
          twice    \* the file that spells its routing section in two blocks ("none": no file does): both blocks are part of the
                   \* configuration, in the order written, whether or not anything is included
vars == <<inc, odd, twice>>
MainLists == {<<>>} \cup {<<s>> : s \in Specs} \cup {<<s, t>> : s \in Specs, t \in Specs}
ALists == {<<>>, <<"sub/b.dae">>, <<"*.dae">>, <<"../p.dae">>, <<"z.dae">>}
BLists == {<<>>, <<"a.dae">>, <<"ABS:a">>, <<"z.dae">>}
Init == /\ odd \in {"none", "main", "a", "z", "b"}
        /\ twice \in {"none", "main", "a"} /\ (twice # "none" => odd = "none")
        /\ inc \in {[f \in {"main", "a", "b"} |-> IF f = "main" THEN m ELSE IF f = "a" THEN a ELSE b] : m \in MainLists, a \in ALists, b \in BLists}
Next == UNCHANGED vars
Spec == Init /\ [][Next]_vars

IncOf(f) == IF f \in DOMAIN inc THEN inc[f] ELSE <<>>
Targets(f) == LET RECURSIVE Flat(_, _)
                  Flat(ss, i) == IF i > Len(ss) THEN <<>> ELSE Resolve(ss[i]) \o Flat(ss, i + 1)
              IN Flat(IncOf(f), 1)

\* depth-first merge: returns [err, order, visited, reads]
RECURSIVE Dfs(_, _)
RECURSIVE DfsList(_, _, _)
Dfs(f, st) ==
  IF st.err # "" THEN st
  ELSE IF f \in st.visited THEN [st EXCEPT !.err = "circular"]
  ELSE IF ~IsDae(f) THEN [st EXCEPT !.err = "not-dae"]
  ELSE IF ~InScope(f) THEN [st EXCEPT !.err = "out-of-scope"]
  ELSE DfsList(Targets(f), 1, [st EXCEPT !.visited = @ \cup {f}, !.reads = @ \cup {f}, !.order = Append(@, f)])
DfsList(ts, i, st) ==
  IF i > Len(ts) \/ st.err # "" THEN st ELSE DfsList(ts, i + 1, Dfs(ts[i], st))
Expected == Dfs("main", [err |-> "", order |-> <<>>, visited |-> {}, reads |-> {}])

\* a file reached twice without a cycle (diamond): the merger rejects it as if it were circular; the property does
\* not say whether that is required, so such graphs carry no obligation about error-vs-merge
RECURSIVE Reach(_, _)
Reach(f, seen) == IF f \in seen \/ ~IsDae(f) \/ ~InScope(f) THEN seen
                  ELSE LET ts == Targets(f)
                           RECURSIVE Go(_, _)
                           Go(i, s) == IF i > Len(ts) THEN s ELSE Go(i + 1, Reach(ts[i], s))
                       IN Go(1, seen \cup {f})
OnCycle(f) == \E i \in 1..Len(Targets(f)) : f \in Reach(Targets(f)[i], {})
HasCycle == \E f \in Reach("main", {}) : OnCycle(f)
Diamond == Expected.err = "circular" /\ ~HasCycle

\* properties of the expectation itself
ReadsInScope == \A f \in Expected.reads : IsDae(f) /\ InScope(f)
OrderNoDup == \A i, j \in 1..Len(Expected.order) : i # j => Expected.order[i] # Expected.order[j]

\* the rules of the merged routing section: every file's rules in depth-first pre-order, a file's second block right after its first
RECURSIVE RuleOrder(_, _)
RuleOrder(o, i) == IF i > Len(o) THEN <<>>
                   ELSE (IF o[i] = twice THEN <<o[i], o[i] \o "2">> ELSE <<o[i]>>) \o RuleOrder(o, i + 1)
Vector == [twice |-> twice, rules |-> RuleOrder(Expected.order, 1), inc |-> [f \in {"main", "a", "b"} |-> inc[f]], err |-> Expected.err, order |-> Expected.order,
           reads |-> Expected.reads, diamond |-> Diamond,
           odd |-> odd, oddMerged |-> (Expected.err = "" /\ \E i \in 1..Len(Expected.order) : Expected.order[i] = odd)]
Emit == PrintT(<<"VECTOR", ToJson(Vector)>>)
=============================================================================
