SPECIFICATION Spec
CONSTANTS
  MaxReqRules = 0
  MaxRespRules = 1
  MaxConds = 1
  MaxDepth = 3
  MaxQueries = 0
  Level = "single"
INVARIANTS ScanRefines OptimizePreserves EmitVector
