SPECIFICATION Spec
INVARIANTS SlotsSane TupleLen Emit
