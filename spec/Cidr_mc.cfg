SPECIFICATION Spec
CONSTANTS
  MaxSet = 2
  Mode = "exhaustive"
  RandSets = 0
  RandSize = 0
INVARIANTS TrieRefines LpmRefines LpmLongest MappedAgree ShareSound Emit
