SPECIFICATION Spec
CONSTANTS
  Nodes = {1, 2, 3}
  MaxEvents = 9
  WithReload = TRUE
  Stricts = {FALSE}
  Excl = {0}
  Fams = {"4", "6"}
  Doms = {"data", "tcp"}
INVARIANTS NoneOnlyWhenNone ExcludedNeverOffered OfferWhenPossible FloorHolds EmitReload
