SPECIFICATION Spec
CONSTANTS
  EFlows = {"A", "B"}
  NFlows = {}
  MaxEvents = 5
  MaxConns = 5
  MaxT6 = 1
  MaxPk = 5
  RRs = {"cpr0"}
  SecondConn = FALSE
  ScopeSensitive = FALSE
  Faults = {"wfail", "dialfail"}
INVARIANTS NoDup Conservation HeldAreInitials BatchOrdered CompleteAtEnd NameRoutes OneTransport Emit
