SPECIFICATION TraceSpec
CONSTANTS
  Producers <- MC3Producers
  KeyOf <- MC3KeyOf
  NTasks = 2
  QIds = {1, 2, 3, 4, 5, 6, 7, 8, 9, 10}
  ChanIds = {1, 2, 3, 4, 5, 6, 7, 8, 9, 10}
  ChanCap = 128
  ClaimRecheck = TRUE
  PopRecheck = TRUE
  MaxTimer = 0
VIEW TraceView
INVARIANTS NoDuplicate PerKeyFifo OneAtATime NoForeignQueue NoResidue RefsSane
POSTCONDITION TraceAccepted
CHECK_DEADLOCK FALSE
