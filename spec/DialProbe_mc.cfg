SPECIFICATION Spec
CONSTANTS
  MaxEvents = 6
  HalfFailVerifies = FALSE
VIEW View
INVARIANTS GenuineOnly
