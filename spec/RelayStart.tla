----------------------------- MODULE RelayStart -----------------------------
(* C05 (real sockets, the hand-over from detection to relay) - control/tcp.go handleConn on loopback TCP sockets:
   port-53 DNS detection through a bufio reader, prefetch + sniffing elsewhere, routeDial, then RelayTCP with the
   gather-write of whatever was read ahead TOGETHER with whatever is already pending on the client's socket
   (tcp_copy_gather_linux.go tryRelayGatherWrite, tcpConnHasPendingReadData - reachable with real TCP sockets only).

   phase   "idle" (nothing sent yet) | "dialling" (detection has given up or finished, the upstream dial is in flight - the
           harness holds it at a gate) | "relaying"
   Events  CW(k)  the client sends a segment      Gate  the upstream dial completes
           SW(k) / SC  the destination sends / shuts down (only once connected)      CC  the client shuts down its write side
   Property layer (checked by the harness on the real sockets): whatever phase a segment arrives in, the destination receives
   exactly the client's bytes in order, the client exactly the destination's, and each end of stream is passed on. *)
EXTENDS Integers, Sequences, FiniteSets, TLC, Json

CONSTANTS Port, MaxEvents

\* first-segment kinds for which detection decides at once (no multi-second probe windows in a real-time replay)
Kinds == IF Port = 53 THEN {"dnsjunk", "dnsresp", "bin"} ELSE {"tlsfull", "http", "bin"}
Later == {"more", "big"}            \* follow-up segments: 100 B / 70 000 B
ServerKinds == {"s-small", "s-big"}

VARIABLES phase, up, down, cEof, sEof, slow, hist
vars == <<phase, up, down, cEof, sEof, slow, hist>>
\* slow: the path to the destination accepts only a little at a time (small socket buffers): writes complete in several parts
Init == phase = "idle" /\ up = <<>> /\ down = <<>> /\ cEof = FALSE /\ sEof = FALSE /\ slow \in BOOLEAN /\ hist = <<>>

H(ev, k, ph) == hist' = Append(hist, [ev |-> ev, k |-> k, phase |-> ph])      \* ph: the phase the event happens in
CW(k) == /\ ~cEof
         /\ IF phase = "idle" THEN k \in Kinds /\ phase' = "dialling" ELSE k \in Later /\ phase' = phase
         /\ up' = Append(up, k) /\ H("cw", k, phase) /\ UNCHANGED <<down, cEof, sEof, slow>>
Gate == phase = "dialling" /\ phase' = "relaying" /\ H("gate", "", phase) /\ UNCHANGED <<up, down, cEof, sEof, slow>>
SW(k) == phase = "relaying" /\ ~sEof /\ down' = Append(down, k) /\ H("sw", k, phase) /\ UNCHANGED <<phase, up, cEof, sEof, slow>>
SC == phase = "relaying" /\ ~sEof /\ sEof' = TRUE /\ H("sc", "", phase) /\ UNCHANGED <<phase, up, down, cEof, slow>>
CC == phase # "idle" /\ ~cEof /\ cEof' = TRUE /\ H("cc", "", phase) /\ UNCHANGED <<phase, up, down, sEof, slow>>

Next == /\ Len(hist) < MaxEvents
        /\ \/ \E k \in Kinds \cup Later : CW(k)
           \/ Gate \/ CC \/ SC
           \/ \E k \in ServerKinds : SW(k)
Spec == Init /\ [][Next]_vars

\* bookkeeping sanity: the destination can only have been sent something once connected
ServerSpeaksWhenConnected == (down # <<>> \/ sEof) => phase = "relaying"
\* histories worth a real-time replay: a segment arrives while the dial is in flight
Interesting == \E i \in DOMAIN hist : hist[i].ev = "cw" /\ i > 1 /\ hist[i].phase = "dialling"
Emit == (Len(hist) = MaxEvents /\ Interesting) => PrintT(<<"BEHAVIOUR", ToJson([port |-> Port, slow |-> slow, hist |-> hist])>>)
=============================================================================
