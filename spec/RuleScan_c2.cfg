SPECIFICATION Spec
CONSTANTS
  MaxRules = 1
  MaxConds = 2
  Level = "deep"
  MergeNegated = FALSE
INVARIANTS ScanRefines KernRefines OptimizePreserves LowerWF Emit
