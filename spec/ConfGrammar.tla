----------------------------- MODULE ConfGrammar -----------------------------
(* C17 (first half) - configuration text becomes exactly the configuration it spells, or a clean error.

   A generative specification of the dae configuration grammar (one constructor per production of
   dae_config.g4: expression, declaration, literalExpression, functionPrototypeExpression, functionPrototype,
   parameter lists, routingRule, outboundExpr, optAnnotation, nested expression, bare / quoted literals).
   The state is an abstract syntax tree; every reachable state is a configuration whose text the harness renders
   (trivia - spaces, newlines, '#' and block comments - and the rendering of each literal are chosen by seed) and
   whose parse result must correspond one-to-one, in order, to the tree:
       sections -> items -> { parameter | function-valued parameter (+annotation) | routing rule | literal | section }
   Near-misses: a state may carry a mutation [kind, pos] (delete / duplicate / swap one token, or inject bytes):
   the parser must then return an error or a tree - never crash, never hang. *)
EXTENDS Integers, Sequences, FiniteSets, TLC, Json

CONSTANTS MaxItems,      \* items per top-level section
          MaxSections,
          WithMutations  \* BOOLEAN

(* ---------------- literals ---------------- *)
Lit(q, s) == [q |-> q, s |-> s]          \* q: "bare" | "single" | "double"
BareLits == {Lit("bare", "a"), Lit("bare", "b1"), Lit("bare", "x_y"), Lit("bare", "443"), Lit("bare", "10.0.0.0/8"), Lit("bare", "example.com")}
QuoteLits == {Lit("single", "a b"), Lit("single", "#c"), Lit("single", "{}"), Lit("single", "\""), Lit("single", "::/0"), Lit("single", ""),
              Lit("double", "it's"), Lit("double", "x:y,z"), Lit("single", "->"), Lit("double", "&& !f(")}
Lits == BareLits \cup QuoteLits
SomeLits == {Lit("bare", "a"), Lit("bare", "443"), Lit("single", "a b"), Lit("double", "it's")}

(* ---------------- parameters and functions ---------------- *)
Param(k, l) == [key |-> k, lit |-> l]
Params == {Param("", l) : l \in Lits} \cup {Param(k, l) : k \in {"k", "geoip"}, l \in SomeLits}
SomeParams == {Param("", Lit("bare", "a")), Param("k", Lit("single", "a b")), Param("geoip", Lit("bare", "443"))}
ParamLists == {<<p>> : p \in Params} \cup {<<p, q>> : p \in SomeParams, q \in SomeParams}
SomeParamLists == {<<Param("", Lit("bare", "a"))>>, <<Param("k", Lit("bare", "b1")), Param("", Lit("single", "a b"))>>}
Func(n, not, ps) == [name |-> n, not |-> not, params |-> ps]
Funcs == {Func(n, b, ps) : n \in {"f", "domain"}, b \in BOOLEAN, ps \in ParamLists}
SomeFuncs == {Func("f", FALSE, <<Param("", Lit("bare", "a"))>>), Func("dport", TRUE, <<Param("", Lit("bare", "443"))>>),
              Func("g", FALSE, <<Param("k", Lit("single", "a b")), Param("", Lit("bare", "b1"))>>)}
FuncExprs == {<<f>> : f \in Funcs} \cup {<<f, g>> : f \in SomeFuncs, g \in SomeFuncs} \cup {<<f, g, h>> : f \in SomeFuncs, g \in SomeFuncs, h \in {Func("f", FALSE, <<Param("", Lit("bare", "a"))>>)}}
SomeFuncExprs == {<<f>> : f \in SomeFuncs} \cup {<<Func("f", FALSE, <<Param("", Lit("bare", "a"))>>), Func("dport", TRUE, <<Param("", Lit("bare", "443"))>>)>>}
NoFunc == Func("", FALSE, <<>>)

(* ---------------- items ---------------- *)
\* uniform record: kind, key, lits, funcs (&&-chain), annos (parameter list), out (function; bare when no params), items (nested)
Item(kind, key, lits, funcs, annos, out, items) ==
  [kind |-> kind, key |-> key, lits |-> lits, funcs |-> funcs, annos |-> annos, out |-> out, items |-> items]
Annos == {<<>>, <<Param("add_latency", Lit("bare", "443"))>>, <<Param("", Lit("bare", "a")), Param("k", Lit("single", "a b"))>>}
Outs == {Func("proxy", FALSE, <<>>), Func("direct", FALSE, <<Param("mark", Lit("bare", "443"))>>),
         Func("my_group", FALSE, <<Param("", Lit("bare", "a")), Param("mark", Lit("bare", "b1"))>>), Func("must_rules", FALSE, <<>>)}
LitExprs == {<<l>> : l \in Lits} \cup {<<l, m>> : l \in SomeLits, m \in SomeLits}
DeclLits == {Item("param", k, ls, <<>>, <<>>, NoFunc, <<>>) : k \in {"log_level", "k"}, ls \in LitExprs}
DeclFuncs == {Item("fparam", k, <<>>, fe, an, NoFunc, <<>>) : k \in {"filter", "policy"}, fe \in SomeFuncExprs, an \in Annos}
    \cup {Item("fparam", "filter", <<>>, fe, <<>>, NoFunc, <<>>) : fe \in FuncExprs}
Rules == {Item("rule", "", <<>>, fe, <<>>, o, <<>>) : fe \in SomeFuncExprs, o \in Outs}
    \cup {Item("rule", "", <<>>, fe, <<>>, Func("proxy", FALSE, <<>>), <<>>) : fe \in FuncExprs}
LitItems == {Item("literal", "", <<l>>, <<>>, <<>>, NoFunc, <<>>) : l \in Lits}
SimpleItems == {Item("param", "k", <<Lit("bare", "a")>>, <<>>, <<>>, NoFunc, <<>>),
                Item("rule", "", <<>>, <<Func("f", FALSE, <<Param("", Lit("bare", "a"))>>)>>, <<>>, Func("proxy", FALSE, <<>>), <<>>),
                Item("literal", "", <<Lit("single", "a b")>>, <<>>, <<>>, NoFunc, <<>>)}
Nested == {Item("section", n, <<>>, <<>>, <<>>, NoFunc, its) : n \in {"request", "g1"}, its \in {<<>>} \cup {<<i>> : i \in SimpleItems} \cup {<<i, j>> : i \in SimpleItems, j \in SimpleItems}}
Items == DeclLits \cup DeclFuncs \cup Rules \cup LitItems \cup Nested

(* ---------------- mutations (near-misses) ---------------- *)
NoMut == [kind |-> "none", pos |-> 0]
Muts == {[kind |-> k, pos |-> p] : k \in {"delete", "duplicate", "swap", "bytes"}, p \in {0, 1, 2, 3, 5, 8, 13}}

(* ---------------- state machine ---------------- *)
VARIABLES sections,   \* Seq([name, items])
          mut
vars == <<sections, mut>>

SectionNames == {"global", "routing", "dns", "group"}
Init == sections = <<>> /\ mut = NoMut
NewSection == /\ mut = NoMut /\ Len(sections) < MaxSections
              /\ \E n \in SectionNames : sections' = Append(sections, [name |-> n, items |-> <<>>])
              /\ UNCHANGED mut
AddItem == /\ mut = NoMut /\ Len(sections) > 0 /\ Len(sections[Len(sections)].items) < MaxItems
           /\ \E it \in Items : sections' = [sections EXCEPT ![Len(sections)].items = Append(@, it)]
           /\ UNCHANGED mut
Mutate == /\ WithMutations /\ mut = NoMut /\ Len(sections) > 0
          /\ \E m \in Muts : mut' = m
          /\ UNCHANGED sections
Next == NewSection \/ AddItem \/ Mutate
Spec == Init /\ [][Next]_vars

\* the parser's obligation for this state
Expect == IF mut = NoMut THEN "tree" ELSE "tree-or-error"
Vector == [sections |-> sections, mut |-> mut, expect |-> Expect]
Emit == Len(sections) > 0 => PrintT(<<"VECTOR", ToJson(Vector)>>)
\* structural sanity of what the generator builds: every production's node is well formed
WellFormed == \A i \in 1..Len(sections) : \A j \in 1..Len(sections[i].items) :
                LET it == sections[i].items[j] IN
                /\ it.kind \in {"param", "fparam", "rule", "literal", "section"}
                /\ (it.kind = "param" => it.lits # <<>> /\ it.key # "")
                /\ (it.kind \in {"fparam", "rule"} => it.funcs # <<>> /\ \A k \in 1..Len(it.funcs) : it.funcs[k].params # <<>>)
                /\ (it.kind = "rule" => it.out.name # "")
=============================================================================
