----------------------------- MODULE DnsFallback -----------------------------
(* C09 - "... or fail so that UDP falls back to TCP": an upstream declared tcp+udp
   (control/dns_control.go: forwardWithFallback / forwardWithDialArg; control/dns.go: DoUDP.ForwardDNS over a pooled socket, DoTCP).

   Queries come one after another, all under the same transaction id (the worst case for a pooled socket), each for a name of its
   own.  For every query the server is scripted: the datagrams it sends back on the UDP socket - each answering the query's own
   name or another one, truncated (TC = 1) or not - and whether the TCP retry, if it comes to one, is answered or fails.
   The pooled socket keeps what nobody read.  The exchange takes the first datagram (left over or new):
     not truncated, own question     -> that answer
     not truncated, another question -> the UDP exchange fails (the UDP forwarder is retired, its socket closed) ...
     truncated                       -> ... (the forwarder stays) ... and the query is repeated over TCP: the TCP answer, or an
                                        error when that fails too
   ServeTruncated = TRUE is a controller that hands the truncated datagram to the client when the TCP retry fails.
   Property: ReplyOwn - whatever is sent to a client answers that client's question. *)
EXTENDS Integers, Sequences, FiniteSets, TLC, Json

CONSTANTS NQueries, MaxDatagrams, ServeTruncated

Name(i) == "q" \o ToString(i)
Kinds == {[own |-> o, tc |-> t] : o \in BOOLEAN, t \in BOOLEAN}
Scripts == UNION {[1..n -> Kinds] : n \in 1..MaxDatagrams}

VARIABLES buf,      \* what the pooled UDP socket still holds: Seq([q, tc])
          n,        \* queries so far
          hist
vars == <<buf, n, hist>>
Init == buf = <<>> /\ n = 0 /\ hist = <<>>

Query(udp, tcp) ==
  /\ n < NQueries
  /\ LET i == n + 1
         sent == [k \in 1..Len(udp) |-> [q |-> IF udp[k].own THEN Name(i) ELSE "zz", tc |-> udp[k].tc]]
         all == buf \o sent
         m == Head(all)
         rest == Tail(all)
         udpOk == ~m.tc /\ m.q = Name(i)
         outcome == IF udpOk THEN [kind |-> "msg", q |-> m.q]
                    ELSE IF tcp = "ok" THEN [kind |-> "msg", q |-> Name(i)]          \* any failed UDP exchange is repeated over TCP
                    ELSE IF ServeTruncated /\ m.tc THEN [kind |-> "msg", q |-> m.q]
                    ELSE [kind |-> "err", q |-> ""]
         retired == ~m.tc /\ m.q # Name(i)        \* an ordinary error retires the UDP forwarder: its socket is closed
     IN /\ buf' = IF retired THEN <<>> ELSE rest
        /\ n' = i
        /\ hist' = Append(hist, [name |-> Name(i), udp |-> sent, tcp |-> tcp, usedTcp |-> ~udpOk, expect |-> outcome])
Next == \E udp \in Scripts, tcp \in {"ok", "fail"} : Query(udp, tcp)
Spec == Init /\ [][Next]_vars

ReplyOwn == \A k \in 1..Len(hist) : hist[k].expect.kind = "msg" => hist[k].expect.q = hist[k].name
Done == n = NQueries
Emit == Done => PrintT(<<"BEHAVIOUR", ToJson([hist |-> hist])>>)
=============================================================================
