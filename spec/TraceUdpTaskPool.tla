--------------------------- MODULE TraceUdpTaskPool ---------------------------
(* Trace validation for C13 (task pool): executions of the REAL UdpTaskPool recorded at the verif yield points during
   random / directed gated walks - schedules that are NOT taken from the model - must be behaviours of UdpTaskPool.tla,
   and the property layer (NoDuplicate, PerKeyFifo, OneAtATime, NoForeignQueue, NoResidue, RefsSane) is evaluated by TLC
   in every state of the matched behaviour.

   One trace line = one step of one goroutine between two yield points: [who, from, to, ch].
     who   "p1".."p3" (producer), "convoy#i" (i-th worker goroutine that showed up), "reset" (next walk starts)
     from / to   the yield points; they are the program counters of the specification under another spelling
     ch    at acquire.store: ordinal (by first appearance) of the channel the new queue object got from the pool
   What is not logged is inferred by TLC: which queue id a worker goroutine serves.
   sync.Pool promises nothing about WHICH pooled object Get returns (a garbage collection between two Puts moves the first
   one to the victim cache, two collections drop it): here a creation may take any pooled channel or a fresh one, and the
   logged ordinal decides.  (UdpTaskPool.tla keeps the deterministic private-slot + chain order for exhaustive checking.) *)
EXTENDS UdpTaskPool, Json

Trace == ndJsonDeserialize("trace.ndjson")

VARIABLES l,        \* next trace line
          cmap      \* worker goroutine ordinal -> queue id (0: not yet bound)
tvars == <<vars, l, cmap>>

PPc(g) == CASE g = "start" -> "start" [] g = "done" -> "start"
            [] g = "acquire.loaded" -> "loaded" [] g = "acquire.create" -> "create" [] g = "acquire.store" -> "store"
            [] g = "acquire.loaded2" -> "loaded2" [] g = "emit.enqueue" -> "enq" [] g = "emit.release" -> "rel"
            [] OTHER -> "?"
CPc(g) == CASE g = "convoy.top" -> "top" [] g = "task.start" -> "task" [] g = "convoy.timer" -> "timer" [] g = "convoy.popov" -> "popov"
            [] g = "convoy.checked" -> "checked" [] g = "convoy.claimed" -> "claimed" [] g = "convoy.recycle" -> "recycle"
            [] g = "convoy.exit" -> "exited" [] OTHER -> "?"
MaxConvoys == 12

TraceInit == Init /\ l = 1 /\ cmap = [i \in 1..MaxConvoys |-> 0]

Line == Trace[l]
IsProducer == l <= Len(Trace) /\ Line.who \in Producers
IsConvoy == l <= Len(Trace) /\ Line.kind = "c"
IsReset == l <= Len(Trace) /\ Line.kind = "reset"

PooledChans == (IF poolPriv = NoC THEN {} ELSE {poolPriv}) \cup {poolShared[i] : i \in DOMAIN poolShared}
NextFresh == IF fresh = {} THEN {} ELSE {CHOOSE c \in fresh : \A d \in fresh : c <= d}
TakeFromPool(c) == IF c = poolPriv THEN /\ poolPriv' = NoC /\ UNCHANGED <<poolShared, fresh>>
                   ELSE IF c \in PooledChans THEN /\ poolShared' = SelectSeq(poolShared, LAMBDA x : x # c) /\ UNCHANGED <<poolPriv, fresh>>
                   ELSE /\ fresh' = fresh \ {c} /\ UNCHANGED <<poolPriv, poolShared>>
\* PCreate of UdpTaskPool.tla with the channel left open
PCreateAny(p) ==
  /\ ppc[p] = "create"
  /\ \E c \in PooledChans \cup NextFresh :
       /\ \E q \in QIds :
            /\ qkey[q] = "none" /\ \A r \in QIds : (qkey[r] = "none" => q <= r)
            /\ qkey' = [qkey EXCEPT ![q] = KeyOf[p]]
            /\ chanOf' = [chanOf EXCEPT ![q] = c]
            /\ pnew' = [pnew EXCEPT ![p] = q]
       /\ TakeFromPool(c)
  /\ ppc' = [ppc EXCEPT ![p] = "store"]
  /\ H([a |-> "PCreate", p |-> p])
  /\ UNCHANGED <<map, refs, chans, overflow, ovMode, cpc, running, pq, pn, accepted, executed, timers>>

ProducerStep ==
  /\ IsProducer
  /\ LET p == Line.who IN
     /\ ppc[p] = PPc(Line.from)
     /\ \/ PLoad(p) \/ PCas1(p) \/ PCreateAny(p) \/ PLoadOrStore(p) \/ PCas2(p) \/ PEnq(p) \/ PRel(p)
     /\ ppc'[p] = PPc(Line.to)
     /\ (Line.to = "acquire.store" => chanOf'[pnew'[p]] = Line.ch)      \* the channel the pool handed out
  /\ l' = l + 1 /\ UNCHANGED cmap

ConvoyStep ==
  /\ IsConvoy
  /\ \E q \in QIds :
       /\ (cmap[Line.n] = q \/ (cmap[Line.n] = 0 /\ \A i \in 1..MaxConvoys : cmap[i] # q))
       /\ cpc[q] = CPc(Line.from)
       /\ \/ CPop(q) \/ CPopOv(q) \/ CRun(q) \/ CTimer(q) \/ CClaim(q) \/ CDelete(q) \/ CRecycle(q)
       /\ cpc'[q] = CPc(Line.to)
       /\ cmap' = [cmap EXCEPT ![Line.n] = IF Line.to = "convoy.exit" THEN 0 ELSE q]
  /\ l' = l + 1

\* the next walk starts from a fresh pool
TraceReset ==
  /\ IsReset
  /\ map' = [k \in Keys |-> NoQ] /\ qkey' = [q \in QIds |-> "none"] /\ refs' = [q \in QIds |-> 0] /\ chanOf' = [q \in QIds |-> NoC]
  /\ chans' = [c \in ChanIds |-> <<>>] /\ overflow' = [q \in QIds |-> <<>>] /\ ovMode' = [q \in QIds |-> FALSE]
  /\ poolPriv' = NoC /\ poolShared' = <<>> /\ fresh' = ChanIds
  /\ cpc' = [q \in QIds |-> "none"] /\ running' = [q \in QIds |-> NoTask]
  /\ ppc' = [p \in Producers |-> "start"] /\ pq' = [p \in Producers |-> NoQ] /\ pnew' = [p \in Producers |-> NoQ] /\ pn' = [p \in Producers |-> 0]
  /\ accepted' = [k \in Keys |-> <<>>] /\ executed' = <<>> /\ timers' = 0 /\ hist' = <<>>
  /\ cmap' = [i \in 1..MaxConvoys |-> 0]
  /\ l' = l + 1

TraceNext == ProducerStep \/ ConvoyStep \/ TraceReset
TraceSpec == TraceInit /\ [][TraceNext]_tvars

\* every line of the recorded executions was matched
TraceAccepted == TLCGet("stats").diameter - 1 = Len(Trace)
TraceView == <<map, qkey, refs, chanOf, chans, overflow, ovMode, poolPriv, poolShared, fresh, cpc, running, ppc, pq, pnew, pn, accepted, executed, l, cmap>>
=============================================================================
