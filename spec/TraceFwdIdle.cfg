SPECIFICATION TraceSpec
CONSTANTS
  Clients = {"c1", "c2"}
  MaxFw = 8
  MaxEvents = 1000
  JanitorRetires = TRUE
VIEW TraceView
INVARIANTS ClosedOnce NeverInUse RetiredClosed
POSTCONDITION TraceAccepted
CHECK_DEADLOCK FALSE
