--------------------------- MODULE DomainTracker ---------------------------
(* C10 - the kernel's address-to-domain table always mirrors the live DNS cache.

   Property layer:
     live : owner key -> [bm, ips]      the cache entries that currently exist (owner = cache key)
     Mirror:  for every address a,  kern[a] = OR { live[k].bm : a \in live[k].ips, bm # 0 }, and a has no entry
              when no live entry with a non-zero bitmap lists it. Unspecified addresses never appear.

   Implementation layer (control/domain_routing_tracker.go, syncOwner + applyOwnerSnapshotLocked):
     tOwners : owner -> snapshot kept by the tracker,  tIps : address -> [owners -> bm, merged]
     the write plan of one sync: delete when no owner remains, update when the recorded merged
     bitmap differs from the desired one.  TLC checks that the plan keeps Mirror.

   A full table (Cap > 0 = the number of entries the kernel hash map holds): an update that needs a new entry when none
   is free fails (E2BIG); the code then leaves its bookkeeping alone, the DNS controller syncs the entry again later
   (Retry: the next cache hit, or the periodic re-sync).  owners in `failed` are those whose last sync failed;
   MirrorWhenSynced demands Mirror whenever no owner is in that state.  (Only failures of single-entry updates are
   generated: a batch that fails half-way leaves a kernel-dependent part written.)

   Bitmaps are subsets of Bits (OR = union); the harness maps them to real 1024-bit bitmaps with the
   bits spread over different words. *)
EXTENDS Integers, Sequences, FiniteSets, TLC, Json

CONSTANTS Owners, Addrs, Unspec, Bits, MaxHist,
          GenBms, GenIpsets,    \* the bitmaps / address sets an Update may use (all of them in the exhaustive config)
          Cap,                  \* capacity of the kernel table (0: never full)
          BookkeepFirst         \* FALSE = the code (bookkeeping after the kernel writes); TRUE = before them (must violate)

AllAddrs == Addrs \cup {Unspec}
NoEntry == [bm |-> {}, ips |-> {}]

VARIABLES live,      \* property layer: the cache
          kern,      \* the kernel table: [Addrs -> SUBSET Bits] \cup "absent" encoded as a partial function
          tOwners, tIps,   \* implementation layer: tracker bookkeeping
          failed,    \* owners whose last sync failed (table full)
          hist
vars == <<live, kern, tOwners, tIps, failed, hist>>

Init == /\ live = [k \in Owners |-> NoEntry]
        /\ kern = [a \in {} |-> {}]
        /\ tOwners = [k \in {} |-> NoEntry]
        /\ tIps = [a \in {} |-> [owners |-> [k \in {} |-> {}], merged |-> {}]]
        /\ failed = {}
        /\ hist = <<>>

(* ---------------- reference: what the table must contain ---------------- *)
Contributors(l, a) == {k \in Owners : a \in l[k].ips /\ l[k].bm # {} /\ a # Unspec}
Wanted(l, a) == UNION {l[k].bm : k \in Contributors(l, a)}
Mirror == /\ DOMAIN kern = {a \in AllAddrs : Contributors(live, a) # {}}
          /\ \A a \in DOMAIN kern : kern[a] = Wanted(live, a)
          /\ Unspec \notin DOMAIN kern

(* ---------------- implementation: one syncOwner(ownerKey, snapshot) ---------------- *)
\* snapshot as built by buildDomainRoutingOwnerSnapshot: unspecified addresses are dropped
Snap(bm, ips) == [bm |-> bm, ips |-> ips \ {Unspec}]
Usable(s) == s.ips # {} /\ s.bm # {}
OthersBm(a, k) == IF a \in DOMAIN tIps
                  THEN UNION {tIps[a].owners[o] : o \in (DOMAIN tIps[a].owners) \ {k}}
                  ELSE {}
HasOthers(a, k) == a \in DOMAIN tIps /\ (DOMAIN tIps[a].owners) \ {k} # {}
Present(a, k, s) == HasOthers(a, k) \/ (Usable(s) /\ a \in s.ips)
Desired(a, k, s) == OthersBm(a, k) \cup (IF Usable(s) /\ a \in s.ips THEN s.bm ELSE {})
OldIps(k) == IF k \in DOMAIN tOwners THEN tOwners[k].ips ELSE {}
Affected(k, s) == OldIps(k) \cup s.ips
ToDelete(k, s) == {a \in Affected(k, s) : ~Present(a, k, s) /\ a \in DOMAIN tIps}
ToUpdate(k, s) == {a \in Affected(k, s) : Present(a, k, s) /\ (a \notin DOMAIN tIps \/ tIps[a].merged # Desired(a, k, s))}

\* applyOwnerSnapshotLocked
RemoveOwner(ips, k, oldIps) ==
    LET touched == {a \in oldIps : a \in DOMAIN ips}
        keep == {a \in DOMAIN ips : a \notin touched \/ (DOMAIN ips[a].owners) \ {k} # {}}
    IN [a \in keep |->
          IF a \in touched
          THEN LET os == [o \in (DOMAIN ips[a].owners) \ {k} |-> ips[a].owners[o]]
               IN [owners |-> os, merged |-> UNION {os[o] : o \in DOMAIN os}]
          ELSE ips[a]]
AddOwner(ips, k, s) ==
    IF ~Usable(s) THEN ips
    ELSE [a \in (DOMAIN ips) \cup s.ips |->
            IF a \in s.ips
            THEN LET base == IF a \in DOMAIN ips THEN ips[a].owners ELSE [o \in {} |-> {}]
                     os == [o \in (DOMAIN base) \cup {k} |-> IF o = k THEN s.bm ELSE base[o]]
                 IN [owners |-> os, merged |-> UNION {os[o] : o \in DOMAIN os}]
            ELSE ips[a]]

Sync(k, s) ==
    /\ kern' = [a \in ((DOMAIN kern) \ ToDelete(k, s)) \cup ToUpdate(k, s) |->
                  IF a \in ToUpdate(k, s) THEN Desired(a, k, s) ELSE kern[a]]
    /\ tIps' = AddOwner(RemoveOwner(tIps, k, OldIps(k)), k, s)
    /\ tOwners' = IF Usable(s)
                  THEN [o \in (DOMAIN tOwners) \cup {k} |-> IF o = k THEN s ELSE tOwners[o]]
                  ELSE [o \in (DOMAIN tOwners) \ {k} |-> tOwners[o]]

KernRecs(kk) == [i \in 1..Cardinality(DOMAIN kk) |->
                   LET a == CHOOSE x \in DOMAIN kk : Cardinality({y \in DOMAIN kk : y < x}) = i - 1
                   IN [addr |-> a, bm |-> kk[a]]]

(* ---------------- cache events ---------------- *)
\* the kernel refuses a new entry when the table is full (updates are written before deletes)
Overflows(k, s) == Cap > 0 /\ Cardinality((DOMAIN kern) \cup ToUpdate(k, s)) > Cap
SingleNew(k, s) == Cardinality(ToUpdate(k, s)) = 1 /\ ToUpdate(k, s) \cap DOMAIN kern = {}
\* one sync of owner k with snapshot s, as the outcome of BatchUpdateDomainRouting
TrySync(k, s, ev) ==
    IF Overflows(k, s)
    THEN /\ SingleNew(k, s)                                     \* (other overflowing batches are not generated)
         /\ kern' = kern
         /\ IF BookkeepFirst
            THEN /\ tIps' = AddOwner(RemoveOwner(tIps, k, OldIps(k)), k, s)
                 /\ tOwners' = IF Usable(s) THEN [o \in (DOMAIN tOwners) \cup {k} |-> IF o = k THEN s ELSE tOwners[o]]
                                ELSE [o \in (DOMAIN tOwners) \ {k} |-> tOwners[o]]
            ELSE UNCHANGED <<tOwners, tIps>>
         /\ failed' = failed \cup {k}
         /\ hist' = Append(hist, [a |-> ev, k |-> k, bm |-> live'[k].bm, ips |-> live'[k].ips, ok |-> FALSE, after |-> KernRecs(kern')])
    ELSE /\ Sync(k, s)
         /\ failed' = failed \ {k}
         /\ hist' = Append(hist, [a |-> ev, k |-> k, bm |-> live'[k].bm, ips |-> live'[k].ips, ok |-> TRUE, after |-> KernRecs(kern')])
\* an answer is cached / refreshed / replaced under owner k  (BatchUpdateDomainRouting)
Update(k, bm, ips) ==
    /\ live' = [live EXCEPT ![k] = [bm |-> bm, ips |-> ips]]
    /\ TrySync(k, Snap(bm, ips), "update")
\* the controller syncs an entry again whose last sync failed
Retry(k) ==
    /\ k \in failed
    /\ live' = live
    /\ TrySync(k, Snap(live[k].bm, live[k].ips), "update")
\* the entry of owner k expires / is rejected / evicted  (BatchRemoveDomainRouting)
Remove(k) ==
    /\ live' = [live EXCEPT ![k] = NoEntry]
    /\ Sync(k, Snap({}, {}))
    /\ failed' = failed \ {k}
    /\ hist' = Append(hist, [a |-> "remove", k |-> k, bm |-> {}, ips |-> {}, ok |-> TRUE, after |-> KernRecs(kern')])

Next == /\ Len(hist) < MaxHist
        /\ \/ \E k \in Owners, bm \in GenBms, ips \in GenIpsets : Update(k, bm, ips)
           \/ \E k \in Owners : Remove(k)
           \/ \E k \in Owners : Retry(k)
Spec == Init /\ [][Next]_vars

(* ---------------- properties ---------------- *)
MirrorWhenSynced == failed = {} => Mirror
\* histories worth replaying in the capacity configuration: at least one sync failed
HadFailure == \E i \in DOMAIN hist : ~hist[i].ok
EmitFail == (Len(hist) = MaxHist /\ HadFailure /\ failed = {}) => PrintT(<<"BEHAVIOUR", ToJson([hist |-> hist])>>)
TrackerConsistent == \A a \in DOMAIN tIps : tIps[a].merged = UNION {tIps[a].owners[o] : o \in DOMAIN tIps[a].owners}
View == <<live, kern, tOwners, tIps, failed>>

Behaviour == [hist |-> hist]
\* one record per complete history; every step carries the expected table after it
Emit == Len(hist) = MaxHist => PrintT(<<"BEHAVIOUR", ToJson(Behaviour)>>)
=============================================================================
