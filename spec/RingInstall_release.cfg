SPECIFICATION Spec
CONSTANTS
  Ring = 5
  MaxSets = 3
  MaxGens = 3
  MaxOps = 9
  UserReleases = TRUE
  FitTogether = TRUE
INVARIANTS RingRight
