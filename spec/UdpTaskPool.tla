---------------------------- MODULE UdpTaskPool ----------------------------
(* C13 (first mechanism) - per-flow ordered, exactly-once task execution with idle garbage collection.

   One action per atomic step of control/udp_task_pool.go; the step boundaries are the `verif` yield
   points in the code (names in brackets), so a TLC behaviour is a schedule the conformance harness can
   force on the real UdpTaskPool.

     EmitTask(key, task):   PLoad [acquire.loaded | acquire.create] ; PCas1 ; PCreate [acquire.store] ;
                            PLoadOrStore [acquire.loaded2 | emit.enqueue] ; PCas2 ; PEnq [emit.release] ; PRel
     convoy():              CPop [loop.top -> task.start | convoy.popov] ; CPopOv [-> task.start | convoy.timer] ; CRun ; CTimer [convoy.checked] ;
                            CClaim [convoy.claimed] ; CRecheck ; CDelete [convoy.recycle] ; CRecycle

   Property layer (what a user of the pool relies on):
     ExactlyOnce      no task is executed twice; at quiescence every accepted task was executed
     PerKeyFifo       tasks of one flow run in the order they were accepted
     OneAtATime       no two tasks of one flow run at the same time
     NoForeignQueue   a task never runs under another flow's queue
     NoResidue        a recycled channel is empty; a retired queue holds no task  (what makes the above fail)

   Variant: ClaimRecheck = FALSE is the code as found (lock-free emptiness check, then claim, then delete);
            ClaimRecheck = TRUE  takes the claim under enqueueMu together with a second emptiness check
                                 (the repaired code), so no enqueue fits between check and claim. *)
EXTENDS Integers, Sequences, FiniteSets, TLC, Json

CONSTANTS Producers,      \* model values / strings
          KeyOf,          \* [Producers -> Keys]
          NTasks,         \* tasks emitted by each producer
          QIds,           \* queue instance ids (allocation bound)
          ChanIds,        \* channel ids (allocation bound)
          ChanCap,        \* channel capacity (UdpTaskQueueLength in the code)
          ClaimRecheck,   \* BOOLEAN, see above
          PopRecheck,     \* BOOLEAN: popOverflowTask looks at the channel again under enqueueMu (see CPopOv)
          MaxTimer        \* (unused: busy timer firings revisit states, which the VIEW collapses)

Keys == {KeyOf[p] : p \in Producers}
NoQ == 0
NoC == 0
NEG == -1                       \* stands for the -1000000 sentinel
Task(p, n) == [p |-> p, n |-> n, key |-> KeyOf[p]]

VARIABLES
  map,        \* [Keys -> QIds \cup {NoQ}]                       p.queues
  qkey,       \* [QIds -> Keys \cup {"none"}]                    q.key (also: allocated?)
  refs,       \* [QIds -> Int]                                   q.refs
  chanOf,     \* [QIds -> ChanIds \cup {NoC}]                    q.ch
  chans,      \* [ChanIds -> Seq(Task)]                          channel contents (survive recycling!)
  overflow,   \* [QIds -> Seq(Task)]
  ovMode,     \* [QIds -> BOOLEAN]
  poolPriv,   \* ChanIds \cup {NoC}     sync.Pool per-P private slot (the harness runs with GOMAXPROCS(1))
  poolShared, \* Seq(ChanIds)           sync.Pool shared chain (pushHead / popHead)
  fresh,      \* set of channel ids never handed out (sync.Pool.New)
  cpc,        \* [QIds -> convoy program counter]
  running,    \* [QIds -> Task \cup {NoTask}]
  ppc,        \* [Producers -> producer program counter]
  pq,         \* [Producers -> QIds \cup {NoQ}]   queue held / candidate
  pnew,       \* [Producers -> QIds \cup {NoQ}]   queue under construction
  pn,         \* [Producers -> number of tasks already emitted]
  accepted,   \* [Keys -> Seq(Task)]   ghost: order of enqueue (under enqueueMu)
  executed,   \* Seq([task, qkey])     ghost: completed executions
  timers,     \* Nat                   ghost: bounded busy timer firings
  hist        \* Seq of action records (the schedule), for replay
vars == <<map, qkey, refs, chanOf, chans, overflow, ovMode, poolPriv, poolShared, fresh, cpc, running, ppc, pq, pnew, pn,
          accepted, executed, timers, hist>>
NoTask == [p |-> "none", n |-> 0, key |-> "none"]

H(a) == hist' = Append(hist, a)

Init ==
  /\ map = [k \in Keys |-> NoQ]
  /\ qkey = [q \in QIds |-> "none"]
  /\ refs = [q \in QIds |-> 0]
  /\ chanOf = [q \in QIds |-> NoC]
  /\ chans = [c \in ChanIds |-> <<>>]
  /\ overflow = [q \in QIds |-> <<>>]
  /\ ovMode = [q \in QIds |-> FALSE]
  /\ poolPriv = NoC /\ poolShared = <<>> /\ fresh = ChanIds
  /\ cpc = [q \in QIds |-> "none"]
  /\ running = [q \in QIds |-> NoTask]
  /\ ppc = [p \in Producers |-> "start"]
  /\ pq = [p \in Producers |-> NoQ] /\ pnew = [p \in Producers |-> NoQ]
  /\ pn = [p \in Producers |-> 0]
  /\ accepted = [k \in Keys |-> <<>>]
  /\ executed = <<>>
  /\ timers = 0
  /\ hist = <<>>

(* ------------------------------------------------------------------ sync.Pool of channels *)
PoolPut(c) == IF poolPriv = NoC THEN /\ poolPriv' = c /\ UNCHANGED poolShared
              ELSE /\ poolShared' = <<c>> \o poolShared /\ UNCHANGED poolPriv
PoolGetChan == IF poolPriv # NoC THEN poolPriv
               ELSE IF poolShared # <<>> THEN Head(poolShared)
               ELSE CHOOSE c \in fresh : \A d \in fresh : c <= d
PoolGetEffect == IF poolPriv # NoC THEN /\ poolPriv' = NoC /\ UNCHANGED <<poolShared, fresh>>
                 ELSE IF poolShared # <<>> THEN /\ poolShared' = Tail(poolShared) /\ UNCHANGED <<poolPriv, fresh>>
                 ELSE /\ fresh' = fresh \ {PoolGetChan} /\ UNCHANGED <<poolPriv, poolShared>>
PoolCanGet == poolPriv # NoC \/ poolShared # <<>> \/ fresh # {}

(* ------------------------------------------------------------------ producer: EmitTask *)
\* acquireQueue fast path: p.queues.Load(key)
PLoad(p) ==
  /\ ppc[p] = "start" /\ pn[p] < NTasks
  /\ LET k == KeyOf[p] IN
     IF map[k] # NoQ
     THEN /\ pq' = [pq EXCEPT ![p] = map[k]] /\ ppc' = [ppc EXCEPT ![p] = "loaded"]
     ELSE /\ pq' = [pq EXCEPT ![p] = NoQ] /\ ppc' = [ppc EXCEPT ![p] = "create"]
  /\ H([a |-> "PLoad", p |-> p])
  /\ UNCHANGED <<map, qkey, refs, chanOf, chans, overflow, ovMode, poolPriv, poolShared, fresh, cpc, running, pnew, pn, accepted, executed, timers>>

\* refs < 0 -> createNew ; else CAS refs -> refs+1
PCas1(p) ==
  /\ ppc[p] = "loaded"
  /\ LET q == pq[p] IN
     IF refs[q] < 0
     THEN /\ ppc' = [ppc EXCEPT ![p] = "create"] /\ UNCHANGED refs
     ELSE /\ refs' = [refs EXCEPT ![q] = @ + 1] /\ ppc' = [ppc EXCEPT ![p] = "enq"]
  /\ H([a |-> "PCas1", p |-> p])
  /\ UNCHANGED <<map, qkey, chanOf, chans, overflow, ovMode, poolPriv, poolShared, fresh, cpc, running, pq, pnew, pn, accepted, executed, timers>>

\* createNew: take a channel from the pool, build the queue object
PCreate(p) ==
  /\ ppc[p] = "create"
  /\ PoolCanGet
  /\ \E q \in QIds :
       /\ qkey[q] = "none" /\ \A r \in QIds : (qkey[r] = "none" => q <= r)     \* next unused queue id
       /\ qkey' = [qkey EXCEPT ![q] = KeyOf[p]]
       /\ chanOf' = [chanOf EXCEPT ![q] = PoolGetChan]
       /\ pnew' = [pnew EXCEPT ![p] = q]
  /\ PoolGetEffect
  /\ ppc' = [ppc EXCEPT ![p] = "store"]
  /\ H([a |-> "PCreate", p |-> p])
  /\ UNCHANGED <<map, refs, chans, overflow, ovMode, cpc, running, pq, pn, accepted, executed, timers>>

\* p.queues.LoadOrStore(key, newQ)
PLoadOrStore(p) ==
  /\ ppc[p] = "store"
  /\ LET k == KeyOf[p]  nq == pnew[p] IN
     IF map[k] = NoQ
     THEN /\ map' = [map EXCEPT ![k] = nq]
          /\ refs' = [refs EXCEPT ![nq] = @ + 1]
          /\ cpc' = [cpc EXCEPT ![nq] = "top"]                  \* go q.convoy()
          /\ pq' = [pq EXCEPT ![p] = nq]
          /\ ppc' = [ppc EXCEPT ![p] = "enq"]
          /\ UNCHANGED <<poolPriv, poolShared, qkey, chanOf>>
     ELSE /\ PoolPut(chanOf[nq])                                 \* lost the race: channel back to the pool,
          /\ qkey' = [qkey EXCEPT ![nq] = "none"]                 \* the queue object is garbage (its id is reusable)
          /\ chanOf' = [chanOf EXCEPT ![nq] = NoC]
          /\ pq' = [pq EXCEPT ![p] = map[k]]
          /\ ppc' = [ppc EXCEPT ![p] = "loaded2"]
          /\ UNCHANGED <<map, refs, cpc>>
  /\ pnew' = [pnew EXCEPT ![p] = NoQ]
  /\ H([a |-> "PLoadOrStore", p |-> p])
  /\ UNCHANGED <<chans, overflow, ovMode, fresh, running, pn, accepted, executed, timers>>

\* loaded after LoadOrStore: refs < 0 -> CompareAndDelete the draining queue and create again ; else CAS
PCas2(p) ==
  /\ ppc[p] = "loaded2"
  /\ LET q == pq[p]  k == KeyOf[p] IN
     IF refs[q] < 0
     THEN /\ ppc' = [ppc EXCEPT ![p] = "create"]
          /\ UNCHANGED refs
          /\ IF map[k] = q THEN map' = [map EXCEPT ![k] = NoQ] ELSE UNCHANGED map
     ELSE /\ refs' = [refs EXCEPT ![q] = @ + 1] /\ ppc' = [ppc EXCEPT ![p] = "enq"] /\ UNCHANGED map
  /\ H([a |-> "PCas2", p |-> p])
  /\ UNCHANGED <<qkey, chanOf, chans, overflow, ovMode, poolPriv, poolShared, fresh, cpc, running, pq, pnew, pn, accepted, executed, timers>>

\* q.enqueue(task) under enqueueMu
PEnq(p) ==
  /\ ppc[p] = "enq"
  /\ LET q == pq[p]  c == chanOf[pq[p]]  t == Task(p, pn[p] + 1) IN
     /\ IF ovMode[q]
        THEN /\ overflow' = [overflow EXCEPT ![q] = Append(@, t)] /\ UNCHANGED <<chans, ovMode>>
        ELSE IF Len(chans[c]) < ChanCap
        THEN /\ chans' = [chans EXCEPT ![c] = Append(@, t)] /\ UNCHANGED <<overflow, ovMode>>
        ELSE /\ ovMode' = [ovMode EXCEPT ![q] = TRUE]
             /\ overflow' = [overflow EXCEPT ![q] = Append(@, t)] /\ UNCHANGED chans
     /\ accepted' = [accepted EXCEPT ![KeyOf[p]] = Append(@, t)]
  /\ ppc' = [ppc EXCEPT ![p] = "rel"]
  /\ H([a |-> "PEnq", p |-> p])
  /\ UNCHANGED <<map, qkey, refs, chanOf, poolPriv, poolShared, fresh, cpc, running, pq, pnew, pn, executed, timers>>

\* q.refs.Add(-1)
PRel(p) ==
  /\ ppc[p] = "rel"
  /\ refs' = [refs EXCEPT ![pq[p]] = @ - 1]
  /\ pn' = [pn EXCEPT ![p] = @ + 1]
  /\ ppc' = [ppc EXCEPT ![p] = "start"]
  /\ pq' = [pq EXCEPT ![p] = NoQ]
  /\ H([a |-> "PRel", p |-> p])
  /\ UNCHANGED <<map, qkey, chanOf, chans, overflow, ovMode, poolPriv, poolShared, fresh, cpc, running, pnew, accepted, executed, timers>>

(* ------------------------------------------------------------------ convoy *)
\* popReadyTask: a non-blocking look at the channel ...
CPop(q) ==
  /\ cpc[q] = "top"
  /\ LET c == chanOf[q] IN
     IF chans[c] # <<>>
     THEN /\ running' = [running EXCEPT ![q] = Head(chans[c])]
          /\ chans' = [chans EXCEPT ![c] = Tail(@)]
          /\ cpc' = [cpc EXCEPT ![q] = "task"]
     ELSE /\ cpc' = [cpc EXCEPT ![q] = "popov"] /\ UNCHANGED <<running, chans>>
  /\ H([a |-> "CPop", q |-> q])
  /\ UNCHANGED <<map, qkey, refs, chanOf, overflow, ovMode, poolPriv, poolShared, fresh, ppc, pq, pnew, pn, accepted, executed, timers>>

\* ... and only then popOverflowTask, under enqueueMu [convoy.popov].  Producers may have filled the channel and spilled into the
\* overflow FIFO in between: what is in the channel is older than anything in the FIFO.  PopRecheck = TRUE looks at the channel
\* once more under the lock (the repaired code); FALSE is the code as found: the FIFO's head overtakes the channel's content.
CPopOv(q) ==
  /\ cpc[q] = "popov"
  /\ LET c == chanOf[q] IN
     IF PopRecheck /\ chans[c] # <<>>
     THEN /\ running' = [running EXCEPT ![q] = Head(chans[c])]
          /\ chans' = [chans EXCEPT ![c] = Tail(@)]
          /\ cpc' = [cpc EXCEPT ![q] = "task"] /\ UNCHANGED <<overflow, ovMode>>
     ELSE IF overflow[q] # <<>>
     THEN /\ running' = [running EXCEPT ![q] = Head(overflow[q])]
          /\ overflow' = [overflow EXCEPT ![q] = Tail(@)]
          /\ ovMode' = [ovMode EXCEPT ![q] = (Len(overflow[q]) > 1)]
          /\ cpc' = [cpc EXCEPT ![q] = "task"] /\ UNCHANGED chans
     ELSE /\ ovMode' = [ovMode EXCEPT ![q] = FALSE]
          /\ cpc' = [cpc EXCEPT ![q] = "timer"] /\ UNCHANGED <<running, chans, overflow>>
  /\ H([a |-> "CPopOv", q |-> q])
  /\ UNCHANGED <<map, qkey, refs, chanOf, poolPriv, poolShared, fresh, ppc, pq, pnew, pn, accepted, executed, timers>>

\* the task body runs to completion
CRun(q) ==
  /\ cpc[q] = "task"
  /\ executed' = Append(executed, [task |-> running[q], qkey |-> qkey[q]])
  /\ running' = [running EXCEPT ![q] = NoTask]
  /\ cpc' = [cpc EXCEPT ![q] = "top"]
  /\ H([a |-> "CRun", q |-> q])
  /\ UNCHANGED <<map, qkey, refs, chanOf, chans, overflow, ovMode, poolPriv, poolShared, fresh, ppc, pq, pnew, pn, accepted, timers>>

\* idle timer fired: refs > 0 or pending tasks -> keep serving; else proceed to the claim
CTimer(q) ==
  /\ cpc[q] = "timer"
  /\ IF refs[q] > 0 \/ chans[chanOf[q]] # <<>> \/ overflow[q] # <<>>
     THEN /\ timers' = timers + 1 /\ cpc' = [cpc EXCEPT ![q] = "top"]
     ELSE /\ cpc' = [cpc EXCEPT ![q] = "checked"] /\ UNCHANGED timers
  /\ H([a |-> "CTimer", q |-> q])
  /\ UNCHANGED <<map, qkey, refs, chanOf, chans, overflow, ovMode, poolPriv, poolShared, fresh, running, ppc, pq, pnew, pn, accepted, executed>>

\* refs.CompareAndSwap(0, -1000000); with ClaimRecheck under enqueueMu and only if the queue is (still) empty
CClaim(q) ==
  /\ cpc[q] = "checked"
  /\ IF refs[q] = 0 /\ (~ClaimRecheck \/ (chans[chanOf[q]] = <<>> /\ overflow[q] = <<>>))
     THEN /\ refs' = [refs EXCEPT ![q] = NEG] /\ cpc' = [cpc EXCEPT ![q] = "claimed"] /\ UNCHANGED timers
     ELSE /\ timers' = timers + 1 /\ cpc' = [cpc EXCEPT ![q] = "top"] /\ UNCHANGED refs
  /\ H([a |-> "CClaim", q |-> q])
  /\ UNCHANGED <<map, qkey, chanOf, chans, overflow, ovMode, poolPriv, poolShared, fresh, running, ppc, pq, pnew, pn, accepted, executed>>

\* tryDeleteQueue / stale-mapping exit
CDelete(q) ==
  /\ cpc[q] = "claimed"
  /\ cpc' = [cpc EXCEPT ![q] = "recycle"]
  /\ IF map[qkey[q]] = q THEN map' = [map EXCEPT ![qkey[q]] = NoQ] ELSE UNCHANGED map
  /\ H([a |-> "CDelete", q |-> q])
  /\ UNCHANGED <<qkey, refs, chanOf, chans, overflow, ovMode, poolPriv, poolShared, fresh, running, ppc, pq, pnew, pn, accepted, executed, timers>>

\* p.queueChPool.Put(q.ch); return
CRecycle(q) ==
  /\ cpc[q] = "recycle"
  /\ PoolPut(chanOf[q])
  /\ cpc' = [cpc EXCEPT ![q] = "exited"]
  /\ H([a |-> "CRecycle", q |-> q])
  /\ UNCHANGED <<map, qkey, refs, chanOf, chans, overflow, ovMode, fresh, running, ppc, pq, pnew, pn, accepted, executed, timers>>

Next == \/ \E p \in Producers : PLoad(p) \/ PCas1(p) \/ PCreate(p) \/ PLoadOrStore(p) \/ PCas2(p) \/ PEnq(p) \/ PRel(p)
        \/ \E q \in QIds : CPop(q) \/ CPopOv(q) \/ CRun(q) \/ CTimer(q) \/ CClaim(q) \/ CDelete(q) \/ CRecycle(q)
Spec == Init /\ [][Next]_vars

(* ------------------------------------------------------------------ property layer *)
Range(s) == {s[i] : i \in DOMAIN s}
ExecTasks == [i \in DOMAIN executed |-> executed[i].task]
ExecOfKey(k) == SelectSeq(ExecTasks, LAMBDA t : t.key = k)
IsPrefix(s, t) == Len(s) <= Len(t) /\ \A i \in 1..Len(s) : s[i] = t[i]

NoDuplicate == \A i, j \in DOMAIN executed : i # j => executed[i].task # executed[j].task
PerKeyFifo == \A k \in Keys : IsPrefix(ExecOfKey(k), accepted[k])
OneAtATime == \A q1, q2 \in QIds : (q1 # q2 /\ running[q1] # NoTask /\ running[q2] # NoTask) => running[q1].key # running[q2].key
NoForeignQueue == \A i \in DOMAIN executed : executed[i].task.key = executed[i].qkey
NoResidue == /\ \A q \in QIds : cpc[q] = "recycle" => (chans[chanOf[q]] = <<>> /\ overflow[q] = <<>>)
             /\ \A q \in QIds : cpc[q] = "exited" => overflow[q] = <<>>
             /\ (poolPriv # NoC => chans[poolPriv] = <<>>)
             /\ \A i \in DOMAIN poolShared : chans[poolShared[i]] = <<>>
ProducersDone == \A p \in Producers : pn[p] = NTasks
Idle(q) == cpc[q] = "timer" /\ chans[chanOf[q]] = <<>> /\ overflow[q] = <<>>
Quiescent == ProducersDone /\ \A q \in QIds : (cpc[q] \in {"none", "exited"} \/ Idle(q))
NoLostTask == Quiescent => \A k \in Keys : ExecOfKey(k) = accepted[k]
RefsSane == \A q \in QIds : refs[q] >= NEG

(* ------------------------------------------------------------------ behaviour emission (for replay on the real pool) *)
Behaviour == [schedule |-> hist, executed |-> executed, accepted |-> accepted]
Emit == Quiescent => PrintT(<<"BEHAVIOUR", ToJson(Behaviour)>>)
View == <<map, qkey, refs, chanOf, chans, overflow, ovMode, poolPriv, poolShared, fresh, cpc, running, ppc, pq, pnew, pn, accepted, executed>>

(* ------------------------------------------------------------------ model constants *)
MC1Producers == {"p1"}
MC1KeyOf == [p \in MC1Producers |-> "A"]
MC3Producers == {"p1", "p2", "p3"}
MC3KeyOf == [p \in MC3Producers |-> IF p = "p3" THEN "B" ELSE "A"]
MC2Producers == {"p1", "p2"}
MC2KeyOf == [p \in MC2Producers |-> "A"]
=============================================================================
