SPECIFICATION Spec
CONSTANTS
  MaxRules = 4
  MaxConds = 3
  Level = "deep"
  MergeNegated = FALSE
INVARIANTS ScanRefines KernRefines OptimizePreserves LowerWF Emit
