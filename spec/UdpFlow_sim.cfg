SPECIFICATION Spec
CONSTANTS
  EFlows = {"A", "B"}
  NFlows = {"C"}
  MaxEvents = 10
  MaxConns = 6
  MaxT6 = 2
  MaxPk = 8
  Faults = {"wfail", "rexit", "dialfail", "tick"}
INVARIANTS NoDup Conservation HeldAreInitials BatchOrdered CompleteAtEnd NameRoutes OneTransport Emit
