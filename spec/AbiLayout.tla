------------------------------ MODULE AbiLayout ------------------------------
(* C19 (layouts and constants) - every structure exchanged through eBPF maps or load-time parameters has the same
   size, field offsets and field widths on the Go side as in the C program, and every shared enumeration and limit
   has the same value on both sides.

   The layout RULES are stated here once (natural alignment, struct alignment = max member alignment, tail padding,
   unions at the maximum size and offset 0, arrays); the declaration INSTANCES are extracted from the sources on
   every run (AbiDecls.tla is generated: C declarations from the compiled object's BTF, Go declarations by
   reflection / go/ast in both build flavours).  TLC evaluates, for every pair, that the two declarations lay out
   identically, and emits the layouts it computed so that the harness can validate these rules against what both
   compilers actually produced. *)
EXTENDS Integers, Sequences, FiniteSets, TLC, Json, AbiDecls

Max(S) == CHOOSE x \in S : \A y \in S : y <= x
AlignUp(x, a) == ((x + a - 1) \div a) * a
IsPad(n) == n \in PadNames

RECURSIVE AlignOf(_, _)
RECURSIVE SizeOf(_, _)
FieldAlign(D, f) == IF f.kind = "scalar" THEN (IF f.size > 8 THEN 8 ELSE f.size) ELSE AlignOf(D, f.struct)
FieldSize(D, f) == (IF f.kind = "scalar" THEN f.size ELSE SizeOf(D, f.struct)) * (IF f.count = 0 THEN 1 ELSE f.count)
AlignOf(D, n) == LET fs == D[n].fields IN IF fs = <<>> THEN 1 ELSE Max({FieldAlign(D, fs[i]) : i \in 1..Len(fs)})
\* offsets of the fields of declaration n (sequence)
RECURSIVE OffsetsFrom(_, _, _, _)
OffsetsFrom(D, fs, i, cur) ==
  IF i > Len(fs) THEN <<>>
  ELSE LET o == AlignUp(cur, FieldAlign(D, fs[i])) IN <<o>> \o OffsetsFrom(D, fs, i + 1, o + FieldSize(D, fs[i]))
Offsets(D, n) == IF D[n].union THEN [i \in 1..Len(D[n].fields) |-> 0] ELSE OffsetsFrom(D, D[n].fields, 1, 0)
SizeOf(D, n) ==
  LET fs == D[n].fields  os == Offsets(D, n) IN
  IF fs = <<>> THEN 0
  ELSE AlignUp(Max({os[i] + FieldSize(D, fs[i]) : i \in 1..Len(fs)}), AlignOf(D, n))

\* leaves: set of [off, size] of every non-padding scalar (arrays and unions are one blob)
RECURSIVE Leaves(_, _, _)
Leaves(D, n, base) ==
  IF D[n].union THEN {[off |-> base, size |-> SizeOf(D, n)]}
  ELSE LET fs == D[n].fields  os == Offsets(D, n) IN
       UNION { IF IsPad(fs[i].name) THEN {}
               ELSE IF fs[i].kind = "scalar" THEN {[off |-> base + os[i], size |-> FieldSize(D, fs[i])]}
               ELSE IF fs[i].count # 0 THEN {[off |-> base + os[i], size |-> FieldSize(D, fs[i])]}
               ELSE Leaves(D, fs[i].struct, base + os[i]) : i \in 1..Len(fs) }
\* adjacent byte-array leaves may be split differently on the two sides (e.g. __u32 pname[4] vs [16]uint8): compare coverage
Covered(L) == UNION {{b : b \in l.off..(l.off + l.size - 1)} : l \in L}
\* boundaries of multi-byte scalars must coincide: compare the leaves whose size is 2, 4 or 8 exactly
Wide(D, n) == {l \in Leaves(D, n, 0) : l.size \in {2, 4, 8}}

VARIABLE pair
Init == pair \in Pairs
Next == UNCHANGED pair
Spec == Init /\ [][Next]_pair

CD == CDecls
GD == IF pair.flavour = "real" THEN GoDeclsReal ELSE GoDeclsStub
SameSize == SizeOf(CD, pair.c) = SizeOf(GD, pair.go)
SameCoverage == Covered(Leaves(CD, pair.c, 0)) = Covered(Leaves(GD, pair.go, 0))
\* every wide C scalar sits inside Go storage that starts at the same offset (a Go byte array may cover a C word, not vice versa...)
WideAgree == \A l \in Wide(GD, pair.go) : \E m \in Leaves(CD, pair.c, 0) : m.off <= l.off /\ l.off + l.size <= m.off + m.size /\ (m.size = l.size => m.off = l.off)
LayoutAgrees == SameSize /\ SameCoverage /\ WideAgree

\* members that occupy the same bytes carry the same name (modulo case and punctuation): a value written through the Go
\* declaration lands in the member the C program reads under that name
NamesAgree == LET cf == CD[pair.c].fields  co == Offsets(CD, pair.c)
                  gf == GD[pair.go].fields  go == Offsets(GD, pair.go) IN
              (~CD[pair.c].union /\ ~GD[pair.go].union) =>
              \A i \in 1..Len(cf), j \in 1..Len(gf) :
                 (co[i] = go[j] /\ ~IsPad(cf[i].name) /\ ~IsPad(gf[j].name) /\ cf[i].kind = "scalar" /\ gf[j].kind = "scalar"
                    /\ FieldSize(CD, cf[i]) = FieldSize(GD, gf[j])) => cf[i].norm = gf[j].norm

\* constants
ConstsAgree == \A k \in DOMAIN CEnums : k \in DOMAIN GoEnums => CEnums[k] = GoEnums[k]

Computed == [c |-> pair.c, go |-> pair.go, flavour |-> pair.flavour,
             csize |-> SizeOf(CD, pair.c), gosize |-> SizeOf(GD, pair.go),
             coffsets |-> Offsets(CD, pair.c), gooffsets |-> Offsets(GD, pair.go),
             agrees |-> LayoutAgrees, names |-> NamesAgree]
Emit == PrintT(<<"VECTOR", ToJson(Computed)>>)
=============================================================================
