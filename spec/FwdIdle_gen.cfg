SPECIFICATION Spec
CONSTANTS
  Clients = {"c1", "c2"}
  MaxFw = 3
  MaxEvents = 7
  JanitorRetires = TRUE
INVARIANTS ClosedOnce NeverInUse RetiredClosed Emit
