------------------------------ MODULE CidrOps ------------------------------
(* Pure operators of the CIDR specification (see Cidr.tla): reference containment semantics and the two
   implementation-shaped encodings (bit-string trie key, kernel LPM key). No variables: reused by RuleScan. *)
EXTENDS Integers, Sequences, FiniteSets

Pow2(n) == 2^n
V4Pad == <<0,0,0,0,0,0,0,0,0,0,255,255>>
Mapped(fam, b) == IF fam = 4 THEN V4Pad \o b ELSE b
L(p) == IF p.fam = 4 THEN p.len + 96 ELSE p.len
Pfx(fam, b, len) == [fam |-> fam, b |-> b, len |-> len]
Adr(fam, b) == [fam |-> fam, b |-> b]

(* ---------------- reference semantics ---------------- *)
SameBits(x, y, n) ==
    /\ \A i \in 1..(n \div 8) : x[i] = y[i]
    /\ (n % 8 # 0) => LET i == (n \div 8) + 1
                          sh == Pow2(8 - (n % 8))
                      IN (x[i] \div sh) = (y[i] \div sh)

PfxContains(p, a) == SameBits(Mapped(p.fam, p.b), Mapped(a.fam, a.b), L(p))
SetHas(S, a) == \E p \in S : PfxContains(p, a)

(* ---------------- implementation layer: bit-string trie ---------------- *)
BitAt(x, i) == (x[((i - 1) \div 8) + 1] \div Pow2(7 - ((i - 1) % 8))) % 2      \* i in 1..128
Bits(x, n) == [i \in 1..n |-> BitAt(x, i)]
Bin128(p) == Bits(Mapped(p.fam, p.b), L(p))           \* key string of a prefix: its first L(p) bits
IsPrefixOf(k, w) == Len(k) <= Len(w) /\ \A i \in 1..Len(k) : k[i] = w[i]
TrieHasRaw(S, a) == LET w == Bits(Mapped(a.fam, a.b), 128)
                    IN \E p \in S : IsPrefixOf(Bin128(p), w)

(* ---------------- implementation layer: kernel LPM keys ---------------- *)
LpmKey(p) == [prefixlen |-> L(p), data |-> Mapped(p.fam, p.b)]
LpmKeys(S) == {LpmKey(p) : p \in S}
\* BPF_MAP_TYPE_LPM_TRIE: a lookup key (prefixlen 128, data) matches the entry with the longest
\* prefixlen whose first prefixlen bits equal the key's; "hit" iff such an entry exists.
LpmCandidates(K, a) == {k \in K : SameBits(k.data, Mapped(a.fam, a.b), k.prefixlen)}
LpmLookup(K, a) == LpmCandidates(K, a) # {}
LpmBest(K, a) == CHOOSE k \in LpmCandidates(K, a) : \A j \in LpmCandidates(K, a) : j.prefixlen <= k.prefixlen

=============================================================================
