SPECIFICATION Spec
CONSTANTS
  Senders = {"s1", "s2"}
  Dests = {"d1", "d2"}
  Batch = 2
  MaxSends = 4
  MaxEvents = 8
INVARIANTS HandedOnce ArrivalOrder Accounted Emit
