SPECIFICATION Spec
CONSTANTS
  Port = 53
  SniffT = 100
  DnsT = 5000
  Grace = 10000
  Slack = 50
  MaxEvents = 4
INVARIANTS Monotone EndsOnlyAfterEof IdleNeverCuts DelayBounded
