SPECIFICATION Spec
CONSTANTS
  Port = 53
  SniffT = 100
  DnsT = 5000
  Grace = 10000
  Slack = 50
  MaxEvents = 7
INVARIANTS Monotone EndsOnlyAfterEof IdleNeverCuts DelayBounded Emit
