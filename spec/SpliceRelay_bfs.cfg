SPECIFICATION Spec
CONSTANTS
  Jobs = {1, 2, 3}
  MaxEvents = 5
  MaxChunks = 3
  PutDirty = FALSE
INVARIANTS OwnBytes Complete PoolClean EmitReuse
