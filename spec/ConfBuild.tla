------------------------------ MODULE ConfBuild ------------------------------
(* C17 (typed layer) - building the typed configuration applies documented defaults, rejects with an error
   (never a crash) unknown sections and keys, missing required ones and rule programs beyond the supported size.

   The schema itself (sections, keys, their types, defaults, required / repeatable flags) is read from the code by
   reflection at run time; this specification states the RULES over key classes and perturbations of a valid base
   configuration, and TLC enumerates every (perturbation, key class) combination with its required outcome. *)
EXTENDS Integers, Sequences, FiniteSets, TLC, Json

CONSTANT Limit          \* the match-set limit (only its neighbourhood matters)

Sections == {"global", "routing", "dns", "group", "node", "subscription"}
Required == {"global", "routing"}
KeyClasses == {"string-default", "number-default", "number-nodefault", "bool-default", "duration-default", "list-default", "string-nodefault", "list-nodefault"}
ProgramKinds == {"port", "domain", "mixed"}

Perturbations ==
     {[op |-> "base", sec |-> "", kc |-> "", n |-> 0, kind |-> ""]}
  \cup {[op |-> "drop_section", sec |-> s, kc |-> "", n |-> 0, kind |-> ""] : s \in Sections}
  \cup {[op |-> "unknown_section", sec |-> "", kc |-> "", n |-> 0, kind |-> ""]}
  \cup {[op |-> "unknown_key", sec |-> s, kc |-> "", n |-> 0, kind |-> ""] : s \in {"global", "dns", "group", "routing"}}
  \cup {[op |-> "keyless_text", sec |-> s, kc |-> "", n |-> 0, kind |-> ""] : s \in {"global", "routing"}}
  \cup {[op |-> "rule_outside_routing", sec |-> "global", kc |-> "", n |-> 0, kind |-> ""]}
  \cup {[op |-> "absent_key", sec |-> "global", kc |-> k, n |-> 0, kind |-> ""] : k \in KeyClasses}
  \cup {[op |-> "set_key", sec |-> "global", kc |-> k, n |-> 0, kind |-> ""] : k \in KeyClasses}
  \cup {[op |-> "wrong_type", sec |-> "global", kc |-> k, n |-> 0, kind |-> ""] : k \in {"number-default", "bool-default", "duration-default"}}
  \cup {[op |-> o, sec |-> "global", kc |-> k, n |-> 0, kind |-> ""] : o \in {"number_max", "number_over"}, k \in {"number-default", "number-nodefault"}}
  \cup {[op |-> "missing_required_key", sec |-> "group", kc |-> "", n |-> 0, kind |-> ""]}
  \cup {[op |-> "program_size", sec |-> "routing", kc |-> "", n |-> n, kind |-> k] : n \in {Limit - 1, Limit, Limit + 1, 2 * Limit}, k \in ProgramKinds}

VARIABLE p
Init == p \in Perturbations
Next == UNCHANGED p
Spec == Init /\ [][Next]_<<p>>

\* required outcome: "ok", "ok-default" (the key reads back as its documented default), "ok-zero", "ok-value", "error"
Outcome ==
  CASE p.op = "base" -> "ok"
    [] p.op = "drop_section" -> IF p.sec \in Required THEN "error" ELSE "ok"
    [] p.op = "unknown_section" -> "error"
    [] p.op = "unknown_key" -> "error"
    [] p.op = "keyless_text" -> "error"
    [] p.op = "rule_outside_routing" -> "error"
    [] p.op = "absent_key" -> IF p.kc \in {"string-nodefault", "list-nodefault"} THEN "ok-zero" ELSE "ok-default"
    [] p.op = "set_key" -> "ok-value"
    [] p.op = "wrong_type" -> "error"
    [] p.op = "number_max" -> "ok-value"         \* the largest value the key's field can hold reads back as itself
    [] p.op = "number_over" -> "error"           \* one more than that is not what the text spells in any field: rejected
    [] p.op = "missing_required_key" -> "error"
    [] p.op = "program_size" -> IF p.n <= Limit THEN "ok" ELSE "error"
NeverCrash == Outcome \in {"ok", "ok-default", "ok-zero", "ok-value", "error"}
Vector == [p |-> p, outcome |-> Outcome]
Emit == PrintT(<<"VECTOR", ToJson(Vector)>>)
=============================================================================
