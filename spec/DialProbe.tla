------------------------------ MODULE DialProbe ------------------------------
(* C18 (what makes a sniffed name "known to be genuine" in dial_mode: domain)
   control/control_plane.go ChooseDialTarget / triggerRealDomainProbe / probeAndUpdateRealDomain / lookupRealDomainCache,
   control/dns_control.go rememberDnsKnowledge / HasDnsKnowledge.

   One sniffed name, a flow routed to a user-defined group, dial_mode domain.  State:
     dns     dae resolved the name itself and the answer's original TTL has not run out
     rd      what the verification cache says: "unknown" | "verified" | "negative" (negative entries expire)
   Events:
     Conn(a4, a6)   a connection carrying the name is dialled: the target is the name iff the name is known to be genuine;
                    when nothing is known the code starts a verification probe (asynchronously; it has finished before the
                    next event) whose A / AAAA lookups end as a4 / a6 \in {"addr", "empty", "error"}
     Learn / Forget dae resolves the name / that knowledge reaches its TTL
     ExpireNeg      the negative entry's lifetime runs out

   Property layer:  the name is sent to the proxy only if it was resolved through dae or a verification probe obtained an
                    address for it (GenuineOnly); a name never verified that way is dialled by IP. *)
EXTENDS Integers, Sequences, FiniteSets, TLC, Json

CONSTANTS MaxEvents,
          HalfFailVerifies   \* FALSE = the code; TRUE = a probe with one failed and one empty lookup counts as verified (must violate)

Lookups == {"addr", "empty", "error"}
VARIABLES dns, rd, everAddr, hist
vars == <<dns, rd, everAddr, hist>>

Init == dns = FALSE /\ rd = "unknown" /\ everAddr = FALSE /\ hist = <<>>

Outcome(a4, a6) == IF "addr" \in {a4, a6} THEN "verified"
                   ELSE IF a4 = "error" /\ a6 = "error" THEN "unknown"              \* nothing learnt, nothing cached
                   ELSE IF HalfFailVerifies /\ "error" \in {a4, a6} THEN "verified"
                   ELSE "negative"
Genuine == dns \/ rd = "verified"
Rec(ev, a4, a6, target) == [ev |-> ev, a4 |-> a4, a6 |-> a6, target |-> target]

Conn(a4, a6) ==
  /\ hist' = Append(hist, Rec("conn", a4, a6, IF Genuine THEN "name" ELSE "ip"))
  /\ IF ~dns /\ rd = "unknown"
     THEN /\ rd' = Outcome(a4, a6) /\ everAddr' = (everAddr \/ "addr" \in {a4, a6})
     ELSE UNCHANGED <<rd, everAddr>>
  /\ UNCHANGED dns
Learn == ~dns /\ dns' = TRUE /\ hist' = Append(hist, Rec("learn", "", "", "")) /\ UNCHANGED <<rd, everAddr>>
Forget == dns /\ dns' = FALSE /\ hist' = Append(hist, Rec("forget", "", "", "")) /\ UNCHANGED <<rd, everAddr>>
ExpireNeg == rd = "negative" /\ rd' = "unknown" /\ hist' = Append(hist, Rec("expire", "", "", "")) /\ UNCHANGED <<dns, everAddr>>

Next == /\ Len(hist) < MaxEvents
        /\ \/ \E a4 \in Lookups, a6 \in Lookups : Conn(a4, a6)
           \/ Learn \/ Forget \/ ExpireNeg
Spec == Init /\ [][Next]_vars

\* "verified" is reached only through an address
GenuineOnly == rd = "verified" => everAddr
View == <<dns, rd, everAddr>>
Emit == Len(hist) = MaxEvents => PrintT(<<"BEHAVIOUR", ToJson([hist |-> hist])>>)
=============================================================================
