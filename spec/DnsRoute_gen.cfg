SPECIFICATION Spec
CONSTANTS
  MaxReqRules = 2
  MaxRespRules = 3
  MaxConds = 2
  MaxDepth = 3
  MaxQueries = 4
  Level = "deep"
INVARIANTS BoundedReask RejectBeatsCache RejectPurges ReplyIsLastAnswer ChainFollowsRules EmitBehaviour
