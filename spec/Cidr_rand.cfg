SPECIFICATION Spec
CONSTANTS
  MaxSet = 0
  Mode = "random"
  RandSets = 60
  RandSize = 6
INVARIANTS TrieRefines LpmRefines LpmLongest MappedAgree ShareSound Emit
