SPECIFICATION Spec
CONSTANTS
  Nodes = {1, 2}
  MaxEvents = 12
  WithReload = FALSE
  Stricts = {TRUE, FALSE}
  Excl = {0, 1, 2}
  Fams = {"4"}
  Doms = {"data", "tcp"}
INVARIANTS NoneOnlyWhenNone ExcludedNeverOffered OfferWhenPossible Emit
