SPECIFICATION Spec
CONSTANTS
  EFlows = {"A", "B"}
  NFlows = {"C"}
  MaxEvents = 5
  MaxConns = 4
  MaxT6 = 1
  MaxPk = 5
  RRs = {"cpr0"}
  SecondConn = FALSE
  ScopeSensitive = FALSE
  Faults = {"wfail", "rexit", "dialfail", "tick"}
VIEW View
INVARIANTS NoDup Conservation HeldAreInitials BatchOrdered CompleteAtEnd NameRoutes OneTransport TypeOK
