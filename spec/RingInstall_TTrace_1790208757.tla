---- MODULE RingInstall_TTrace_1790208757 ----
EXTENDS Sequences, TLCExt, RingInstall, Toolbox, Naturals, TLC

_expression ==
    LET RingInstall_TEExpression == INSTANCE RingInstall_TEExpression
    IN RingInstall_TEExpression!expression
----

_trace ==
    LET RingInstall_TETrace == INSTANCE RingInstall_TETrace
    IN RingInstall_TETrace!trace
----

_inv ==
    ~(
        TLCGet("level") = Len(_TETrace)
        /\
        cursor = (1)
        /\
        slots = ((0 :> [g |-> 1, i |-> 2, full |-> TRUE] @@ 1 :> [g |-> 1, i |-> 1, full |-> TRUE] @@ 2 :> [g |-> 1, i |-> 2, full |-> TRUE] @@ 3 :> [g |-> 1, i |-> 0, full |-> TRUE] @@ 4 :> [g |-> 1, i |-> 1, full |-> TRUE]))
        /\
        hist = (<<[g |-> 1, op |-> "new"], [g |-> 1, op |-> "tries"], [g |-> 1, op |-> "rules"], [g |-> 1, op |-> "tries"]>>)
        /\
        gens = (<<[n |-> 3, user |-> FALSE, released |-> FALSE]>>)
        /\
        pending = ([g |-> 1, start |-> 3, n |-> 3])
        /\
        active = ([g |-> 1, start |-> 0, n |-> 3])
    )
----

_init ==
    /\ active = _TETrace[1].active
    /\ slots = _TETrace[1].slots
    /\ gens = _TETrace[1].gens
    /\ pending = _TETrace[1].pending
    /\ hist = _TETrace[1].hist
    /\ cursor = _TETrace[1].cursor
----

_next ==
    /\ \E i,j \in DOMAIN _TETrace:
        /\ \/ /\ j = i + 1
              /\ i = TLCGet("level")
        /\ active  = _TETrace[i].active
        /\ active' = _TETrace[j].active
        /\ slots  = _TETrace[i].slots
        /\ slots' = _TETrace[j].slots
        /\ gens  = _TETrace[i].gens
        /\ gens' = _TETrace[j].gens
        /\ pending  = _TETrace[i].pending
        /\ pending' = _TETrace[j].pending
        /\ hist  = _TETrace[i].hist
        /\ hist' = _TETrace[j].hist
        /\ cursor  = _TETrace[i].cursor
        /\ cursor' = _TETrace[j].cursor

\* Uncomment the ASSUME below to write the states of the error trace
\* to the given file in Json format. Note that you can pass any tuple
\* to `JsonSerialize`. For example, a sub-sequence of _TETrace.
    \* ASSUME
    \*     LET J == INSTANCE Json
    \*         IN J!JsonSerialize("RingInstall_TTrace_1790208757.json", _TETrace)

=============================================================================

 Note that you can extract this module `RingInstall_TEExpression`
  to a dedicated file to reuse `expression` (the module in the 
  dedicated `RingInstall_TEExpression.tla` file takes precedence 
  over the module `RingInstall_TEExpression` below).

---- MODULE RingInstall_TEExpression ----
EXTENDS Sequences, TLCExt, RingInstall, Toolbox, Naturals, TLC

expression == 
    [
        \* To hide variables of the `RingInstall` spec from the error trace,
        \* remove the variables below.  The trace will be written in the order
        \* of the fields of this record.
        active |-> active
        ,slots |-> slots
        ,gens |-> gens
        ,pending |-> pending
        ,hist |-> hist
        ,cursor |-> cursor
        
        \* Put additional constant-, state-, and action-level expressions here:
        \* ,_stateNumber |-> _TEPosition
        \* ,_activeUnchanged |-> active = active'
        
        \* Format the `active` variable as Json value.
        \* ,_activeJson |->
        \*     LET J == INSTANCE Json
        \*     IN J!ToJson(active)
        
        \* Lastly, you may build expressions over arbitrary sets of states by
        \* leveraging the _TETrace operator.  For example, this is how to
        \* count the number of times a spec variable changed up to the current
        \* state in the trace.
        \* ,_activeModCount |->
        \*     LET F[s \in DOMAIN _TETrace] ==
        \*         IF s = 1 THEN 0
        \*         ELSE IF _TETrace[s].active # _TETrace[s-1].active
        \*             THEN 1 + F[s-1] ELSE F[s-1]
        \*     IN F[_TEPosition - 1]
    ]

=============================================================================



Parsing and semantic processing can take forever if the trace below is long.
 In this case, it is advised to uncomment the module below to deserialize the
 trace from a generated binary file.

\*
\*---- MODULE RingInstall_TETrace ----
\*EXTENDS IOUtils, RingInstall, TLC
\*
\*trace == IODeserialize("RingInstall_TTrace_1790208757.bin", TRUE)
\*
\*=============================================================================
\*

---- MODULE RingInstall_TETrace ----
EXTENDS RingInstall, TLC

trace == 
    <<
    ([cursor |-> 0,slots |-> (0 :> [g |-> 0, i |-> 0, full |-> FALSE] @@ 1 :> [g |-> 0, i |-> 0, full |-> FALSE] @@ 2 :> [g |-> 0, i |-> 0, full |-> FALSE] @@ 3 :> [g |-> 0, i |-> 0, full |-> FALSE] @@ 4 :> [g |-> 0, i |-> 0, full |-> FALSE]),hist |-> <<>>,gens |-> <<>>,pending |-> [g |-> 0, start |-> 0, n |-> 0],active |-> [g |-> 0, start |-> 0, n |-> 0]]),
    ([cursor |-> 0,slots |-> (0 :> [g |-> 0, i |-> 0, full |-> FALSE] @@ 1 :> [g |-> 0, i |-> 0, full |-> FALSE] @@ 2 :> [g |-> 0, i |-> 0, full |-> FALSE] @@ 3 :> [g |-> 0, i |-> 0, full |-> FALSE] @@ 4 :> [g |-> 0, i |-> 0, full |-> FALSE]),hist |-> <<[g |-> 1, op |-> "new"]>>,gens |-> <<[n |-> 3, user |-> FALSE, released |-> FALSE]>>,pending |-> [g |-> 0, start |-> 0, n |-> 0],active |-> [g |-> 0, start |-> 0, n |-> 0]]),
    ([cursor |-> 3,slots |-> (0 :> [g |-> 1, i |-> 0, full |-> TRUE] @@ 1 :> [g |-> 1, i |-> 1, full |-> TRUE] @@ 2 :> [g |-> 1, i |-> 2, full |-> TRUE] @@ 3 :> [g |-> 0, i |-> 0, full |-> FALSE] @@ 4 :> [g |-> 0, i |-> 0, full |-> FALSE]),hist |-> <<[g |-> 1, op |-> "new"], [g |-> 1, op |-> "tries"]>>,gens |-> <<[n |-> 3, user |-> FALSE, released |-> FALSE]>>,pending |-> [g |-> 1, start |-> 0, n |-> 3],active |-> [g |-> 0, start |-> 0, n |-> 0]]),
    ([cursor |-> 3,slots |-> (0 :> [g |-> 1, i |-> 0, full |-> TRUE] @@ 1 :> [g |-> 1, i |-> 1, full |-> TRUE] @@ 2 :> [g |-> 1, i |-> 2, full |-> TRUE] @@ 3 :> [g |-> 0, i |-> 0, full |-> FALSE] @@ 4 :> [g |-> 0, i |-> 0, full |-> FALSE]),hist |-> <<[g |-> 1, op |-> "new"], [g |-> 1, op |-> "tries"], [g |-> 1, op |-> "rules"]>>,gens |-> <<[n |-> 3, user |-> FALSE, released |-> FALSE]>>,pending |-> [g |-> 0, start |-> 0, n |-> 0],active |-> [g |-> 1, start |-> 0, n |-> 3]]),
    ([cursor |-> 1,slots |-> (0 :> [g |-> 1, i |-> 2, full |-> TRUE] @@ 1 :> [g |-> 1, i |-> 1, full |-> TRUE] @@ 2 :> [g |-> 1, i |-> 2, full |-> TRUE] @@ 3 :> [g |-> 1, i |-> 0, full |-> TRUE] @@ 4 :> [g |-> 1, i |-> 1, full |-> TRUE]),hist |-> <<[g |-> 1, op |-> "new"], [g |-> 1, op |-> "tries"], [g |-> 1, op |-> "rules"], [g |-> 1, op |-> "tries"]>>,gens |-> <<[n |-> 3, user |-> FALSE, released |-> FALSE]>>,pending |-> [g |-> 1, start |-> 3, n |-> 3],active |-> [g |-> 1, start |-> 0, n |-> 3]])
    >>
----


=============================================================================

---- CONFIG RingInstall_TTrace_1790208757 ----
CONSTANTS
    Ring = 5
    MaxSets = 3
    MaxGens = 3
    MaxOps = 9
    UserReleases = FALSE
    FitTogether = FALSE

INVARIANT
    _inv

CHECK_DEADLOCK
    \* CHECK_DEADLOCK off because of PROPERTY or INVARIANT above.
    FALSE

INIT
    _init

NEXT
    _next

CONSTANT
    _TETrace <- _trace

ALIAS
    _expression
=============================================================================
\* Generated on Thu Sep 24 00:12:41 UTC 2026