SPECIFICATION Spec
CONSTANTS
  L4 = "dns"
  Side = "lan"
  MaxEvents = 4
INVARIANTS DirectPasses BlockDrops DeadGroupDrops RedirectCarriesDecision StickyWhileTracked SynRoutesAfresh DnsStateless OwnTrafficNeverCaptured WanOriginatedRepliesPass
PROPERTIES Sticky2 JanitorOnlyExpired
