----------------------------- MODULE TupleTracker -----------------------------
(* C13 (kernel flow entries) - "the kernel flow entries an endpoint registered are removed exactly when their last owner goes
   away" (control/udp_conn_state_tracker.go: Retain / BeginRelease / FinalizeRelease / Forget; control_plane_core.go:
   ReleaseUdpConnStateTuples = BeginRelease ; delete from the kernel map ; FinalizeRelease).

   One tracker, reference counts per kernel flow tuple.  The release of the last reference is a three-step affair (mark the
   entry "deleting" under the lock, delete from the kernel map WITHOUT the lock, drop the entry and wake the waiters), so calls
   of other owners interleave with it: a Retain or Forget that finds the deletion in flight waits for its end and starts over.

   State: ent[k] (present, refs, deleting) - the tracker's table; kern[k] - the kernel map has a conn-state entry for k (made
   by the datapath while a flow is alive); holds[p][k] - ghost: how many references owner p believes it holds;
   handed - ghost: keys whose last reference was forgotten (the kernel entry stays for the next generation, on purpose);
   pc[p] / arg[p] - a call of p that is waiting ("retain-wait", "forget-wait") or between BeginRelease and FinalizeRelease.

   Deliberately not explored: a Retain and a Forget waiting for the same deletion at once (their wake-up order is the Go
   scheduler's); owners that give up references they never took, other than the harmless Forget of an entry that is absent or
   being deleted (which is what a hand-over racing with a close does). *)
EXTENDS Integers, Sequences, FiniteSets, TLC, Json

CONSTANTS Keys, Procs, MaxEvents, MaxRefs,
          KernAuto     \* TRUE: the kernel entry appears with the first reference (fewer interleavings, for the replayed histories)

VARIABLES ent, kern, holds, pc, arg, handed, hist
vars == <<ent, kern, holds, pc, arg, handed, hist>>

Absent == [present |-> FALSE, refs |-> 0, deleting |-> FALSE]
Init == /\ ent = [k \in Keys |-> Absent] /\ kern = [k \in Keys |-> FALSE]
        /\ holds = [p \in Procs |-> [k \in Keys |-> 0]]
        /\ pc = [p \in Procs |-> "idle"] /\ arg = [p \in Procs |-> {}]
        /\ handed = {} /\ hist = <<>>

RECURSIVE SumHolds(_, _, _)
SumHolds(h, S, k) == IF S = {} THEN 0 ELSE LET p == CHOOSE x \in S : TRUE IN h[p][k] + SumHolds(h, S \ {p}, k)
Held(k) == SumHolds(holds, Procs, k)
Waiting(kind, k) == {p \in Procs : pc[p] = kind /\ k \in arg[p]}

Obs == [ent |-> ent', pc |-> pc']
Log(ev, p, ks, res) == hist' = Append(hist, [ev |-> ev, p |-> p, ks |-> ks, res |-> res, obs |-> Obs])
CanCall == Len(hist) < MaxEvents

Retain(p, k) ==
  /\ CanCall /\ pc[p] = "idle" /\ holds[p][k] < MaxRefs
  /\ IF ent[k].present /\ ent[k].deleting
     THEN /\ Waiting("forget-wait", k) = {}
          /\ pc' = [pc EXCEPT ![p] = "retain-wait"] /\ arg' = [arg EXCEPT ![p] = {k}]
          /\ UNCHANGED <<ent, kern, holds, handed>> /\ Log("retain", p, {k}, "waits")
     ELSE /\ ent' = [ent EXCEPT ![k] = [present |-> TRUE, refs |-> ent[k].refs + 1, deleting |-> FALSE]]
          /\ holds' = [holds EXCEPT ![p][k] = @ + 1]
          /\ handed' = handed \ {k}
          /\ kern' = IF KernAuto THEN [kern EXCEPT ![k] = TRUE] ELSE kern
          /\ UNCHANGED <<pc, arg>> /\ Log("retain", p, {k}, "done")

\* giving up a reference without touching the kernel map (hand-over to the next generation's tracker)
Forget(p, k) ==
  /\ CanCall /\ pc[p] = "idle"
  /\ \/ /\ holds[p][k] > 0
        /\ ent' = [ent EXCEPT ![k] = IF ent[k].refs > 1 THEN [@ EXCEPT !.refs = @ - 1] ELSE Absent]
        /\ holds' = [holds EXCEPT ![p][k] = @ - 1]
        /\ handed' = IF ent[k].refs > 1 THEN handed ELSE handed \cup {k}
        /\ UNCHANGED <<kern, pc, arg>> /\ Log("forget", p, {k}, "done")
     \/ /\ holds[p][k] = 0 /\ ~ent[k].present            \* nothing there: nothing happens
        /\ UNCHANGED <<ent, kern, holds, pc, arg, handed>> /\ Log("forget", p, {k}, "done")
     \/ /\ holds[p][k] = 0 /\ ent[k].present /\ ent[k].deleting /\ Waiting("retain-wait", k) = {}
        /\ pc' = [pc EXCEPT ![p] = "forget-wait"] /\ arg' = [arg EXCEPT ![p] = {k}]
        /\ UNCHANGED <<ent, kern, holds, handed>> /\ Log("forget", p, {k}, "waits")

\* first step of a release of the keys K that p holds: the last reference marks the entry and is reported for deletion
Begin(p, K) ==
  /\ CanCall /\ pc[p] = "idle" /\ K # {} /\ \A k \in K : holds[p][k] > 0
  /\ LET last == {k \in K : ent[k].refs = 1} IN
     /\ ent' = [k \in Keys |-> IF k \notin K THEN ent[k]
                               ELSE IF k \in last THEN [present |-> TRUE, refs |-> 0, deleting |-> TRUE]
                               ELSE [ent[k] EXCEPT !.refs = @ - 1]]
     /\ holds' = [holds EXCEPT ![p] = [k \in Keys |-> IF k \in K THEN @[k] - 1 ELSE @[k]]]
     /\ pc' = [pc EXCEPT ![p] = "releasing"] /\ arg' = [arg EXCEPT ![p] = last]
     /\ UNCHANGED <<kern, handed>> /\ Log("begin", p, K, last)
\* second step, without the lock: the reported keys leave the kernel map
KDel(p) ==
  /\ pc[p] = "releasing" /\ \E k \in arg[p] : kern[k]
  /\ kern' = [k \in Keys |-> kern[k] /\ k \notin arg[p]]
  /\ UNCHANGED <<ent, holds, pc, arg, handed, hist>>
\* third step: the entries go, whoever waited for them starts over (Retain: a fresh entry; Forget: nothing left to forget)
Finalize(p) ==
  /\ pc[p] = "releasing" /\ \A k \in arg[p] : ~kern[k]
  /\ LET woken == {q \in Procs : pc[q] \in {"retain-wait", "forget-wait"} /\ arg[q] \cap arg[p] # {}} IN
     /\ ent' = [k \in Keys |-> IF k \notin arg[p] THEN ent[k]
                               ELSE LET n == Cardinality(Waiting("retain-wait", k)) IN
                                    IF n = 0 THEN Absent ELSE [present |-> TRUE, refs |-> n, deleting |-> FALSE]]
     /\ holds' = [q \in Procs |-> [k \in Keys |-> IF pc[q] = "retain-wait" /\ k \in arg[q] /\ k \in arg[p] THEN holds[q][k] + 1 ELSE holds[q][k]]]
     /\ pc' = [q \in Procs |-> IF q = p \/ q \in woken THEN "idle" ELSE pc[q]]
     /\ arg' = [q \in Procs |-> IF q = p \/ q \in woken THEN {} ELSE arg[q]]
     /\ handed' = handed \ {k \in arg[p] : Waiting("retain-wait", k) # {}}
     /\ UNCHANGED kern /\ Log("finalize", p, arg[p], woken)
\* the datapath creates the conn-state entry of a live flow
KernelCreate(k) == /\ ~KernAuto /\ Held(k) > 0 /\ ~kern[k] /\ kern' = [kern EXCEPT ![k] = TRUE] /\ UNCHANGED <<ent, holds, pc, arg, handed, hist>>

Next == \/ \E p \in Procs, k \in Keys : Retain(p, k) \/ Forget(p, k)
        \/ \E p \in Procs, K \in SUBSET Keys : Begin(p, K)
        \/ \E p \in Procs : KDel(p) \/ Finalize(p)
        \/ \E k \in Keys : KernelCreate(k)
Spec == Init /\ [][Next]_vars /\ \A p \in Procs : WF_vars(KDel(p)) /\ WF_vars(Finalize(p))

(* ---------------------------------------------------------------- property layer *)
\* the table counts exactly the references the owners hold; nobody holds an entry whose deletion is in flight
RefsMatch == \A k \in Keys : IF ent[k].present /\ ~ent[k].deleting THEN ent[k].refs = Held(k) /\ Held(k) > 0 ELSE Held(k) = 0
\* a kernel entry is deleted only when its last owner has gone
NoEarlyDelete == [][\A k \in Keys : (kern[k] /\ ~kern'[k]) => Held(k) = 0]_vars
\* ... and it IS deleted then: with no release in flight, an entry nobody holds exists neither in the table nor in the kernel
NoLeak == (\A p \in Procs : pc[p] # "releasing") => \A k \in Keys : Held(k) = 0 => (~ent[k].present /\ (kern[k] => k \in handed))
\* nobody waits for a deletion that is not in flight
NoStuckWaiter == \A p \in Procs : pc[p] \in {"retain-wait", "forget-wait"} => \E q \in Procs : pc[q] = "releasing" /\ arg[p] \subseteq arg[q]
\* every waiting call returns
Returns == \A p \in Procs : (pc[p] # "idle") ~> (pc[p] = "idle")

View == <<ent, kern, holds, pc, arg, handed, Len(hist)>>
Quiet == \A p \in Procs : pc[p] = "idle"
Emit == (Len(hist) >= MaxEvents /\ Quiet) => PrintT(<<"BEHAVIOUR", ToJson([hist |-> hist])>>)
=============================================================================
