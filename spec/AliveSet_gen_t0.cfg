SPECIFICATION Spec
CONSTANTS
  Nodes = {1, 2, 3}
  Lats = {1, 2, 4, 7}
  Offset <- MCOffset
  Tol = 0
  MaxHist = 10
INVARIANTS IndexConsistent ChosenAlive NobodyBeatsByTol Emit
PROPERTIES TolRule
