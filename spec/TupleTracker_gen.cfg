SPECIFICATION Spec
CONSTANTS
  Keys = {"k1", "k2"}
  Procs = {"p1", "p2", "p3"}
  MaxEvents = 4
  MaxRefs = 2
  KernAuto = TRUE
INVARIANTS RefsMatch NoLeak NoStuckWaiter Emit
