/* shim: definitions come from vmlinux.h (uapi headers) */
#include <linux/pkt_cls.h>
