/* shim: definitions come from vmlinux.h (uapi headers) */
#include <asm-generic/errno-base.h>
