/* shim: definitions come from vmlinux.h (uapi headers) */
