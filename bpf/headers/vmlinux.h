/* Shim for the absent control/kern/headers submodule: only what tproxy.c needs.
 * Wire structs are defined by hand (bpf2go rejects the anonymous unions of
 * current uapi iphdr/ipv6hdr). */
#ifndef __VERIF_VMLINUX_H__
#define __VERIF_VMLINUX_H__
#include <linux/types.h>
#include <linux/bpf.h>
#include <linux/if_ether.h>
#include <linux/tcp.h>
#include <linux/udp.h>
#include <linux/icmpv6.h>
#include <linux/in.h>

typedef __u8 u8;
typedef __u16 u16;
typedef __u32 u32;
typedef __u64 u64;
typedef __s8 s8;
typedef __s16 s16;
typedef __s32 s32;
typedef __s64 s64;
#ifndef __cplusplus
#ifndef bool
typedef _Bool bool;
#define true 1
#define false 0
#endif
#endif

struct in6_addr {
	union {
		__u8 u6_addr8[16];
		__be16 u6_addr16[8];
		__be32 u6_addr32[4];
	} in6_u;
};

struct iphdr {
	__u8 ihl : 4;
	__u8 version : 4;
	__u8 tos;
	__be16 tot_len;
	__be16 id;
	__be16 frag_off;
	__u8 ttl;
	__u8 protocol;
	__sum16 check;
	__be32 saddr;
	__be32 daddr;
};

struct ipv6hdr {
	__u8 priority : 4;
	__u8 version : 4;
	__u8 flow_lbl[3];
	__be16 payload_len;
	__u8 nexthdr;
	__u8 hop_limit;
	struct in6_addr saddr;
	struct in6_addr daddr;
};

struct frag_hdr {
	__u8 nexthdr;
	__u8 reserved;
	__be16 frag_off;
	__be32 identification;
};

struct mm_struct {
	unsigned long arg_start;
	unsigned long arg_end;
} __attribute__((preserve_access_index));

struct task_struct {
	struct mm_struct *mm;
	int pid;
	int tgid;
	char comm[16];
} __attribute__((preserve_access_index));

#ifndef offsetof
#define offsetof(TYPE, MEMBER) __builtin_offsetof(TYPE, MEMBER)
#endif
#ifndef barrier
#define barrier() asm volatile("" ::: "memory")
#endif

#endif
