/* shim: IPv6 extension header protocol numbers (linux/in6.h cannot be included next to the hand-written in6_addr) */
#ifndef IPPROTO_HOPOPTS
#define IPPROTO_HOPOPTS 0
#define IPPROTO_ROUTING 43
#define IPPROTO_FRAGMENT 44
#define IPPROTO_ICMPV6 58
#define IPPROTO_NONE 59
#define IPPROTO_DSTOPTS 60
#endif
